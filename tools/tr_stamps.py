"""Fail-closed translator: every `_stamp` method of lcapy/mnacpts.py -> Coq.

Reads the source text with `ast` only.  For each class that defines `_stamp`
emits   Definition stamp_<Class> {K} (c : sctx K) : sres K
(an update list over the G, B, C, D, Is, Es blocks, or SErr when the method
raises), plus tables: class -> stamp-defining class (MRO inside mnacpts.py,
including the classes created by defcpt()), and the class attributes
need_branch_current / need_extra_branch_current / is_current_controlled /
flip_branch_current / is_source-ish flags used by MNA.__init__ and _solve.

Recognised subset (anything else raises Untranslatable with file:line):
  n.. = mna._cpt_node_indexes(self)            (tuple of 2..4 names; ORDER kept)
  m = mna._cpt_branch_index(self) | mna._branch_index(self.name + 'X')
    | mna._branch_index(<alias of self.args[0] | self.Lname1 | self.Lname2>)
  n3, n4 = [mna._node_index(name) for name in ccpt.node_names[0:2]]
  aliases: cname = self.args[0]; ccpt = self.cct.elements[cname]; cpt = self.cpt;
           L1 = self.Lname1; L2 = self.Lname2; K = self.cpt.K
  X = <scalar expr>   (tuple forms too) over parameters
      self.Y/Z/Isc/Voc.sympy, ConstantDomainExpression|expr(self.args[k]).sympy,
      self.cpt.alpha.sympy, cpt.A11..A22/Y11..Y22.sympy, eps, K.sympy,
      mna.cct.elements[L1|L2].Z.sympy, ints, + - * / ** unary-;
      an expression containing sym.sqrt(..) becomes the opaque parameter pZM<k>
  if <cond>: .. [else: ..]   cond over  n >= 0, n != -1, mna.kind ==/in/not in,
      self.type ==, self.cpt.has_ic, [not] ccpt.is_voltage_source,
      len(self.args) > 1, cpt.<src> != 0 [or ..], and/or
  mna._G|_B|_C|_D[i, j] (+=|-=|=) e ;  mna._Is|_Es[i] (+=|-=|=) e
  return | raise .. | pass | warn(..) | from .sym import .. | docstring
  super(<Class>, self)._stamp(mna)
"""
import ast
import hashlib
import sys

KINDMAP = {'dc': 'KDc', 'ac': 'KAc', 's': 'KS', 'ivp': 'KIvp', 'laplace': 'KLaplace',
           't': 'KT', 'time': 'KTime', 'transient': 'KTransient'}
TYPEMAP = {'C': 'TyC', 'm': 'TyM'}
MATS = {'_G': 'MG', '_B': 'MB', '_C': 'MC', '_D': 'MD'}
VECS = {'_Is': 'MIs', '_Es': 'MEs'}
TP_SRC_ATTRS = ('V1a', 'I1a', 'V2b', 'I2b', 'I1g', 'V2g', 'V1h', 'I2h', 'I1y', 'I2y', 'V1z', 'V2z')
ATTRS = ('need_branch_current', 'need_extra_branch_current', 'need_control_current',
         'is_current_controlled', 'flip_branch_current', 'is_source', 'is_voltage_source',
         'is_current_source', 'is_independent_source', 'is_dependent_source', 'ignore', 'is_wire',
         'is_reactive', 'is_mutual_coupling', 'add_series', 'add_parallel')
FNAME = 'lcapy/mnacpts.py'


class Untranslatable(Exception):
    pass


def fail(node, why):
    raise Untranslatable('%s:%s: %s: %s' % (FNAME, getattr(node, 'lineno', '?'), why,
                                            ast.unparse(node)[:160] if isinstance(node, ast.AST) else node))


class V:
    """value in the environment"""
    def __init__(self, ty, coq=None, node=None):
        self.ty = ty        # 'Z' | 'S' | 'alias'
        self.coq = coq
        self.node = node    # for aliases: canonical string


def P(name):
    return '(par c %s)' % name


class StampTranslator:
    def __init__(self, path):
        self.path = path
        self.src = open(path).read()
        self.sha = hashlib.sha256(self.src.encode()).hexdigest()
        self.tree = ast.parse(self.src)
        self.classes = {}
        self.bases = {}
        for n in self.tree.body:
            if isinstance(n, ast.ClassDef):
                self.classes[n.name] = n
                bs = [ast.unparse(b) for b in n.bases]
                self.bases[n.name] = bs[0] if bs else None
                if len(bs) > 1:
                    fail(n, 'multiple inheritance in mnacpts')
        # dynamic classes: defcpt('name', Base | 'base', 'doc')
        self.dynamic = {}
        for n in self.tree.body:
            if isinstance(n, ast.Expr) and isinstance(n.value, ast.Call) and getattr(n.value.func, 'id', None) == 'defcpt':
                a = n.value.args
                if len(a) != 3 or not isinstance(a[0], ast.Constant):
                    fail(n, 'unsupported defcpt call')
                base = a[1].value if isinstance(a[1], ast.Constant) else ast.unparse(a[1])
                self.dynamic[a[0].value] = base
                self.bases[a[0].value] = base
        self.stamps = {}     # class -> coq text
        self.lines = {}
        self.unsupported = {}
        self.tp_src = {}     # class -> attrs tested by the "sources not supported" guard

    # ---- class tables ------------------------------------------------------
    def mro(self, name):
        out = []
        while name is not None and name in self.bases:
            out.append(name)
            name = self.bases[name]
        return out

    def stamp_owner(self, name):
        for c in self.mro(name):
            if c in self.classes:
                for n in self.classes[c].body:
                    if isinstance(n, ast.FunctionDef) and n.name == '_stamp':
                        return c
        return None

    def class_attr(self, name, attr):
        for c in self.mro(name):
            if c in self.classes:
                for n in self.classes[c].body:
                    if isinstance(n, ast.Assign) and len(n.targets) == 1 and isinstance(n.targets[0], ast.Name) \
                            and n.targets[0].id == attr:
                        if isinstance(n.value, ast.Constant):
                            return n.value.value
                        return ast.unparse(n.value)
                    if isinstance(n, ast.FunctionDef) and n.name == attr:
                        return 'property:' + ast.unparse(n.body[-1])[:120]
        return None

    def all_class_names(self):
        return [c for c in list(self.classes) + list(self.dynamic)]

    # ---- translation of one _stamp ----------------------------------------
    def translate_all(self):
        for cname, cls in self.classes.items():
            for n in cls.body:
                if isinstance(n, ast.FunctionDef) and n.name == '_stamp':
                    args = [a.arg for a in n.args.args]
                    if args != ['self', 'mna']:
                        self.unsupported[cname] = 'signature %s (line %d)' % (args, n.lineno)
                        continue
                    self.cur = cname
                    self.opaque = 0
                    body = self.block(n.body, {}, '[]', lambda env, acc: 'SOk %s' % acc)
                    self.stamps[cname] = body
                    self.lines[cname] = n.lineno

    def has_exit(self, stmts):
        for s in stmts:
            for n in ast.walk(s):
                if isinstance(n, (ast.Return, ast.Raise)):
                    return True
                if isinstance(n, ast.Call) and isinstance(n.func, ast.Attribute) and n.func.attr == '_stamp':
                    return True
        return False

    def assigned_names(self, stmts):
        names = set()
        for s in stmts:
            if isinstance(s, ast.Assign):
                for t in s.targets:
                    if isinstance(t, ast.Name):
                        names.add(t.id)
                    elif isinstance(t, ast.Tuple):
                        for e in t.elts:
                            if isinstance(e, ast.Name):
                                names.add(e.id)
        return names

    def block(self, stmts, env, acc, k):
        if not stmts:
            return k(env, acc)
        s, rest = stmts[0], stmts[1:]
        cont = lambda env2, acc2: self.block(rest, env2, acc2, k)
        # no-ops
        if isinstance(s, ast.Pass) or isinstance(s, ast.ImportFrom):
            return cont(env, acc)
        if isinstance(s, ast.Expr):
            if isinstance(s.value, ast.Constant) and isinstance(s.value.value, str):
                return cont(env, acc)
            if isinstance(s.value, ast.Call):
                f = s.value.func
                if isinstance(f, ast.Name) and f.id == 'warn':
                    return cont(env, acc)
                # super(X, self)._stamp(mna)
                if isinstance(f, ast.Attribute) and f.attr == '_stamp' and isinstance(f.value, ast.Call) \
                        and getattr(f.value.func, 'id', None) == 'super':
                    parent = self.stamp_owner(self.bases[self.cur])
                    if parent is None:
                        fail(s, 'super()._stamp without parent stamp')
                    return '(match stamp_%s c with SOk l_ => %s | SErr => SErr end)' % (
                        parent, cont(env, '(%s ++ l_)' % acc))
            fail(s, 'unsupported expression statement')
        if isinstance(s, ast.Return):
            if s.value is not None:
                fail(s, 'return with value')
            return 'SOk %s' % acc
        if isinstance(s, ast.Raise):
            return 'SErr'
        if isinstance(s, ast.AugAssign) or (isinstance(s, ast.Assign) and len(s.targets) == 1
                                            and isinstance(s.targets[0], ast.Subscript)):
            u = self.update(s, env)
            return cont(env, '(%s ++ [%s])' % (acc, u))
        if isinstance(s, ast.Assign):
            env2 = dict(env)
            self.assign(s, env2)
            return cont(env2, acc)
        if isinstance(s, ast.If):
            cond = self.cond(s.test, env)
            if cond is None:      # guard used only for warnings etc. cannot be skipped blindly
                fail(s, 'untranslatable condition')
            if self.has_exit(s.body) or self.has_exit(s.orelse):
                a = self.block(s.body + rest, dict(env), acc, k)
                b = self.block(s.orelse + rest, dict(env), acc, k)
                return '(if %s then %s else %s)' % (cond, a, b)
            an_b, an_e = self.assigned_names(s.body), self.assigned_names(s.orelse)
            only_assign = all(isinstance(x, ast.Assign) and not isinstance(x.targets[0], ast.Subscript) for x in s.body + s.orelse)
            if (an_b or an_e) and only_assign:
                eb, ee = dict(env), dict(env)
                for x in s.body:
                    self.assign(x, eb)
                for x in s.orelse:
                    self.assign(x, ee)
                env2 = dict(env)
                for nm in an_b | an_e:
                    if nm not in eb or nm not in ee:
                        fail(s, 'name %s assigned in one branch only' % nm)
                    if eb[nm].ty != 'S' or ee[nm].ty != 'S':
                        fail(s, 'conditional assignment of non-scalar')
                    env2[nm] = V('S', '(if %s then %s else %s)' % (cond, eb[nm].coq, ee[nm].coq))
                return cont(env2, acc)
            # warn-only bodies
            def warn_only(b):
                return all((isinstance(x, ast.Expr) and isinstance(x.value, ast.Call) and getattr(x.value.func, 'id', None) == 'warn')
                           or (isinstance(x, ast.If) and warn_only(x.body) and warn_only(x.orelse)) for x in b)
            if warn_only(s.body) and warn_only(s.orelse):
                return cont(env, acc)
            if an_b or an_e:
                # assignments local to a branch that also stamps: allowed if not used after
                pass
            a = self.block(s.body, dict(env), '[]', lambda e_, acc_: acc_)
            b = self.block(s.orelse, dict(env), '[]', lambda e_, acc_: acc_)
            used_later = set()
            for r in rest:
                for n in ast.walk(r):
                    if isinstance(n, ast.Name):
                        used_later.add(n.id)
            if (an_b | an_e) & used_later:
                fail(s, 'branch-local assignment used after the if')
            return cont(env, '(%s ++ (if %s then %s else %s))' % (acc, cond, a, b))
        fail(s, 'unsupported statement')

    # ---- assignments ---------------------------------------------------------
    def canon(self, node, env):
        """canonical accessor string of an expression, expanding aliases"""
        if isinstance(node, ast.Name):
            if node.id in env and env[node.id].ty == 'alias':
                return env[node.id].node
            return node.id
        if isinstance(node, ast.Attribute):
            return self.canon(node.value, env) + '.' + node.attr
        if isinstance(node, ast.Subscript):
            return self.canon(node.value, env) + '[' + self.canon(node.slice, env) + ']'
        if isinstance(node, ast.Constant):
            return repr(node.value)
        if isinstance(node, ast.BinOp) and isinstance(node.op, ast.Add):
            return self.canon(node.left, env) + '+' + self.canon(node.right, env)
        if isinstance(node, ast.Call) and not node.keywords:
            return self.canon(node.func, env) + '(' + ','.join(self.canon(a, env) for a in node.args) + ')'
        if isinstance(node, ast.Slice):
            return '%s:%s' % (ast.unparse(node.lower) if node.lower else '', ast.unparse(node.upper) if node.upper else '')
        return ast.unparse(node)

    def assign(self, s, env):
        if len(s.targets) != 1:
            fail(s, 'multiple targets')
        t, val = s.targets[0], s.value
        if isinstance(t, ast.Tuple):
            names = [e.id if isinstance(e, ast.Name) else fail(s, 'tuple target') for e in t.elts]
            cv = self.canon(val, env) if not isinstance(val, (ast.Tuple, ast.ListComp)) else None
            if cv == 'mna._cpt_node_indexes(self)':
                if not 2 <= len(names) <= 4:
                    fail(s, 'node tuple of length %d' % len(names))
                for i, nm in enumerate(names):
                    env[nm] = V('Z', '(p%d c)' % i)
                return
            if isinstance(val, ast.ListComp):
                txt = ast.unparse(val)
                g = val.generators[0]
                if (len(val.generators) == 1 and not g.ifs and ast.unparse(val.elt) == 'mna._node_index(%s)' % ast.unparse(g.target)
                        and self.canon(g.iter, env) == 'self.cct.elements[self.args[0]].node_names[0:2]' and len(names) == 2):
                    env[names[0]] = V('Z', '(c0 c)')
                    env[names[1]] = V('Z', '(c1 c)')
                    return
                fail(s, 'unsupported list comprehension ' + self.canon(g.iter, env))
            if isinstance(val, ast.Tuple) and len(val.elts) == len(names):
                for nm, e in zip(names, val.elts):
                    env[nm] = V('S', self.scalar(e, env))
                return
            fail(s, 'unsupported tuple assignment')
        if not isinstance(t, ast.Name):
            fail(s, 'unsupported target')
        cv = self.canon(val, env)
        if cv == 'mna._cpt_branch_index(self)':
            env[t.id] = V('Z', '(bown c)')
            return
        if cv == "mna._branch_index(self.name+'X')":
            env[t.id] = V('Z', '(bextra c)')
            return
        if cv == 'mna._branch_index(self.args[0])':
            env[t.id] = V('Z', '(bctrl c)')
            return
        if cv == 'mna._branch_index(self.Lname1)':
            env[t.id] = V('Z', '(bL1 c)')
            return
        if cv == 'mna._branch_index(self.Lname2)':
            env[t.id] = V('Z', '(bL2 c)')
            return
        if cv in ('self.args[0]', 'self.cct.elements[self.args[0]]', 'self.cpt', 'self.Lname1', 'self.Lname2', 'self.cpt.K'):
            env[t.id] = V('alias', node=cv)
            return
        env[t.id] = V('S', self.scalar(val, env))

    # ---- scalar expressions ----------------------------------------------------
    PARAMS = {
        'self.Y.sympy': 'pY', 'self.Z.sympy': 'pZ', 'self.Isc.sympy': 'pIsc', 'self.Voc.sympy': 'pVoc',
        'self.cpt.alpha.sympy': 'pAlpha', 'eps': 'pEps', 'self.cpt.K.sympy': 'pK',
        'mna.cct.elements[self.Lname1].Z.sympy': 'pZL1', 'mna.cct.elements[self.Lname2].Z.sympy': 'pZL2',
        'mna.cct.elements[self.Lname1].cpt.i0.sympy': 'pI01', 'mna.cct.elements[self.Lname2].cpt.i0.sympy': 'pI02',
    }
    for _a in ('A11', 'A12', 'A21', 'A22', 'Y11', 'Y12', 'Y21', 'Y22'):
        PARAMS['self.cpt.%s.sympy' % _a] = 'p' + _a

    def scalar(self, e, env):
        for n in ast.walk(e):
            if isinstance(n, ast.Call) and self.canon(n.func, env) in ('sym.sqrt', 'sqrt'):
                k = self.opaque
                self.opaque += 1
                if k > 2:
                    fail(e, 'too many opaque expressions')
                return P('pZM%d' % k)
        return self.scalar1(e, env)

    def scalar1(self, e, env):
        if isinstance(e, ast.Constant):
            if isinstance(e.value, int) and not isinstance(e.value, bool) and 0 <= e.value <= 8:
                return {0: 'f0', 1: 'f1'}.get(e.value, '(' + ' + '.join(['f1'] * e.value) + ')') if e.value < 2 else \
                    '(%s)' % self.sum1(e.value)
            fail(e, 'unsupported constant')
        if isinstance(e, ast.Name):
            if e.id in env and env[e.id].ty == 'S':
                return env[e.id].coq
            if e.id == 'eps':
                return P('pEps')
            fail(e, 'unknown scalar name')
        if isinstance(e, ast.UnaryOp) and isinstance(e.op, ast.USub):
            return '(fopp %s)' % self.scalar1(e.operand, env)
        if isinstance(e, ast.BinOp):
            if isinstance(e.op, ast.Pow):
                if isinstance(e.right, ast.Constant) and isinstance(e.right.value, int) and 1 <= e.right.value <= 4:
                    b = self.scalar1(e.left, env)
                    out = b
                    for _ in range(e.right.value - 1):
                        out = '(fmul %s %s)' % (out, b)
                    return out
                fail(e, 'unsupported power')
            op = {ast.Add: 'fadd', ast.Sub: 'fsub', ast.Mult: 'fmul', ast.Div: 'fdiv'}.get(type(e.op))
            if op is None:
                fail(e, 'unsupported operator')
            return '(%s %s %s)' % (op, self.scalar1(e.left, env), self.scalar1(e.right, env))
        cv = self.canon(e, env)
        if cv in self.PARAMS:
            return P(self.PARAMS[cv])
        for k in (0, 1):
            if cv in ('ConstantDomainExpression(self.args[%d]).sympy' % k, 'expr(self.args[%d]).sympy' % k):
                return P('pArg%d' % k)
        fail(e, 'unsupported scalar expression (%s)' % cv)

    def sum1(self, n):
        out = 'f1'
        for _ in range(n - 1):
            out = 'fadd %s f1' % ('(' + out + ')' if ' ' in out else out)
        return out

    # ---- conditions ---------------------------------------------------------------
    def cond(self, t, env):
        if isinstance(t, ast.BoolOp):
            parts = [self.cond(v, env) for v in t.values]
            if any(p is None for p in parts):
                return None
            op = ' && ' if isinstance(t.op, ast.And) else ' || '
            if isinstance(t.op, ast.Or) and all(p.startswith('(tpsrc:') for p in parts):
                return '(tp_has_src c)'
            if any(p.startswith('(tpsrc:') for p in parts):
                fail(t, 'mixed source test')
            return '(' + op.join(parts) + ')'
        if isinstance(t, ast.UnaryOp) and isinstance(t.op, ast.Not):
            p = self.cond(t.operand, env)
            return None if p is None else '(negb %s)' % p
        if isinstance(t, ast.Compare) and len(t.ops) == 1:
            l, op, r = t.left, t.ops[0], t.comparators[0]
            lc = self.canon(l, env)
            if lc == 'mna.kind':
                def kind_of(x):
                    if isinstance(x, ast.Constant) and x.value in KINDMAP:
                        return KINDMAP[x.value]
                    fail(t, 'unknown analysis kind literal')
                if isinstance(op, (ast.Eq, ast.NotEq)):
                    c = '(akind_eqb (kind c) %s)' % kind_of(r)
                    return c if isinstance(op, ast.Eq) else '(negb %s)' % c
                if isinstance(op, (ast.In, ast.NotIn)) and isinstance(r, (ast.Tuple, ast.List)):
                    c = '(' + ' || '.join('akind_eqb (kind c) %s' % kind_of(x) for x in r.elts) + ')'
                    return c if isinstance(op, ast.In) else '(negb %s)' % c
                fail(t, 'unsupported kind test')
            if lc == 'self.type' and isinstance(op, ast.Eq) and isinstance(r, ast.Constant):
                if r.value not in TYPEMAP:
                    fail(t, 'unknown type literal')
                return '(ctype_eqb (typ c) %s)' % TYPEMAP[r.value]
            if lc == 'len(self.args)' and isinstance(op, ast.Gt) and isinstance(r, ast.Constant) and r.value == 1:
                return '(has_arg1 c)'
            if isinstance(l, ast.Name) and l.id in env and env[l.id].ty == 'Z':
                n = env[l.id].coq
                if isinstance(op, ast.GtE) and isinstance(r, ast.Constant) and r.value == 0:
                    return '(0 <=? %s)' % n
                if isinstance(op, ast.NotEq) and ast.unparse(r) == '-1':
                    return '(negb (%s =? -1))' % n
                fail(t, 'unsupported index comparison')
            if lc.startswith('self.cpt.') and lc[len('self.cpt.'):] in TP_SRC_ATTRS and isinstance(op, ast.NotEq) \
                    and isinstance(r, ast.Constant) and r.value == 0:
                self.tp_src.setdefault(self.cur, []).append(lc[len('self.cpt.'):])
                return '(tpsrc:%s)' % lc
            fail(t, 'unsupported comparison')
        cv = self.canon(t, env)
        if cv == 'self.cpt.has_ic':
            return '(has_ic c)'
        if cv == 'self.cct.elements[self.args[0]].is_voltage_source':
            return '(ctrl_is_vsrc c)'
        fail(t, 'unsupported condition (%s)' % cv)

    # ---- updates ---------------------------------------------------------------------
    def update(self, s, env):
        t = s.target if isinstance(s, ast.AugAssign) else s.targets[0]
        if not (isinstance(t, ast.Subscript) and isinstance(t.value, ast.Attribute)
                and isinstance(t.value.value, ast.Name) and t.value.value.id == 'mna'):
            fail(s, 'unsupported update target')
        mat = t.value.attr
        val = self.scalar(s.value, env)
        if isinstance(s, ast.AugAssign):
            if isinstance(s.op, ast.Sub):
                val = '(fopp %s)' % val
            elif not isinstance(s.op, ast.Add):
                fail(s, 'unsupported augmented operator')
            op = 'UAdd'
        else:
            op = 'USet'

        def idx(e):
            if isinstance(e, ast.Name) and e.id in env and env[e.id].ty == 'Z':
                return env[e.id].coq
            fail(s, 'unsupported index')
        if mat in MATS:
            if not (isinstance(t.slice, ast.Tuple) and len(t.slice.elts) == 2):
                fail(s, 'matrix update needs two indices')
            return 'Upd %s %s %s %s %s' % (MATS[mat], op, idx(t.slice.elts[0]), idx(t.slice.elts[1]), val)
        if mat in VECS:
            return 'Upd %s %s %s 0 %s' % (VECS[mat], op, idx(t.slice), val)
        fail(s, 'unknown MNA block ' + mat)


def emit(tr):
    out = ['(* GENERATED from %s (sha256 %s) by tools/tr_stamps.py. Do not edit. *)' % (tr.path, tr.sha),
           'Require Import LT.FieldSec LT.Circuit.', 'Local Open Scope Z_scope.', 'Local Open Scope bool_scope.', '']
    done = set()

    def emit_cls(cn):
        if cn in done or cn not in tr.stamps:
            return
        parent = tr.stamp_owner(tr.bases[cn]) if tr.bases.get(cn) else None
        if parent and ('stamp_%s c' % parent) in tr.stamps[cn]:
            emit_cls(parent)
        out.append('(* %s._stamp, line %d *)' % (cn, tr.lines[cn]))
        out.append('Definition stamp_%s {K : fld} (c : sctx K) : sres K :=\n  %s.\n' % (cn, tr.stamps[cn]))
        done.add(cn)
    for cn in tr.stamps:
        emit_cls(cn)
    return '\n'.join(out)


def tables(tr):
    """class -> (stamp owner, attributes) for every class incl. defcpt ones"""
    tab = {}
    for cn in tr.all_class_names():
        tab[cn] = {'stamp': tr.stamp_owner(cn), 'mro': tr.mro(cn)}
        for a in ATTRS:
            tab[cn][a] = tr.class_attr(cn, a)
    return tab


if __name__ == '__main__':
    tr = StampTranslator(sys.argv[1] + '/lcapy/mnacpts.py')
    tr.translate_all()
    print(emit(tr))
    print('(* unsupported:', tr.unsupported, '*)')
    print('(* tp_src:', tr.tp_src, '*)')
