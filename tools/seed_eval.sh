#!/bin/bash
# usage: tools/seed_eval.sh Cxx   -- confirm a seeded change in /tmp/seed_Cxx and run the check against it
id=$1
d=${2:-/tmp/seed_$id}
cd $d || exit 2
PYTHONPATH=$d timeout 900 /venv/bin/python -W ignore demo_seed.py > /tmp/sd_$id.with 2>&1; echo "demo with change: exit=$?"
git stash -q
PYTHONPATH=$d timeout 900 /venv/bin/python -W ignore demo_seed.py > /tmp/sd_$id.without 2>&1; echo "demo without change: exit=$?"
git stash pop -q
git status --short | grep -v '^??' | head -5
cd /verif && VERIF_REPO=$d ./check $id 2>&1 | grep -v "^KNOWN-FINDING" | cut -c1-220 | tail -8
