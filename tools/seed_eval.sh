#!/bin/bash
# usage: tools/seed_eval.sh Cxx [dir]  -- confirm a seeded change in dir (default /tmp/seed_Cxx) and run the check against it
# (no git stash: the stash is shared between worktrees)
id=$1
d=${2:-/tmp/seed_$id}
cd $d || exit 2
git diff -- lcapy > /tmp/sd_$id.patch
[ -s /tmp/sd_$id.patch ] || { echo "no change applied in $d"; exit 2; }
PYTHONPATH=$d timeout 900 /venv/bin/python -W ignore demo_seed.py > /tmp/sd_$id.with 2>&1; echo "demo with change: exit=$?"
git apply -R /tmp/sd_$id.patch
PYTHONPATH=$d timeout 900 /venv/bin/python -W ignore demo_seed.py > /tmp/sd_$id.without 2>&1; echo "demo without change: exit=$?"
git apply /tmp/sd_$id.patch
git status --short | grep -v '^??' | head -5
cd /verif && VERIF_REPO=$d ./check $id 2>&1 | grep -v "^KNOWN-FINDING" | cut -c1-220 | tail -8
