"""Worker for C15: runs the REAL lcapy equation formulations (from /repo, or
$VERIF_REPO) and dumps everything as exact rationals / exact expressions.

stdin : JSON list of cases, stdout: JSON list of results (same length).
case types
  {"type": "canon", "cls": "StateSpace"|"DTStateSpace", "form": "CCF"|"OCF"|"DCF", "b": [...], "a": [...],
   "via": "tfc"|"from_ba", "points": ["p/q", ...]}
      -> {"N", "A", "B", "C", "D" (exact rationals or null), "G": [values at the points], "Gsym": str,
          "poles": [...], "res": [...]} | {"error": "Type: msg"}
  {"type": "circuit", "netlist": [...], "mode": "direct"|"laplace"|"dc"|"ac", "s0": "p/q", "want": ["nodal","mesh","ss","mna"], ...}
      -> see run_circuit
Only exact arithmetic: every number returned is "p/q" (or ["re","im"] pairs of such for phasors).
"""
import sys
import json
import warnings
warnings.filterwarnings('ignore')
import sympy as sp


def rs(x):
    x = sp.nsimplify(x) if not isinstance(x, sp.Basic) else x
    x = sp.sympify(x)
    if x.is_Rational:
        return '%d/%d' % (x.p, x.q)
    x = sp.cancel(sp.together(x))
    if x.is_Rational:
        return '%d/%d' % (x.p, x.q)
    x = sp.simplify(x)
    if x.is_Rational:
        return '%d/%d' % (x.p, x.q)
    return None


def cplx(x):
    """exact complex rational as [re, im] strings, else None"""
    x = sp.sympify(x)
    x = sp.expand(sp.cancel(sp.together(x)))
    re, im = x.as_real_imag()
    re, im = sp.nsimplify(sp.simplify(re)), sp.nsimplify(sp.simplify(im))
    if re.is_Rational and im.is_Rational:
        return ['%d/%d' % (re.p, re.q), '%d/%d' % (im.p, im.q)]
    return None


def has_float(x):
    return bool(sp.sympify(x).atoms(sp.Float))


# ---------------------------------------------------------------------------
def run_canon(c):
    import lcapy
    from lcapy import StateSpace, DTStateSpace
    cls = {'StateSpace': StateSpace, 'DTStateSpace': DTStateSpace}[c['cls']]
    b = [sp.Rational(x) for x in c['b']]
    a = [sp.Rational(x) for x in c['a']]
    if c.get('via') == 'from_ba':
        ss = cls.from_ba(b, a, c['form'])
    else:
        ss = cls.from_transfer_function_coeffs(b, a, c['form'])
    out = {'N': int(ss.Nx)}
    A, B, C, D = ss.A.sympy if hasattr(ss.A, 'sympy') else ss.A, ss.B, ss.C, ss.D
    A, B, C, D = [sp.Matrix(m) for m in (ss.A, ss.B, ss.C, ss.D)]
    out['shapes'] = [list(m.shape) for m in (A, B, C, D)]
    out['A'] = [[rs(A[i, j]) for j in range(A.shape[1])] for i in range(A.shape[0])]
    out['B'] = [rs(B[i, 0]) for i in range(B.shape[0])] if B.shape[1] == 1 else None
    out['C'] = [rs(C[0, j]) for j in range(C.shape[1])] if C.shape[0] == 1 else None
    out['D'] = rs(D[0, 0]) if D.shape == (1, 1) else None
    var = lcapy.s.sympy if c['cls'] == 'StateSpace' else lcapy.z.sympy
    G = ss.G
    g = sp.sympify(G[0].sympy if hasattr(G[0], 'sympy') else G[0])
    out['Gsym'] = str(g)
    out['var'] = str(var)
    out['float'] = has_float(g) or any(has_float(m) for m in (A, B, C, D))
    vals = []
    for p in c.get('points', []):
        try:
            v = sp.cancel(sp.together(g.subs(var, sp.Rational(p))))
            v = sp.simplify(v) if not v.is_Rational else v
            vals.append('%d/%d' % (v.p, v.q) if v.is_Rational else None)
        except Exception:
            vals.append(None)
    out['G'] = vals
    try:
        import impl_formul_circuit as IC
        out['printed'] = IC.ss_printed(ss)
    except Exception as e:
        out['printed_error'] = type(e).__name__ + ': ' + str(e)[:100]
    if c['form'] == 'DCF':
        try:
            from lcapy.sexpr import tf
            H = tf(b, a)
            P = H._ratfun.poles()
            out['poles'] = [rs(p.expr) for p in P]
            out['res'] = [rs(H._ratfun.residue(p.expr, P)) for p in P]
            out['pole_mult'] = [int(p.n) for p in P]
        except Exception as e:
            out['poles_error'] = type(e).__name__
    return out


def run(c):
    if c['type'] == 'canon':
        return run_canon(c)
    if c['type'] == 'circuit':
        import impl_formul_circuit as IC
        return IC.run_circuit(c)
    raise ValueError('unknown case type')


class CaseTimeout(BaseException):
    pass


def _alarm(signum, frame):
    import signal
    signal.alarm(3)     # lcapy has bare `except:` clauses that can swallow this; fire again until the case is left
    raise CaseTimeout()


def main():
    import signal
    import os
    sys.path.insert(0, os.path.dirname(os.path.abspath(__file__)))
    signal.signal(signal.SIGALRM, _alarm)
    cases = json.load(sys.stdin)
    out = []
    for c in cases:
        try:
            signal.alarm(int(c.get('timeout', 40)))
            import time as _t
            t0 = _t.time()
            try:
                r = run(c)
                r['secs'] = round(_t.time() - t0, 2)
                out.append(r)
            finally:
                signal.alarm(0)
        except CaseTimeout:
            out.append({'error': 'timeout: case exceeded its time budget'})
        except Exception as e:
            import traceback
            out.append({'error': type(e).__name__ + ': ' + str(e)[:300], 'tb': traceback.format_exc()[-800:]})
    json.dump(out, sys.stdout)


if __name__ == '__main__':
    main()
