"""Runs the REAL lcapy expression classes (from /repo) for the C18 check.

stdin: JSON list of cases, stdout: JSON list of results (same length).

Operands are named by [domain, quantity, valkind] with valkind in
  'z' (value 0), 'c' (value 3), 'v' (2 * domain variable; a free symbol for
  the constant domains, the user variable x for the undefined domain).
They are built with the real class constructors exprclasses[domain][quantity].

case kinds
  {"k":"meta"}                         -> domains, quantities, class names/attrs as seen at run time
  {"k":"row","a":[d,q,v],"flags":[loose,check,canon],"ops":[...],"vk":"zcv"}
        -> {"mul":[...], ...}: for each op the list of result strings over all
           right operands b in canonical order (domains x quantities x vk)
  {"k":"unary","a":[d,q,v],"flags":[...]} -> pow2, powm1, asconst, self
  {"k":"exprmap"}                      -> lcapy.exprmap.exprmap on all (quantity, domain)
  {"k":"chain", ...}                   -> two-step expressions (operands with non-default units)
  {"k":"transform","a":[d,q],"to":name[,"back":name]}
  {"k":"circuit","net":[lines],"queries":[...]}

result strings
  "K|<class name>|<uV>,<uA>,<us>,<urad>|<cV>,<cA>,<cs>,<crad>"   value of class, unit vector of .units and of .canonical_units
  "E|<kind>"   refused: D (domains), Q (quantities), U (units), P (phasor frequencies), V (other ValueError), X:<type> (other exception)
  "B|0" / "B|1" for comparisons
unit vectors are exponents of V, A, s, rad computed from the SI base
dimensions reported by sympy.physics.units (independent of lcapy.units).
"""
import sys
import json
import warnings
from fractions import Fraction
warnings.filterwarnings('ignore')
import sympy as sym
import sympy.physics.units as u
from sympy.physics.units.systems.si import dimsys_SI
from sympy.physics.units.systems import SI
import lcapy
from lcapy.state import state
from lcapy.expr import Expr as LExpr
from lcapy.exprclasses import exprclasses
from lcapy.domains import domains as DOMAINS
from lcapy.quantities import quantities as QUANTS

DOMS = [d for d in DOMAINS if d in exprclasses]
QS = ['undefined'] + list(QUANTS)

_qcache = {}


def _quantity_vec(q):
    """(V, A, s, rad) exponents of a sympy unit Quantity, None if not of that form"""
    if q in _qcache:
        return _qcache[q]
    if q == u.rad:
        r = (Fraction(0), Fraction(0), Fraction(0), Fraction(1))
    else:
        deps = dimsys_SI.get_dimensional_dependencies(SI.get_dimensional_expr(q))
        d = {str(getattr(k, 'name', k)): Fraction(int(v)) if float(v) == int(v) else Fraction(str(v)) for k, v in deps.items()}
        mass = d.pop('mass', Fraction(0))
        length = d.pop('length', Fraction(0))
        tm = d.pop('time', Fraction(0))
        cur = d.pop('current', Fraction(0))
        d.pop('angle', None)
        if any(v != 0 for v in d.values()) or length != 2 * mass:
            r = None
        else:
            # V = kg m^2 s^-3 A^-1
            r = (mass, cur + mass, tm + 3 * mass, Fraction(0))
    _qcache[q] = r
    return r


def unit_vec(x):
    x = sym.sympify(x)
    if x.is_Number:
        if x == 1:
            return (Fraction(0),) * 4
        return None
    if isinstance(x, u.Quantity):
        return _quantity_vec(x)
    if x.is_Mul:
        acc = [Fraction(0)] * 4
        for a in x.args:
            v = unit_vec(a)
            if v is None:
                return None
            acc = [p + q for p, q in zip(acc, v)]
        return tuple(acc)
    if x.is_Pow:
        b, e = x.args
        if not e.is_Rational:
            return None
        v = unit_vec(b)
        if v is None:
            return None
        e = Fraction(int(e.p), int(e.q))
        return tuple(p * e for p in v)
    return None


def vec_str(v):
    if v is None:
        return '?'
    out = []
    for p in v:
        if p.denominator != 1:
            return '?'
        out.append(str(p.numerator))
    return ','.join(out)


def describe(r):
    if isinstance(r, (bool, sym.logic.boolalg.BooleanAtom)):
        return 'B|%d' % (1 if r else 0)
    if not isinstance(r, LExpr):
        return 'O|' + type(r).__name__
    try:
        cu = r.canonical_units
    except Exception as e:  # pragma: no cover
        cu = None
    return 'K|%s|%s|%s' % (type(r).__name__, vec_str(unit_vec(r.units)), vec_str(unit_vec(cu)) if cu is not None else '?')


def err_kind(e):
    if isinstance(e, ValueError):
        m = str(e)
        if 'since the domains are incompatible' in m:
            return 'E|D'
        if 'since the units of the result are unsupported' in m:
            return 'E|Q'
        if 'are incompatible with' in m and 'since the units' in m:
            return 'E|U'
        if 'Incompatible phasor angular frequencies' in m:
            return 'E|P'
        return 'E|V'
    return 'E|X:' + type(e).__name__


def domain_var(d):
    cls = exprclasses[d]['undefined']
    if d == 'undefined':
        return sym.Symbol('x')
    return cls(0).var


def make(d, q, vk):
    cls = exprclasses[d][q]
    if d == 'undefined':
        x = sym.Symbol('x')
        return cls({'z': 0, 'c': 3, 'v': 2 * x}[vk], var='x')
    if vk == 'z':
        return cls(0)
    if vk == 'c':
        return cls(3)
    v = cls(0).var
    if v is None:
        return cls(sym.Symbol('a'))
    return cls(2 * v)


def set_flags(fl):
    state.loose_units = bool(fl[0])
    state.check_units = bool(fl[1])
    state.canonical_units = bool(fl[2])


def attempt(f):
    try:
        r = f()
    except Exception as e:
        return err_kind(e)
    return describe(r)


def same_value(a, b):
    try:
        return bool(sym.simplify(a.sympy - b.sympy) == 0)
    except Exception:
        return False


OPS = {
    'mul': lambda a, b: a * b,
    'div': lambda a, b: a / b,
    'add': lambda a, b: a + b,
    'sub': lambda a, b: a - b,
    'eq': lambda a, b: a == b,
    'ne': lambda a, b: a != b,
}


def snapshot(x):
    return (type(x), x.sympy, x._units)


def run_row(c):
    """one left operand against every right operand; the operand objects are
    built once per operation and checked afterwards not to have been mutated
    (if one was, the row is recomputed with fresh objects for every evaluation)"""
    set_flags(c['flags'])
    out = {}
    d, q, vk = c['a']
    keys = [(d2, q2, vk2) for d2 in DOMS for q2 in QS for vk2 in c['vk']]
    for op in c['ops']:
        f = OPS[op]
        a = make(d, q, vk)
        bs = [make(*k) for k in keys]
        try:
            snap = [snapshot(a)] + [snapshot(b) for b in bs]
        except Exception:
            snap = None
        row = []
        for b in bs:
            row.append(attempt(lambda: f(a, b)))
        ok = snap is not None
        if ok:
            try:
                ok = snap == [snapshot(a)] + [snapshot(b) for b in bs]
            except Exception:
                ok = False
        if not ok:
            row = [attempt(lambda: f(make(d, q, vk), make(*k))) for k in keys]
            out.setdefault('_fresh', []).append(op)
        out[op] = row
    return out


def run_unary(c):
    set_flags(c['flags'])
    d, q, vk = c['a']
    out = {}
    a = make(d, q, vk)
    out['self'] = describe(a)
    out['quantity'] = a.quantity
    out['domain'] = a.domain
    out['pow2'] = attempt(lambda: make(d, q, vk) ** 2)
    out['powm1'] = attempt(lambda: make(d, q, vk) ** -1)
    out['rdiv1'] = attempt(lambda: 1 / make(d, q, vk))
    out['rmul2'] = attempt(lambda: 2 * make(d, q, vk))
    out['mul2'] = attempt(lambda: make(d, q, vk) * 2)
    out['div2'] = attempt(lambda: make(d, q, vk) / 2)
    out['add2'] = attempt(lambda: make(d, q, vk) + 2)
    out['radd2'] = attempt(lambda: 2 + make(d, q, vk))
    out['eq3'] = attempt(lambda: make(d, q, vk) == 3)
    out['neg'] = attempt(lambda: -make(d, q, vk))
    out['asconst'] = attempt(lambda: make(d, q, vk).as_constant())
    return out


def run_exprmap(c):
    from lcapy.exprmap import exprmap
    out = {}
    for d in DOMAINS:
        for q in QS:
            try:
                out['%s|%s' % (d, q)] = exprmap(q, d).__name__
            except Exception as e:
                out['%s|%s' % (d, q)] = 'E|' + type(e).__name__
    return out


def run_meta(c):
    out = {'domains': list(DOMAINS), 'quantities': QS, 'classes': {}, 'domain_units': {}, 'vars': {}}
    for d in DOMS:
        for q in QS:
            cls = exprclasses[d][q]
            out['classes']['%s|%s' % (d, q)] = [cls.__name__, cls.quantity, cls.domain,
                                                vec_str(unit_vec(getattr(cls, '_default_units', 1)))]
        out['domain_units'][d] = vec_str(unit_vec(DOMAINS[d].domain_units))
        try:
            out['vars'][d] = str(domain_var(d))
        except Exception as e:
            out['vars'][d] = None
    return out


def build(term):
    """term: ["o", d, q, vk] | [op, term, term]"""
    if term[0] == 'o':
        return make(term[1], term[2], term[3])
    return OPS[term[0]](build(term[1]), build(term[2]))


def value_kind(x):
    """z: value 0; v: depends on the domain variable (any free symbol for the
    constant domains); c: otherwise"""
    try:
        if x.sympy == 0:
            return 'z'
        var = getattr(x, 'var', None)
        fs = x.sympy.free_symbols
        if var is None:
            return 'v' if fs else 'c'
        return 'v' if var in fs else 'c'
    except Exception:
        return '?'


def run_chain(c):
    """x, y: terms ["o", d, q, vk] | [op, term, term]; reports x, y and x op y for
    each op in c["ops"]"""
    set_flags(c['flags'])
    out = {}
    try:
        a = build(c['x'])
    except Exception as e:
        return {'x': err_kind(e)}
    out['x'] = describe(a)
    if not isinstance(a, LExpr):
        return out
    out['xvk'] = value_kind(a)
    try:
        b = build(c['y'])
    except Exception as e:
        out['y'] = err_kind(e)
        return out
    out['y'] = describe(b)
    if not isinstance(b, LExpr):
        return out
    out['yvk'] = value_kind(b)
    out['same'] = same_value(a, b)
    try:
        out['canon_eq'] = bool(a.canonical_units == b.canonical_units)
    except Exception:
        out['canon_eq'] = None
    try:
        from lcapy.units import units as _lu
        out['ratio_one'] = bool(_lu.simplify_units(a.units / b.units) == 1)
    except Exception:
        out['ratio_one'] = None
    for op in c['ops']:
        out[op] = attempt(lambda: OPS[op](build(c['x']), build(c['y'])))
    return out


SIGNALS = {
    # causal exponential and its transforms (all elementary, no integration needed)
    'time': lambda L: L.exp(-L.t) * L.u(L.t),
    'laplace': lambda L: 1 / (L.s + 1),
    'fourier': lambda L: 1 / (1 + 2 * L.j * L.pi * L.f),
    'angular fourier': lambda L: 1 / (1 + L.j * L.omega),
    'norm fourier': lambda L: 1 / (1 + 2 * L.j * L.pi * L.F),
    'norm angular fourier': lambda L: 1 / (1 + L.j * L.Omega),
    'frequency response': lambda L: 1 / (1 + 2 * L.j * L.pi * L.f),
    'angular frequency response': lambda L: 1 / (1 + L.j * L.omega),
    'phasor': lambda L: 3 + 0 * L.j,
    'phasor ratio': lambda L: 1 / (1 + L.j * L.omega),
    'constant': lambda L: 3,
    'constant time': lambda L: 3,
    'constant frequency response': lambda L: 3,
}


def target_arg(name):
    import lcapy as L
    from lcapy.symbols import jf, jw
    return {'t': L.t, 's': L.s, 'f': L.f, 'omega': L.omega, 'F': L.F, 'Omega': L.Omega, 'jf': jf, 'jw': jw}[name]


def run_transform(c):
    import lcapy as L
    set_flags(c.get('flags', [1, 1, 0]))
    d, q = c['a']
    out = {}
    try:
        val = SIGNALS[d](L)
        val = getattr(val, 'sympy', val)
        kw = {'causal': True} if d == 'laplace' else {}
        a = exprclasses[d][q](val, **kw)
        if c.get('tag'):
            # mark the operand's units so that propagation (scaling) can be told from
            # re-initialisation to the class default
            a.units = a.units * u.ampere**3
        out['src'] = describe(a)
    except Exception as e:
        return {'src': err_kind(e)}
    try:
        r = a(target_arg(c['to']))
        out['dst'] = describe(r)
        out['dst_domain'] = getattr(r, 'domain', None)
        out['dst_quantity'] = getattr(r, 'quantity', None)
    except Exception as e:
        out['dst'] = err_kind(e)
        return out
    if c.get('back'):
        try:
            b = r(target_arg(c['back']))
            out['back'] = describe(b)
            out['back_domain'] = getattr(b, 'domain', None)
        except Exception as e:
            out['back'] = err_kind(e)
    return out


def run_asq(c):
    """ExprDomain.as_quantity on one class for every quantity name, and the public
    conversions that re-apply the quantity through it"""
    import lcapy as L
    set_flags(c.get('flags', [1, 1, 0]))
    d, q = c['a']
    cls = exprclasses[d][q]
    out = {}
    if d == 'undefined':
        x = sym.Symbol('x')
        mk = lambda: cls(3 + 4 * sym.I * x, var='x')
    elif d in ('time', 'discrete time'):
        v = cls(0).var
        mk = lambda: cls(3 * sym.cos(2 * v))
    else:
        v = cls(0).var
        mk = lambda: cls(3 + 4 * sym.I * (v if v is not None else 1))
    try:
        out['src'] = describe(mk())
    except Exception as e:
        return {'src': err_kind(e)}
    for name in QS:
        out['as:' + name] = attempt(lambda: mk().as_quantity(name))
    out['magnitude'] = attempt(lambda: mk().magnitude)
    out['real'] = attempt(lambda: mk().real)
    out['imag'] = attempt(lambda: mk().imag)
    if d in ('time', 'fourier', 'angular fourier'):
        out['HT'] = attempt(lambda: mk().HT(evaluate=False))
        out['IHT'] = attempt(lambda: mk().IHT(evaluate=False))
    if d == 'phasor ratio':
        out['pr_laplace'] = attempt(lambda: mk().laplace())
        out['pr_s'] = attempt(lambda: mk()(L.s))
    if d == 'phasor':
        out['phasor_time'] = attempt(lambda: mk().time())
        out['phasor_time_phasor'] = attempt(lambda: mk().time().phasor())
    if d == 'time':
        out['time_phasor_time'] = attempt(lambda: mk().phasor().time())
    return out


UN2 = {
    'abs': lambda a: abs(a), 'conjugate': lambda a: a.conjugate(), 'sign': lambda a: a.sign,
    'simplify': lambda a: a.simplify(), 'expand': lambda a: a.expand(), 'copy': lambda a: a.copy(),
    'subs': lambda a: a.subs(a.var, 2), 'limit': lambda a: a.limit(a.var, 0),
    'diff': lambda a: a.differentiate(), 'integ': lambda a: a.integrate(),
    'phase': lambda a: a.phase, 'magnitude': lambda a: a.magnitude, 'pow3': lambda a: a ** 3,
}


def run_un2(c):
    """unary operations on one class: with the class default units and with the units
    tagged by A^3 (does the operation carry the operand's own units over?)"""
    set_flags(c.get('flags', [1, 1, 0]))
    d, q = c['a']
    cls = exprclasses[d][q]
    if d == 'undefined':
        mk0 = lambda: cls(3 + 2 * sym.Symbol('x'), var='x')
    else:
        v = cls(0).var
        mk0 = lambda: cls(3 + 2 * v) if v is not None else cls(3)

    def mk(tag):
        a = mk0()
        if tag:
            a.units = a.units * u.ampere**3
        return a
    out = {}
    try:
        a = mk(False)
        out['src'] = describe(a)
        out['is_real'] = bool(a.is_real)
    except Exception as e:
        return {'src': err_kind(e)}
    for name, f in UN2.items():
        out[name] = attempt(lambda: f(mk(False)))
        if name not in ('phase', 'magnitude', 'pow3'):
            out['tag:' + name] = attempt(lambda: f(mk(True)))
    out['conv_self'] = attempt(lambda: mk(False).convolve(mk(False)))
    out['tag:conv_self'] = attempt(lambda: mk(True).convolve(mk(True)))
    # convolution with a transfer function (impulse response) of the same domain, both ways
    try:
        h = exprclasses[d]['transfer']
        hv = h(0).var if d != 'undefined' else None
        mkh = (lambda: h(3 + 2 * sym.Symbol('x'), var='x')) if d == 'undefined' else (lambda: h(3 + 2 * hv) if hv is not None else h(3))
        out['conv_h'] = attempt(lambda: mk(False).convolve(mkh()))
        out['h_conv'] = attempt(lambda: mkh().convolve(mk(False)))
    except Exception as e:
        out['conv_h'] = out['h_conv'] = err_kind(e)
    return out


def run_circuit(c):
    import lcapy as L
    set_flags(c.get('flags', [1, 1, 0]))
    cct = L.Circuit()
    for line in c['net']:
        cct.add(line)
    out = []
    for qy in c['queries']:
        try:
            r = eval(qy, {'cct': cct, 'L': L, 't': L.t, 's': L.s, 'f': L.f, 'omega': L.omega, 'jw': L.jw})
            out.append([qy, describe(r), getattr(r, 'quantity', None), getattr(r, 'domain', None)])
        except Exception as e:
            out.append([qy, err_kind(e) + ':' + str(e)[:80], None, None])
    return out


RUN = {'un2': run_un2, 'asq': run_asq, 'row': run_row, 'unary': run_unary, 'exprmap': run_exprmap, 'meta': run_meta, 'chain': run_chain,
       'transform': run_transform, 'circuit': run_circuit}


def main():
    cases = json.load(sys.stdin)
    res = []
    saved = (state.loose_units, state.check_units, state.canonical_units)
    for c in cases:
        try:
            res.append(RUN[c['k']](c))
        except Exception as e:
            res.append({'error': type(e).__name__ + ': ' + str(e)[:300]})
        state.loose_units, state.check_units, state.canonical_units = saved
    json.dump(res, sys.stdout)


main()
