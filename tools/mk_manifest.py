#!/usr/bin/env python3
"""Regenerates MANIFEST.json from checks/*.py (each defines MANIFEST = {...})."""
import ast, json, os, re
HERE = os.path.dirname(os.path.dirname(os.path.abspath(__file__)))
props = [json.loads(l) for l in open(os.path.join(HERE, 'properties.jsonl'))]
checks = []
na = []
NA_REASONS = {}
nap = os.path.join(HERE, 'not_applicable.json')
if os.path.exists(nap):
    NA_REASONS = json.load(open(nap))
for p in props:
    pid = p['id']
    f = os.path.join(HERE, 'checks', pid.lower() + '.py')
    m = None
    if os.path.exists(f):
        src = open(f).read()
        mm = re.search(r'^MANIFEST\s*=\s*(\{.*?^\})', src, re.S | re.M)
        if mm:
            m = ast.literal_eval(mm.group(1))
    if m is None:
        na.append({'property_id': pid, 'reason': NA_REASONS.get(pid, 'check not built yet in this development (planned in DESIGN.md section 4); nothing is claimed for it')})
        continue
    checks.append({
        'property_id': pid,
        'quick_cmd': './check %s --tier quick' % pid,
        'thorough_cmd': './check %s --tier thorough' % pid,
        'evidence_file': '/verif/evidence/%s.json' % pid,
        'replay_cmd_template': './check %s --replay {path}' % pid,
        'engine': 'coq-proof',
        'level_claimed': {'category': 'proof', 'text': m['text'], 'design_ref': m.get('design_ref', 'DESIGN.md section 4, ' + pid)},
        'level_note': m['note'],
        'technique': m['technique'],
    })
man = {
    'version': 1,
    'setup_cmd': 'cd /verif && ./check --setup',
    'hooks': {
        'guard': 'MPH_LCAPY_VERIF',
        'enable': 'no source hooks are needed: checks import lcapy from /repo (PYTHONPATH=/repo) and observe it through its public API and attributes',
        'baseline_off_cmd': 'cd /repo && /venv/bin/python -m pytest -ra -q -p no:cacheprovider --timeout=900 --continue-on-collection-errors',
        'source_commits': [],
        'add_only': True,
    },
    'engines': [{'name': 'coq-proof', 'path': '/verif/coq', 'serves_properties': [c['property_id'] for c in checks],
                 'kind_free_text': 'Coq 8.16.1 theory (coq/theory) + models regenerated from /repo by tools/tr_*.py or hand models tied by in-Coq correspondence evaluation; driver ./check'}],
    'checks': checks,
    'not_applicable': na,
    'notes': 'See DESIGN.md. Every check regenerates its Coq model from /repo working tree (or runs the correspondence against it) on every run.',
}
json.dump(man, open(os.path.join(HERE, 'MANIFEST.json'), 'w'), indent=1)
print('checks:', [c['property_id'] for c in checks], 'not_applicable:', len(na))
