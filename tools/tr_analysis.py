"""Fail-closed translator for the causality bookkeeping that decides how time-domain results are
qualified (property C02):

  lcapy/analysis.py  Analysis.__init__   -> analysis_causal_gen : list bool -> list bool -> bool
      recognised: `self.causal = True`, `self.zeroic = True` before the element loop;
                  inside `for eltname, elt in cct.elements.items():`
                      if elt.has_ic is not None: ... if not elt.zeroic: self.zeroic = False
                      if elt.is_independent_source: ... if not elt.is_causal: self.causal = False
                  after the loop exactly one `self.causal = <bexp>` over self.causal / self.zeroic
                  (and / or / not); no other assignment to self.causal or self.zeroic
  lcapy/mna.py       MNA._solve          -> mna_kw_gen : bool -> bool -> bool -> list (aflag * bool)
      recognised: under `elif self.kind in ('s', 'ivp', 'transient'):` a sequence of
                  assumptions.set('<ac|dc|causal>', cct.is_<ac|dc|causal>) calls (order kept)
Anything else raises Untranslatable with the source location."""
import ast
import hashlib
import os
import warnings


class Untranslatable(Exception):
    pass


def _parse(src):
    with warnings.catch_warnings():
        warnings.simplefilter('ignore')
        return ast.parse(src)


U = ast.unparse


class AnalysisTranslation:
    def __init__(self, repo):
        self.path = os.path.join(repo, 'lcapy', 'analysis.py')
        src = open(self.path).read()
        self.sha = hashlib.sha256(src.encode()).hexdigest()
        init = None
        for n in ast.walk(_parse(src)):
            if isinstance(n, ast.ClassDef) and n.name == 'Analysis':
                for m in n.body:
                    if isinstance(m, ast.FunctionDef) and m.name == '__init__':
                        init = m
        if init is None:
            raise Untranslatable('%s: Analysis.__init__ not found' % self.path)
        self.line = init.lineno
        loop_i = None
        for i, st in enumerate(init.body):
            if isinstance(st, ast.For) and U(st.iter) == 'cct.elements.items()' and U(st.target) == '(eltname, elt)':
                if loop_i is not None:
                    raise Untranslatable('%s:%d: second element loop' % (self.path, st.lineno))
                loop_i = i
        if loop_i is None:
            raise Untranslatable('%s:%d: element loop not found' % (self.path, init.lineno))
        pre, loop, post = init.body[:loop_i], init.body[loop_i], init.body[loop_i + 1:]
        inits = {}
        for st in pre:
            for n in ast.walk(st):
                if isinstance(n, ast.Assign) and U(n.targets[0]) in ('self.causal', 'self.zeroic'):
                    if st is not n or U(n.value) != 'True' or U(n.targets[0]) in inits:
                        raise Untranslatable('%s:%d: %s' % (self.path, n.lineno, U(n)))
                    inits[U(n.targets[0])] = True
        if set(inits) != {'self.causal', 'self.zeroic'}:
            raise Untranslatable('%s:%d: self.causal / self.zeroic are not initialised to True' % (self.path, init.lineno))
        # the loop: exactly the two guarded clears
        found = {'self.causal': None, 'self.zeroic': None}
        for n in ast.walk(loop):
            if isinstance(n, ast.Assign) and U(n.targets[0]) in found:
                if found[U(n.targets[0])] is not None or U(n.value) != 'False':
                    raise Untranslatable('%s:%d: %s' % (self.path, n.lineno, U(n)))
                found[U(n.targets[0])] = n

        def guards(target):
            """chain of `if` tests from the loop body down to the assignment"""
            def rec(stmts, acc):
                for st in stmts:
                    if st is target:
                        return acc
                    if isinstance(st, ast.If):
                        r = rec(st.body, acc + [U(st.test)])
                        if r is not None:
                            return r
                        if any(x is target for x in ast.walk(ast.Module(body=st.orelse, type_ignores=[]))):
                            raise Untranslatable('%s:%d: assignment in an else branch' % (self.path, target.lineno))
                    elif any(x is target for x in ast.walk(st)):
                        raise Untranslatable('%s:%d: assignment under %s' % (self.path, target.lineno, type(st).__name__))
                return None
            return rec(loop.body, [])
        for k in found:
            if found[k] is None:
                raise Untranslatable('%s:%d: %s is never cleared in the element loop' % (self.path, loop.lineno, k))
        if guards(found['self.causal']) != ['elt.is_independent_source', 'not elt.is_causal']:
            raise Untranslatable('%s:%d: guards of self.causal = False: %s' % (self.path, found['self.causal'].lineno, guards(found['self.causal'])))
        if guards(found['self.zeroic']) != ['elt.has_ic is not None', 'not elt.zeroic']:
            raise Untranslatable('%s:%d: guards of self.zeroic = False: %s' % (self.path, found['self.zeroic'].lineno, guards(found['self.zeroic'])))
        # after the loop
        self.final = None
        for st in post:
            for n in ast.walk(st):
                if isinstance(n, ast.Assign) and U(n.targets[0]) == 'self.zeroic':
                    raise Untranslatable('%s:%d: %s' % (self.path, n.lineno, U(n)))
                if isinstance(n, ast.Assign) and U(n.targets[0]) == 'self.causal':
                    if st is not n or self.final is not None:
                        raise Untranslatable('%s:%d: %s' % (self.path, n.lineno, U(n)))
                    self.final = n
        self.final_src = U(self.final) if self.final is not None else 'self.causal (unchanged)'
        self.expr = self._bexp(self.final.value) if self.final is not None else 'c0'

    def _bexp(self, e):
        if isinstance(e, ast.BoolOp):
            op = ' && ' if isinstance(e.op, ast.And) else ' || '
            return '(' + op.join(self._bexp(v) for v in e.values) + ')'
        if isinstance(e, ast.UnaryOp) and isinstance(e.op, ast.Not):
            return '(negb %s)' % self._bexp(e.operand)
        u = U(e)
        if u == 'self.causal':
            return 'c0'
        if u == 'self.zeroic':
            return 'z0'
        if u in ('True', 'False'):
            return u.lower()
        raise Untranslatable('%s:%d: expression %s' % (self.path, e.lineno, u))

    def coq_defs(self):
        return ('(* GENERATED by tools/tr_analysis.py from lcapy/analysis.py (sha256 %s), Analysis.__init__ at line %d: %s *)\n'
                'Definition analysis_causal_gen (src_causal zeroic : list bool) : bool :=\n'
                '  let c0 := forallb (fun b => b) src_causal in let z0 := forallb (fun b => b) zeroic in %s.\n'
                % (self.sha[:16], self.line, self.final_src.replace('*)', '* )'), self.expr))


class SolveTranslation:
    FLAGS = {'ac': 'Aac', 'dc': 'Adc', 'causal': 'Acausal'}

    def __init__(self, repo):
        self.path = os.path.join(repo, 'lcapy', 'mna.py')
        src = open(self.path).read()
        self.sha = hashlib.sha256(src.encode()).hexdigest()
        fn = None
        for n in ast.walk(_parse(src)):
            if isinstance(n, ast.FunctionDef) and n.name == '_solve':
                fn = n
        if fn is None:
            raise Untranslatable('%s: MNA._solve not found' % self.path)
        arm = None
        for n in ast.walk(fn):
            if isinstance(n, ast.If) and isinstance(n.test, ast.Compare) and U(n.test.left) == 'self.kind' and isinstance(n.test.ops[0], ast.In):
                try:
                    kinds = ast.literal_eval(n.test.comparators[0])
                except Exception:
                    continue
                if 'ivp' in kinds:
                    if arm is not None:
                        raise Untranslatable('%s:%d: second arm for the ivp kind' % (self.path, n.lineno))
                    arm, self.kinds = n, tuple(kinds)
        if arm is None:
            raise Untranslatable('%s:%d: no `self.kind in (.. \'ivp\' ..)` arm' % (self.path, fn.lineno))
        if set(self.kinds) != {'s', 'ivp', 'transient'}:
            raise Untranslatable('%s:%d: kinds %s' % (self.path, arm.lineno, self.kinds))
        self.order = []
        for st in arm.body:
            c = st.value if isinstance(st, ast.Expr) else None
            ok = (isinstance(c, ast.Call) and U(c.func) == 'assumptions.set' and len(c.args) == 2 and isinstance(c.args[0], ast.Constant)
                  and c.args[0].value in self.FLAGS and U(c.args[1]) == 'cct.is_' + c.args[0].value and not c.keywords)
            if not ok:
                raise Untranslatable('%s:%d: %s' % (self.path, st.lineno, U(st)[:70]))
            self.order.append(c.args[0].value)
        if sorted(self.order) != ['ac', 'causal', 'dc']:
            raise Untranslatable('%s:%d: assumptions set: %s' % (self.path, arm.lineno, self.order))
        self.line = arm.lineno

    def coq_defs(self):
        return ('(* GENERATED by tools/tr_analysis.py from lcapy/mna.py (sha256 %s), MNA._solve, arm at line %d: order %s *)\n'
                'Definition mna_kw_gen (ac dc causal : bool) : list (aflag * bool) := [%s].\n'
                % (self.sha[:16], self.line, self.order, '; '.join('(%s, %s)' % (self.FLAGS[k], k) for k in self.order)))


if __name__ == '__main__':
    import sys
    r = sys.argv[1] if len(sys.argv) > 1 else '/repo'
    print(AnalysisTranslation(r).coq_defs())
    print(SolveTranslation(r).coq_defs())
