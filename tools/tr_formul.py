"""Fail-closed translator for the equation formulations (C15):

  lcapy/oneport.py       current_equation / voltage_equation of R, G, L, C, Y, Z,
                         VoltageSourceBase, CurrentSourceBase  -> ceq_<Cls>, veq_<Cls>
  lcapy/nodalanalysis.py NodalAnalysis._make_equations: shape checked statement by
                         statement; the orientation handling of the KCL sum and the
                         voltage-source constraint -> nodal_contrib, nodal_vsrc
  lcapy/loopanalysis.py  LoopAnalysis._add_mesh_currents / _process_loop: shape checked;
                         the signs -> mesh_credit_fwd/bwd, mesh_term

Reads source text only.  Recognised subset of an equation method body:
  docstring | `from .sym import tausym` | `u = tausym`
  | `<arg> = expr(<arg>).subs(t, u)`          (renaming of the integration variable; value preserving)
  | if/elif `kind in (<strings>)` : <body> ... | return <E> | pass | `if kind == 's': kind = 'laplace'`
  E ::= Superposition{Current,Voltage}(E).select(kind)   (wrapper, erased)
      | Superposition{Voltage,Current}(<arg>).select(kind) -> the applied signal
      | E + E | E - E | E * P | P * E | E / P | -E | expr(self.i0|self.v0) (a constant of time)
      | Integral(<arg>, (u, 0|-oo, tsym)) | Derivative(<arg>, t)
      | self.voc | self.isc (under Superposition*(...).select(kind)) -> lsrcV / lsrcI
  P ::= self._Z | self._Zkind(kind) | self.L | self.C | self.i0 | self.v0 | s | P*P | P/P
Wrappers are erased; that erasure (and the values of self._Z, self._Zkind(kind),
select(kind) of the source value) is validated on every run by the correspondence
evaluation against the real methods.
"""
import ast
import hashlib
import os


class Untranslatable(Exception):
    pass


def src(n):
    return ast.unparse(n)


def is_doc(st):
    return isinstance(st, ast.Expr) and isinstance(st.value, ast.Constant) and isinstance(st.value.value, str)


KIND_NAMES = {'t': 'Kt', 'time': 'Ktime', 'super': 'Ksuper', 's': 'Ks', 'laplace': 'Klaplace', 'ivp': 'Kivp', 'dc': 'Kdc',
              'transient': 'Ktransient'}
LEAF_CLASSES = ['R', 'G', 'L', 'C', 'Y', 'Z']
PARAMS = {'self._Z': 'lZ p', 'self._Zkind(kind)': 'lZk p', 'self.L': 'lL p', 'self.C': 'lC p', 'self.i0': 'li0 p', 'self.v0': 'lv0 p', 's': 's'}


class FormulTranslator:
    def __init__(self, repo):
        self.repo = repo
        self.files = {}
        self.sha = {}
        for f in ('oneport.py', 'nodalanalysis.py', 'loopanalysis.py'):
            p = os.path.join(repo, 'lcapy', f)
            t = open(p).read()
            import warnings
            with warnings.catch_warnings():
                warnings.simplefilter('ignore')
                self.files[f] = ast.parse(t)
            self.sha[f] = hashlib.sha256(t.encode()).hexdigest()
        self.classes = {n.name: n for n in self.files['oneport.py'].body if isinstance(n, ast.ClassDef)}
        self.leaf = {}      # (cls, 'ceq'|'veq') -> coq body
        self.lines = {}
        self.nodal = None
        self.mesh = None
        self.cur = 'lcapy/oneport.py'

    def fail(self, node, why):
        raise Untranslatable('%s:%s: %s: %s' % (self.cur, getattr(node, 'lineno', '?'), why,
                                                src(node)[:160] if isinstance(node, ast.AST) else str(node)))

    # ---- leaf relations ----------------------------------------------------
    def method(self, cname, mname):
        if cname not in self.classes:
            raise Untranslatable('lcapy/oneport.py: class %s not found' % cname)
        for n in self.classes[cname].body:
            if isinstance(n, ast.FunctionDef) and n.name == mname:
                return n
        return None

    def param(self, e):
        t = src(e)
        if t in PARAMS:
            return '(%s)' % PARAMS[t]
        if isinstance(e, ast.UnaryOp) and isinstance(e.op, ast.USub):
            x = self.param(e.operand)
            return None if x is None else '(- %s)' % x
        if isinstance(e, ast.BinOp) and isinstance(e.op, (ast.Mult, ast.Div)):
            l, r = self.param(e.left), self.param(e.right)
            if l is None or r is None:
                return None
            return '(%s %s %s)' % (l, '*' if isinstance(e.op, ast.Mult) else '/', r)
        return None

    def lower(self, e, arg, tdom, intvar):
        """e -> coq expression of type K; arg = name of the applied signal parameter ('v' / 'i')"""
        t = src(e)
        # wrappers
        if (isinstance(e, ast.Call) and isinstance(e.func, ast.Attribute) and e.func.attr == 'select' and len(e.args) == 1
                and src(e.args[0]) == 'kind' and isinstance(e.func.value, ast.Call)
                and src(e.func.value.func) in ('SuperpositionCurrent', 'SuperpositionVoltage') and len(e.func.value.args) == 1):
            inner = e.func.value.args[0]
            if src(inner) == 'self.voc' and src(e.func.value.func) == 'SuperpositionVoltage':
                return '(lsrcV p)'
            if src(inner) == 'self.isc' and src(e.func.value.func) == 'SuperpositionCurrent':
                return '(lsrcI p)'
            return self.lower(inner, arg, tdom, intvar)
        if isinstance(e, ast.Name) and e.id == arg:
            return 'x'
        if t in ('expr(self.i0)', 'expr(self.v0)'):
            if not tdom:
                self.fail(e, 'time constant outside a time-domain branch')
            return '(tconst s (%s))' % PARAMS[t[5:-1]]
        if isinstance(e, ast.UnaryOp) and isinstance(e.op, ast.USub):
            return '(- %s)' % self.lower(e.operand, arg, tdom, intvar)
        if isinstance(e, ast.Call) and src(e.func) == 'Integral' and len(e.args) == 2 and tdom:
            lim = e.args[1]
            if not (isinstance(lim, ast.Tuple) and len(lim.elts) == 3 and src(lim.elts[0]) == intvar and src(lim.elts[2]) == 'tsym'
                    and src(lim.elts[1]) in ('0', '-oo') and src(e.args[0]) == arg and intvar):
                self.fail(e, 'unsupported Integral')
            return '(tint s x)'
        if isinstance(e, ast.Call) and src(e.func) == 'Derivative' and len(e.args) == 2 and tdom:
            if src(e.args[0]) != arg or src(e.args[1]) != 't' or intvar:
                self.fail(e, 'unsupported Derivative')
            return '(tderiv s x x0)'
        if isinstance(e, ast.BinOp) and isinstance(e.op, (ast.Add, ast.Sub)):
            op = '+' if isinstance(e.op, ast.Add) else '-'
            l = self.param(e.left) or self.lower(e.left, arg, tdom, intvar)
            r = self.param(e.right) or self.lower(e.right, arg, tdom, intvar)
            return '(%s %s %s)' % (l, op, r)
        if isinstance(e, ast.BinOp) and isinstance(e.op, (ast.Mult, ast.Div)):
            op = '*' if isinstance(e.op, ast.Mult) else '/'
            pl, pr = self.param(e.left), self.param(e.right)
            if pl is not None and pr is not None:
                if tdom:
                    self.fail(e, 'constant term in a time-domain branch must be written expr(...)')
                return '(%s %s %s)' % (pl, op, pr)
            if pr is not None:
                return '(%s %s %s)' % (self.lower(e.left, arg, tdom, intvar), op, pr)
            if pl is not None and op == '*':
                return '(%s * %s)' % (pl, self.lower(e.right, arg, tdom, intvar))
            self.fail(e, 'unsupported product')
        p = self.param(e)
        if p is not None and not tdom:
            return p
        self.fail(e, 'unsupported expression')

    def check_blocks(self, stmts):
        """a return must be the last statement of its own block"""
        for i, st in enumerate(stmts):
            if isinstance(st, ast.Return) and any(not isinstance(x, ast.Pass) for x in stmts[i + 1:]):
                self.fail(st, 'statements after return')
            if isinstance(st, ast.If):
                self.check_blocks(st.body)
                self.check_blocks(st.orelse)

    def body(self, stmts, arg, tdom=False, intvar=None):
        """statement list (with its continuation appended) -> coq expression, or None when it falls off the end"""
        i = 0
        while i < len(stmts):
            st = stmts[i]
            i += 1
            t = src(st)
            if is_doc(st) or t == 'from .sym import tausym' or t == 'pass':
                continue
            if t == 'u = tausym':
                intvar = 'u'
                continue
            if t == '%s = expr(%s).subs(t, u)' % (arg, arg) and intvar == 'u':
                continue
            if isinstance(st, ast.Return):
                return self.lower(st.value, arg, tdom, intvar)
            if t == "if kind == 's':\n    kind = 'laplace'":
                # both names denote the Laplace-domain branch of every relation (they always occur together in
                # the kind tuples); only the value selected from a source changes, and that is an observed input
                continue
            if isinstance(st, ast.If):
                test = st.test
                rest = stmts[i:]
                if src(test) == 'self.has_ic':
                    cond = 'lic p'
                    td = tdom
                else:
                    if not (isinstance(test, ast.Compare) and src(test.left) == 'kind' and len(test.ops) == 1 and isinstance(test.ops[0], ast.In)
                            and isinstance(test.comparators[0], ast.Tuple) and all(isinstance(x, ast.Constant) and x.value in KIND_NAMES for x in test.comparators[0].elts)):
                        self.fail(test, 'unsupported condition')
                    ks = [x.value for x in test.comparators[0].elts]
                    tset = {'t', 'time', 'super'}
                    if set(ks) & tset and not set(ks) <= tset:
                        self.fail(test, 'kind tuple mixes time-domain and transform kinds')
                    td = bool(set(ks) & tset)
                    cond = 'lk_in k [%s]' % '; '.join(KIND_NAMES[x] for x in ks)
                thn = self.body(list(st.body) + rest, arg, td, intvar)
                els = self.body(list(st.orelse) + rest, arg, tdom, intvar)
                if thn is None or els is None:
                    self.fail(st, 'a path through the method does not return')
                return '(if %s then %s else %s)' % (cond, thn, els)
            self.fail(st, 'unsupported statement')
        return None

    def translate_leaf(self):
        self.cur = 'lcapy/oneport.py'
        for cn in LEAF_CLASSES + ['VoltageSourceBase', 'CurrentSourceBase']:
            for mn, arg, tag in (('current_equation', 'v', 'ceq'), ('voltage_equation', 'i', 'veq')):
                fn = self.method(cn, mn)
                if fn is None:
                    if cn in ('VoltageSourceBase', 'CurrentSourceBase'):
                        continue
                    raise Untranslatable('lcapy/oneport.py: %s.%s not found' % (cn, mn))
                params = [a.arg for a in fn.args.args]
                if params != ['self', arg, 'kind']:
                    self.fail(fn, 'unexpected signature')
                self.check_blocks(fn.body)
                b = self.body(fn.body, arg)
                if b is None:
                    self.fail(fn, 'method does not return')
                name = {'VoltageSourceBase': 'V', 'CurrentSourceBase': 'I'}.get(cn, cn)
                self.leaf[(name, tag)] = b
                self.lines[(name, tag)] = fn.lineno
        if ('V', 'veq') not in self.leaf or ('I', 'ceq') not in self.leaf:
            raise Untranslatable('lcapy/oneport.py: source equation methods not found')
        # subclasses must inherit the source relations (and NR, NG the R, G ones)
        for cn, node in self.classes.items():
            bases = [src(b) for b in node.bases]
            fam = None
            if 'VoltageSourceBase' in bases:
                fam = ('voltage_equation',)
            elif 'CurrentSourceBase' in bases:
                fam = ('current_equation',)
            elif bases and bases[0] in ('R', 'G', 'L', 'C'):
                fam = ('current_equation', 'voltage_equation')
            if fam:
                for n in node.body:
                    if isinstance(n, ast.FunctionDef) and n.name in fam:
                        self.fail(n, 'class %s overrides %s' % (cn, n.name))

    # ---- nodal analysis ---------------------------------------------------------
    def translate_nodal(self):
        self.cur = 'lcapy/nodalanalysis.py'
        cls = [n for n in self.files['nodalanalysis.py'].body if isinstance(n, ast.ClassDef) and n.name == 'NodalAnalysis']
        if not cls:
            raise Untranslatable('lcapy/nodalanalysis.py: class NodalAnalysis not found')
        fn = [n for n in cls[0].body if isinstance(n, ast.FunctionDef) and n.name == '_make_equations']
        if not fn:
            raise Untranslatable('lcapy/nodalanalysis.py: _make_equations not found')
        fn = fn[0]
        body = [s for s in fn.body if not is_doc(s)]

        def expect(st, text):
            if src(st) != text:
                self.fail(st, 'expected `%s`' % text)
        if len(body) != 3:
            self.fail(fn, 'unexpected number of statements')
        expect(body[0], 'equations = {}')
        expect(body[2], 'return equations')
        loop = body[1]
        if not (isinstance(loop, ast.For) and src(loop.target) == 'node' and src(loop.iter) == 'self.nodes' and not loop.orelse):
            self.fail(loop, 'expected `for node in self.nodes`')
        lb = loop.body
        if len(lb) != 6:
            self.fail(loop, 'unexpected loop body')
        expect(lb[0], "if node == '0':\n    continue")
        expect(lb[1], "if node.startswith('*'):\n    continue")
        expect(lb[2], 'voltage_sources = []')
        expect(lb[3], "for elt in self.cg.connected_cpts(node):\n    if elt.type == 'V':\n        voltage_sources.append(elt)\n"
                      "    elif elt.is_dependent_source:\n        raise ValueError('Dependent sources not handled yet')")
        expect(lb[5], 'equations[node] = (lhs, rhs)')
        br = lb[4]
        if not (isinstance(br, ast.If) and src(br.test) == 'voltage_sources != []'):
            self.fail(br, 'expected `if voltage_sources != []`')
        vb = br.body
        if len(vb) != 5:
            self.fail(br, 'unexpected voltage-source branch')
        expect(vb[0], 'elt = voltage_sources[0]')
        expect(vb[1], 'n1 = self.cg.node_map[elt.node_names[0]]')
        expect(vb[2], 'n2 = self.cg.node_map[elt.node_names[1]]')
        expect(vb[3], 'V = elt.cpt.voltage_equation(0, self.kind)')
        # lhs, rhs = self._unknowns[a], self._unknowns[b] +/- V
        st = vb[4]
        ok = False
        vs = None
        if isinstance(st, ast.Assign) and src(st.targets[0]) in ('lhs, rhs', '(lhs, rhs)') and isinstance(st.value, ast.Tuple) and len(st.value.elts) == 2:
            l, r = st.value.elts

            def unk(e):
                t = src(e)
                if t == 'self._unknowns[n1]':
                    return 'va'
                if t == 'self._unknowns[n2]':
                    return 'vb'
                return None
            if unk(l) and isinstance(r, ast.BinOp) and isinstance(r.op, (ast.Add, ast.Sub)) and unk(r.left) and src(r.right) == 'V':
                vs = '(%s - (%s %s vsrc))' % (unk(l), unk(r.left), '+' if isinstance(r.op, ast.Add) else '-')
                ok = True
        if not ok:
            self.fail(st, 'unsupported voltage-source constraint')
        # KCL branch
        kb = br.orelse
        if len(kb) != 3:
            self.fail(br, 'unexpected KCL branch')
        expect(kb[0], 'result = Itype(self.kind)(0)')
        expect(kb[2], 'lhs, rhs = (result, expr(0))')
        il = kb[1]
        if not (isinstance(il, ast.For) and src(il.target) == 'elt' and src(il.iter) == 'self.cg.connected_cpts(node)' and not il.orelse):
            self.fail(il, 'expected the loop over connected components')
        ib = il.body
        if len(ib) < 4:
            self.fail(il, 'unexpected KCL loop body')
        expect(ib[0], "if len(elt.node_names) < 2:\n    raise ValueError('Elt %s has too few nodes' % elt)")
        expect(ib[1], 'n1 = self.cg.node_map[elt.node_names[0]]')
        expect(ib[2], 'n2 = self.cg.node_map[elt.node_names[1]]')
        orient = ib[3]
        if not (isinstance(orient, ast.If) and src(orient.test) == 'node == n1' and len(orient.orelse) == 1 and isinstance(orient.orelse[0], ast.If)
                and src(orient.orelse[0].test) == 'node == n2' and len(orient.orelse[0].orelse) == 1 and isinstance(orient.orelse[0].orelse[0], ast.Raise)):
            self.fail(orient, 'unsupported orientation test')
        # symbolic execution of either branch followed by the common tail:
        #   pass | n1, n2 = n2, n1 | sign = +-1 | v = <difference of unknowns> | result +=/-= <term>
        contribs = []
        for branch in (orient.body, orient.orelse[0].body):
            env = {'n1': 'a', 'n2': 'b', 'sign': None, 'v': None}
            total = []
            for s2 in list(branch) + list(ib[4:]):
                t2 = src(s2)
                if t2 == 'pass':
                    continue
                if t2 in ('n1, n2 = (n2, n1)', '(n1, n2) = (n2, n1)'):
                    env['n1'], env['n2'] = env['n2'], env['n1']
                    continue
                if t2 in ('sign = 1', 'sign = -1'):
                    env['sign'] = 1 if t2 == 'sign = 1' else -1
                    continue
                if isinstance(s2, ast.Assign) and src(s2.targets[0]) == 'v':
                    env['v'] = self.nodal_arg(s2.value, env, allow_v=False)
                    continue
                if isinstance(s2, ast.AugAssign) and src(s2.target) == 'result' and isinstance(s2.op, (ast.Add, ast.Sub)):
                    coef, arg = self.nodal_term(s2.value, env)
                    if isinstance(s2.op, ast.Sub):
                        coef = -coef
                    total.append((coef, arg))
                    continue
                self.fail(s2, 'unsupported statement in the KCL loop')
            contribs.append(total)

        def emit(total):
            parts = []
            for coef, (ac, x, y) in total:
                d = 'v%s - v%s' % (x, y)
                d0 = 'v%s0 - v%s0' % (x, y)
                term = 'ceq (%s) (%s)' % (d, d0) if ac > 0 else 'ceq (- (%s)) (- (%s))' % (d, d0)
                parts.append(('- ' if coef < 0 else '') + term)
            return ' + '.join('(%s)' % p for p in parts) if parts else '0'
        self.nodal = {'line': fn.lineno, 'vsrc': vs, 'first': emit(contribs[0]), 'second': emit(contribs[1])}

    def nodal_arg(self, e, env, allow_v=True):
        """difference of two unknowns (possibly negated / bound to v) -> (coef, X, Y) meaning coef * (vX - vY)"""
        if isinstance(e, ast.UnaryOp) and isinstance(e.op, ast.USub):
            c, x, y = self.nodal_arg(e.operand, env, allow_v)
            return -c, x, y
        if isinstance(e, ast.Name) and e.id == 'v' and allow_v:
            if env['v'] is None:
                self.fail(e, 'v used before assignment')
            return env['v']
        if isinstance(e, ast.BinOp) and isinstance(e.op, ast.Sub):
            l, r = src(e.left), src(e.right)
            m = {'self._unknowns[n1]': env['n1'], 'self._unknowns[n2]': env['n2']}
            if l in m and r in m and l != r:
                return 1, m[l], m[r]
        self.fail(e, 'unsupported argument of current_equation')

    def nodal_term(self, e, env):
        """[sign *] [-] elt.cpt.current_equation(<arg>, self.kind) -> (outer coefficient, arg)"""
        if isinstance(e, ast.UnaryOp) and isinstance(e.op, ast.USub):
            c, arg = self.nodal_term(e.operand, env)
            return -c, arg
        if isinstance(e, ast.BinOp) and isinstance(e.op, ast.Mult) and src(e.left) == 'sign':
            if env['sign'] is None:
                self.fail(e, 'sign used before assignment')
            c, arg = self.nodal_term(e.right, env)
            return c * env['sign'], arg
        if (isinstance(e, ast.Call) and src(e.func) == 'elt.cpt.current_equation' and len(e.args) == 2 and src(e.args[1]) == 'self.kind'
                and not e.keywords):
            return 1, self.nodal_arg(e.args[0], env)
        self.fail(e, 'unsupported KCL term')

    # ---- loop analysis ---------------------------------------------------------------
    def translate_mesh(self):
        self.cur = 'lcapy/loopanalysis.py'
        cls = [n for n in self.files['loopanalysis.py'].body if isinstance(n, ast.ClassDef) and n.name == 'LoopAnalysis']
        if not cls:
            raise Untranslatable('lcapy/loopanalysis.py: class LoopAnalysis not found')
        meth = {n.name: n for n in cls[0].body if isinstance(n, ast.FunctionDef)}
        for m in ('_add_mesh_currents', '_process_loop', '_make_equations'):
            if m not in meth:
                raise Untranslatable('lcapy/loopanalysis.py: %s not found' % m)

        def expect(st, text):
            if src(st) != text:
                self.fail(st, 'expected `%s`' % text)
        # _add_mesh_currents
        fn = meth['_add_mesh_currents']
        sig = [a.arg for a in fn.args.args]
        if sig == ['self', 'loop', 'loops', 'node_names', 'mesh_currents']:
            by_edge = False
        elif sig == ['self', 'loop', 'loops', 'elt', 'node_names', 'mesh_currents']:
            by_edge = True
        else:
            self.fail(fn, 'unexpected signature')
        b = [s for s in fn.body if not is_doc(s)]
        if len(b) != 3:
            self.fail(fn, 'unexpected body')
        # initialisation of the accumulated branch current: the zero of the analysis kind, either directly or,
        # for a phasor kind (self.kind is the angular frequency), as the zero phasor of that frequency.
        # Both are the additive zero of the accumulation: nothing changes in the model.
        zero_ok = ('current = Itype(self.kind)(0)',
                   'if isinstance(self.kind, str):\n    current = Itype(self.kind)(0)\nelse:\n    current = Itype(self.kind)(0, omega=self.kind)')
        if src(b[0]) not in zero_ok:
            self.fail(b[0], 'expected the accumulated current to start from the zero of the analysis kind')
        expect(b[2], 'return current')
        lp = b[1]
        if not (isinstance(lp, ast.For) and src(lp.target) == '(n, loop2)' and src(lp.iter) == 'enumerate(loops)' and not lp.orelse
                and len(lp.body) == (3 if by_edge else 4)):
            self.fail(lp, 'unexpected loop over the meshes')
        expect(lp.body[0], 'loop2 = loop2.copy()')
        expect(lp.body[1], 'loop2.append(loop2[0])')

        def upd(st):
            t = src(st)
            if t == 'current -= mesh_currents[n]':
                return '(fopp 1)'
            if t == 'current += mesh_currents[n]':
                return '1'
            self.fail(st, 'unsupported mesh-current update')
        signs = []
        if not by_edge:
            # crediting by adjacency of the element's equipotential node names in the node list of the mesh
            expect(lp.body[2], 'if node_names[0] not in loop2 or node_names[1] not in loop2:\n    continue')
            sc = lp.body[3]
            if not (isinstance(sc, ast.For) and src(sc.target) == 'l' and src(sc.iter) == 'range(len(loop2) - 1)' and not sc.orelse and len(sc.body) == 1
                    and isinstance(sc.body[0], ast.If) and len(sc.body[0].orelse) == 1 and isinstance(sc.body[0].orelse[0], ast.If) and not sc.body[0].orelse[0].orelse):
                self.fail(sc, 'unexpected scan of a mesh')
            i1, i2 = sc.body[0], sc.body[0].orelse[0]
            expect(i1.test, 'node_names[0] == loop2[l] and node_names[1] == loop2[l + 1]')
            expect(i2.test, 'node_names[1] == loop2[l] and node_names[0] == loop2[l + 1]')
            for br in (i1, i2):
                if len(br.body) != 2 or src(br.body[1]) != 'break':
                    self.fail(br, 'unexpected branch of the mesh scan')
                signs.append(upd(br.body[0]))
        else:
            # crediting by the element itself: the first step of the mesh whose graph edge carries this component;
            # it runs forward when it starts at the element's first node (a parallel component hangs between its
            # first node and a dummy node of the graph)
            sc = lp.body[2]
            if not (isinstance(sc, ast.For) and src(sc.target) == 'l' and src(sc.iter) == 'range(len(loop2) - 1)' and not sc.orelse and len(sc.body) == 3):
                self.fail(sc, 'unexpected scan of a mesh')
            expect(sc.body[0], 'if self.cg.component(loop2[l], loop2[l + 1]) is not elt:\n    continue')
            br = sc.body[1]
            if not (isinstance(br, ast.If) and src(br.test) == 'node_names[0] == loop2[l]' and len(br.body) == 1 and len(br.orelse) == 1):
                self.fail(br, 'unexpected direction test in the mesh scan')
            signs = [upd(br.body[0]), upd(br.orelse[0])]
            expect(sc.body[2], 'break')
        # _process_loop
        fn = meth['_process_loop']
        if [a.arg for a in fn.args.args] != ['self', 'loop', 'mesh_current', 'loops', 'mesh_currents']:
            self.fail(fn, 'unexpected signature')
        b = [s for s in fn.body if not is_doc(s)]
        if len(b) != 5:
            self.fail(fn, 'unexpected body')
        expect(b[0], 'result = Vtype(self.kind)(0)')
        expect(b[1], 'loop1 = loop.copy()')
        expect(b[2], 'loop1.append(loop1[0])')
        expect(b[4], 'return result')
        lp = b[3]
        if not (isinstance(lp, ast.For) and src(lp.target) == 'j' and src(lp.iter) == 'range(len(loop1) - 1)' and not lp.orelse and len(lp.body) == 8):
            self.fail(lp, 'unexpected walk around the mesh')
        s = lp.body
        expect(s[0], 'elt = self.cg.component(loop1[j], loop1[j + 1])')
        expect(s[1], 'if elt is None:\n    continue')
        expect(s[2], "if elt.is_current_source:\n    raise ValueError('TODO: handle current source in loop')\nelif elt.is_dependent_source:\n"
                     "    raise ValueError('Dependent sources not handled yet')")
        expect(s[3], 'node_names = [self.cct.node_map[node_name] for node_name in elt.node_names]')
        vi = s[4]
        if not (isinstance(vi, ast.If) and src(vi.test) == 'elt.is_voltage_source' and len(vi.body) == 1 and len(vi.orelse) == 2):
            self.fail(vi, 'unexpected source / passive split')

        def vterm(st, argname):
            if not (isinstance(st, ast.Assign) and src(st.targets[0]) == 'v'):
                self.fail(st, 'expected an assignment to v')
            e = st.value
            sg = 1
            if isinstance(e, ast.UnaryOp) and isinstance(e.op, ast.USub):
                sg = -1
                e = e.operand
            if src(e) != 'elt.cpt.voltage_equation(%s, self.kind)' % argname:
                self.fail(st, 'unsupported voltage term')
            return sg
        sv = vterm(vi.body[0], 'mesh_current')
        expect(vi.orelse[0], 'current = self._add_mesh_currents(loop, loops, elt, node_names, mesh_currents)' if by_edge else
               'current = self._add_mesh_currents(loop, loops, node_names, mesh_currents)')
        sp_ = vterm(vi.orelse[1], 'current')
        first_only = False
        t = src(s[5])
        if t == 'is_reversed = node_names[0] == loop1[j] and node_names[1] == loop1[j + 1]':
            rev_fwd = True
        elif t == 'is_reversed = node_names[1] == loop1[j] and node_names[0] == loop1[j + 1]':
            rev_fwd = False
        elif t == 'is_reversed = node_names[0] == loop1[j]':
            # the step starts at the element's first node (also right for a parallel component, whose graph edge
            # runs from its first node to a dummy node)
            rev_fwd = True
            first_only = True
        else:
            self.fail(s[5], 'unsupported orientation test')
        expect(s[6], 'if is_reversed:\n    v = -v')
        t = src(s[7])
        if t == 'result += v':
            acc = 1
        elif t == 'result -= v':
            acc = -1
        else:
            self.fail(s[7], 'unsupported accumulation')
        # _make_equations: every loop is processed with its own mesh current
        fn = meth['_make_equations']
        b = [x for x in fn.body if not is_doc(x)]
        txt = '\n'.join(src(x) for x in b)
        want = ("if not self.cg.is_planar:\n    raise ValueError('Circuit topology is not planar')\nloops = self.loops()\nNloops = len(loops)\n"
                "mesh_currents = [Iname('I_%d' % (m + 1), self.kind) for m in range(Nloops)]\nequations = {}\n"
                "for m, loop in enumerate(loops):\n    result = self._process_loop(loop, mesh_currents[m], loops, mesh_currents)\n"
                "    equations[mesh_currents[m]] = (result, expr(0))\nreturn equations")
        if txt != want:
            self.fail(fn, 'unexpected body of LoopAnalysis._make_equations')
        self.mesh = {'line': meth['_process_loop'].lineno, 'credit_fwd': signs[0], 'credit_bwd': signs[1],
                     'vs_sign': sv, 'pas_sign': sp_, 'rev_fwd': rev_fwd, 'acc': acc, 'by_edge': by_edge, 'first_only': first_only}

    # ---- state-space substitution model -------------------------------------------------
    def translate_ss(self):
        import warnings
        self.cur = 'lcapy/mnacpts.py'
        t = open(os.path.join(self.repo, 'lcapy', 'mnacpts.py')).read()
        self.sha['mnacpts.py'] = hashlib.sha256(t.encode()).hexdigest()
        with warnings.catch_warnings():
            warnings.simplefilter('ignore')
            tree = ast.parse(t)
        cl = {n.name: n for n in tree.body if isinstance(n, ast.ClassDef)}
        res = {}
        for cn, prefix, var in (('L', 'I_', 'i'), ('C', 'V_', 'v')):
            if cn not in cl:
                raise Untranslatable('lcapy/mnacpts.py: class %s not found' % cn)
            fn = [n for n in cl[cn].body if isinstance(n, ast.FunctionDef) and n.name == '_ss_model']
            if not fn:
                raise Untranslatable('lcapy/mnacpts.py: %s._ss_model not found' % cn)
            b = [x for x in fn[0].body if not is_doc(x)]
            if len(b) != 1 or not isinstance(b[0], ast.Return):
                self.fail(fn[0], 'unsupported body of _ss_model')
            tx = src(b[0].value)
            pos = "self._netmake_variant('%s', args='%s_%%s(t)' %% self.relname)" % (prefix, var)
            neg = "self._netmake_variant('%s', args='-%s_%%s(t)' %% self.relname)" % (prefix, var)
            if tx == pos:
                res[cn + '_src'] = '1'
            elif tx == neg:
                res[cn + '_src'] = '(fopp 1)'
            else:
                self.fail(b[0], 'unsupported substitution model')
        for cn in ('V', 'I'):
            fn = [n for n in cl[cn].body if isinstance(n, ast.FunctionDef) and n.name == '_ss_model'] if cn in cl else []
            # the source stays a source of the same kind and orientation; its value is either the value itself or a
            # symbol named after the source (the input u_j of the state-space model in both cases)
            want = ['return self._netmake(args=self.cpt.%s, ignore_keyword=True)' % ('voc' if cn == 'V' else 'isc'),
                    "return self._netmake(args='%s_%%s(t)' %% self.relname, ignore_keyword=True)" % ('v' if cn == 'V' else 'i')]
            if not fn or len([x for x in fn[0].body if not is_doc(x)]) != 1 or src([x for x in fn[0].body if not is_doc(x)][0]) not in want:
                raise Untranslatable('lcapy/mnacpts.py: unexpected %s._ss_model' % cn)
        base = [n for n in cl['Cpt'].body if isinstance(n, ast.FunctionDef) and n.name == '_ss_model'] if 'Cpt' in cl else []
        if not base or [src(x) for x in base[0].body if not is_doc(x)] != ['return self._copy()']:
            raise Untranslatable('lcapy/mnacpts.py: unexpected Cpt._ss_model')
        # StateSpaceMaker.from_circuit: which quantities of the substituted circuit become dx/dt and x
        self.cur = 'lcapy/statespacemaker.py'
        t = open(os.path.join(self.repo, 'lcapy', 'statespacemaker.py')).read()
        self.sha['statespacemaker.py'] = hashlib.sha256(t.encode()).hexdigest()
        tree = ast.parse(t)
        loops = [n for n in ast.walk(tree) if isinstance(n, ast.For) and src(n.iter) == 'inductors + capacitors']
        if len(loops) != 1:
            raise Untranslatable('lcapy/statespacemaker.py: loop over inductors + capacitors not found')
        lp = loops[0]
        if len(lp.body) < 2:
            self.fail(lp, 'unexpected state-variable loop')
        if src(lp.body[0]) != 'name = cpt_map[elt.name]' or not isinstance(lp.body[1], ast.If) or src(lp.body[1].test) != 'isinstance(elt, L)':
            self.fail(lp, 'unexpected state-variable loop')
        lb = [src(x) for x in lp.body[1].body]
        cb = [src(x) for x in lp.body[1].orelse]
        if len(lb) != 3 or len(cb) != 3:
            self.fail(lp.body[1], 'the inductor / capacitor branches must set expr, var and x0 (initial value of THAT state variable)')
        if lb[0] != 'expr = sscct[name].v / elt.cpt.L' or lb[2] != 'x0 = elt.cpt.i0':
            self.fail(lp.body[1], 'unexpected inductor state equations')
        res['L_var'] = {'var = -sscct[name].isc': '(fopp 1)', 'var = sscct[name].isc': '1'}.get(lb[1])
        flag = {'expr = current_sign(sscct[name].i / elt.cpt.C, True)': 'true',
                'expr = current_sign(sscct[name].i / elt.cpt.C, False)': 'false'}.get(cb[0])
        if flag is None or cb[2] != 'x0 = elt.cpt.v0':
            self.fail(lp.body[1], 'unexpected capacitor state equations')
        # the capacitor has become the voltage source V_C of the substituted circuit, whose .i is reported with the
        # SOURCE flag of current_sign; the flag given here must undo exactly that (obligation ss_dot_convention_independent)
        res['C_dot_is_source'] = flag
        res['C_var'] = {'var = sscct[name].voc': '1', 'var = -sscct[name].voc': '(fopp 1)'}.get(cb[1])
        if res['L_var'] is None or res['C_var'] is None:
            self.fail(lp.body[1], 'unexpected state variable')
        rest = [src(x) for x in lp.body[2:]]
        if rest != ['dotx_exprs.append(expr)', 'statevars.append(var)', 'statenames.append(name)', 'initialvalues.append(x0)']:
            self.fail(lp, 'unexpected bookkeeping in the state-variable loop')
        self.ss = res

    def translate_all(self):
        # fail closed: whatever goes wrong while walking the syntax tree (a statement list shorter than the
        # recognised shape, a missing attribute, ...) is an Untranslatable source, never a raw Python error
        for step in (self.translate_leaf, self.translate_nodal, self.translate_mesh, self.translate_ss):
            try:
                step()
            except Untranslatable:
                raise
            except (IndexError, KeyError, AttributeError, TypeError, ValueError, AssertionError) as e:
                raise Untranslatable('%s: %s: source is outside the recognised shape (%s: %s)' % (
                    self.cur, step.__name__, type(e).__name__, str(e)[:120]))
        return self


def emit(tr):
    out = ['(* GENERATED by tools/tr_formul.py from lcapy/oneport.py (sha256 %s), lcapy/nodalanalysis.py (%s),' % (tr.sha['oneport.py'][:16], tr.sha['nodalanalysis.py'][:16]),
           '   lcapy/loopanalysis.py (%s).  Do not edit. *)' % tr.sha['loopanalysis.py'][:16],
           'Require Import LT.FieldSec LT.FormulLeaf.', 'Local Open Scope F_scope.', '', 'Section Gen.', 'Variable K : fld.', '']
    names = []
    for (cn, tag), b in sorted(tr.leaf.items()):
        nm = '%s_%s' % (tag, cn)
        names.append(nm)
        out.append('(* oneport.%s.%s, line %d; x = applied signal, x0 = its value at 0- *)' % (
            {'V': 'VoltageSourceBase', 'I': 'CurrentSourceBase'}.get(cn, cn), 'current_equation' if tag == 'ceq' else 'voltage_equation', tr.lines[(cn, tag)]))
        out.append('Definition %s (k : lkind) (p : lpar K) (s x x0 : K) : K :=\n  %s.\n' % (nm, b))
    n = tr.nodal
    out.append('(* NodalAnalysis._make_equations, line %d: contribution of one connected element to the KCL sum of a node;\n'
               '   va/vb = unknowns of the element\'s first/second node (va0/vb0 their values at 0-) *)' % n['line'])
    out.append('Definition nodal_contrib (at_first : bool) (ceq : K -> K -> K) (va vb va0 vb0 : K) : K :=\n  if at_first then %s else %s.\n' % (n['first'], n['second']))
    out.append('(* lhs - rhs of the constraint written for a node that touches a voltage source *)')
    out.append('Definition nodal_vsrc (vsrc va vb : K) : K := %s.\n' % n['vsrc'])
    m = tr.mesh
    out.append('(* LoopAnalysis._add_mesh_currents: what a mesh that runs n1 -> n2 / n2 -> n1 adds to `current` *)')
    out.append('Definition mesh_credit_fwd : K := %s.\nDefinition mesh_credit_bwd : K := %s.' % (m['credit_fwd'], m['credit_bwd']))
    out.append('(* LoopAnalysis._process_loop, line %d: term added for an element met walking a -> b;\n'
               '   fwd = the element\'s own node order is (a, b); veq = voltage_equation applied to the mesh current (source) or to `current` *)' % m['line'])
    rev = 'fwd' if m['rev_fwd'] else 'negb fwd'
    out.append('Definition mesh_term (is_vs fwd : bool) (veq_val : K) : K :=\n  let v := if is_vs then %sveq_val else %sveq_val in\n'
               '  let v := if %s then - v else v in %sv.\n' % ('' if m['vs_sign'] > 0 else '- ', '' if m['pas_sign'] > 0 else '- ', rev, '' if m['acc'] > 0 else '- '))
    x = tr.ss
    out.append('(* L._ss_model / C._ss_model (mnacpts.py) and StateSpaceMaker.from_circuit: value of the substituted source as a\n'
               '   multiple of the state symbol, and the state variable as a multiple of that source value *)')
    out.append('Definition ss_L_src : K := %s.\nDefinition ss_L_var : K := %s.\nDefinition ss_C_src : K := %s.\nDefinition ss_C_var : K := %s.\n' % (
        x['L_src'], x['L_var'], x['C_src'], x['C_var']))
    out.append('End Gen.')
    out.append('(* LoopAnalysis: are mesh currents credited to the component itself (graph edge) or by adjacency of its node names; '
               'is the walking direction decided from the first node only *)')
    out.append('Definition mesh_credit_by_edge : bool := %s.\nDefinition mesh_fwd_first_only : bool := %s.' % (
        'true' if m['by_edge'] else 'false', 'true' if m['first_only'] else 'false'))
    out.append('(* is_source flag that from_circuit passes to current_sign for the capacitor current i_C / C *)')
    out.append('Definition ss_C_dot_is_source : bool := %s.' % x['C_dot_is_source'])
    for nm in names + ['nodal_contrib', 'nodal_vsrc', 'mesh_credit_fwd', 'mesh_credit_bwd', 'mesh_term', 'ss_L_src', 'ss_L_var', 'ss_C_src', 'ss_C_var']:
        out.append('Arguments %s {K}.' % nm)
    return '\n'.join(out) + '\n'


if __name__ == '__main__':
    import sys
    t = FormulTranslator(sys.argv[1] if len(sys.argv) > 1 else '/repo').translate_all()
    print(emit(t))
