"""C14 worker: runs the REAL lcapy ac (phasor) analysis from /repo and the s-domain
route on the same circuit, and dumps everything as exact Gaussian rationals
("re,im" with re, im = "p/q").

case (mode 'circuit'):
  {"netlist": [lines], "src": [{"name":, "prefix": "V1 1 0", "P": {"<omega>": ["re","im"]}}],
   "omegas": ["p/q", ...] (expected ac kinds), "transfer": optional [n1p, n1m, n2p, n2m]}
result:
  {"kinds": [str], "ac": {"<omega>": {"sub": dump of the ac sub-netlist,
                                      "s": dump of the s-domain sub-netlist of the circuit whose sources are the
                                           s-domain constants P, evaluated at s = j omega,
                                      "unit": [{"name":, "V": {cpt: H}, "I": {cpt: H}}]  unit-source s-domain responses at j omega,
                                      "V": {cpt: phasor}, "I": {cpt: phasor}   reported through the public API }},
   "time": {cpt: {"dc": q, "terms": {"<omega>": [coef cos, coef sin]}, "rest": "0" or str}},
   "transfer": {"<omega>": value of cct.transfer(..)(j*omega)}}
case (mode 'phasor'): {"mode": "phasor", "expr": "3*cos(2*t + pi/2)"}
result: {"P": gq, "omega": q, "time": {"cos": q, "sin": q, "rest": str}}
"""
import sys, json, warnings
warnings.filterwarnings('ignore')
import sympy as sp
from lcapy import Circuit, state, phasor, j, s as lap_s
from lcapy.matrix import matrix_solve
from lcapy.sym import ssym, tsym


def q(x):
    return '%d/%d' % (x.p, x.q)


class MS(list):
    """a list of substitutions: gq(x, MS([...])) returns the MV of the values, one per substitution"""


class MV(list):
    """the values of one quantity at the sample points of a symbolic angular frequency"""


def pick(obj, i):
    """the dump `obj` with every MV replaced by its i-th element"""
    if isinstance(obj, MV):
        return obj[i]
    if isinstance(obj, dict):
        return {k: pick(v, i) for k, v in obj.items()}
    if isinstance(obj, list):
        return [pick(v, i) for v in obj]
    return obj


def gq(x, sub=None):
    """exact Gaussian rational 're,im' of a sympy/lcapy expression (after substitution), else None"""
    if isinstance(sub, MS):
        try:
            x = sp.sympify(getattr(x, 'sympy', x))
        except Exception:
            return MV([None for _ in sub])
        return MV([gq(x, s_) for s_ in sub])
    try:
        x = sp.sympify(getattr(x, 'sympy', x))
        if sub:
            x = x.subs(sub)
        if x.is_Rational:
            return q(x) + ',0/1'
        if x.free_symbols:
            return None
        if x.has(sp.Float):
            x = sp.nsimplify(x, rational=True)
        re, im = x.as_real_imag()
        if not (re.is_Rational and im.is_Rational):
            re, im = sp.simplify(x).as_real_imag()
            re, im = sp.simplify(re), sp.simplify(im)
        if re.is_Rational and im.is_Rational:
            return q(re) + ',' + q(im)
    except Exception:
        return None
    return None


PARAM_ATTRS = [('pY', lambda e: e.Y.sympy), ('pZ', lambda e: e.Z.sympy), ('pIsc', lambda e: e.Isc.sympy),
               ('pVoc', lambda e: e.Voc.sympy),
               ('pAlpha', lambda e: e.cpt.alpha.sympy),
               ('pA11', lambda e: e.cpt.A11.sympy), ('pA12', lambda e: e.cpt.A12.sympy),
               ('pA21', lambda e: e.cpt.A21.sympy), ('pA22', lambda e: e.cpt.A22.sympy),
               ('pY11', lambda e: e.cpt.Y11.sympy), ('pY12', lambda e: e.cpt.Y12.sympy),
               ('pY21', lambda e: e.cpt.Y21.sympy), ('pY22', lambda e: e.cpt.Y22.sympy)]
TP_SRC_BY_CLASS = {}


def dump_sub(sn, sub):
    from lcapy.cexpr import ConstantDomainExpression
    mna = sn.mna
    out = {'kind': str(sn.kind), 'kind_is_str': isinstance(sn.kind, str), 'node_list': list(sn.node_list),
           'node_index': {str(n): int(mna._node_index(n)) for n in sn.nodes},
           'unknown_branch_currents': list(mna.unknown_branch_currents)}
    elts = []
    for elt in sn.elements.values():
        if elt.nosim:
            continue
        d = {'name': elt.name, 'cls': type(elt).__name__, 'type': elt.type,
             'mro': [k.__name__ for k in type(elt).__mro__ if k.__module__.endswith('mnacpts')],
             'leaf': type(elt.cpt).__name__,
             'nodes': [str(n) for n in elt.node_names],
             'nidx': [int(i) for i in mna._cpt_node_indexes(elt)],
             'nargs': len(elt.args), 'ignore': bool(elt.ignore),
             'need_branch_current': bool(elt.need_branch_current),
             'need_extra_branch_current': bool(elt.need_extra_branch_current),
             'is_current_controlled': bool(elt.is_current_controlled),
             'is_source': bool(elt.is_source)}
        try:
            d['has_ic'] = bool(elt.cpt.has_ic)
        except Exception:
            d['has_ic'] = False
        try:
            d['leaf_args'] = [gq(sp.sympify(str(a))) for a in elt.cpt.args]
        except Exception:
            d['leaf_args'] = None
        if elt.is_current_controlled or type(elt).__name__ in ('F', 'H', 'CCCS', 'CCVS'):
            cn = elt.args[0]
            d['ctrl'] = cn
            if cn in sn.elements:
                ce = sn.elements[cn]
                d['ctrl_is_vsrc'] = bool(ce.is_voltage_source)
                d['cidx'] = [int(mna._node_index(n)) for n in ce.node_names[0:2]]
        if elt.type == 'K':
            d['L1'], d['L2'] = elt.Lname1, elt.Lname2
        params = {}
        for nm, f in PARAM_ATTRS:
            try:
                params[nm] = gq(f(elt), sub)
            except Exception:
                pass
        for k in (0, 1):
            if len(elt.args) > k:
                try:
                    params['pArg%d' % k] = gq(ConstantDomainExpression(elt.args[k]).sympy, sub)
                except Exception:
                    pass
        src = False
        attrs = []
        for k in type(elt).__mro__:
            attrs += TP_SRC_BY_CLASS.get(k.__name__, [])
        for a in attrs:
            try:
                if getattr(elt.cpt, a) != 0:
                    src = True
            except Exception:
                pass
        d['tp_has_src'] = src
        if elt.type == 'K':
            # textbook mutual impedance  j w K sqrt(L1 L2)  (NOT read from the stamp)
            try:
                L1 = sp.sympify(str(sn.elements[elt.Lname1].cpt.args[0]))
                L2 = sp.sympify(str(sn.elements[elt.Lname2].cpt.args[0]))
                kk = sp.sympify(str(elt.cpt.args[2])) if len(elt.cpt.args) > 2 else elt.cpt.K.sympy
                var = ssym if isinstance(sn.kind, str) else sp.I * sp.sympify(sn.kind)
                params['pZM0'] = params['pZM1'] = gq(var * kk * sp.sqrt(L1 * L2), sub)
            except Exception:
                pass
        d['params'] = params
        elts.append(d)
    out['elements'] = elts
    A, Z = mna._A, mna._Z
    out['A'] = [[gq(A[i, k], sub) for k in range(A.shape[1])] for i in range(A.shape[0])]
    out['Z'] = [gq(Z[i], sub) for i in range(Z.shape[0])]
    try:
        x = matrix_solve(A, Z, method=str(sn.solver_method))
        out['x'] = [gq(x[i], sub) for i in range(x.shape[0])]
    except Exception as e:
        out['x_error'] = type(e).__name__ + ': ' + str(e)[:120]
    try:
        mna._solve()
        out['Vdict'] = {str(k): gq(v, sub) for k, v in mna._Vdict.items()}
        out['Idict'] = {str(k): gq(v, sub) for k, v in mna._Idict.items()}
    except Exception as e:
        out['solve_error'] = type(e).__name__ + ': ' + str(e)[:200]
    return out


def fresp_dump(H, w):
    """frequency-response read-out of a transfer function: through the generic H(jomega) at omega = w ('g')
    and through the constant H(j w) ('c'): real, imag, magnitude^2, magnitude e^{j phase}, 10^(dB/10), sign of magnitude"""
    from lcapy import jomega
    from lcapy.sym import omegasym
    out = {}
    for tag, X, fs in (('g', H(jomega), {omegasym: w}), ('c', H(j * w), None)):
        mag, ph, db = sp.sympify(X.magnitude.sympy), sp.sympify(X.phase.sympy), sp.sympify(X.dB.sympy)
        d = {'re': gq(X.real, fs), 'im': gq(X.imag, fs), 'mag2': gq(mag ** 2, fs),
             'polar': gq(mag * sp.exp(sp.I * ph), fs), 'db10': gq(sp.Integer(10) ** (db / 10), fs),
             'abs2': gq(sp.sympify(X.abs.sympy) ** 2, fs), 'angle_same': bool(sp.simplify(sp.sympify(X.angle.sympy) - ph) == 0),
             'deg': gq(sp.sympify(X.phase_degrees.sympy) * sp.pi / 180 - ph, fs)}
        mv = mag.subs(fs) if fs else mag
        if d['db10'] is None and d['mag2'] == '0/1,0/1':
            dv = db.subs(fs) if fs else db
            if dv in (-sp.oo, sp.zoo) or sp.simplify(dv) in (-sp.oo, sp.zoo):
                d['db10'] = '0/1,0/1'          # |H| = 0: dB is -infinity, 10^(dB/10) = 0
        d['mag_nonneg'] = bool(sp.N(mv, 30) >= 0)
        out[tag] = d
    return out


def mk(lines):
    c = Circuit()
    for l in lines:
        c.add(l)
    return c


def cval(re, im):
    re, im = sp.Rational(re), sp.Rational(im)
    return '{%s + (%s)*j}' % (re, im)


def time_parts(expr, omegas):
    """coefficients of cos(w t), sin(w t) and the constant of a real t-domain expression"""
    e = sp.expand(sp.sympify(expr))
    res = {'terms': {}}
    rest = e
    for w in omegas:
        ws = sp.Rational(w)
        cc = e.coeff(sp.cos(ws * tsym))
        sc = e.coeff(sp.sin(ws * tsym))
        res['terms'][w] = [gq(cc), gq(sc)]
        rest = rest - cc * sp.cos(ws * tsym) - sc * sp.sin(ws * tsym)
    rest = sp.expand(rest)
    if rest.free_symbols:
        rest = sp.simplify(rest)
    if rest.free_symbols:
        res['dc'] = None
        res['rest'] = str(rest)
    else:
        res['dc'] = gq(rest)
        res['rest'] = '0'
    return res


def run_circuit(case):
    TP_SRC_BY_CLASS.clear()
    TP_SRC_BY_CLASS.update(case.get('tp_src', {}))
    state.current_sign_convention = 'passive'
    c = mk(case['netlist'])
    res = {'kinds': [str(k) for k in c.kinds], 'ac': {}, 'time': {}, 'transfer': {}}
    names = [n for n, e in c.elements.items() if not (e.nosim or e.ignore) and e.type not in ('K', 'W', 'O', 'P')]
    srcnames = {d['name']: d for d in case['src']}
    for kind, sn in c.sub.items():
        if isinstance(kind, str):
            continue
        w = sp.nsimplify(sp.sympify(kind))
        if not w.is_Rational and case.get('omega_points'):
            sym_kind(c, case, kind, sn, names, srcnames, res)
            continue
        if not w.is_Rational or case.get('sym_subs'):
            if case.get('omega_subs') or (case.get('sym_subs') and w.is_Rational):
                # symbolic angular frequency / symbolic component or source values: report the phasors with the
                # symbols replaced by rational values (compared by the search oracle only)
                if w.is_Rational:
                    wv, ssub = w, {}
                else:
                    wv = sp.Rational(case['omega_subs'])
                    ssub = {sy: wv for sy in w.free_symbols}
                symvals = {k_: sp.Rational(v_) for k_, v_ in case.get('sym_subs', {}).items()}
                out = {'symbolic': str(kind), 'V': {}, 'I': {}}
                for nm in names:
                    for attr, dst in (('V', out['V']), ('I', out['I'])):
                        try:
                            sup = getattr(c[nm], attr)
                            val = None
                            for k, v in sup.items():
                                if not isinstance(k, str) and sp.simplify(sp.sympify(k) - sp.sympify(kind)) == 0:
                                    val = v
                            if val is not None:
                                vs_ = sp.sympify(val.sympy)
                                ssub2 = dict(ssub)
                                ssub2.update({sy: symvals[sy.name] for sy in vs_.free_symbols if sy.name in symvals})
                                dst[nm] = gq(vs_, ssub2)
                            else:
                                dst[nm] = '0/1,0/1'
                        except Exception as e:
                            dst[nm] = {'error': type(e).__name__ + ': ' + str(e)[:100]}
                res['ac'][q(wv)] = out
            else:
                res['ac'][str(kind)] = {'error': 'non-rational omega'}
            continue
        ws = q(w)
        sub = {ssym: sp.I * w}
        out = {'sub': dump_sub(sn, None)}
        # the s-domain circuit driven by the source phasors of this frequency
        lines = []
        for l in case['netlist']:
            nm = l.split()[0]
            if nm in srcnames:
                P = srcnames[nm]['P'].get(ws, ['0', '0'])
                lines.append('%s s %s' % (srcnames[nm]['prefix'], cval(P[0], P[1])))
            else:
                lines.append(l)
        try:
            cs = mk(lines)
            ks = [k for k in cs.sub.keys()]
            if len(ks) != 1 or not isinstance(ks[0], str):
                out['s'] = {'error': 'unexpected kinds %s' % ks}
            else:
                out['s'] = dump_sub(cs.sub[ks[0]], sub)
        except Exception as e:
            out['s'] = {'error': type(e).__name__ + ': ' + str(e)[:200]}
        # unit-source responses (transfer functions) through the s-domain route
        unit = []
        for d in case['src']:
            P = d['P'].get(ws)
            if not P or (sp.Rational(P[0]) == 0 and sp.Rational(P[1]) == 0):
                continue
            ul = []
            for l in case['netlist']:
                nm = l.split()[0]
                if nm in srcnames:
                    ul.append('%s s %s' % (srcnames[nm]['prefix'], '1' if nm == d['name'] else '0'))
                else:
                    ul.append(l)
            u = {'name': d['name'], 'V': {}, 'I': {}}
            try:
                cu = mk(ul)
                for nm in names:
                    try:
                        u['V'][nm] = gq(cu[nm].V(lap_s), sub)
                    except Exception as e:
                        u['V'][nm] = None
                    try:
                        u['I'][nm] = gq(cu[nm].I(lap_s), sub)
                    except Exception as e:
                        u['I'][nm] = None
            except Exception as e:
                u['error'] = type(e).__name__ + ': ' + str(e)[:200]
            unit.append(u)
        out['unit'] = unit
        # reported phasors (public API)
        out['V'], out['I'] = {}, {}
        for nm in names:
            for attr, dst in (('V', out['V']), ('I', out['I'])):
                try:
                    sup = getattr(c[nm], attr)
                    val = None
                    for k, v in sup.items():
                        if not isinstance(k, str) and sp.nsimplify(sp.sympify(k)) == w:
                            val = v
                    dst[nm] = gq(val) if val is not None else '0/1,0/1'
                except Exception as e:
                    dst[nm] = {'error': type(e).__name__ + ': ' + str(e)[:100]}
        # impedances used by the ac analysis vs the s-domain ones at j omega
        imm = {}
        for nm, e in sn.elements.items():
            if type(e.cpt).__name__ in ('R', 'G', 'L', 'C', 'CPE', 'Y', 'Z', 'NR'):
                try:
                    imm[nm] = {'Zac': gq(e.Z), 'Yac': gq(e.Y), 'Zpub': gq(c[nm].Z(sp.I * w)) if False else None,
                               'Zs': gq(e.cpt.Z(lap_s), sub), 'Ys': gq(e.cpt.Y(lap_s), sub)}
                except Exception as ex:
                    imm[nm] = {'error': type(ex).__name__}
        out['imm'] = imm
        if case.get('transfer'):
            try:
                # first the ladder-network shortcut that transfer() tries (inside a bare try/except) on its own:
                # which route will produce the answer, and does the search terminate at all?
                with cpu_limit(int(case.get('transfer_cpu_s', 15))):
                    out['transfer_ladder'] = c._ladder(*case['transfer']) is not None
            except CpuTimeout as e:
                out['transfer'] = {'error': 'hang: the ladder search of transfer() does not terminate', 'hang': True, 'where': e.where}
            except Exception:
                out['transfer_ladder'] = False
            if 'transfer' not in out:
                try:
                    with cpu_limit(int(case.get('transfer_cpu_s', 15)) * 4):
                        H = c.transfer(*case['transfer'])
                    out['transfer'] = gq(H(j * w))
                    out['transfer_s'] = gq(H, sub)
                    if case.get('fresp', True):
                        try:
                            out['fresp'] = fresp_dump(H, w)
                        except Exception as e:
                            out['fresp'] = {'error': type(e).__name__ + ': ' + str(e)[:120]}
                except CpuTimeout as e:
                    out['transfer'] = {'error': 'hang: transfer() used more than its CPU budget', 'hang': True, 'where': e.where}
                except Exception as e:
                    out['transfer'] = {'error': type(e).__name__ + ': ' + str(e)[:150]}
        res['ac'][ws] = out
    if case.get('omega_points'):
        sym_time(c, case, names, res)
    elif case.get('want_time', True) and not case.get('omega_subs') and not case.get('sym_subs'):
        oms = list(res['ac'].keys())
        for nm in names[:case.get('ntime', 4)]:
            try:
                res['time'][nm] = time_parts(c[nm].v.sympy, oms)
            except Exception as e:
                res['time'][nm] = {'error': type(e).__name__ + ': ' + str(e)[:100]}
    return res


def rdeg(x, sy):
    """(degree of numerator) + (degree of denominator) of a rational function of the symbol sy; None when it is not one"""
    x = sp.sympify(getattr(x, 'sympy', x))
    if not x.has(sy):
        return 0
    n, d = sp.fraction(sp.cancel(sp.together(x)))
    pn, pd = sp.Poly(n, sy), sp.Poly(d, sy)
    return int(pn.degree()) + int(pd.degree())


def sym_kind(c, case, kind, sn, names, srcnames, res):
    """an ac sub-netlist whose angular frequency is a SYMBOL: everything the numeric route dumps, as rational
    functions of the symbol evaluated at the sample points case['omega_points'][symbol] (as many of them as the
    degree bound asks for); one result per point under res['ac'][<value>] with 'sympoint' = {sym, i, ...}"""
    name = str(kind)
    pts = case['omega_points'].get(name)
    if not kind.is_Symbol or not pts:
        res['ac'][name] = {'error': 'symbolic omega without sample points'}
        return
    pts = [sp.Rational(p) for p in pts]
    mna = sn.mna
    A, Z = mna._A, mna._Z
    # degree bounds (numerator + denominator degrees in the symbol)
    try:
        dA = max([rdeg(A[i, k], kind) for i in range(A.shape[0]) for k in range(A.shape[1])] + [rdeg(Z[i], kind) for i in range(Z.shape[0])])
        x = matrix_solve(A, Z, method=str(sn.solver_method))
        dx = max([rdeg(x[i], kind) for i in range(x.shape[0])] + [0])
    except Exception as e:
        res['ac'][name] = {'error': 'degree: ' + type(e).__name__ + ': ' + str(e)[:100]}
        return
    # entries: real entry (dA) against a model entry a + b (j w) + c / (j w) (degrees 2 + 1): cross degree <= dA + 3;
    # solutions: ac solution against the s-domain solution at j w, both of degree <= dx: cross degree <= 2 dx
    bound = max(dA + 3, 2 * dx)
    # sample points at which every entry and every solution component is finite (no pole of the system at the point)
    good, gidx = [], []
    for pi_, p in enumerate(pts):
        try:
            vals = [x[i].subs(kind, p) for i in range(x.shape[0])] + [A[i, k].subs(kind, p) for i in range(A.shape[0]) for k in range(A.shape[1])]
            if all(v.is_finite for v in vals):
                good.append(p)
                gidx.append(pi_)
        except Exception:
            pass
        if len(good) > bound:
            break
    pts = good
    npts = len(pts)
    if not npts:
        res['ac'][name] = {'error': 'no admissible sample point'}
        return
    acsub = MS([{kind: p} for p in pts])
    ssub = MS([{ssym: sp.I * p} for p in pts])
    out = {'sub': dump_sub(sn, acsub)}
    lines = []
    for l in case['netlist']:
        nm = l.split()[0]
        if nm in srcnames:
            P = srcnames[nm]['P'].get(name, ['0', '0'])
            lines.append('%s s %s' % (srcnames[nm]['prefix'], cval(P[0], P[1])))
        else:
            lines.append(l)
    try:
        cs = mk(lines)
        ks = [k for k in cs.sub.keys()]
        if len(ks) != 1 or not isinstance(ks[0], str):
            out['s'] = {'error': 'unexpected kinds %s' % ks}
        else:
            out['s'] = dump_sub(cs.sub[ks[0]], ssub)
    except Exception as e:
        out['s'] = {'error': type(e).__name__ + ': ' + str(e)[:200]}
    unit = []
    for d in case['src']:
        P = d['P'].get(name)
        if not P or (sp.Rational(P[0]) == 0 and sp.Rational(P[1]) == 0):
            continue
        ul = []
        for l in case['netlist']:
            nm = l.split()[0]
            if nm in srcnames:
                ul.append('%s s %s' % (srcnames[nm]['prefix'], '1' if nm == d['name'] else '0'))
            else:
                ul.append(l)
        u = {'name': d['name'], 'V': {}, 'I': {}}
        try:
            cu = mk(ul)
            for nm in names:
                try:
                    u['V'][nm] = gq(cu[nm].V(lap_s), ssub)
                except Exception as e:
                    u['V'][nm] = None
                try:
                    u['I'][nm] = gq(cu[nm].I(lap_s), ssub)
                except Exception as e:
                    u['I'][nm] = None
        except Exception as e:
            u['error'] = type(e).__name__ + ': ' + str(e)[:200]
        unit.append(u)
    out['unit'] = unit
    out['V'], out['I'] = {}, {}
    for nm in names:
        for attr, dst in (('V', out['V']), ('I', out['I'])):
            try:
                sup = getattr(c[nm], attr)
                val = None
                for k, v in sup.items():
                    if not isinstance(k, str) and sp.sympify(k) == kind:
                        val = v
                dst[nm] = gq(val, acsub) if val is not None else '0/1,0/1'
            except Exception as e:
                dst[nm] = {'error': type(e).__name__ + ': ' + str(e)[:100]}
    imm = {}
    for nm, e in sn.elements.items():
        if type(e.cpt).__name__ in ('R', 'G', 'L', 'C', 'CPE', 'Y', 'Z', 'NR'):
            try:
                imm[nm] = {'Zac': gq(e.Z, acsub), 'Yac': gq(e.Y, acsub), 'Zpub': None,
                           'Zs': gq(e.cpt.Z(lap_s), ssub), 'Ys': gq(e.cpt.Y(lap_s), ssub)}
            except Exception as ex:
                imm[nm] = {'error': type(ex).__name__}
    out['imm'] = imm
    if case.get('transfer'):
        try:
            with cpu_limit(int(case.get('transfer_cpu_s', 15))):
                out['transfer_ladder'] = c._ladder(*case['transfer']) is not None
        except CpuTimeout as e:
            out['transfer'] = {'error': 'hang: the ladder search of transfer() does not terminate', 'hang': True, 'where': e.where}
        except Exception:
            out['transfer_ladder'] = False
        if 'transfer' not in out:
            try:
                from lcapy import expr as lexpr
                with cpu_limit(int(case.get('transfer_cpu_s', 15)) * 4):
                    H = c.transfer(*case['transfer'])
                # H(j w) with the SYMBOLIC angular frequency, through the public call
                out['transfer'] = gq(H(j * lexpr(kind)), acsub)
                out['transfer_s'] = gq(H, ssub)
            except CpuTimeout as e:
                out['transfer'] = {'error': 'hang: transfer() used more than its CPU budget', 'hang': True, 'where': e.where}
            except Exception as e:
                out['transfer'] = {'error': type(e).__name__ + ': ' + str(e)[:150]}
    for i, p in enumerate(pts):
        o = pick(out, i)
        # 'i' indexes case['omega_points'][name] (points at which the system has a pole are skipped), 'k' counts the points used
        o['sympoint'] = {'sym': name, 'i': gidx[i], 'k': i, 'n': npts, 'bound': bound, 'deg_entries': dA, 'deg_solution': dx,
                         'points': [q(x_) for x_ in pts]}
        res['ac'][q(p)] = o


def sym_time(c, case, names, res):
    """v(t) of the first elements with every symbolic angular frequency replaced by its i-th sample value"""
    op = case['omega_points']
    n = min(len(v) for v in op.values())
    res['time_pts'] = {}
    exprs = {}
    for nm in names[:case.get('ntime', 3)]:
        try:
            exprs[nm] = sp.sympify(c[nm].v.sympy)
        except Exception as e:
            exprs[nm] = None
    for i in range(n):
        vals = {name: sp.Rational(v[i]) for name, v in op.items()}
        oms = [q(v) for v in vals.values()]
        tp = {}
        for nm, ex in exprs.items():
            if ex is None:
                tp[nm] = {'error': 'v(t) unavailable'}
                continue
            try:
                ei = ex.subs({sy: vals[sy.name] for sy in ex.free_symbols if sy.name in vals})
                tp[nm] = time_parts(ei, oms)
            except Exception as e:
                tp[nm] = {'error': type(e).__name__ + ': ' + str(e)[:100]}
        res['time_pts'][str(i)] = tp


def run_phasor(case):
    ex = case['expr']
    try:
        p = phasor(ex)
    except ValueError as e:
        if 'Expecting an AC signal' in str(e) or 'not sin/cos' in str(e):
            return {'refused': str(e)[:160]}
        raise
    w = sp.nsimplify(sp.sympify(getattr(p.omega, 'sympy', p.omega)))
    res = {'P': gq(p), 'omega': q(w) if w.is_Rational else None}
    tt = p.time().sympy
    res['time'] = time_parts(tt, [res['omega']]) if res['omega'] else None
    res['time_str'] = str(tt)
    # search-oracle part (numeric, 40 digits, at rational sample points - used only to SEARCH for a failing input):
    #  - the phasor is (coefficient of cos(w t)) - j (coefficient of sin(w t)):  a = x(0), b = x(pi / (2 w))
    #  - sinusoid -> phasor -> time gives back the same sinusoid
    def mag(e, tv=None):
        """|e| evaluated with 40 digits (symbols other than t at 3/7, t at tv)"""
        e = sp.sympify(e)
        sub = {x: sp.Rational(3, 7) for x in e.free_symbols if x != tsym}
        if tv is not None:
            sub[tsym] = tv
        return abs(sp.N(e.subs(sub), 40, chop=True))
    try:
        from lcapy import expr as lexpr
        orig = lexpr(ex).sympy
        pts = (sp.Rational(1, 3), sp.Rational(7, 5), sp.Rational(-2, 7))
        tol = sp.Float('1e-25')
        res['diff_zero'] = bool(max(mag(tt - orig, tv) for tv in pts) < tol)
        if case.get('w'):
            wv = sp.Rational(case['w'])
            a_ = orig.subs(tsym, 0)
            b_ = orig.subs(tsym, sp.pi / (2 * wv))
            if bool(max(mag(orig - a_ * sp.cos(wv * tsym) - b_ * sp.sin(wv * tsym), tv) for tv in pts) < tol):
                res['expected_ok'] = bool(w == wv) and bool(mag(sp.sympify(p.sympy) - (a_ - sp.I * b_)) < tol)
                if not res['expected_ok']:
                    res['expected'] = 'omega %s, phasor %s' % (wv, sp.simplify(a_ - sp.I * b_))
                    res['got'] = 'omega %s, phasor %s' % (w, p.sympy)
    except Exception as e:
        res['diff_error'] = type(e).__name__ + ': ' + str(e)[:100]
    return res


def run_symphase(case):
    """ac sources with a symbolic phase phi: every reported phasor must be exp(j phi) times the one obtained
    with phase 0 (single-frequency circuits whose sources all carry the same phi).  40-digit evaluation at phi = 3/7."""
    c1 = mk([l.replace('PHI', 'phi') for l in case['netlist']])
    c0 = mk([l.replace('PHI', '0') for l in case['netlist']])
    phi = sp.Symbol('phi')
    bad = []
    n = 0
    for nm, e in c1.elements.items():
        if e.nosim or e.ignore or e.type in ('K', 'W', 'O', 'P'):
            continue
        for attr in ('V', 'I'):
            try:
                s1, s0 = getattr(c1[nm], attr), getattr(c0[nm], attr)
            except Exception:
                continue
            k1 = {str(k): v for k, v in s1.items()}
            k0 = {str(k): v for k, v in s0.items()}
            if set(k1) != set(k0):
                bad.append('%s.%s: kinds %s vs %s' % (nm, attr, sorted(k1), sorted(k0)))
                continue
            for k in k1:
                if not hasattr(k1[k], 'omega') or not hasattr(k0[k], 'omega'):
                    continue      # not a phasor (e.g. the time-domain kind of a circuit without reactive components)
                d = sp.sympify(k1[k].sympy) - sp.exp(sp.I * phi) * sp.sympify(k0[k].sympy)
                d = d.subs({x: sp.Rational(3, 7) for x in d.free_symbols})
                n += 1
                if not bool(abs(sp.N(d, 40, chop=True)) < sp.Float('1e-25')):
                    bad.append('%s.%s[%s] = %s, expected exp(j phi) * %s' % (nm, attr, k, k1[k], k0[k]))
    return {'compared': n, 'bad': bad[:5]}


def run_ode(case):
    """series RC / RL / RLC driven by V1 (nodes 1-0): substitute the reconstructed time-domain
    response into the circuit's differential equation"""
    c = mk(case['netlist'])
    vs = c.V1.v.sympy
    t = tsym
    if case['ode'] == 'RC':
        R, C = sp.sympify(str(c.R1.cpt.args[0])), sp.sympify(str(c.C1.cpt.args[0]))
        vc = c.C1.v.sympy
        r = R * C * sp.diff(vc, t) + vc - vs
    elif case['ode'] == 'RL':
        R, L = sp.sympify(str(c.R1.cpt.args[0])), sp.sympify(str(c.L1.cpt.args[0]))
        i = c.L1.i.sympy
        r = L * sp.diff(i, t) + R * i - vs
    else:
        R, L, C = [sp.sympify(str(c[n].cpt.args[0])) for n in ('R1', 'L1', 'C1')]
        vc = c.C1.v.sympy
        r = L * C * sp.diff(vc, t, 2) + R * C * sp.diff(vc, t) + vc - vs
    r = sp.simplify(sp.expand(r))
    out = {'residual': str(r)}
    if r == 0:
        out['residual_zero'] = True
    else:
        vals = [abs(sp.N(r.subs(t, tv), 40, chop=True)) for tv in (sp.Rational(1, 3), sp.Rational(7, 5), sp.Rational(-2, 7))]
        out['residual_zero'] = bool(max(vals) < sp.Float('1e-25'))
    return out


def run(case):
    if case.get('mode') == 'phasor':
        return run_phasor(case)
    if case.get('mode') == 'ode':
        return run_ode(case)
    if case.get('mode') == 'symphase':
        return run_symphase(case)
    return run_circuit(case)


class CaseTimeout(BaseException):
    pass


class CpuTimeout(Exception):
    def __init__(self, where):
        Exception.__init__(self, 'cpu budget exceeded')
        self.where = where


def _vtalarm(signum, frame):
    where = []
    f = frame
    while f is not None and len(where) < 12:
        where.append('%s:%s' % (f.f_code.co_filename.split('/')[-1], f.f_code.co_name))
        f = f.f_back
    raise CpuTimeout(where)


class cpu_limit(object):
    """raise CpuTimeout when the enclosed code uses more than `sec` seconds of PROCESS CPU time
    (ITIMER_VIRTUAL: independent of the load of the machine)"""

    def __init__(self, sec):
        self.sec = sec

    def __enter__(self):
        import signal
        signal.signal(signal.SIGVTALRM, _vtalarm)
        signal.setitimer(signal.ITIMER_VIRTUAL, self.sec)

    def __exit__(self, *a):
        import signal
        signal.setitimer(signal.ITIMER_VIRTUAL, 0)
        return False


def _alarm(signum, frame):
    raise CaseTimeout()


def main():
    import signal
    try:
        import resource
        resource.setrlimit(resource.RLIMIT_AS, (10 * 2 ** 30, 10 * 2 ** 30))
    except Exception:
        pass
    signal.signal(signal.SIGALRM, _alarm)
    cases = json.load(sys.stdin)
    out = []
    for c in cases:
        try:
            signal.alarm(int(c.get('timeout', 300)))
            try:
                out.append(run(c))
            finally:
                signal.alarm(0)
        except CaseTimeout:
            out.append({'error': 'timeout: case exceeded its time budget'})
        except Exception as e:
            import traceback
            out.append({'error': type(e).__name__ + ': ' + str(e)[:300], 'tb': traceback.format_exc()[-600:]})
    json.dump(out, sys.stdout)


main()
