"""Fail-closed translator for C06: netlist grammar tables -> Coq.

Reads the *source text* (never imports or runs it) of
  lcapy/grammar.py      module-level  delimiters / comments / rules / params  string constants
  lcapy/valueparser.py  the  suffixes = {'f': 1e-15, ...}  dict inside value_parser
  lcapy/parser.py       guards: the anonymous-type tuple and the component-name regex in Parser
  lcapy/mnacpts.py      guards: `from .grammar import delimiters`, the anonymous-type tuple of _netmake1
and emits Gen/ParserGrammarGen.v, in which the four grammar strings are Coq
string literals.  The Coq model (LT.ParserModel.mk_grammar, a mirror of
Parser._add_param/_add_rule) parses those strings itself, so any edit of the
grammar changes the model and every theorem instantiated on it.

Recognised subset (anything else raises Untranslatable with file:line):
  grammar.py     : `NAME = <str constant>` at module level for the four names, each
                   assigned exactly once; all characters ASCII
  valueparser.py : inside `def value_parser`, one `suffixes = { '<char>': <float literal> ... }`
                   whose values are written as 1e<int> (read from the source text, not
                   from the float); `if arg.endswith('Meg'): arg = arg[0:-K] + 'M'` and
                   `elif arg.endswith('K'): arg = arg[0:-J] + 'k'` (K, J are translated)
  printer consts : the single '<s>'.join(..) and `net += '<s>' + ..` of Cpt._netmake1, the single '<s>'.join(..) and
                   '<f>' % (..) of Opts.format, `cpt_type + '<s>'` of _make_anon_cpt_name (translated; compared with the
                   model's literals by the generated theorem printer_constants_guard)
  guards         : a Tuple of str constants compared with `cpt_type in (...)` /
                   `relname[0] in (...)`; `re.compile(<str> % '|'.join(cpts))`
"""
import ast
import hashlib
import os
import re


class Untranslatable(Exception):
    pass


def fail(fname, node, why):
    raise Untranslatable('%s:%s: %s' % (fname, getattr(node, 'lineno', '?'), why))


def coq_str(s):
    """Coq term of type str (= list ascii) for the Python str s"""
    if all(32 <= ord(c) < 127 or c == '\n' for c in s):
        return '(s2l "%s")' % s.replace('"', '""')
    if any(ord(c) > 127 for c in s):
        raise Untranslatable('non-ASCII character in a grammar string')
    return '[' + '; '.join('ch %d' % ord(c) for c in s) + ']'


class Grammar:
    def __init__(self, repo):
        self.repo = repo
        self.files = {}
        self.read_grammar()
        self.read_suffixes()
        self.read_guards()
        self.read_printer_constants()
        self.read_namer()

    def load(self, rel):
        p = os.path.join(self.repo, rel)
        try:
            src = open(p).read()
        except OSError as e:
            raise Untranslatable('%s: cannot read (%s)' % (rel, e))
        self.files[rel] = hashlib.sha256(src.encode()).hexdigest()
        try:
            import warnings
            with warnings.catch_warnings():
                warnings.simplefilter('ignore')
                return src, ast.parse(src)
        except SyntaxError as e:
            raise Untranslatable('%s: %s' % (rel, e))

    # ---------------------------------------------------------------
    def read_grammar(self):
        rel = 'lcapy/grammar.py'
        src, tree = self.load(rel)
        want = {'delimiters', 'comments', 'rules', 'params'}
        got = {}
        for n in tree.body:
            if isinstance(n, ast.Expr) and isinstance(n.value, ast.Constant) and isinstance(n.value.value, str):
                continue   # docstring
            if isinstance(n, (ast.Import, ast.ImportFrom)):
                fail(rel, n, 'imports are not expected in the grammar module')
            if isinstance(n, ast.Assign):
                if len(n.targets) != 1 or not isinstance(n.targets[0], ast.Name):
                    fail(rel, n, 'unsupported assignment target')
                name = n.targets[0].id
                if name in want:
                    if name in got:
                        fail(rel, n, '%s assigned twice' % name)
                    if not (isinstance(n.value, ast.Constant) and isinstance(n.value.value, str)):
                        fail(rel, n, '%s is not a string constant' % name)
                    got[name] = (n.value.value, n.lineno)
                continue
            fail(rel, n, 'unsupported module-level statement ' + type(n).__name__)
        for w in want:
            if w not in got:
                raise Untranslatable('%s: %s not defined' % (rel, w))
        self.delimiters, self.comments = got['delimiters'][0], got['comments'][0]
        self.rules, self.params = got['rules'][0], got['params'][0]
        self.lines = {k: v[1] for k, v in got.items()}
        if self.delimiters == '':
            raise Untranslatable('%s: empty delimiters' % rel)

    # ---------------------------------------------------------------
    def read_suffixes(self):
        rel = 'lcapy/valueparser.py'
        src, tree = self.load(rel)
        fn = [n for n in tree.body if isinstance(n, ast.FunctionDef) and n.name == 'value_parser']
        if len(fn) != 1:
            raise Untranslatable('%s: value_parser not found' % rel)
        tab = None
        for n in ast.walk(fn[0]):
            if isinstance(n, ast.Assign) and len(n.targets) == 1 and isinstance(n.targets[0], ast.Name) \
                    and n.targets[0].id == 'suffixes':
                if tab is not None:
                    fail(rel, n, 'suffixes assigned twice')
                if not isinstance(n.value, ast.Dict):
                    fail(rel, n, 'suffixes is not a dict display')
                tab = []
                for k, v in zip(n.value.keys, n.value.values):
                    if not (isinstance(k, ast.Constant) and isinstance(k.value, str) and len(k.value) == 1 and ord(k.value) < 128):
                        fail(rel, n, 'suffix key is not a one-character ASCII string')
                    txt = ast.get_source_segment(src, v)
                    m = re.fullmatch(r'1e([+-]?\d+)', txt or '')
                    if not m:
                        fail(rel, v, 'suffix value %r is not of the form 1e<int>' % txt)
                    tab.append((k.value, int(m.group(1))))
        if tab is None:
            raise Untranslatable('%s: suffixes table not found' % rel)
        self.suffixes = tab
        # the two alias rewrites:  if arg.endswith('Meg'): arg = arg[0:-K] + 'M'  elif arg.endswith('K'): arg = arg[0:-J] + 'k'
        cuts = {}
        for n in ast.walk(fn[0]):
            if isinstance(n, ast.If) and isinstance(n.test, ast.Call) and isinstance(n.test.func, ast.Attribute) \
                    and n.test.func.attr == 'endswith' and ast.unparse(n.test.func.value) == 'arg' \
                    and len(n.test.args) == 1 and isinstance(n.test.args[0], ast.Constant) and n.test.args[0].value in ('Meg', 'K'):
                which = n.test.args[0].value
                if len(n.body) != 1:
                    fail(rel, n, 'unsupported body of the %s alias' % which)
                m = re.fullmatch(r"arg = arg\[0:-(\d+)\] \+ '(\w)'", ast.unparse(n.body[0]))
                if not m or m.group(2) != {'Meg': 'M', 'K': 'k'}[which]:
                    fail(rel, n, 'unsupported rewrite for the %s alias: %s' % (which, ast.unparse(n.body[0])))
                if which in cuts:
                    fail(rel, n, '%s alias handled twice' % which)
                cuts[which] = int(m.group(1))
        if set(cuts) != {'Meg', 'K'}:
            raise Untranslatable('%s: expected the Meg and K alias rewrites, found %s' % (rel, sorted(cuts)))
        self.meg_cut, self.k_cut = cuts['Meg'], cuts['K']

    # ---------------------------------------------------------------
    def str_tuple(self, rel, node):
        if not isinstance(node, ast.Tuple) or not all(isinstance(e, ast.Constant) and isinstance(e.value, str) for e in node.elts):
            fail(rel, node, 'expected a tuple of string constants')
        return [e.value for e in node.elts]

    def read_guards(self):
        rel = 'lcapy/parser.py'
        src, tree = self.load(rel)
        anon = []
        pattern = []
        for n in ast.walk(tree):
            if isinstance(n, ast.Compare) and len(n.ops) == 1 and isinstance(n.ops[0], ast.In) \
                    and isinstance(n.left, ast.Name) and n.left.id == 'cpt_type':
                anon.append(self.str_tuple(rel, n.comparators[0]))
            if isinstance(n, ast.Call) and isinstance(n.func, ast.Attribute) and n.func.attr == 'compile' \
                    and isinstance(n.func.value, ast.Name) and n.func.value.id == 're':
                a = n.args[0] if n.args else None
                if not (isinstance(a, ast.BinOp) and isinstance(a.op, ast.Mod) and isinstance(a.left, ast.Constant)
                        and isinstance(a.left.value, str)):
                    fail(rel, n, 're.compile argument is not "<str>" % ...')
                if ast.unparse(a.right) != "'|'.join(cpts)":
                    fail(rel, n, 'unexpected regex argument ' + ast.unparse(a.right))
                pattern.append(a.left.value)
        if len(anon) != 1:
            raise Untranslatable('%s: expected exactly one `cpt_type in (...)` test, found %d' % (rel, len(anon)))
        if len(pattern) != 1:
            raise Untranslatable('%s: expected exactly one re.compile, found %d' % (rel, len(pattern)))
        self.anon_parse = anon[0]
        self.cpt_pattern = pattern[0]
        # sort key of the type alternatives
        srt = [n for n in ast.walk(tree) if isinstance(n, ast.Call) and isinstance(n.func, ast.Name) and n.func.id == 'sorted']
        if len(srt) != 1 or ast.unparse(srt[0]) != 'sorted(self.ruledict.keys(), key=len, reverse=True)':
            raise Untranslatable('%s: component types are not sorted longest-first' % rel)

        rel = 'lcapy/mnacpts.py'
        src, tree = self.load(rel)
        imp = [n for n in tree.body if isinstance(n, ast.ImportFrom) and n.module == 'grammar' and n.level == 1]
        if not any(a.name == 'delimiters' and a.asname is None for n in imp for a in n.names):
            raise Untranslatable('%s: the printer no longer takes `delimiters` from .grammar' % rel)
        cpt = [n for n in tree.body if isinstance(n, ast.ClassDef) and n.name == 'Cpt']
        if len(cpt) != 1:
            raise Untranslatable('%s: class Cpt not found' % rel)
        nm = [n for n in cpt[0].body if isinstance(n, ast.FunctionDef) and n.name == '_netmake1']
        if len(nm) != 1:
            raise Untranslatable('%s: Cpt._netmake1 not found' % rel)
        anon = []
        for n in ast.walk(nm[0]):
            if isinstance(n, ast.Compare) and len(n.ops) == 1 and isinstance(n.ops[0], ast.In) \
                    and ast.unparse(n.left) == 'relname[0]':
                anon.append(self.str_tuple(rel, n.comparators[0]))
        if len(anon) != 1:
            raise Untranslatable('%s: expected one `relname[0] in (...)` test in _netmake1' % rel)
        self.anon_print = anon[0]

    # ---------------------------------------------------------------
    def one_const(self, rel, fn, pred, what, key=None):
        """the unique AST node in fn satisfying pred (several are allowed when they all carry the same constant)"""
        hits = [n for n in ast.walk(fn) if pred(n)]
        if not hits or (len(hits) != 1 and (key is None or len(set(key(h) for h in hits)) != 1)):
            fail(rel, fn, 'expected exactly one %s in %s, found %d' % (what, fn.name, len(hits)))
        return hits[0]

    def read_printer_constants(self):
        """the literal separators of the writer:  ' '.join(parts)  and  net += '; ' + opts_str  in Cpt._netmake1,
        ', '.join([...])  and  '%s=%s' % (key, val)  in Opts.format,  cpt_type + 'anon'  in _make_anon_cpt_name"""
        is_join = lambda n: isinstance(n, ast.Call) and isinstance(n.func, ast.Attribute) and n.func.attr == 'join' \
            and isinstance(n.func.value, ast.Constant) and isinstance(n.func.value.value, str)
        rel = 'lcapy/mnacpts.py'
        src, tree = self.load(rel)
        cpt = [n for n in tree.body if isinstance(n, ast.ClassDef) and n.name == 'Cpt'][0]
        nm = [n for n in cpt.body if isinstance(n, ast.FunctionDef) and n.name == '_netmake1'][0]
        self.field_sep = self.one_const(rel, nm, lambda n: is_join(n) and len(n.args) == 1 and isinstance(n.args[0], ast.Name),
                                        "'<sep>'.join(<name>)").func.value.value
        aug = self.one_const(rel, nm, lambda n: isinstance(n, ast.AugAssign) and isinstance(n.op, ast.Add) and isinstance(n.value, ast.BinOp)
                             and isinstance(n.value.left, ast.Constant) and isinstance(n.value.left.value, str), "net += '<sep>' + opts_str")
        self.opts_sep = aug.value.left.value
        rel = 'lcapy/opts.py'
        src, tree = self.load(rel)
        oc = [n for n in tree.body if isinstance(n, ast.ClassDef) and n.name == 'Opts']
        fm = [n for c in oc for n in c.body if isinstance(n, ast.FunctionDef) and n.name == 'format']
        if len(fm) != 1:
            raise Untranslatable('%s: Opts.format not found' % rel)
        self.item_sep = self.one_const(rel, fm[0], is_join, "'<sep>'.join(...)", key=lambda n: n.func.value.value).func.value.value
        md = self.one_const(rel, fm[0], lambda n: isinstance(n, ast.BinOp) and isinstance(n.op, ast.Mod) and isinstance(n.left, ast.Constant)
                            and isinstance(n.left.value, str), "'<fmt>' % (key, val)", key=lambda n: n.left.value)
        self.item_fmt = md.left.value
        rel = 'lcapy/netfile.py'
        src, tree = self.load(rel)
        fn = [n for c in tree.body if isinstance(c, ast.ClassDef) for n in c.body
              if isinstance(n, ast.FunctionDef) and n.name == '_make_anon_cpt_name']
        if len(fn) != 1:
            raise Untranslatable('%s: _make_anon_cpt_name not found' % rel)
        an = self.one_const(rel, fn[0], lambda n: isinstance(n, ast.BinOp) and isinstance(n.op, ast.Add) and isinstance(n.left, ast.Name)
                            and n.left.id == 'cpt_type' and isinstance(n.right, ast.Constant) and isinstance(n.right.value, str), "cpt_type + '<suffix>'")
        self.anon_suffix = an.right.value

    # ---------------------------------------------------------------
    NAMER_BODY = """
while True:
    name = cpt_type + str(m)
    if name not in names and name not in self.names:
        self.names.append(name)
        return name
    m += 1
"""
    REMOVE_BODY = """
if name is None:
    return self
if isinstance(name, (list, tuple, set)):
    for name1 in name:
        self.remove(name1)
    return self
if name not in self._elements:
    raise ValueError('Unknown component: ' + name)
self._invalidate()
cpt = self._elements[name]
for node in cpt.nodes:
    node.remove(cpt)
self._elements.pop(name, None)
return self
"""

    @staticmethod
    def _body(fn):
        b = list(fn.body)
        if b and isinstance(b[0], ast.Expr) and isinstance(b[0].value, ast.Constant) and isinstance(b[0].value.value, str):
            b = b[1:]
        return b

    def _method(self, rel, tree, cls, name):
        fn = [n for c in tree.body if isinstance(c, ast.ClassDef) and (cls is None or c.name == cls) for n in c.body
              if isinstance(n, ast.FunctionDef) and n.name == name]
        if len(fn) != 1:
            raise Untranslatable('%s: expected exactly one method %s.%s' % (rel, cls or '*', name))
        return fn[0]

    def read_namer(self):
        """the component namer, statement for statement (the Coq model LT.ParserModel.namer_loop / make_anon and
        LT.ParserNamer.remove_elt mirror exactly this text); only the start index is read as a number.  A difference
        does not stop the run (so that the search can still look for a failing history): it is recorded in
        self.namer_issues and becomes a broken obligation."""
        self.namer_issues = []
        self.namer_start = 1
        same = lambda stmts, text: [ast.dump(x) for x in stmts] == [ast.dump(x) for x in ast.parse(text).body]
        try:
            rel = 'lcapy/componentnamer.py'
            src, tree = self.load(rel)
            fn = self._method(rel, tree, 'ComponentNamer', 'name')
            if [a.arg for a in fn.args.args] != ['self', 'cpt_type', 'names']:
                raise Untranslatable('%s: ComponentNamer.name has unexpected parameters' % rel)
            b = self._body(fn)
            if not (b and isinstance(b[0], ast.Assign) and ast.unparse(b[0].targets) == 'm' and isinstance(b[0].value, ast.Constant)
                    and type(b[0].value.value) is int and b[0].value.value >= 0):
                raise Untranslatable('%s: ComponentNamer.name does not start with m = <int>' % rel)
            self.namer_start = b[0].value.value
            if not same(b[1:], self.NAMER_BODY):
                raise Untranslatable('%s: the loop of ComponentNamer.name is not the modelled one' % rel)
            init = self._method(rel, tree, 'ComponentNamer', '__init__')
            if not same(self._body(init), 'self.names = []'):
                raise Untranslatable('%s: ComponentNamer.__init__ is not `self.names = []`' % rel)
            rel = 'lcapy/netfile.py'
            src, tree = self.load(rel)
            fn = self._method(rel, tree, None, '_make_anon_cpt_name')
            if not same(self._body(fn), "return self.namer.name(cpt_type + 'anon', self.elements)"):
                raise Untranslatable('%s: _make_anon_cpt_name is not the modelled call of the namer' % rel)
            rel = 'lcapy/netlist.py'
            src, tree = self.load(rel)
            fn = self._method(rel, tree, 'Netlist', 'remove')
            if [a.arg for a in fn.args.args] != ['self', 'name'] or not same(self._body(fn), self.REMOVE_BODY):
                raise Untranslatable('%s: Netlist.remove is not the modelled one' % rel)
        except Untranslatable as e:
            self.namer_issues.append(str(e))

    # ---------------------------------------------------------------
    def coq(self):
        out = ['(* GENERATED by tools/tr_grammar.py from the current working tree; do not edit.']
        for f, h in sorted(self.files.items()):
            out.append('   %s sha256 %s' % (f, h))
        out.append('   grammar.py lines: ' + ', '.join('%s@%d' % kv for kv in sorted(self.lines.items())) + ' *)')
        out.append('From Coq Require Import List Ascii ZArith.\nFrom Coq Require String.\nImport String.StringSyntax.')
        out.append('From LT Require Import ParserStr ParserModel.\nImport ListNotations.\nLocal Open Scope string_scope.\nLocal Open Scope list_scope.\n')
        out.append('Definition rules_text : str := %s.\n' % coq_str(self.rules))
        out.append('Definition params_text : str := %s.\n' % coq_str(self.params))
        out.append('Definition delims_text : str := [%s].' % '; '.join('ch %d' % ord(c) for c in self.delimiters))
        out.append('Definition comments_text : str := [%s].\n' % '; '.join('ch %d' % ord(c) for c in self.comments))
        out.append('(* the Coq mirror of Parser.__init__ reads the grammar text *)')
        out.append('Definition grammar_opt : option grammar := Eval vm_compute in mk_grammar rules_text params_text delims_text comments_text.')
        out.append('Definition G : grammar := Eval vm_compute in\n  match grammar_opt with Some g => g | None => {| g_dict := []; g_delims := delims_text; g_comments := comments_text |} end.\n')
        out.append('(* lcapy/valueparser.py suffixes *)')
        out.append('Definition suffix_table : list (ascii * Z) := [%s].\n' % '; '.join('(ch %d, (%d)%%Z)' % (ord(k), e) for k, e in self.suffixes))
        out.append('(* number of characters value_parser cuts before appending M / k for the aliases Meg / K *)')
        out.append('Definition meg_cut : nat := %d.\nDefinition k_cut : nat := %d.\n' % (self.meg_cut, self.k_cut))
        out.append('(* guards *)')
        out.append('Definition anon_types_parse : list str := [%s].' % '; '.join(coq_str(x) for x in self.anon_parse))
        out.append('Definition anon_types_print : list str := [%s].' % '; '.join(coq_str(x) for x in self.anon_print))
        out.append('Definition cpt_pattern_text : str := %s.' % coq_str(self.cpt_pattern))
        out.append('(* literal separators of the writer (Cpt._netmake1, Opts.format, _make_anon_cpt_name) *)')
        out.append('Definition field_sep_text : str := %s.' % coq_str(self.field_sep))
        out.append('Definition opts_sep_text : str := %s.' % coq_str(self.opts_sep))
        out.append('Definition item_sep_text : str := %s.' % coq_str(self.item_sep))
        out.append('Definition item_fmt_text : str := %s.' % coq_str(self.item_fmt))
        out.append('Definition anon_suffix_text : str := %s.' % coq_str(self.anon_suffix))
        out.append('(* first index tried by ComponentNamer.name (`m = ...`) *)')
        out.append('Definition namer_start : nat := %d.' % self.namer_start)
        return '\n'.join(out) + '\n'


# ---- a Python reading of the same strings, used ONLY to generate test inputs ----
def py_rules(g):
    """[(classname, type, [(name, kind, optional, default)], pos)] in file order"""
    pd = {}
    for line in g.params.split('\n'):
        if line == '':
            continue
        f = line.split(':')
        pd[f[0]] = f[1].split(';', 1)[0].strip()
    out = []
    for line in g.rules.split('\n'):
        if line == '':
            continue
        f = line.split(':')
        cls = f[0]
        body = f[1].split(';', 1)[0].strip().split(' ')
        ty = body[0][0:-4]
        ps = []
        pos = None
        for m, p in enumerate(body[1:]):
            opt = p[0] == '['
            if opt:
                p = p[1:-1]
            parts = p.split('=')
            kind = pd[parts[0]]
            ps.append((parts[0], kind, opt, parts[1] if len(parts) > 1 else None))
            if pos is None and kind == 'keyword':
                pos = m
        out.append((cls, ty, ps, pos))
    return out


if __name__ == '__main__':
    import sys
    g = Grammar(sys.argv[1] if len(sys.argv) > 1 else '/repo')
    sys.stdout.write(g.coq())
