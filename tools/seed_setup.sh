#!/bin/bash
# usage: tools/seed_setup.sh Cxx [dir] -- fresh scratch worktree of /repo HEAD with PROPERTY.txt (property text only, nothing from /verif)
id=$1; d=${2:-/tmp/seed_$id}
git -C /repo worktree remove --force $d 2>/dev/null
git -C /repo worktree add -q --detach $d HEAD || exit 2
python3 - $id $d <<'P'
import json, sys
pid, d = sys.argv[1:3]
for l in open('/verif/properties.jsonl'):
    p = json.loads(l)
    if p['id'] == pid:
        q = p['quantifier']
        open(d + '/PROPERTY.txt', 'w').write('%s - %s\n\nStatement: %s\n\nQuantified over: %s\n\nWhy tests cannot settle it: %s\n\nRelevant source: %s\n' % (
            p['id'], p['title'], p['statement'], q['text'], p['why_tests_cant'], json.dumps(p['anchors'], indent=1)))
P
echo $d
