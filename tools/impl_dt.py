"""Runs the REAL lcapy discrete-time code (from the repo on PYTHONPATH) on the
cases given on stdin (JSON list) and prints exact results (JSON list).
Used by checks/c13.py.  Numbers are strings "p/q"; nothing here is a float.

case kinds (field 'kind'):
  response   DLTIFilter(b,a).response(x, ic, ni)            -> vals, n
  tf         DLTIFilter(b,a).transfer_function() at z        -> val
  de         DLTIFilter(b,a).difference_equation()           -> lhs_y, rhs_y, rhs_x coefficient maps
  impulse    DLTIFilter(b,a).impulse_response() at n<N       -> vals
  step       DLTIFilter(b,a).step_response() at n<N          -> vals
  zic        DLTIFilter(b,a).zdomain_initial_response(..)    -> val at z
  fromtf     DLTIFilter.from_transfer_function(H)            -> nn, dn (observed), b, a
  lfilter    Sequence.lfilter(b, a)                          -> vals, n
  convolve   Sequence.convolve(h)                            -> vals, n
  seqzt      Sequence.ZT() / x(z) / as_impulses().ZT()       -> terms at z, n, impulses value at z
  zt         nexpr(expr).ZT() at z (trig atoms substituted)  -> val | unevaluated
  izt        zexpr(H)(n) at n<N                              -> vals
  dtft       nexpr(expr).DTFT(Omega) / Sequence.DTFT(Omega) at exp(j Omega) = c + j s  -> [re, im]
  ztrt       nexpr(expr).ZT()(n) at n<N (round trip)         -> vals
  seqdft     Sequence.DFT() / roundtrip                       -> values in Q(zeta_M)
  exprdft    nexpr(expr).DFT(N) at k<N                        -> values in Q(zeta_M)
  expridft   kexpr(expr).IDFT(N) at n<N                       -> values in Q(zeta_M)
  keyhist    calls on one transformer instance vs fresh instances -> same[], shared[], fresh[]
"""
import sys
import json
import warnings
warnings.filterwarnings('ignore')
import sympy as sp
from fractions import Fraction


def R(x):
    return sp.Rational(str(x))


def rstr(x):
    x = sp.nsimplify(x) if isinstance(x, (int,)) else x
    x = sp.Rational(x)
    return '%d/%d' % (x.p, x.q)


def to_rational(v):
    """exact sympy expression -> Rational or None (never numerical guessing)"""
    v = sp.sympify(v)
    if v.is_Rational:
        return v
    for f in (lambda e: sp.expand(e), lambda e: sp.simplify(sp.expand_trig(e)), lambda e: sp.radsimp(sp.expand(e)),
              lambda e: sp.simplify(sp.expand(e, complex=True)), lambda e: sp.sqrtdenest(sp.expand(e))):
        try:
            w = f(v)
        except Exception:
            continue
        if w.is_Rational:
            return w
        v = w
    return None


def disc(v):
    """replace discrete-time special functions at integer arguments"""
    def q(x):
        return x.is_Function and x.func.__name__ in ('UnitStep', 'UnitImpulse', 'Heaviside') and x.args[0].is_number
    def val(x):
        a = x.args[0]
        if x.func.__name__ == 'UnitImpulse':
            return sp.Integer(1) if a == 0 else sp.Integer(0)
        return sp.Integer(1) if a >= 0 else sp.Integer(0)
    return v.replace(q, val)


def strip_piecewise(e):
    if e.is_Piecewise:
        return e.args[0][0]
    return e


def expr_at_n(e, nsym, m):
    v = strip_piecewise(e).subs(nsym, m)
    v = disc(v)
    return to_rational(v)


def eval_index(X, var, kv, Nv):
    """value of a DFT/IDFT result at one index; a term with a factor that
    vanishes there (Lcapy's `(1 - UnitImpulse(k - k0))` guards) is zero"""
    def sub(e):
        for s_ in list(e.free_symbols):
            if s_.name == 'N':
                e = e.subs(s_, Nv)
        e = e.subs(var, kv)
        for s_ in list(e.free_symbols):
            if s_.name in ('k', 'n'):
                e = e.subs(s_, kv)
        return disc(e)
    tot = sp.Integer(0)
    for term in sp.Add.make_args(X):
        facs = sp.Mul.make_args(term)
        vals = []
        zero = False
        for f in facs:
            try:
                fv = sub(f)
            except Exception:
                fv = sp.nan
            if fv == 0:
                zero = True
                break
            vals.append(fv)
        if zero:
            continue
        tot = tot + sp.Mul(*vals)
    if tot.has(sp.Piecewise):
        tot = sp.piecewise_fold(tot).doit()
    return tot


# --- exact arithmetic in Q(zeta_M) -------------------------------------------
class Cyc:
    def __init__(self, M):
        self.M = M
        self.x = sp.Symbol('x')
        self.Phi = sp.Poly(sp.cyclotomic_poly(M, self.x), self.x, domain='QQ')

    def const(self, c):
        return sp.Poly(sp.Rational(c), self.x, domain='QQ')

    def zeta(self, e):
        e = int(e) % self.M
        return sp.Poly(self.x ** e, self.x, domain='QQ').rem(self.Phi)

    def mul(self, a, b):
        return (a * b).rem(self.Phi)

    def inv(self, a):
        if a.is_zero:
            raise ZeroDivisionError
        return sp.invert(a, self.Phi)

    def conv(self, e):
        """sympy expression -> element, or raises ValueError"""
        M = self.M
        e = sp.sympify(e)
        if e.is_Rational:
            return self.const(e)
        if e == sp.I:
            if M % 4:
                raise ValueError('I')
            return self.zeta(M // 4)
        if e.is_Add:
            r = self.const(0)
            for a in e.args:
                r = r + self.conv(a)
            return r
        if e.is_Mul:
            r = self.const(1)
            for a in e.args:
                r = self.mul(r, self.conv(a))
            return r
        if e.is_Pow:
            b, p = e.args
            if p.is_Integer:
                base = self.conv(b)
                if p < 0:
                    base = self.inv(base)
                    p = -p
                r = self.const(1)
                for _ in range(int(p)):
                    r = self.mul(r, base)
                return r
            if b == -1 and p.is_Rational:
                k = p * M / 2
                if k.is_Integer:
                    return self.zeta(k)
            if b.is_Integer and p == sp.Rational(1, 2):
                return self.sqrt_int(int(b))
            if b.is_Integer and p == sp.Rational(-1, 2):
                return self.inv(self.sqrt_int(int(b)))
            raise ValueError('pow %s' % e)
        if e.func == sp.exp:
            a = sp.expand(e.args[0] / (sp.I * sp.pi))
            if a.is_Rational:
                k = a * M / 2
                if k.is_Integer:
                    return self.zeta(k)
            raise ValueError('exp %s' % e)
        if e.func in (sp.cos, sp.sin):
            a = sp.expand(e.args[0] / sp.pi)
            if a.is_Rational:
                k = a * M / 2
                if k.is_Integer:
                    zp, zm = self.zeta(k), self.zeta(-k)
                    if e.func == sp.cos:
                        return (zp + zm) * sp.Rational(1, 2)
                    if M % 4:
                        raise ValueError('sin')
                    return self.mul(zp - zm, self.inv(self.zeta(M // 4) * 2))
            raise ValueError('trig %s' % e)
        if e.is_Function and e.func.__name__ == 'UnitImpulse' and e.args[0].is_number:
            return self.const(1 if e.args[0] == 0 else 0)
        if e.is_Function and e.func.__name__ in ('UnitStep',) and e.args[0].is_number:
            return self.const(1 if e.args[0] >= 0 else 0)
        raise ValueError('atom %s' % e)

    def sqrt_int(self, b):
        M = self.M
        if b == 2 and M % 8 == 0:
            return self.zeta(M // 8) + self.zeta(-(M // 8))
        if b == 3 and M % 12 == 0:
            return self.zeta(M // 12) + self.zeta(-(M // 12))
        if b == 5 and M % 5 == 0:
            s = M // 5
            return self.zeta(s) + self.zeta(4 * s) - self.zeta(2 * s) - self.zeta(3 * s)
        if b == -1:
            return self.conv(sp.I)
        raise ValueError('sqrt %d' % b)

    def coeffs(self, a):
        d = self.Phi.degree()
        cs = a.all_coeffs()[::-1]
        cs = cs + [sp.Integer(0)] * (d - len(cs))
        return [rstr(c) for c in cs]


def cyc_list(vals, M):
    C = Cyc(M)
    out = []
    for v in vals:
        try:
            sv = sp.sympify(v)
            if sv.has(sp.zoo) or sv.has(sp.nan) or sv.has(sp.oo):
                out.append('singular')          # the closed form is undefined at this index
                continue
            out.append(C.coeffs(C.conv(sv)))
        except (ValueError, ZeroDivisionError, sp.PolynomialError, TypeError, NotImplementedError) as e:
            out.append(None)
    return out


def de_coeffs(E, nsym):
    def coeffs(e, fname):
        out = {}
        for t in sp.Add.make_args(sp.expand(e)):
            if t == 0:
                continue
            c, rest = t.as_coeff_Mul()
            if not (rest.is_Function and rest.func.__name__ in ('x', 'y')):
                raise ValueError('unexpected term %s' % t)
            if rest.func.__name__ != fname:
                continue
            m = str(int(sp.expand(nsym - rest.args[0])))
            out[m] = out.get(m, sp.Integer(0)) + c
        return dict((m, rstr(c)) for m, c in out.items() if c != 0)
    lhs, rhs = E.lhs, E.rhs
    return {'lhs_y': coeffs(lhs, 'y'), 'lhs_x': coeffs(lhs, 'x'), 'rhs_y': coeffs(rhs, 'y'), 'rhs_x': coeffs(rhs, 'x')}


# ------------------------------------------------------------------------------
def mkx(case):
    from lcapy.discretetime import seq, nexpr
    xs = [R(v) for v in case['x']]
    xk = case.get('xkind', 'list')
    if xk == 'list':
        return xs
    if xk == 'seq':
        n0 = case.get('xn0', 0)
        return seq(xs, list(range(n0, n0 + len(xs))))
    if xk == 'expr':
        from lcapy.discretetime import n
        from lcapy import UnitImpulse
        n0 = case.get('xn0', 0)
        e = 0 * n
        for i, v in enumerate(xs):
            e = e + v * UnitImpulse(n - (n0 + i))
        return e
    raise ValueError(xk)


def seq_out(s):
    vals = []
    for v in s.vals:
        r = to_rational(getattr(v, 'sympy', v))
        vals.append(None if r is None else rstr(r))
    return {'vals': vals, 'n': [int(i) for i in s.n]}


def run(case):
    from lcapy import DLTIFilter
    from lcapy.discretetime import seq, nexpr, zexpr, kexpr
    from lcapy.sym import nsym, zsym, ksym
    kind = case['kind']
    if kind in ('response', 'tf', 'de', 'impulse', 'zic', 'step', 'invtf', 'detf', 'freqresp'):
        b = [R(v) for v in case['b']]
        a = [R(v) for v in case['a']]
        fil = DLTIFilter(b, a)
    if kind == 'response':
        x = mkx(case)
        ic = [R(v) for v in case['ic']]
        ni = tuple(case['ni'])
        if case.get('defaults'):
            y = fil.response(x)          # ic=None -> zeros, ni=None -> (-Ni, 10)
        else:
            y = fil.response(x, ic, ni)
        return seq_out(y)
    if kind == 'tf':
        H = fil.transfer_function().sympy
        v = to_rational(H.subs(zsym, R(case['z'])))
        return {'val': rstr(v)}
    if kind == 'de':
        return de_coeffs(fil.difference_equation().sympy, nsym)
    if kind == 'impulse':
        h = fil.impulse_response().sympy
        vals = []
        for m in range(case['N']):
            v = expr_at_n(h, nsym, m)
            vals.append(None if v is None else rstr(v))
        return {'vals': vals, 'expr': str(h)[:300]}
    if kind == 'invtf':
        H = fil.inverse().transfer_function().sympy
        return {'val': rstr(to_rational(H.subs(zsym, R(case['z']))))}
    if kind == 'detf':
        H = fil.difference_equation().transfer_function().sympy
        return {'val': rstr(to_rational(sp.cancel(H).subs(zsym, R(case['z']))))}
    if kind == 'freqresp':
        from lcapy.sym import fsym, dt as dtsym
        FR = fil.frequency_response().sympy
        w = sp.Symbol('w_')
        c_, s_ = R(case['e'][0]), R(case['e'][1])
        V = FR.rewrite(sp.exp).subs(fsym, -sp.I * sp.log(w) / (sp.pi * dtsym))       # exp(j pi f dt) = w
        V = sp.powsimp(sp.expand_power_exp(sp.simplify(V)), force=True)
        if V.has(sp.log) or V.has(sp.exp) or V.free_symbols - {w}:
            return {'inexact': str(V)[:200]}
        val = sp.simplify(sp.expand(sp.together(V).subs(w, c_ + sp.I * s_), complex=True))
        re_, im_ = to_rational(sp.re(val)), to_rational(sp.im(val))
        if re_ is None or im_ is None:
            return {'inexact': str(val)[:200]}
        return {'val': [rstr(re_), rstr(im_)], 'expr': str(FR)[:200], 'ma': bool(fil.is_moving_average)}
    if kind == 'zpk':
        Z = [R(v) for v in case['Z']]
        P = [R(v) for v in case['P']]
        fil = DLTIFilter.from_ZPK(Z, P, R(case['K']))
        H = fil.transfer_function().sympy
        return {'val': rstr(to_rational(H.subs(zsym, R(case['z'])))), 'b': [rstr(to_rational(v.sympy)) for v in fil.b],
                'a': [rstr(to_rational(v.sympy)) for v in fil.a]}
    if kind in ('zde', 'asab'):
        H = zexpr(case['H'])
        from lcapy.transfer import transfer
        N_, D_ = transfer(H).as_N_D()
        out = {'nn': [rstr(to_rational(getattr(c, 'sympy', c))) for c in N_.coeffs()],
               'dn': [rstr(to_rational(getattr(c, 'sympy', c))) for c in D_.coeffs()]}
        if kind == 'asab':
            a_, b_ = H.as_ab()
            out['a'] = [rstr(to_rational(getattr(v, 'sympy', v))) for v in a_]
            out['b'] = [rstr(to_rational(getattr(v, 'sympy', v))) for v in b_]
            return out
        E = H.difference_equation().sympy
        out.update(de_coeffs(E, nsym))
        return out
    if kind == 'step':
        g = fil.step_response().sympy
        vals = []
        for m in range(case['N']):
            v = expr_at_n(g, nsym, m)
            vals.append(None if v is None else rstr(v))
        return {'vals': vals, 'expr': str(g)[:300]}
    if kind == 'zic':
        ic = [R(v) for v in case['ic']]
        xic = [R(v) for v in case['xic']]
        Y = fil.zdomain_initial_response(ic=ic, xic=xic, left=case.get('left', True)).sympy
        v = to_rational(Y.subs(zsym, R(case['z'])))
        return {'val': rstr(v)}
    if kind == 'fromtf':
        H = zexpr(case['H'])
        from lcapy.transfer import transfer
        Ht = transfer(H)
        N, D = Ht.as_N_D()
        nn = [rstr(to_rational(getattr(c, 'sympy', c))) for c in N.coeffs()]
        dn = [rstr(to_rational(getattr(c, 'sympy', c))) for c in D.coeffs()]
        fil = DLTIFilter.from_transfer_function(H, normalize=case.get('normalize', True))
        hv = to_rational(H.sympy.subs(zsym, R(case['z'])))
        return {'nn': nn, 'dn': dn, 'b': [rstr(to_rational(v.sympy)) for v in fil.b], 'a': [rstr(to_rational(v.sympy)) for v in fil.a],
                'Hval': rstr(hv)}
    if kind == 'lfilter':
        x = seq([R(v) for v in case['x']], list(range(case.get('xn0', 0), case.get('xn0', 0) + len(case['x']))))
        y = x.lfilter([R(v) for v in case['b']], [R(v) for v in case['a']])
        return seq_out(y)
    if kind == 'convolve':
        x = seq([R(v) for v in case['x']], list(range(case['xn0'], case['xn0'] + len(case['x']))))
        h = seq([R(v) for v in case['h']], list(range(case['hn0'], case['hn0'] + len(case['h']))))
        y = x.convolve(h)
        return seq_out(y)
    if kind == 'seqzt':
        n0 = case['n0']
        x = seq([R(v) for v in case['x']], list(range(n0, n0 + len(case['x']))))
        z0 = R(case['z'])
        X = x.ZT()
        terms = [rstr(to_rational(t.sympy.subs(zsym, z0))) for t in X.vals]
        Xc = x(zexpr('z'))
        callv = [rstr(to_rational(t.sympy.subs(zsym, z0))) for t in Xc.vals]
        imp = to_rational(x.as_impulses().ZT().sympy.subs(zsym, z0))
        back = X.IZT()
        return {'terms': terms, 'tn': [int(i) for i in X.n], 'call': callv, 'impulses': rstr(imp),
                'back': seq_out(back)}
    if kind == 'zt':
        e = nexpr(case['expr'])
        Z = e.ZT().sympy
        if Z.has(sp.Sum):
            return {'unevaluated': str(Z)[:200]}
        subs = {}
        for nm, v in case.get('trig', {}).items():
            s = [t for t in Z.free_symbols if t.name == nm]
            for t in s:
                subs[sp.cos(t)] = R(v[0])
                subs[sp.sin(t)] = R(v[1])
        Zx = sp.expand_trig(Z) if subs else Z
        Zx = Zx.subs(subs)
        val = Zx.subs(zsym, R(case['z']))
        if val.free_symbols:
            return {'inexact': str(val)[:200], 'expr': str(Z)[:300]}
        v = to_rational(val)
        if v is None:
            return {'inexact': str(val)[:200], 'expr': str(Z)[:300]}
        return {'val': rstr(v), 'expr': str(Z)[:300]}
    if kind == 'dtft':
        from lcapy import Omega
        if 'x' in case:
            n0 = case['n0']
            X = seq([R(v) for v in case['x']], list(range(n0, n0 + len(case['x'])))).DTFT(Omega).sympy
        else:
            X = nexpr(case['expr']).DTFT(Omega).sympy
        if X.has(sp.Sum) or X.has(sp.DiracDelta):
            return {'unevaluated': str(X)[:200]}
        syms = [t for t in X.free_symbols]
        if len(syms) != 1:
            return {'inexact': 'symbols %s' % syms}
        w = sp.Symbol('w_')
        cb, sb = R(case['e'][0]), R(case['e'][1])
        V = X.subs(syms[0], -sp.I * sp.log(w))
        V = sp.simplify(V)
        if V.has(sp.log) or V.has(sp.exp):
            V = sp.powsimp(sp.expand(V), force=True)
        if V.has(sp.log) or V.has(sp.exp):
            return {'inexact': str(V)[:200]}
        val = sp.expand(sp.together(V).subs(w, cb + sp.I * sb), complex=True)
        val = sp.simplify(val)
        re_, im_ = to_rational(sp.re(val)), to_rational(sp.im(val))
        if re_ is None or im_ is None:
            return {'inexact': str(val)[:200]}
        return {'val': [rstr(re_), rstr(im_)], 'expr': str(X)[:300]}
    if kind == 'ztrt':
        e = nexpr(case['expr'])
        Z = e.ZT()
        if Z.sympy.has(sp.Sum):
            return {'unevaluated': str(Z.sympy)[:200]}
        h = Z(nexpr('n')).sympy
        if h.has(sp.Sum):
            return {'unevaluated': str(h)[:200]}
        vals = []
        for m in range(case['N']):
            v = expr_at_n(h, nsym, m)
            vals.append(None if v is None else rstr(v))
        return {'vals': vals, 'expr': str(h)[:300], 'Z': str(Z.sympy)[:200]}
    if kind == 'izt':
        H = zexpr(case['H'])
        kw = dict(case.get('kw', {}))
        h = H(nexpr('n'), **kw).sympy
        vals = []
        for m in range(case['N']):
            v = expr_at_n(h, nsym, m)
            vals.append(None if v is None else rstr(v))
        return {'vals': vals, 'expr': str(h)[:300]}
    if kind == 'seqdft':
        n0 = case['n0']
        x = seq([R(v) for v in case['x']], list(range(n0, n0 + len(case['x']))))
        X = x.DFT()
        M = case['M']
        vals = cyc_list([v.sympy for v in X.vals], M)
        back = X.IDFT()
        bvals = cyc_list([v.sympy for v in back.vals], M)
        return {'vals': vals, 'kn': [int(i) for i in X.n], 'back': bvals, 'bn': [int(i) for i in back.n]}
    if kind in ('exprdft', 'expridft'):
        # register the DFT length symbol the way Lcapy asks for (DFTTransformer.check):
        # N = symbol('N', integer=True, positive=True)
        from lcapy import symbol
        symbol('N', integer=True, positive=True)
        if kind == 'exprdft':
            e = nexpr(case['expr'])
            Nsym = case.get('N')
            X = e.DFT(N=Nsym) if Nsym is not None else e.DFT()
            var = ksym
        else:
            e = kexpr(case['expr'])
            Nsym = case.get('N')
            X = e.IDFT(N=Nsym) if Nsym is not None else e.IDFT()
            var = nsym
        Xs = X.sympy
        if Xs.has(sp.Sum):
            return {'unevaluated': str(Xs)[:200]}
        out = {}
        for Nv in case['Ns']:
            M = case['Ms'][str(Nv)]
            vals = []
            for kv in range(Nv):
                vals.append(eval_index(Xs, var, kv, Nv))
            out[str(Nv)] = cyc_list(vals, M)
        return {'vals': out, 'expr': str(Xs)[:300]}
    if kind == 'keyhist':
        # a history of calls on ONE transformer instance (shared result cache) against the same calls on fresh instances
        import importlib
        from lcapy import symbol
        from lcapy.sym import fsym
        Nsymbol = symbol('N', integer=True, positive=True).sympy
        mod = importlib.import_module('lcapy.' + case['module'])
        cls = getattr(mod, case['cls'])
        from lcapy import fexpr
        dom = {'n': nexpr, 'k': kexpr, 'z': zexpr, 'f': fexpr}[case['var']]
        syms = {'n': nsym, 'k': ksym, 'z': zsym, 'f': fsym}

        def kw_of(d):
            out = {}
            for k_, v_ in d.items():
                out[k_] = Nsymbol if v_ == 'N' else v_
            return out
        shared = cls()
        res_sh, res_fr = [], []
        for expr_, kw_ in case['calls']:
            e = dom(expr_).sympy
            res_sh.append(shared.transform(e, syms[case['var']], syms[case['conj']], **kw_of(kw_)))
        for expr_, kw_ in case['calls']:
            e = dom(expr_).sympy
            res_fr.append(cls().transform(e, syms[case['var']], syms[case['conj']], **kw_of(kw_)))
        same = []
        for a_, b_ in zip(res_sh, res_fr):
            ok = (a_ == b_)
            if not ok:
                try:
                    ok = sp.simplify(a_ - b_) == 0
                except Exception:
                    ok = False
            same.append(bool(ok))
        return {'same': same, 'shared': [str(x)[:200] for x in res_sh], 'fresh': [str(x)[:200] for x in res_fr]}
    raise ValueError('unknown kind ' + kind)


def main():
    cases = json.load(sys.stdin)
    res = []
    # Lcapy prints diagnostics (e.g. "Rewrite expression as ...") on stdout: keep the JSON channel clean
    real_stdout = sys.stdout
    sys.stdout = sys.stderr
    import time
    import signal

    class CaseTimeout(BaseException):
        pass

    def on_alarm(signum, frame):
        raise CaseTimeout()
    signal.signal(signal.SIGVTALRM, on_alarm)
    for c in cases:
        t0 = time.process_time()
        # bound the CPU time sympy may spend on one case (repeating timer: Lcapy has bare `except:` clauses)
        signal.setitimer(signal.ITIMER_VIRTUAL, float(c.get('cpu_limit', 30)), 1.0)
        try:
            try:
                res.append(run(c))
            finally:
                signal.setitimer(signal.ITIMER_VIRTUAL, 0)
            res[-1]['secs'] = round(time.process_time() - t0, 2)
        except CaseTimeout:
            signal.setitimer(signal.ITIMER_VIRTUAL, 0)
            res.append({'timeout': round(time.process_time() - t0, 1)})
        except Exception as e:
            import traceback
            res.append({'error': type(e).__name__ + ': ' + str(e)[:300], 'tb': traceback.format_exc()[-600:]})
    sys.stdout = real_stdout
    json.dump(res, sys.stdout)


main()
