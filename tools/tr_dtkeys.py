"""C13: fail-closed translator of the result-cache protocol of the discrete-time transformer classes.

For each of ZTransformer, InverseZTransformer, DFTTransformer, InverseDFTTransformer, DTFTTransformer,
IDTFTTransformer (lcapy/{ztransform,inverse_ztransform,dft,inverse_dft,dtft,inverse_dtft}.py, bases in
lcapy/transformer.py) it produces

  key_<C>    from the `key` method (tuple of positional parameters and kwargs.get(name, default)),
  view_<C>   what the code reads of the keyword arguments on the way from `transform` to `term`:
             every kwargs.get/pop, every named parameter of a method that receives **kwargs, followed through
             self.m(..., **kwargs) / super(..).m(..., **kwargs) calls (method resolution along the class chain),
  valid_<C>  required (default-less) parameters filled from **kwargs are present,

and the statements  gen_key_determines_view_<C>  and  gen_cache_transparent_<C>  (LT.SeqCache).
The cache protocol of `doit` (key computed from the same arguments that `term` receives, lookup, store) and the
`debug` flag (printing only) are pinned statement by statement.  Anything else (an unknown use of **kwargs, a
key element of another shape, a class-level cache, ...) raises Untranslatable.
"""
import ast
import os


class Untranslatable(Exception):
    pass


FILES = ['transformer.py', 'ztransform.py', 'inverse_ztransform.py', 'dft.py', 'inverse_dft.py', 'dtft.py', 'inverse_dtft.py']
CLASSES = [('ZTransformer', 'ztransform.py'), ('InverseZTransformer', 'inverse_ztransform.py'),
           ('DFTTransformer', 'dft.py'), ('InverseDFTTransformer', 'inverse_dft.py'),
           ('DTFTTransformer', 'dtft.py'), ('IDTFTTransformer', 'inverse_dtft.py')]

REQUIRED = ('required',)

# statements of doit that mention the key or the cache, per defining class (ast.unparse text)
DOIT_PINS = {
    'UnilateralForwardTransformer': [
        'key = self.key(expr, var, conjvar, **kwargs)',
        'if key in self.cache:\n    return const * self.cache[key]',
        'self.cache[key] = result',
    ],
    'UnilateralInverseTransformer': [
        'key = self.key(expr, var, conjvar, **kwargs)',
        'if key in self.cache:\n    return self.make(conjvar, const, *self.cache[key], **kwargs)',
        'self.cache[key] = (cresult, uresult)',
        'return self.make(conjvar, const, *self.cache[key], **kwargs)',
    ],
    'BilateralForwardTransformer': [
        'key = self.key(expr, var, conjvar, **kwargs)',
        'if cache and key in self.cache:\n    return const * self.cache[key]',
        'self.cache[key] = result',
    ],
}
# between factor_const and the key, and between the key and term, the request is not changed except by these
DOIT_FLOW = ['const, expr = factor_const(expr, var)', 'expr = self.rewrite(expr, var)']
DEBUG_PIN = "self._debug = kwargs.pop('debug', False)"
DEBUG_BODY = "if self._debug:\n    print(self.name.capitalize() + ': ' + message)"
INIT_PIN = 'self.cache = {}'


def _parents(tree):
    par = {}
    for node in ast.walk(tree):
        for ch in ast.iter_child_nodes(node):
            par[ch] = node
    return par


def _const(node, where):
    if isinstance(node, ast.Constant) and (node.value is None or isinstance(node.value, (bool, int))):
        return node.value
    raise Untranslatable('%s: default %s is not None/bool/int' % (where, ast.unparse(node)))


def coq_val(v):
    if v is None:
        return 'VNone'
    if v is True or v is False:
        return '(VBool %s)' % ('true' if v else 'false')
    return '(VInt (%d)%%Z)' % v


class Keys(object):
    def __init__(self, repo):
        self.repo = repo
        self.classes = {}        # name -> (ClassDef, file)
        self.trees = {}
        for f in FILES:
            p = os.path.join(repo, 'lcapy', f)
            try:
                src = open(p).read()
                tree = ast.parse(src)
            except (OSError, SyntaxError) as e:
                raise Untranslatable('cannot read %s: %s' % (f, e))
            self.trees[f] = tree
            for node in tree.body:
                if isinstance(node, ast.ClassDef):
                    if node.name in self.classes:
                        raise Untranslatable('class %s defined twice' % node.name)
                    self.classes[node.name] = (node, f)
        self.out = {}
        for cls, f in CLASSES:
            if cls not in self.classes or self.classes[cls][1] != f:
                raise Untranslatable('class %s not found in %s' % (cls, f))
            self.out[cls] = self.translate(cls)

    # ---------------------------------------------------------------- class chain
    def mro(self, cls):
        chain = []
        cur = cls
        while cur != 'object':
            if cur not in self.classes:
                raise Untranslatable('base class %s of %s is outside the translated files' % (cur, cls))
            node = self.classes[cur][0]
            chain.append(cur)
            if len(node.bases) != 1 or not isinstance(node.bases[0], ast.Name):
                raise Untranslatable('class %s: expected exactly one named base' % cur)
            if node.keywords:
                raise Untranslatable('class %s: metaclass/keywords' % cur)
            cur = node.bases[0].id
            if len(chain) > 10:
                raise Untranslatable('class chain too long')
        return chain

    def methods(self, cname):
        return dict((n.name, n) for n in self.classes[cname][0].body if isinstance(n, ast.FunctionDef))

    def resolve(self, chain, name):
        for c in chain:
            m = self.methods(c)
            if name in m:
                return c, m[name]
        return None, None

    # ---------------------------------------------------------------- pins
    def check_pins(self, cls, chain):
        # instance cache, created per instance
        for c in chain:
            for node in self.classes[c][0].body:
                if isinstance(node, (ast.Assign, ast.AnnAssign, ast.AugAssign)):
                    tg = node.targets if isinstance(node, ast.Assign) else [node.target]
                    for t in tg:
                        if isinstance(t, ast.Name) and t.id in ('cache', 'key', 'doit', 'transform'):
                            raise Untranslatable('%s: class-level attribute %s' % (c, t.id))
        oc, init = self.resolve(chain, '__init__')
        if init is None or INIT_PIN not in [ast.unparse(s) for s in init.body]:
            raise Untranslatable('%s.__init__ does not create a per-instance cache' % (oc,))
        # every other write to self.cache is the store of doit or clear_cache
        for c in chain:
            for name, fn in self.methods(c).items():
                for node in ast.walk(fn):
                    if isinstance(node, ast.Attribute) and node.attr == 'cache' and name not in ('__init__', 'clear_cache', 'doit'):
                        raise Untranslatable('%s.%s touches self.cache' % (c, name))
        # one module-level instance per class, used by the module's entry points
        node, f = self.classes[cls]
        inst = [n for n in self.trees[f].body if isinstance(n, ast.Assign) and isinstance(n.value, ast.Call) and
                isinstance(n.value.func, ast.Name) and n.value.func.id == cls and not n.value.args and not n.value.keywords]
        if len(inst) != 1:
            raise Untranslatable('%s: expected exactly one module-level instance' % cls)
        # doit protocol
        oc, doit = self.resolve(chain, 'doit')
        if oc not in DOIT_PINS:
            raise Untranslatable('%s.doit: unknown cache protocol owner %s' % (cls, oc))
        got = []
        flow = []

        def keyed(node):
            return bool({'key', 'cache'} & (set(n.id for n in ast.walk(node) if isinstance(n, ast.Name)) |
                                            set(n.attr for n in ast.walk(node) if isinstance(n, ast.Attribute))))

        def visit(body):
            for s_ in body:
                if isinstance(s_, ast.FunctionDef):
                    visit(s_.body)
                    continue
                if isinstance(s_, ast.If) and keyed(s_.test):
                    got.append(ast.unparse(s_))
                    continue
                sub_ = [getattr(s_, a_, None) for a_ in ('body', 'orelse', 'finalbody')]
                if any(sub_):
                    if hasattr(s_, 'test') and keyed(s_.test):
                        raise Untranslatable('%s.doit: key/cache in a compound test' % oc)
                    for b_ in sub_:
                        if b_:
                            visit(b_)
                    for h_ in getattr(s_, 'handlers', []):
                        visit(h_.body)
                    continue
                txt = ast.unparse(s_)
                if keyed(s_):
                    got.append(txt)
                if txt in DOIT_FLOW:
                    flow.append(txt)
        visit(doit.body)
        if got != DOIT_PINS[oc]:
            raise Untranslatable('%s.doit: cache protocol changed: %r' % (oc, got))
        if flow != DOIT_FLOW:
            raise Untranslatable('%s.doit: request flow changed: %r' % (oc, flow))
        # expr / var / conjvar / kwargs are assigned nowhere else in doit
        for node in ast.walk(doit):
            if isinstance(node, (ast.Assign, ast.AugAssign)):
                tg = node.targets if isinstance(node, ast.Assign) else [node.target]
                for t in tg:
                    for n in ast.walk(t):
                        if isinstance(n, ast.Name) and n.id in ('var', 'conjvar', 'kwargs', 'key', 'cache'):
                            if ast.unparse(node) not in DOIT_PINS[oc]:
                                raise Untranslatable('%s.doit assigns %s' % (oc, n.id))
                        if isinstance(n, ast.Name) and n.id == 'expr' and ast.unparse(node) not in DOIT_FLOW and \
                                ast.unparse(node) != 'expr = expr.args[0].args[0]':
                            raise Untranslatable('%s.doit assigns expr: %s' % (oc, ast.unparse(node)))
        # term receives the same var, conjvar, kwargs
        tcalls = [n for n in ast.walk(doit) if isinstance(n, ast.Call) and isinstance(n.func, ast.Attribute) and n.func.attr == 'term']
        if not tcalls:
            raise Untranslatable('%s.doit does not call self.term' % oc)
        for c_ in tcalls:
            if ast.unparse(c_) != 'self.term(sterm, var, conjvar, **kwargs)':
                raise Untranslatable('%s.doit: term call changed: %s' % (oc, ast.unparse(c_)))
        # debug flag: printing only
        oc, tr = self.resolve(chain, 'transform')
        if tr is None:
            raise Untranslatable('no transform method')
        oc2, dbg = self.resolve(chain, 'debug')
        if dbg is None or [ast.unparse(s) for s in dbg.body] != [DEBUG_BODY]:
            raise Untranslatable('Transformer.debug changed')
        for c in chain:
            for name, fn in self.methods(c).items():
                for node in ast.walk(fn):
                    if isinstance(node, ast.Attribute) and node.attr == '_debug':
                        if not ((name == 'debug' and c == oc2) or (name == 'transform' and c == oc)):
                            raise Untranslatable('%s.%s reads self._debug' % (c, name))
        return doit

    # ---------------------------------------------------------------- key
    def key_of(self, cls, chain):
        oc, fn = self.resolve(chain, 'key')
        if fn is None:
            raise Untranslatable('%s: no key method' % cls)
        a = fn.args
        if a.posonlyargs or a.kwonlyargs or a.vararg or a.defaults or a.kwarg is None or len(a.args) != 4:
            raise Untranslatable('%s.key: unexpected signature' % oc)
        pos = [x.arg for x in a.args[1:]]
        kw = a.kwarg.arg
        body = [s for s in fn.body if not (isinstance(s, ast.Expr) and isinstance(s.value, ast.Constant) and isinstance(s.value.value, str))]
        if len(body) != 1 or not isinstance(body[0], ast.Return) or not isinstance(body[0].value, ast.Tuple):
            raise Untranslatable('%s.key: body is not a single return of a tuple' % oc)
        comps = []
        for e in body[0].value.elts:
            if isinstance(e, ast.Name) and e.id in pos:
                comps.append(('pos', pos.index(e.id)))
            elif isinstance(e, ast.Call) and isinstance(e.func, ast.Attribute) and e.func.attr == 'get' and \
                    isinstance(e.func.value, ast.Name) and e.func.value.id == kw and not e.keywords and len(e.args) in (1, 2) and \
                    isinstance(e.args[0], ast.Constant) and isinstance(e.args[0].value, str):
                d = _const(e.args[1], '%s.key' % oc) if len(e.args) == 2 else None
                comps.append(('kw', e.args[0].value, d))
            else:
                raise Untranslatable('%s.key: element %s' % (oc, ast.unparse(e)))
        return oc, comps

    # ---------------------------------------------------------------- consumers of **kwargs
    def truthy_param(self, fn, pname):
        """every read of parameter pname in fn is the whole test of an if / a `not` operand of one"""
        par = _parents(fn)
        reads = [n for n in ast.walk(fn) if isinstance(n, ast.Name) and n.id == pname]
        if not reads:
            return True
        for n in reads:
            if not isinstance(n.ctx, ast.Load):
                return False
            p = par.get(n)
            if isinstance(p, ast.UnaryOp) and isinstance(p.op, ast.Not):
                n, p = p, par.get(p)
            if not (isinstance(p, (ast.If, ast.IfExp, ast.While)) and p.test is n):
                return False
        return True

    def find_function_anywhere(self, name):
        found = []
        for f, tree in self.trees.items():
            for node in ast.walk(tree):
                if isinstance(node, ast.FunctionDef) and node.name == name:
                    found.append(node)
        return found

    def consumers(self, cls, chain):
        cons = []            # (name, default|REQUIRED, use, where)
        notes = []
        seen = set()
        oc, tr = self.resolve(chain, 'transform')
        work = [(chain, oc, tr)]
        while work:
            sub, oc, fn = work.pop()
            if (oc, fn.name) in seen:
                continue
            seen.add((oc, fn.name))
            if fn.args.kwarg is None:
                continue
            kw = fn.args.kwarg.arg
            par = _parents(fn)
            for n in ast.walk(fn):
                if not (isinstance(n, ast.Name) and n.id == kw):
                    continue
                where = '%s.%s' % (oc, fn.name)
                if not isinstance(n.ctx, ast.Load):
                    raise Untranslatable('%s assigns %s' % (where, kw))
                p = par.get(n)
                if isinstance(p, ast.Attribute) and p.attr in ('get', 'pop') and isinstance(par.get(p), ast.Call) and par[p].func is p:
                    call = par[p]
                    if call.keywords or len(call.args) not in (1, 2) or not isinstance(call.args[0], ast.Constant) or not isinstance(call.args[0].value, str):
                        raise Untranslatable('%s: %s' % (where, ast.unparse(call)))
                    name = call.args[0].value
                    d = _const(call.args[1], where) if len(call.args) == 2 else None
                    stmt = call
                    while not isinstance(stmt, ast.stmt):
                        stmt = par[stmt]
                    if name == 'debug':
                        if ast.unparse(stmt) != DEBUG_PIN:
                            raise Untranslatable('%s: debug flag used differently: %s' % (where, ast.unparse(stmt)))
                        notes.append('debug: printing only (pinned)')
                        continue
                    if p.attr == 'pop':
                        raise Untranslatable('%s: kwargs.pop(%r)' % (where, name))
                    up = par.get(call)
                    use = 'value'
                    q = call
                    if isinstance(up, ast.UnaryOp) and isinstance(up.op, ast.Not):
                        q, up = up, par.get(up)
                    if isinstance(up, (ast.If, ast.IfExp, ast.While)) and up.test is q:
                        use = 'truthy'
                    elif isinstance(up, ast.Call) and call in up.args and isinstance(up.func, ast.Attribute):
                        # passed positionally to a method defined exactly once in the translated files
                        cands = self.find_function_anywhere(up.func.attr)
                        idx = up.args.index(call)
                        if len(cands) == 1 and not any(isinstance(a_, ast.Starred) for a_ in up.args):
                            ps = [x.arg for x in cands[0].args.args]
                            if ps and ps[0] == 'self':
                                ps = ps[1:]
                            if idx < len(ps) and self.truthy_param(cands[0], ps[idx]):
                                use = 'truthy'
                    cons.append((name, d, use, where))
                    continue
                if isinstance(p, ast.keyword) and p.arg is None and isinstance(par.get(p), ast.Call):
                    call = par[p]
                    f_ = call.func
                    tgt = None
                    if isinstance(f_, ast.Attribute) and isinstance(f_.value, ast.Name) and f_.value.id == 'self':
                        tgt = (chain, f_.attr)
                    elif isinstance(f_, ast.Attribute) and isinstance(f_.value, ast.Call) and isinstance(f_.value.func, ast.Name) and \
                            f_.value.func.id == 'super' and len(f_.value.args) == 2 and isinstance(f_.value.args[0], ast.Name) and \
                            f_.value.args[0].id in chain:
                        tgt = (chain[chain.index(f_.value.args[0].id) + 1:], f_.attr)
                    elif isinstance(f_, ast.Name) and f_.id == 'Ratfun':
                        rinit = self.external_init('ratfun.py', 'Ratfun')
                        ps = [x.arg for x in rinit.args.args][1:]
                        if rinit.args.kwarg or rinit.args.kwonlyargs or len(ps) != len(call.args):
                            raise Untranslatable('%s: Ratfun.__init__ now takes keyword arguments' % where)
                        notes.append('Ratfun(expr, var, **kwargs): Ratfun.__init__ accepts no keyword (nothing read)')
                        continue
                    if tgt is None:
                        raise Untranslatable('%s passes **%s to %s' % (where, kw, ast.unparse(f_)))
                    sub2, mname = tgt
                    if mname == 'key':
                        continue        # what the key stores is translated by key_of, it is not a read of the result
                    nstar = 0
                    for a_ in call.args:
                        if isinstance(a_, ast.Starred):
                            # the cached pair (cresult, uresult) of the unilateral inverse protocol (pinned store)
                            if ast.unparse(a_) != '*self.cache[key]' or 'self.cache[key] = (cresult, uresult)' not in DOIT_PINS.get(oc, []):
                                raise Untranslatable('%s: starred call %s' % (where, ast.unparse(call)))
                            nstar += 1
                    oc2, fn2 = self.resolve(sub2, mname)
                    if fn2 is None:
                        raise Untranslatable('%s: cannot resolve method %s' % (where, mname))
                    a2 = fn2.args
                    if a2.posonlyargs or a2.kwonlyargs or a2.vararg:
                        raise Untranslatable('%s.%s: unsupported signature' % (oc2, mname))
                    ps = a2.args[1:]
                    defaults = [None] * (len(ps) - len(a2.defaults)) + list(a2.defaults)
                    explicit = set(k_.arg for k_ in call.keywords if k_.arg)
                    npos = len(call.args) + nstar
                    if npos > len(ps):
                        raise Untranslatable('%s: too many arguments for %s' % (where, mname))
                    for i_ in range(npos, len(ps)):
                        pn = ps[i_].arg
                        if pn in explicit:
                            continue
                        if (oc2, mname, pn) in [('BilateralForwardTransformer', 'doit', 'cache')]:
                            notes.append('cache=...: lookup flag of doit (pinned), modelled by the bool of each query')
                            continue
                        dflt = defaults[i_]
                        dv = REQUIRED if dflt is None else _const(dflt, '%s.%s' % (oc2, mname))
                        cons.append((pn, dv, 'truthy' if self.truthy_param(fn2, pn) and dv is not REQUIRED else 'value', '%s.%s(%s)' % (oc2, mname, pn)))
                    work.append((chain, oc2, fn2))
                    continue
                raise Untranslatable('%s: unsupported use of **%s: %s' % (where, kw, ast.unparse(par.get(p) or p)))
        return cons, notes

    def external_init(self, fname, cname):
        try:
            tree = ast.parse(open(os.path.join(self.repo, 'lcapy', fname)).read())
        except (OSError, SyntaxError) as e:
            raise Untranslatable('cannot read %s: %s' % (fname, e))
        for node in tree.body:
            if isinstance(node, ast.ClassDef) and node.name == cname:
                for m in node.body:
                    if isinstance(m, ast.FunctionDef) and m.name == '__init__':
                        return m
        raise Untranslatable('%s.%s.__init__ not found' % (fname, cname))

    # ---------------------------------------------------------------- per class
    def translate(self, cls):
        chain = self.mro(cls)
        self.check_pins(cls, chain)
        kowner, key = self.key_of(cls, chain)
        cons, notes = self.consumers(cls, chain)
        view = []
        for name, d, use, where in sorted(set((n_, d_ if d_ is not REQUIRED else 'REQ', u_) + ('',) for n_, d_, u_, w_ in cons), key=repr):
            view.append((name, REQUIRED if d == 'REQ' else d, use))
        return {'chain': chain, 'key_owner': kowner, 'key': key, 'view': view, 'notes': sorted(set(notes)),
                'where': sorted(set('%s <- %s' % (n_, w_) for n_, d_, u_, w_ in cons))}

    # ---------------------------------------------------------------- Coq
    def coq(self, cls):
        o = self.out[cls]
        L = ['(* generated by tools/tr_dtkeys.py from lcapy/{transformer,%s}.py - do not edit *)' % self.classes[cls][1][:-3],
             'From Coq Require Import List Bool String ZArith.', 'From LT Require Import SeqCache.', 'Import ListNotations.',
             'Local Open Scope string_scope.', '',
             '(* class chain: %s; key defined by %s *)' % (' < '.join(o['chain']), o['key_owner'])]
        for w_ in o['where']:
            L.append('(* reads %s *)' % w_)
        for n_ in o['notes']:
            L.append('(* %s *)' % n_)
        fld = ['(r_expr r)', '(r_var r)', '(r_conj r)']
        kc = []
        for c in o['key']:
            kc.append(fld[c[1]] if c[0] == 'pos' else '(kwget "%s" %s (r_kw r))' % (c[1], coq_val(c[2])))
        vc = list(fld)
        valid = []
        for name, d, use in o['view']:
            if d is REQUIRED:
                vc.append('(kwfind "%s" (r_kw r))' % name)
                valid.append('kwfind "%s" (r_kw r) <> None' % name)
            elif use == 'truthy':
                vc.append('(truthy tr (kwget "%s" %s (r_kw r)))' % (name, coq_val(d)))
            else:
                vc.append('(kwget "%s" %s (r_kw r))' % (name, coq_val(d)))

        def tup(xs):
            return xs[0] if len(xs) == 1 else '(%s)' % ', '.join(xs)
        L += ['Section %s.' % cls, 'Variables (E V A : Type) (tr : A -> bool).',
              'Definition key_%s (r : req A E V) := %s.' % (cls, tup(kc)),
              'Definition view_%s (r : req A E V) := %s.' % (cls, tup(vc)),
              'Definition valid_%s (r : req A E V) : Prop := %s.' % (cls, ' /\\ '.join(valid) if valid else 'True'),
              '',
              'Theorem gen_key_determines_view_%s : forall r1 r2, valid_%s r1 -> valid_%s r2 ->' % (cls, cls, cls),
              '  key_%s r1 = key_%s r2 -> view_%s r1 = view_%s r2.' % (cls, cls, cls, cls),
              'Proof.',
              '  intros [e1 v1 c1 k1] [e2 v2 c2 k2]. unfold valid_%s, key_%s, view_%s. cbn [r_expr r_var r_conj r_kw].' % (cls, cls, cls),
              '  intros Hv1 Hv2 H. inversion H; subst.',
              '  repeat match goal with Hc : _ /\\ _ |- _ => destruct Hc end.',
              '  repeat match goal with |- (_, _) = (_, _) => f_equal end;',
              '  first [ reflexivity | assumption | (apply kwget_truthy_same; assumption)',
              '        | (eapply kwget_truthy_default; cycle 1; [eassumption | reflexivity])',
              '        | (eapply kwget_required; [eassumption | eassumption | eassumption]) ].',
              'Qed.',
              '',
              'Theorem gen_cache_transparent_%s (R Cst : Type) (Key := %s) (keq : Key -> Key -> bool)' % (cls, self.key_type(o)),
              '  (keq_eq : forall a b, keq a b = true <-> a = b) (compute : _ -> R) (scale : Cst -> R -> R) qs :',
              '  Forall (fun q => valid_%s (snd q)) qs ->' % cls,
              '  krun _ _ _ R Cst keq key_%s view_%s compute scale [] qs = map (fresh _ _ R Cst view_%s compute scale) qs.' % (cls, cls, cls),
              'Proof. apply keyed_cache_history_independent; [exact keq_eq | exact gen_key_determines_view_%s]. Qed.' % cls,
              'End %s.' % cls,
              'Print Assumptions gen_key_determines_view_%s.' % cls,
              'Print Assumptions gen_cache_transparent_%s.' % cls, '']
        return '\n'.join(L)

    def key_type(self, o):
        ts = []
        for c in o['key']:
            ts.append(['E', 'V', 'V'][c[1]] if c[0] == 'pos' else 'val A')
        return '(%s)%%type' % ' * '.join(ts)


if __name__ == '__main__':
    import sys
    repo = sys.argv[1] if len(sys.argv) > 1 else os.environ.get('VERIF_REPO', '/repo')
    k = Keys(repo)
    for cls, _ in CLASSES:
        print(k.coq(cls))
