"""Fail-closed translator for C14: how Lcapy obtains the immittance of a leaf
component in the s-domain and in an ac (phasor) analysis, and how phasors are
built from / turned back into sinusoids -> Coq (Gen/ImmittanceGen.v).

Reads the source text with `ast` only; anything outside the recognised subset
raises Untranslatable(file:line).  Translated:

 A lcapy/oneport.py  R, G, L, C, CPE, Y, Z `__init__`: which of `_Z` / `_Y` is set and
   to what expression in `s` and the constructor arguments          -> leaf_slot, leaf_val
   (subclasses without an own `__init__` become aliases)            -> LEAF_ALIASES (python side)
 B lcapy/oneport.py  OnePort.impedance / OnePort.admittance fallback chains   -> op_impedance, op_admittance
 C the route from `cpt.Y` / `cpt.Z` of a netlist component to the value for the
   analysis kind: immittancemixin.py `Y`/`Z` (= self.admittance / self.impedance),
   mnacpts.py `Cpt.admittance/impedance` (= self.cpt.<x>._select(self.cct.kind)),
   no override of these in any other mnacpts class, expr.py `Expr._select`
   (= transform.select(self, kind)), transform.py `select` if-chain          -> select_act
 D lcapy/oneport.py  Vac / Iac `__init__` (`phasor(amp * exp(j * phi), omega=omega)`,
   argument positions and defaults) and their `voc` / `isc` properties
   (`amp * cos(omega * t + phi)`)                                   -> src_phasor, src_time_form
 F lcapy/expr.py     Expr.magnitude (sqrt(N.real**2 + N.imag**2) / D), Expr.phase (atan2(N.imag, N.real); 0 / pi for
   real numbers), Expr.dB (20 or 10 log10 magnitude), abs / angle aliases          -> gen_mag_num_sq, gen_phase_*, gen_dB_*
   lcapy/acdc.py     ACChecker._is_sum_ac (x, y formulas and the three branches)              -> gen_sum_*
 E lcapy/phasor.py   PhasorDomainExpression.time (real branch), .from_time
   (`check.amp * exp(j * check.phase)`), lcapy/acdc.py ACChecker._find_freq_phase
   (phase offsets of cos / sin, `phase += coeffs[1]`, `omega = coeffs[0]`)   -> gen_phasor_time, gen_offs

Recognised expression subset (scalars): names bound once, constructor parameters,
`self.<attr>` bound once, + - * / unary -, small ints, `s`, `s ** <param>` (opaque power
`pw s a`), identity wrappers cexpr/expr/impedance/admittance(x[, causal=True]).
"""
import ast
import hashlib
import os
import sys
import warnings

warnings.filterwarnings('ignore', category=SyntaxWarning)

IDENT_WRAPPERS = ('cexpr', 'expr', 'impedance', 'admittance')
LEAVES = ['R', 'G', 'L', 'C', 'CPE', 'Y', 'Z']
KINDMAP = {'dc': 'KDc', 's': 'KS', 'ivp': 'KIvp', 'laplace': 'KLaplace', 't': 'KT', 'time': 'KTime',
           'transient': 'KTransient'}
# string kinds that `select` knows but that never are the kind of a sub-netlist MNA
NON_MNA_KINDS = ('super', 'f', 'omega', 'Omega', 'F')
ACTIONS = {'expr.subs(j * kind)': 'SelSubsJ', 'expr.time()': 'SelTime', 'expr.subs(0)': 'SelSubs0',
           'expr.laplace()': 'SelLaplace', 'expr.fourier()': 'SelFourier',
           'expr.angular_fourier()': 'SelAngFourier', 'expr.norm_angular_fourier()': 'SelNormAngFourier',
           'expr.norm_fourier()': 'SelNormFourier'}


class Untranslatable(Exception):
    pass


class Src:
    def __init__(self, repo, rel):
        self.rel = rel
        self.path = os.path.join(repo, rel)
        self.text = open(self.path).read()
        self.sha = hashlib.sha256(self.text.encode()).hexdigest()
        self.tree = ast.parse(self.text)

    def fail(self, node, why):
        raise Untranslatable('%s:%s: %s: %s' % (self.rel, getattr(node, 'lineno', '?'), why,
                                                ast.unparse(node)[:160] if isinstance(node, ast.AST) else node))

    def cls(self, name):
        for n in self.tree.body:
            if isinstance(n, ast.ClassDef) and n.name == name:
                return n
        self.fail(self.tree, 'class %s not found' % name)

    def classes(self):
        return [n for n in self.tree.body if isinstance(n, ast.ClassDef)]

    def func(self, node, name, required=True):
        body = node.body
        for n in body:
            if isinstance(n, ast.FunctionDef) and n.name == name:
                return n
        if required:
            self.fail(node, 'function %s not found' % name)
        return None


def strip_doc(body):
    if body and isinstance(body[0], ast.Expr) and isinstance(body[0].value, ast.Constant) and isinstance(body[0].value.value, str):
        return body[1:]
    return body


def is_warn(s):
    return isinstance(s, ast.Expr) and isinstance(s.value, ast.Call) and getattr(s.value.func, 'id', None) == 'warn'


def small_int(n):
    if n == 0:
        return 'f0'
    out = 'f1'
    for _ in range(n - 1):
        out = '(fadd %s f1)' % out
    return out


# ---------------------------------------------------------------------------------------
class InitBody:
    """the assignments of an __init__, with whether they are conditional"""

    def __init__(self, src, fn):
        self.src = src
        self.fn = fn
        a = fn.args
        if a.vararg or a.kwonlyargs or a.posonlyargs or a.kwarg is None or a.kwarg.arg != 'kwargs':
            src.fail(fn, 'unexpected signature')
        self.params = [x.arg for x in a.args][1:]
        nd = len(a.defaults)
        self.defaults = {}
        for p, d in zip(self.params[len(self.params) - nd:], a.defaults):
            self.defaults[p] = d
        self.defs = {}          # key ('n', name) | ('a', attr) -> list of (value, conditional)
        self.none_defaults = {}  # param -> value node assigned when the argument is None
        self.walk(strip_doc(fn.body), False)

    def key(self, t):
        if isinstance(t, ast.Name):
            return ('n', t.id)
        if isinstance(t, ast.Attribute) and isinstance(t.value, ast.Name) and t.value.id == 'self':
            return ('a', t.attr)
        self.src.fail(t, 'unsupported assignment target')

    def walk(self, stmts, cond):
        for s in stmts:
            if is_warn(s):
                continue
            if isinstance(s, ast.Assign):
                if len(s.targets) != 1:
                    self.src.fail(s, 'multiple targets')
                self.defs.setdefault(self.key(s.targets[0]), []).append((s.value, cond))
                continue
            if isinstance(s, ast.If):
                t = s.test
                # default handling:  if P is None: P = <value>
                if (isinstance(t, ast.Compare) and len(t.ops) == 1 and isinstance(t.ops[0], ast.Is)
                        and isinstance(t.left, ast.Name) and isinstance(t.comparators[0], ast.Constant)
                        and t.comparators[0].value is None and not s.orelse and len(s.body) == 1
                        and isinstance(s.body[0], ast.Assign) and len(s.body[0].targets) == 1
                        and isinstance(s.body[0].targets[0], ast.Name) and s.body[0].targets[0].id == t.left.id
                        and t.left.id in self.params):
                    if t.left.id in self.none_defaults:
                        self.src.fail(s, 'two defaults for one parameter')
                    self.none_defaults[t.left.id] = s.body[0].value
                    continue
                self.check_test(t)
                self.walk(s.body, True)
                self.walk(s.orelse, True)
                continue
            self.src.fail(s, 'unsupported statement in __init__')

    def check_test(self, t):
        """conditions may only look at arguments being None / has_ic / the 'I' warning"""
        if isinstance(t, ast.BoolOp):
            for v in t.values:
                self.check_test(v)
            return
        if isinstance(t, ast.Compare) and len(t.ops) == 1 and isinstance(t.left, ast.Name) and t.left.id in self.params:
            if isinstance(t.ops[0], (ast.Is, ast.IsNot, ast.Eq)) and isinstance(t.comparators[0], ast.Constant):
                return
        if isinstance(t, ast.Attribute) and ast.unparse(t) == 'self.has_ic':
            return
        if isinstance(t, ast.Call) and getattr(t.func, 'id', None) == 'isinstance':
            return
        self.src.fail(t, 'unsupported condition in __init__')

    # -- resolution of a scalar expression to Coq over (s, a0, a1, .., pw) ---------------
    def param_ref(self, name, node):
        """a constructor parameter: may be re-bound once, unconditionally, by an identity wrapper of itself"""
        ds = self.defs.get(('n', name), [])
        for v, cond in ds:
            ok = (isinstance(v, ast.Call) and getattr(v.func, 'id', None) in IDENT_WRAPPERS and len(v.args) == 1
                  and isinstance(v.args[0], ast.Name) and v.args[0].id == name and not cond
                  and all(k.arg == 'causal' for k in v.keywords))
            if not ok:
                self.src.fail(node, 'parameter %s is re-bound by something else than an identity wrapper' % name)
        if len(ds) > 1:
            self.src.fail(node, 'parameter %s re-bound more than once' % name)
        return 'a%d' % self.params.index(name)

    def scalar(self, e, seen=()):
        if isinstance(e, ast.Constant):
            if isinstance(e.value, int) and not isinstance(e.value, bool) and 0 <= e.value <= 8:
                return small_int(e.value)
            self.src.fail(e, 'unsupported constant')
        if isinstance(e, ast.Name):
            if e.id in self.params:
                return self.param_ref(e.id, e)
            if e.id == 's':
                if ('n', 's') in self.defs:
                    self.src.fail(e, 's is re-bound locally')
                return 's'
            return self.single(('n', e.id), e, seen)
        if isinstance(e, ast.Attribute) and isinstance(e.value, ast.Name) and e.value.id == 'self':
            return self.single(('a', e.attr), e, seen)
        if isinstance(e, ast.Call) and getattr(e.func, 'id', None) in IDENT_WRAPPERS and len(e.args) == 1:
            for k in e.keywords:
                if not (k.arg == 'causal' and isinstance(k.value, ast.Constant) and k.value.value is True):
                    self.src.fail(e, 'unsupported keyword of wrapper')
            return self.scalar(e.args[0], seen)
        if isinstance(e, ast.UnaryOp) and isinstance(e.op, ast.USub):
            return '(fopp %s)' % self.scalar(e.operand, seen)
        if isinstance(e, ast.BinOp):
            if isinstance(e.op, ast.Pow):
                if isinstance(e.left, ast.Name) and e.left.id == 's' and isinstance(e.right, ast.Name) and e.right.id in self.params:
                    return '(pw s %s)' % self.param_ref(e.right.id, e)
                self.src.fail(e, 'unsupported power')
            op = {ast.Add: 'fadd', ast.Sub: 'fsub', ast.Mult: 'fmul', ast.Div: 'fdiv'}.get(type(e.op))
            if op is None:
                self.src.fail(e, 'unsupported operator')
            return '(%s %s %s)' % (op, self.scalar(e.left, seen), self.scalar(e.right, seen))
        self.src.fail(e, 'unsupported scalar expression')

    def single(self, key, node, seen):
        if key in seen:
            self.src.fail(node, 'cyclic definition')
        ds = self.defs.get(key, [])
        if len(ds) != 1 or ds[0][1]:
            self.src.fail(node, '%s must be bound exactly once, unconditionally (found %d)' % (key[1], len(ds)))
        return self.scalar(ds[0][0], seen + (key,))


class Translator:
    def __init__(self, repo):
        self.repo = repo
        self.op = Src(repo, 'lcapy/oneport.py')
        self.im = Src(repo, 'lcapy/immittancemixin.py')
        self.mc = Src(repo, 'lcapy/mnacpts.py')
        self.ex = Src(repo, 'lcapy/expr.py')
        self.tf = Src(repo, 'lcapy/transform.py')
        self.ph = Src(repo, 'lcapy/phasor.py')
        self.ad = Src(repo, 'lcapy/acdc.py')
        self.srcs = [self.op, self.im, self.mc, self.ex, self.tf, self.ph, self.ad]
        self.leaves = {}
        self.aliases = {}
        self.out = []

    # ---- A ------------------------------------------------------------------------------
    def leaf(self, name):
        cls = self.op.cls(name)
        fn = self.op.func(cls, '__init__')
        ib = InitBody(self.op, fn)
        zs = ib.defs.get(('a', '_Z'), [])
        ys = ib.defs.get(('a', '_Y'), [])
        if len(zs) + len(ys) != 1:
            self.op.fail(fn, 'expected exactly one assignment to self._Z or self._Y')
        slot, (val, cond) = ('SlotZ', zs[0]) if zs else ('SlotY', ys[0])
        if cond:
            self.op.fail(fn, 'conditional immittance')
        # no class-level or property override of the slots in the leaf class
        for n in cls.body:
            if isinstance(n, ast.FunctionDef) and n.name in ('impedance', 'admittance', 'Z', 'Y', '_Z', '_Y'):
                self.op.fail(n, 'leaf class overrides %s' % n.name)
            if isinstance(n, ast.Assign) and any(getattr(t, 'id', None) in ('_Z', '_Y') for t in n.targets):
                self.op.fail(n, 'leaf class sets _Z/_Y at class level')
        coq = ib.scalar(val)
        if len(ib.params) > 2:
            self.op.fail(fn, 'more than two constructor parameters')
        self.leaves[name] = {'slot': slot, 'coq': coq, 'params': ib.params, 'line': fn.lineno,
                             'none_defaults': {k: ast.unparse(v) for k, v in ib.none_defaults.items()}}

    def find_aliases(self):
        for c in self.op.classes():
            if len(c.bases) == 1 and isinstance(c.bases[0], ast.Name) and c.bases[0].id in LEAVES:
                own = [n for n in c.body if isinstance(n, ast.FunctionDef) and n.name in
                       ('__init__', 'impedance', 'admittance', 'Z', 'Y')]
                sets = [n for n in c.body if isinstance(n, ast.Assign) and any(getattr(t, 'id', None) in ('_Z', '_Y') for t in n.targets)]
                if not own and not sets:
                    self.aliases[c.name] = c.bases[0].id

    # ---- B ------------------------------------------------------------------------------
    def op_chain(self, pname):
        cls = self.op.cls('OnePort')
        # class defaults
        dfl = {}
        for n in cls.body:
            if isinstance(n, ast.Assign) and len(n.targets) == 1 and isinstance(n.targets[0], ast.Name) \
                    and n.targets[0].id in ('_Z', '_Y', '_Voc', '_Isc'):
                dfl[n.targets[0].id] = ast.unparse(n.value)
        if dfl != {'_Z': 'None', '_Y': 'None', '_Voc': 'None', '_Isc': 'None'}:
            self.op.fail(cls, 'OnePort class defaults of _Z/_Y/_Voc/_Isc are not None')
        fn = self.op.func(cls, pname)
        if not any(ast.unparse(d) == 'property' for d in fn.decorator_list):
            self.op.fail(fn, 'not a property')
        body = strip_doc(fn.body)

        def oexpr(e, scope):
            u = ast.unparse(e)
            if u in ('self._Z', 'self._Y'):
                if u[5:] not in scope:
                    self.op.fail(e, 'slot used outside its not-None branch')
                return 'Some v%s' % u[6:]
            if u in ('impedance(0)', 'admittance(0)'):
                return 'Some f0'
            if u == 'self.impedance' and pname != 'impedance':
                return 'op_impedance oZ oY hasVoc hasIsc'
            if isinstance(e, ast.BinOp) and isinstance(e.op, ast.Div) and isinstance(e.left, ast.Constant) and e.left.value == 1:
                return 'omap (fdiv f1) (%s)' % oexpr(e.right, scope)
            self.op.fail(e, 'unsupported expression in OnePort.%s' % pname)

        def chain(stmts):
            if not stmts:
                self.op.fail(fn, 'falls off the end')
            s = stmts[0]
            if isinstance(s, ast.Raise):
                return 'None'
            if isinstance(s, ast.Return) and s.value is not None:
                return oexpr(s.value, ())
            if isinstance(s, ast.If) and not s.orelse and len(s.body) == 1 and isinstance(s.body[0], ast.Return):
                t = s.test
                if (isinstance(t, ast.Compare) and len(t.ops) == 1 and isinstance(t.ops[0], ast.IsNot)
                        and isinstance(t.comparators[0], ast.Constant) and t.comparators[0].value is None
                        and ast.unparse(t.left) in ('self._Z', 'self._Y', 'self._Voc', 'self._Isc')):
                    slot = ast.unparse(t.left)[5:]
                    rest = chain(stmts[1:])
                    if slot in ('_Z', '_Y'):
                        return '(match o%s with Some v%s => %s | None => %s end)' % (
                            slot[1:], slot[1:], oexpr(s.body[0].value, (slot,)), rest)
                    return '(if has%s then %s else %s)' % (slot[1:], oexpr(s.body[0].value, ()), rest)
            self.op.fail(s, 'unsupported statement in OnePort.%s' % pname)
        return chain(body), fn.lineno

    # ---- C ------------------------------------------------------------------------------
    def ret_only(self, src, fn, expected, allow_import=False):
        body = strip_doc(fn.body)
        if allow_import and body and isinstance(body[0], ast.ImportFrom):
            if ast.unparse(body[0]) != 'from .transform import select':
                src.fail(body[0], 'unexpected import')
            body = body[1:]
        if len(body) != 1 or not isinstance(body[0], ast.Return) or ast.unparse(body[0].value) != expected:
            src.fail(fn, 'expected body `return %s`' % expected)

    def chain_checks(self):
        mix = self.im.cls('ImmittanceMixin')
        self.ret_only(self.im, self.im.func(mix, 'Y'), 'self.admittance')
        self.ret_only(self.im, self.im.func(mix, 'Z'), 'self.impedance')
        cpt = self.mc.cls('Cpt')
        if [ast.unparse(b) for b in cpt.bases] != ['ImmittanceMixin']:
            self.mc.fail(cpt, 'Cpt bases changed')
        self.ret_only(self.mc, self.mc.func(cpt, 'admittance'), 'self.cpt.admittance._select(self.cct.kind)')
        self.ret_only(self.mc, self.mc.func(cpt, 'impedance'), 'self.cpt.impedance._select(self.cct.kind)')
        for c in self.mc.classes():
            for n in c.body:
                if isinstance(n, ast.FunctionDef) and n.name in ('Y', 'Z', 'admittance', 'impedance') and c.name != 'Cpt':
                    self.mc.fail(n, 'class %s overrides %s' % (c.name, n.name))
                if isinstance(n, ast.Assign) and any(getattr(t, 'id', None) in ('Y', 'Z', 'admittance', 'impedance') for t in n.targets):
                    self.mc.fail(n, 'class %s re-binds an immittance attribute' % c.name)
        ex = self.ex.cls('Expr')
        self.ret_only(self.ex, self.ex.func(ex, '_select'), 'select(self, kind)', allow_import=True)
        # no Expr subclass module re-defines _select: checked textually over lcapy/*.py by the caller (grep)

    def select_table(self):
        fn = None
        for n in self.tf.tree.body:
            if isinstance(n, ast.FunctionDef) and n.name == 'select':
                fn = n
        if fn is None or [a.arg for a in fn.args.args] != ['expr', 'kind']:
            self.tf.fail(self.tf.tree, 'transform.select(expr, kind) not found')
        body = strip_doc(fn.body)
        nonstr = None
        table = {}
        prefix_n = None
        if not (isinstance(body[0], ast.If) and ast.unparse(body[0].test) == 'not isinstance(kind, str)'
                and not body[0].orelse and len(body[0].body) == 1 and isinstance(body[0].body[0], ast.Return)):
            self.tf.fail(body[0], 'expected the non-string (ac) test first')
        act = ast.unparse(body[0].body[0].value)
        if act not in ACTIONS:
            self.tf.fail(body[0], 'unknown action')
        nonstr = ACTIONS[act]
        if len(body) != 2 or not isinstance(body[1], ast.If):
            self.tf.fail(fn, 'expected one if/elif chain after the ac test')
        node = body[1]
        while True:
            t = node.test
            if len(node.body) != 1:
                self.tf.fail(node, 'branch with several statements')
            b = node.body[0]
            keys = None
            if isinstance(t, ast.Compare) and len(t.ops) == 1 and ast.unparse(t.left) == 'kind':
                if isinstance(t.ops[0], ast.Eq) and isinstance(t.comparators[0], ast.Constant):
                    keys = [t.comparators[0].value]
                elif isinstance(t.ops[0], ast.In) and isinstance(t.comparators[0], ast.Tuple):
                    keys = [x.value if isinstance(x, ast.Constant) else self.tf.fail(t, 'non-literal kind') for x in t.comparators[0].elts]
            if keys is None and ast.unparse(t) == "isinstance(kind, str) and kind.startswith('n')":
                keys = ['n*']
            if keys is None:
                self.tf.fail(t, 'unsupported test in select')
            if not isinstance(b, ast.Return) or ast.unparse(b.value) not in ACTIONS:
                self.tf.fail(b, 'unsupported action in select')
            for k in keys:
                if k in table:
                    continue      # first match wins
                table[k] = ACTIONS[ast.unparse(b.value)]
            if len(node.orelse) == 1 and isinstance(node.orelse[0], ast.If):
                node = node.orelse[0]
                continue
            if len(node.orelse) == 1 and isinstance(node.orelse[0], ast.Raise):
                break
            self.tf.fail(node, 'chain must end in raise')
        for k in table:
            if k not in KINDMAP and k not in NON_MNA_KINDS and k != 'n*':
                self.tf.fail(fn, 'unknown kind string %r in select' % k)
        return nonstr, table, fn.lineno

    # ---- D ------------------------------------------------------------------------------
    def ac_source(self, name, slot):
        cls = self.op.cls(name)
        fn = self.op.func(cls, '__init__')
        ib = InitBody(self.op, fn)
        ds = ib.defs.get(('a', slot), [])
        if len(ds) != 1 or ds[0][1]:
            self.op.fail(fn, 'expected one unconditional assignment to self.%s' % slot)
        v = ds[0][0]
        wrap = {'_Voc': 'SuperpositionVoltage', '_Isc': 'SuperpositionCurrent'}[slot]
        if not (isinstance(v, ast.Call) and getattr(v.func, 'id', None) == wrap and len(v.args) == 1 and not v.keywords):
            self.op.fail(v, 'expected %s(phasor(..))' % wrap)
        p = v.args[0]
        if not (isinstance(p, ast.Call) and getattr(p.func, 'id', None) == 'phasor' and len(p.args) == 1
                and [k.arg for k in p.keywords] == ['omega']):
            self.op.fail(p, 'expected phasor(<value>, omega=<omega>)')
        e = p.args[0]
        # amp * exp(j * phi)
        if not (isinstance(e, ast.BinOp) and isinstance(e.op, ast.Mult) and isinstance(e.right, ast.Call)
                and getattr(e.right.func, 'id', None) == 'exp' and len(e.right.args) == 1):
            self.op.fail(e, 'expected <amp> * exp(j * <phase>)')
        x = e.right.args[0]
        if not (isinstance(x, ast.BinOp) and isinstance(x.op, ast.Mult) and isinstance(x.left, ast.Name) and x.left.id == 'j'):
            self.op.fail(x, 'expected j * <phase>')
        amp = ib.scalar(e.left)
        phase = ib.scalar(x.right)
        om = ib.scalar(p.keywords[0].value)
        for what, val in (('amplitude', amp), ('phase', phase), ('omega', om)):
            if not (val.startswith('a') and val[1:].isdigit()):
                self.op.fail(fn, '%s is not a plain constructor argument (%s)' % (what, val))
        res = {'amp': int(amp[1:]), 'phase': int(phase[1:]), 'omega': int(om[1:]), 'line': fn.lineno,
               'params': ib.params}
        # defaults: phase defaults to 0 (signature default or None-default)
        ph_name = ib.params[res['phase']]
        dflt = []
        if ph_name in ib.defaults:
            dflt.append(ast.unparse(ib.defaults[ph_name]))
        if ph_name in ib.none_defaults:
            dflt.append(ast.unparse(ib.none_defaults[ph_name]))
        if not dflt or any(d not in ('0', 'None') for d in dflt) or '0' not in dflt:
            self.op.fail(fn, 'default phase is not 0 (%s)' % dflt)
        # time-domain form: voc / isc property
        prop = self.op.func(cls, {'_Voc': 'voc', '_Isc': 'isc'}[slot])
        body = strip_doc(prop.body)
        q = {'_Voc': 'voltage', '_Isc': 'current'}[slot]
        a_attr = {'_Voc': 'self.v0', '_Isc': 'self.i0'}[slot]
        want = 'return %s(%s * cos(self.omega * t + self.phi))' % (q, a_attr)
        if len(body) != 1 or ast.unparse(body[0]) != want:
            self.op.fail(prop, 'expected `%s`' % want)
        # and self.v0 / self.phi / self.omega are the same arguments
        for attr, idx in ((a_attr[5:], res['amp']), ('phi', res['phase']), ('omega', res['omega'])):
            if ib.single(('a', attr), prop, ()) != 'a%d' % idx:
                self.op.fail(prop, 'self.%s is not argument %d' % (attr, idx))
        return res

    # ---- E ------------------------------------------------------------------------------
    def phasor_time(self):
        cls = self.ph.cls('PhasorDomainExpression')
        fn = self.ph.func(cls, 'time')
        found = None
        for n in ast.walk(fn):
            if isinstance(n, ast.If) and ast.unparse(n.test) == 'self.is_complex_signal':
                if len(n.orelse) != 1 or not isinstance(n.orelse[0], ast.Assign):
                    self.ph.fail(n, 'unexpected real branch')
                found = n.orelse[0]
        if found is None or ast.unparse(found.targets[0]) != 'result':
            self.ph.fail(fn, 'real-signal branch not found')
        rets = [n for n in ast.walk(fn) if isinstance(n, ast.Return)]
        if len(rets) != 1 or ast.unparse(rets[0].value) != 'TimeDomainExpression(result).as_quantity(self.quantity)':
            self.ph.fail(fn, 'unexpected return')
        env = {'self.real.expr': 're_', 'self.imag.expr': 'im_', 'cos(omega1 * t)': 'C', 'sin(omega1 * t)': 'S'}

        def tr(e):
            u = ast.unparse(e)
            if u in env:
                return env[u]
            if isinstance(e, ast.BinOp):
                op = {ast.Add: 'fadd', ast.Sub: 'fsub', ast.Mult: 'fmul'}.get(type(e.op))
                if op:
                    return '(%s %s %s)' % (op, tr(e.left), tr(e.right))
            if isinstance(e, ast.UnaryOp) and isinstance(e.op, ast.USub):
                return '(fopp %s)' % tr(e.operand)
            self.ph.fail(e, 'unsupported term in PhasorDomainExpression.time')
        coq = tr(found.value)
        # omega1 is self.omega (possibly unwrapped)
        o1 = [n for n in fn.body if isinstance(n, ast.Assign) and ast.unparse(n.targets[0]) == 'omega1']
        if not o1 or ast.unparse(o1[0].value) != 'self.omega':
            self.ph.fail(fn, 'omega1 is not self.omega')
        # from_time: result = check.amp * exp(j * check.phase); omega = check.omega
        ft = self.ph.func(cls, 'from_time')
        rs = [n for n in ast.walk(ft) if isinstance(n, ast.Assign) and ast.unparse(n.targets[0]) == 'result']
        if len(rs) != 1 or ast.unparse(rs[0].value) != 'check.amp * exp(j * check.phase)':
            self.ph.fail(ft, 'from_time: result is not check.amp * exp(j * check.phase)')
        oms = [n for n in ast.walk(ft) if isinstance(n, ast.Assign) and ast.unparse(n.targets[0]) == "assumptions['omega']"]
        if len(oms) != 1 or ast.unparse(oms[0].value) != 'check.omega':
            self.ph.fail(ft, "from_time: assumptions['omega'] is not check.omega")
        cks = [n for n in ast.walk(ft) if isinstance(n, ast.Assign) and ast.unparse(n.targets[0]) == 'check']
        if len(cks) != 1 or ast.unparse(cks[0].value) != 'ACChecker(expr, t)':
            self.ph.fail(ft, 'from_time: check is not ACChecker(expr, t)')
        return coq, fn.lineno

    def acchecker(self):
        cls = self.ad.cls('ACChecker')
        fn = self.ad.func(cls, '_find_freq_phase')
        offs = {}
        node = None
        for n in fn.body:
            if isinstance(n, ast.If) and ast.unparse(n.test).startswith('expr.func =='):
                node = n
        if node is None:
            self.ad.fail(fn, 'function test chain not found')
        QT = {'0': 0, '-pi / 2': -1, 'pi / 2': 1, 'pi': 2, '-pi': 2}
        while True:
            t = ast.unparse(node.test)
            if t in ('expr.func == cos', 'expr.func == sin'):
                if len(node.body) != 1 or not isinstance(node.body[0], ast.Assign) or ast.unparse(node.body[0].targets[0]) != 'self.phase':
                    self.ad.fail(node, 'unexpected branch body')
                v = ast.unparse(node.body[0].value)
                if v not in QT:
                    self.ad.fail(node, 'phase offset is not a multiple of pi/2')
                offs[t[-3:]] = QT[v]
            elif t != 'expr.func == exp':
                self.ad.fail(node, 'unexpected function test')
            if len(node.orelse) == 1 and isinstance(node.orelse[0], ast.If):
                node = node.orelse[0]
                continue
            break
        if set(offs) != {'cos', 'sin'}:
            self.ad.fail(fn, 'cos/sin branches not found')
        text = [ast.unparse(n) for n in fn.body]
        for need in ('self.phase += coeffs[1]', 'self.omega = coeffs[0]', 'p = sym.Poly(arg, self.var)',
                     'coeffs = p.all_coeffs()', 'arg = expr.args[0]'):
            if need not in text:
                self.ad.fail(fn, 'statement `%s` not found' % need)
        # amplitude: product of the t-independent factors
        ia = self.ad.func(cls, '_is_ac')
        txt = ast.unparse(ia)
        for need in ('self.amp = 1', 'self.amp *= factor', 'factors = expr.as_ordered_factors()'):
            if need not in txt:
                self.ad.fail(ia, 'statement `%s` not found' % need)
        return offs, fn.lineno

    def sum_ac(self):
        """ACChecker._is_sum_ac: how two same-frequency terms (A1, p1), (A2, p2) are merged into
        one (amp, phase): x, y formulas and the three branches y == 0 / x == 0 / else"""
        cls = self.ad.cls('ACChecker')
        fn = self.ad.func(cls, '_is_sum_ac')
        loops = [n for n in fn.body if isinstance(n, ast.For)]
        if len(loops) != 1 or ast.unparse(loops[0].iter) != 'terms[1:]':
            self.ad.fail(fn, 'loop over terms[1:] not found')
        body = loops[0].body
        text = [ast.unparse(n) for n in body]
        for need in ('check2 = ACChecker(term, self.var)', 'A1, p1 = (check.amp, check.phase)', 'A2, p2 = (check2.amp, check2.phase)'):
            if need not in text:
                self.ad.fail(fn, 'statement `%s` not found' % need)
        env = {'A1': 'A1', 'A2': 'A2', 'cos(p1)': 'c1', 'cos(p2)': 'c2', 'sin(p1)': 's1', 'sin(p2)': 's2'}

        def tr(e):
            u = ast.unparse(e)
            if u in env:
                return env[u]
            if isinstance(e, ast.BinOp):
                op = {ast.Add: 'fadd', ast.Sub: 'fsub', ast.Mult: 'fmul'}.get(type(e.op))
                if op:
                    return '(%s %s %s)' % (op, tr(e.left), tr(e.right))
            if isinstance(e, ast.UnaryOp) and isinstance(e.op, ast.USub):
                return '(fopp %s)' % tr(e.operand)
            self.ad.fail(e, 'unsupported term in _is_sum_ac')
        xy = {}
        for n in body:
            if isinstance(n, ast.Assign) and ast.unparse(n.targets[0]) in ('x', 'y'):
                if ast.unparse(n.targets[0]) in xy:
                    self.ad.fail(n, 'x/y assigned twice')
                xy[ast.unparse(n.targets[0])] = tr(n.value)
        if set(xy) != {'x', 'y'}:
            self.ad.fail(fn, 'x / y not found')
        ifs = [n for n in body if isinstance(n, ast.If) and ast.unparse(n.test) in ('y == 0', 'x == 0')]
        if len(ifs) != 1 or ast.unparse(ifs[0].test) != 'y == 0' or body[-1] is not ifs[0]:
            self.ad.fail(fn, 'expected the `if y == 0` chain as the last statement of the loop')
        QT = {'0': 0, '-pi / 2': -1, 'pi / 2': 1, 'pi': 2, '-pi': 2}

        def branch(stmts, where):
            d = {}
            for n in stmts:
                if not isinstance(n, ast.Assign) or ast.unparse(n.targets[0]) not in ('check.phase', 'check.amp'):
                    self.ad.fail(n, 'unexpected statement in the %s branch' % where)
                d[ast.unparse(n.targets[0])] = ast.unparse(n.value)
            if set(d) != {'check.phase', 'check.amp'}:
                self.ad.fail(fn, 'phase/amp not both set in the %s branch' % where)
            return d
        b0 = branch(ifs[0].body, 'y == 0')
        if len(ifs[0].orelse) != 1 or not isinstance(ifs[0].orelse[0], ast.If) or ast.unparse(ifs[0].orelse[0].test) != 'x == 0':
            self.ad.fail(fn, 'expected `elif x == 0`')
        b1 = branch(ifs[0].orelse[0].body, 'x == 0')
        b2 = branch(ifs[0].orelse[0].orelse, 'else')
        out = {'x': xy['x'], 'y': xy['y'], 'line': fn.lineno}
        for nm, bb in (('y0', b0), ('x0', b1)):
            if bb['check.phase'] not in QT or bb['check.amp'] not in ('x', 'y'):
                self.ad.fail(fn, 'branch %s: phase %s / amp %s outside the subset' % (nm, bb['check.phase'], bb['check.amp']))
            out[nm] = (bb['check.amp'], QT[bb['check.phase']])
        if b2 != {'check.phase': 'atan2(y, x)', 'check.amp': 'sqrt(x ** 2 + y ** 2)'}:
            self.ad.fail(fn, 'else branch is not the polar form atan2(y, x), sqrt(x**2 + y**2): %s' % b2)
        # after the loop the merged values are copied to self
        tail = [ast.unparse(n) for n in fn.body]
        for need in ('self.amp = check.amp', 'self.phase = check.phase', 'self.omega = check.omega'):
            if need not in tail:
                self.ad.fail(fn, 'statement `%s` not found' % need)
        return out

    # ---- F: Expr.magnitude / phase / dB (frequency-response read-out) ----------------------
    def fresp(self):
        cls = self.ex.cls('Expr')
        mg = self.ex.func(cls, 'magnitude')
        text = [ast.unparse(n) for n in strip_doc(mg.body)]
        for need in ('R = self.rationalize_denominator()', 'N = R.N', 'Dnew = R.D', 'dst = Nnew / Dnew'):
            if need not in text:
                self.ex.fail(mg, 'magnitude: statement `%s` not found' % need)
        nn = [n for n in mg.body if isinstance(n, ast.Assign) and ast.unparse(n.targets[0]) == 'Nnew']
        if len(nn) != 1:
            self.ex.fail(mg, 'magnitude: Nnew not assigned exactly once')
        v = nn[0].value
        if not (isinstance(v, ast.Call) and getattr(v.func, 'id', None) == 'sqrt' and len(v.args) == 1
                and isinstance(v.args[0], ast.Call) and isinstance(v.args[0].func, ast.Attribute) and v.args[0].func.attr == 'simplify'):
            self.ex.fail(v, 'magnitude: expected sqrt((...).simplify())')
        env = {'N.real': 'Nr', 'N.imag': 'Ni'}

        def tr(e):
            u = ast.unparse(e)
            if u in env:
                return env[u]
            if isinstance(e, ast.BinOp):
                if isinstance(e.op, ast.Pow) and isinstance(e.right, ast.Constant) and e.right.value == 2:
                    x = tr(e.left)
                    return '(fmul %s %s)' % (x, x)
                op = {ast.Add: 'fadd', ast.Sub: 'fsub', ast.Mult: 'fmul'}.get(type(e.op))
                if op:
                    return '(%s %s %s)' % (op, tr(e.left), tr(e.right))
            self.ex.fail(e, 'magnitude: unsupported term')
        magsq = tr(v.args[0].func.value)
        rb = [n for n in mg.body if isinstance(n, ast.If) and ast.unparse(n.test) == 'self.is_real']
        # |x| for real x; the wrapper may be expr(..) or self.__class__(.., **self.assumptions) (same value, keeps class/units)
        real_ok = ('dst = expr(abs(self.sympy))', 'dst = self.__class__(abs(self.sympy), **self.assumptions)')
        rbody = [ast.unparse(x) for x in rb[0].body] if len(rb) == 1 else []
        if sum(rbody.count(x) for x in real_ok) != 1 or [x for x in rbody if x.startswith('dst =') and x not in real_ok]:
            self.ex.fail(mg, 'magnitude: real branch is not abs(self.sympy)')
        # phase
        ph = self.ex.func(cls, 'phase')
        calls = [ast.unparse(n) for n in ast.walk(ph) if isinstance(n, ast.Call) and getattr(n.func, 'id', None) == 'atan2']
        if not calls or any(c != 'atan2(N.imag, N.real)' for c in calls):
            self.ex.fail(ph, 'phase: expected atan2(N.imag, N.real) only, found %s' % calls)
        ptext = ast.unparse(ph)
        for need in ('R = self.rationalize_denominator()', 'N = R.N', 'G = gcd(N.real, N.imag)', 'N = N / G'):
            if need not in ptext:
                self.ex.fail(ph, 'phase: statement `%s` not found' % need)
        sign = [n for n in ast.walk(ph) if isinstance(n, ast.If) and ast.unparse(n.test) == 'N.real >= 0']
        if len(sign) != 1 or [ast.unparse(x) for x in sign[0].body] != ['dst = expr(0)'] or [ast.unparse(x) for x in sign[0].orelse] != ['dst = expr(sym.pi)']:
            self.ex.fail(ph, 'phase: real-number branch is not 0 / pi')
        # dB
        db = self.ex.func(cls, 'dB')
        ifs = [n for n in db.body if isinstance(n, ast.If) and ast.unparse(n.test) == 'self.is_power or self.is_squared']
        if len(ifs) != 1:
            self.ex.fail(db, 'dB: power test not found')
        fac = {}
        for nm, body in (('power', ifs[0].body), ('field', ifs[0].orelse)):
            if len(body) != 1 or not isinstance(body[0], ast.Assign):
                self.ex.fail(db, 'dB: unexpected branch')
            e = body[0].value
            if not (isinstance(e, ast.BinOp) and isinstance(e.op, ast.Mult) and isinstance(e.left, ast.Constant)
                    and ast.unparse(e.right) == 'log10(self.magnitude)'):
                self.ex.fail(e, 'dB: expected <k> * log10(self.magnitude)')
            fac[nm] = int(e.left.value)
        for nm, want in (('abs', 'self.magnitude'), ('angle', 'self.phase')):
            self.ret_only(self.ex, self.ex.func(cls, nm), want)
        return {'magsq': magsq, 'dB': fac, 'lines': (mg.lineno, ph.lineno, db.lineno)}

    # ---- all ----------------------------------------------------------------------------
    def translate(self):
        for n in LEAVES:
            self.leaf(n)
        self.find_aliases()
        self.imp, l1 = self.op_chain('impedance')
        self.adm, l2 = self.op_chain('admittance')
        self.chain_checks()
        self.nonstr, self.table, l3 = self.select_table()
        self.vac = self.ac_source('Vac', '_Voc')
        self.iac = self.ac_source('Iac', '_Isc')
        self.ptime, l4 = self.phasor_time()
        self.offs, l5 = self.acchecker()
        self.sumac = self.sum_ac()
        self.fr = self.fresp()
        self.lines = {'impedance': l1, 'admittance': l2, 'select': l3, 'time': l4, 'acchecker': l5}
        return self

    def emit(self):
        o = ['(* GENERATED by tools/tr_immittance.py from', ]
        for s in self.srcs:
            o.append('     %s (sha256 %s)' % (s.rel, s.sha[:16]))
        o.append('   Do not edit. *)')
        o.append('Require Import LT.FieldSec LT.Circuit LT.PhasorTime.')
        o.append('Local Open Scope Z_scope.\n')
        o.append('Inductive leaf := %s.' % ' | '.join('lf' + n for n in LEAVES))
        o.append('Inductive slot := SlotZ | SlotY.')
        o.append('(* oneport.py __init__ of each leaf: which slot is set ... *)')
        o.append('Definition leaf_slot (l : leaf) : slot :=\n  match l with %s end.' % ' | '.join(
            'lf%s => %s' % (n, self.leaves[n]['slot']) for n in LEAVES))
        o.append('(* ... and to what: s = value of the Laplace variable, a0 a1 = constructor arguments, pw x a = x ** a *)')
        o.append('Definition leaf_val {K : fld} (pw : K -> K -> K) (l : leaf) (s a0 a1 : K) : K :=\n  match l with\n%s\n  end.' % '\n'.join(
            '  | lf%s => %s   (* line %d, args %s *)' % (n, self.leaves[n]['coq'], self.leaves[n]['line'], self.leaves[n]['params']) for n in LEAVES))
        o.append('Definition omap {A B} (f : A -> B) (x : option A) : option B := match x with Some a => Some (f a) | None => None end.')
        o.append('(* OnePort.impedance, line %d *)' % self.lines['impedance'])
        o.append('Definition op_impedance {K : fld} (oZ oY : option K) (hasVoc hasIsc : bool) : option K :=\n  %s.' % self.imp)
        o.append('(* OnePort.admittance, line %d *)' % self.lines['admittance'])
        o.append('Definition op_admittance {K : fld} (oZ oY : option K) (hasVoc hasIsc : bool) : option K :=\n  %s.' % self.adm)
        o.append('(* transform.select, line %d: what cpt.Y / cpt.Z do with the stored expression for an analysis kind;\n'
                 '   is_str = false: the kind is an angular frequency (ac sub-netlist) *)' % self.lines['select'])
        o.append('Inductive selact := SelSubsJ | SelTime | SelSubs0 | SelLaplace | SelFourier | SelAngFourier | SelNormAngFourier | SelNormFourier | SelUnknown.')
        arms = []
        for k, coqk in KINDMAP.items():
            arms.append('%s => %s' % (coqk, self.table.get(k, 'SelUnknown')))
        o.append('Definition select_act (is_str : bool) (k : akind) : selact :=\n  if negb is_str then %s else match k with %s | _ => SelUnknown end.' % (
            self.nonstr, ' | '.join(arms)))
        o.append('(* phasor.py PhasorDomainExpression.time (real signal), line %d: C = cos(omega t), S = sin(omega t) *)' % self.lines['time'])
        o.append('Definition gen_phasor_time {K : fld} (re_ im_ C S : K) : K := %s.' % self.ptime)
        o.append('(* acdc.py ACChecker._find_freq_phase, line %d: phase offset of the function, in quarter turns *)' % self.lines['acchecker'])
        o.append('Definition gen_offs (f : trig) : Z := match f with TCos => (%d) | TSin => (%d) end.' % (self.offs['cos'], self.offs['sin']))
        sa = self.sumac
        o.append('(* acdc.py ACChecker._is_sum_ac, line %d: merging (A1, p1) and (A2, p2) of one frequency; c_i = cos(p_i), s_i = sin(p_i) *)' % sa['line'])
        o.append('Definition gen_sum_x {K : fld} (A1 c1 s1 A2 c2 s2 : K) : K := %s.' % sa['x'])
        o.append('Definition gen_sum_y {K : fld} (A1 c1 s1 A2 c2 s2 : K) : K := %s.' % sa['y'])
        o.append('(* branch y == 0: (amp, phase in quarter turns); branch x == 0; the else branch is the polar form (sqrt(x^2+y^2), atan2(y, x)) *)')
        o.append('Inductive ampsel := AmpX | AmpY.')
        o.append('Definition gen_sum_y0 : ampsel * Z := (Amp%s, (%d)).' % (sa['y0'][0].upper(), sa['y0'][1]))
        o.append('Definition gen_sum_x0 : ampsel * Z := (Amp%s, (%d)).' % (sa['x0'][0].upper(), sa['x0'][1]))
        fr = self.fr
        o.append('(* expr.py Expr.magnitude (line %d): sqrt(<this>) / D for self = (Nr + j Ni) / D after rationalize_denominator *)' % fr['lines'][0])
        o.append('Definition gen_mag_num_sq {K : fld} (Nr Ni : K) : K := %s.' % fr['magsq'])
        o.append('(* expr.py Expr.phase (line %d): atan2(N.imag, N.real); a real number has phase 0 (>= 0) or pi (quarter turns) *)' % fr['lines'][1])
        o.append('Inductive cpart := PRe | PIm.')
        o.append('Definition gen_phase_atan2_args : cpart * cpart := (PIm, PRe).')
        o.append('Definition gen_phase_real_nonneg : Z := 0. Definition gen_phase_real_neg : Z := 2.')
        o.append('(* expr.py Expr.dB (line %d): k * log10(magnitude) *)' % fr['lines'][2])
        o.append('Definition gen_dB_factor : Z := %d. Definition gen_dB_power_factor : Z := %d.' % (fr['dB']['field'], fr['dB']['power']))
        for nm, d in (('vac', self.vac), ('iac', self.iac)):
            o.append('(* oneport.py %s.__init__, line %d: phasor(arg%d * exp(j * arg%d), omega=arg%d); time form arg%d * cos(arg%d * t + arg%d) *)' % (
                nm.capitalize(), d['line'], d['amp'], d['phase'], d['omega'], d['amp'], d['omega'], d['phase']))
            o.append('Definition %s_arg_amp : nat := %d. Definition %s_arg_phase : nat := %d. Definition %s_arg_omega : nat := %d.' % (
                nm, d['amp'], nm, d['phase'], nm, d['omega']))
            o.append('Definition %s_phasor {K : fld} (A c s : K) : cx K := cscale A (Cx c s).' % nm)
            o.append('Definition %s_time_form : trig := TCos.' % nm)
        return '\n'.join(o) + '\n'

    def summary(self):
        return {'leaves': {k: {'slot': v['slot'], 'expr': v['coq'], 'params': v['params']} for k, v in self.leaves.items()},
                'aliases': self.aliases, 'select_nonstr': self.nonstr, 'select': self.table,
                'vac': self.vac, 'iac': self.iac, 'offs': self.offs, 'sum_ac': self.sumac, 'fresp': self.fr}


if __name__ == '__main__':
    t = Translator(sys.argv[1] if len(sys.argv) > 1 else '/repo').translate()
    print(t.emit())
    print('(*', t.summary(), '*)')
