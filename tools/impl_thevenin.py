"""C04 worker: runs the REAL lcapy Thevenin/Norton machinery (from /repo) and
dumps exact rational values at a rational point s0.

mode 'net'  : {"netlist":[lines], "port":[p,m], "port2":[p2,m2]|None, "s0":"a/b", "profile":"dc|s|ivp",
               "load":[lines using nodes P_ and M_], "load_cur": name of a load element in series with P_,
               "ground":[node,...] variants for floating circuits, "tp_src": {...}, "timeout": secs}
   -> {"kind":..., "dumps": {"orig": dump, "lap": dump}, "api": {name: "p/q" | {"error":..}},
       "load": {"orig":[v,i], "thev":[v,i], "nort":[v,i]}, "ground": {node: Z}, "t": {...}}
mode 'oneport': {"tree": nested ["R",r] | ["C",c,v0|None] | ["L",l,i0|None] | ["V",kind,v] | ["I",kind,i] | ["ser",[...]] | ["par",[...]],
                 "netlist":[lines, harness-built, terminals 1 and 0], "s0":.., "load":.., "load_cur":..}
   -> {"api": {...}, "cct": {"Voc":..,"Isc":..}, "load": {...}}
All transform-domain values are reported as X(s) at s = s0 (a dc value d is d/s0).
"""
import sys, json, warnings, time
warnings.filterwarnings('ignore')
import sympy as sp
from lcapy import Circuit, state
from lcapy.sym import ssym, eps as EPS
from lcapy.subnetlist import SubNetlist
import lcapy


class CaseTimeout(BaseException):
    """raised by the interval timer; BaseException so that `except Exception` inside sympy/lcapy does not swallow it,
    and the timer keeps firing (interval) in case a bare `except:` does"""
    pass


DEADLINE = [0.0]
STEP = [12.0]
# a timer interrupt can leave lcapy/sympy global state (context stack, caches) half-updated: after the first
# timeout nothing more is computed in this process; the remaining cases are handed to a fresh process
TAINT = [False]


def arm(step=None):
    import signal
    left = DEADLINE[0] - time.time()
    step = min(step or STEP[0], left)
    if step <= 0:
        raise CaseTimeout()
    signal.setitimer(signal.ITIMER_REAL, step, 0.5)


def disarm():
    import signal
    signal.setitimer(signal.ITIMER_REAL, 0)


AC = [False]      # ac analysis: values are Gaussian rationals, reported as 're|im'; s stands for j omega


def geval(x):
    """exact value (re, im) as Fractions of a symbol-free sympy expression built from rationals, I, +, *, integer powers"""
    from fractions import Fraction
    if x.is_Rational:
        return (Fraction(int(x.p), int(x.q)), Fraction(0))
    if x == sp.I:
        return (Fraction(0), Fraction(1))
    if x.is_Add:
        re_, im_ = Fraction(0), Fraction(0)
        for a in x.args:
            r, i = geval(a)
            re_ += r
            im_ += i
        return (re_, im_)
    if x.is_Mul:
        re_, im_ = Fraction(1), Fraction(0)
        for a in x.args:
            r, i = geval(a)
            re_, im_ = re_ * r - im_ * i, re_ * i + im_ * r
        return (re_, im_)
    if x.is_Pow and x.exp.is_Integer:
        r, i = geval(x.base)
        n = int(x.exp)
        if n < 0:
            d = r * r + i * i
            r, i = r / d, -i / d
            n = -n
        re_, im_ = Fraction(1), Fraction(0)
        for _ in range(n):
            re_, im_ = re_ * r - im_ * i, re_ * i + im_ * r
        return (re_, im_)
    raise ValueError('not a Gaussian rational expression: %s' % x.func)


def cfmt(x):
    """'re|im' for an exact Gaussian rational sympy number, else None"""
    x = sp.sympify(x)
    try:
        r, i = geval(x)
        return '%d/%d|%d/%d' % (r.numerator, r.denominator, i.numerator, i.denominator)
    except (ValueError, ZeroDivisionError):
        pass
    re_, im_ = x.as_real_imag()
    if not (re_.is_Rational and im_.is_Rational):
        x = sp.simplify(x)
        re_, im_ = x.as_real_imag()
    if re_.is_Rational and im_.is_Rational:
        return '%d/%d|%d/%d' % (re_.p, re_.q, im_.p, im_.q)
    return None


def crat(x, point, eps0=False):
    try:
        x = sp.sympify(getattr(x, 'sympy', x))
        sub = {}
        for sy in x.free_symbols:
            if sy == EPS:
                sub[sy] = 0
            elif sy.name in point:
                sub[sy] = point[sy.name]
        x = x.subs(sub)
        if x.has(sp.zoo, sp.oo, sp.nan) or x.free_symbols:
            return None
        return cfmt(x)
    except CaseTimeout:
        raise
    except Exception:
        return None


def rat(x, point):
    """exact rational value of a sympy/lcapy expression at the point, else None"""
    if AC[0]:
        return crat(x, point)
    try:
        x = sp.sympify(getattr(x, 'sympy', x))
    except Exception:
        return None
    try:
        if x.has(EPS):
            x = sp.limit(x, EPS, 0)
        sub = {}
        for sy in x.free_symbols:
            if sy.name in point:
                sub[sy] = point[sy.name]
        x = x.subs(sub)
        if x.is_Rational:
            return '%d/%d' % (x.p, x.q)
        if x in (sp.zoo, sp.oo, -sp.oo, sp.nan):
            return None
        x = sp.cancel(sp.together(x))
        if x.is_Rational:
            return '%d/%d' % (x.p, x.q)
        x = sp.simplify(x)
        if x.is_Rational:
            return '%d/%d' % (x.p, x.q)
    except CaseTimeout:
        raise
    except Exception:
        return None
    return None


def rat_eps0(x, point):
    """matrix entry with eps -> 0 (capacitor = open circuit at dc) at the point"""
    if AC[0]:
        return crat(x, point)
    try:
        x = sp.sympify(getattr(x, 'sympy', x))
        sub = {}
        for sy in x.free_symbols:
            if sy == EPS:
                sub[sy] = 0
            elif sy.name in point:
                sub[sy] = point[sy.name]
        x = sp.cancel(sp.together(x.subs(sub)))
        if x.is_Rational:
            return '%d/%d' % (x.p, x.q)
    except CaseTimeout:
        raise
    except Exception:
        return None
    return None


PARAM_ATTRS = [('pY', lambda e: e.Y.sympy), ('pZ', lambda e: e.Z.sympy), ('pIsc', lambda e: e.Isc.sympy),
               ('pVoc', lambda e: e.Voc.sympy),
               ('pAlpha', lambda e: e.cpt.alpha.sympy),
               ('pA11', lambda e: e.cpt.A11.sympy), ('pA12', lambda e: e.cpt.A12.sympy),
               ('pA21', lambda e: e.cpt.A21.sympy), ('pA22', lambda e: e.cpt.A22.sympy),
               ('pY11', lambda e: e.cpt.Y11.sympy), ('pY12', lambda e: e.cpt.Y12.sympy),
               ('pY21', lambda e: e.cpt.Y21.sympy), ('pY22', lambda e: e.cpt.Y22.sympy)]
TP_SRC_BY_CLASS = {}


def dump_sub(sn, point):
    """what the Coq MNA model needs for one sub-netlist (same layout as tools/impl_circuit.py)"""
    from lcapy.cexpr import ConstantDomainExpression
    mna = sn.mna
    out = {'kind': str(sn.kind), 'node_list': list(sn.node_list),
           'node_index': {str(n): int(mna._node_index(n)) for n in sn.nodes},
           'unknown_branch_currents': list(mna.unknown_branch_currents)}
    elts = []
    for elt in sn.elements.values():
        if elt.nosim:
            continue
        d = {'name': elt.name, 'cls': type(elt).__name__, 'type': elt.type,
             'mro': [k.__name__ for k in type(elt).__mro__ if k.__module__.endswith('mnacpts')],
             'nodes': [str(n) for n in elt.node_names],
             'nidx': [int(i) for i in mna._cpt_node_indexes(elt)],
             'nargs': len(elt.args), 'ignore': bool(elt.ignore),
             'need_branch_current': bool(elt.need_branch_current),
             'need_extra_branch_current': bool(elt.need_extra_branch_current),
             'is_current_controlled': bool(elt.is_current_controlled),
             'is_source': bool(elt.is_source),
             'is_independent_source': bool(getattr(elt, 'is_independent_source', False))}
        try:
            d['has_ic'] = bool(elt.cpt.has_ic)
        except Exception:
            d['has_ic'] = False
        if elt.is_current_controlled or type(elt).__name__ in ('F', 'H', 'CCCS', 'CCVS'):
            cn = elt.args[0]
            d['ctrl'] = cn
            if cn in sn.elements:
                ce = sn.elements[cn]
                d['ctrl_is_vsrc'] = bool(ce.is_voltage_source)
                d['cidx'] = [int(mna._node_index(n)) for n in ce.node_names[0:2]]
        if elt.type == 'K':
            d['L1'], d['L2'] = elt.Lname1, elt.Lname2
        params = {}
        for nm, f in PARAM_ATTRS:
            try:
                params[nm] = rat(f(elt), point)
            except CaseTimeout:
                raise
            except Exception:
                pass
        for k in (0, 1):
            if len(elt.args) > k:
                try:
                    params['pArg%d' % k] = rat(ConstantDomainExpression(elt.args[k]).sympy, point)
                except CaseTimeout:
                    raise
                except Exception:
                    pass
        src = False
        attrs = []
        for k in type(elt).__mro__:
            attrs += TP_SRC_BY_CLASS.get(k.__name__, [])
        for a in attrs:
            try:
                if getattr(elt.cpt, a) != 0:
                    src = True
            except Exception:
                pass
        d['tp_has_src'] = src
        if elt.type == 'K':
            # textbook mutual impedance / inductance and the initial currents of the coupled inductors as the netlist gives them
            try:
                ZL1 = sn.elements[elt.Lname1].Z.sympy
                ZL2 = sn.elements[elt.Lname2].Z.sympy
                kk = elt.cpt.K.sympy
                slike = str(sn.kind) in ('s', 'ivp', 'laplace', 'transient')
                params['pZM0'] = params['pZM1'] = rat(sp.sqrt(sp.cancel(ZL1 * ZL2 / ssym**2)) * ssym * kk, point) \
                    if slike else rat(kk * sp.sqrt(sp.simplify(ZL1 * ZL2)), point)
                if slike:
                    params['pZM2'] = rat(kk * sp.sqrt(sp.cancel(ZL1 / ssym) * sp.cancel(ZL2 / ssym)), point)
                for pn, ln in (('pI01', elt.Lname1), ('pI02', elt.Lname2)):
                    a = sn.elements[ln].args
                    params[pn] = rat(ConstantDomainExpression(a[1]).sympy, point) if len(a) > 1 and a[1] is not None else '0/1'
            except CaseTimeout:
                raise
            except Exception:
                pass
        d['params'] = params
        elts.append(d)
    out['elements'] = elts
    A, Z = mna._A, mna._Z
    out['A'] = [[rat_eps0(A[i, j], point) for j in range(A.shape[1])] for i in range(A.shape[0])]
    out['Z'] = [rat_eps0(Z[i], point) for i in range(Z.shape[0])]
    out['has_eps'] = bool(A.has(EPS))
    return out


class Inexact(Exception):
    pass


def inexact(expr):
    """floating-point approximations (numerical roots inside an inverse Laplace transform) appear as Float atoms or as
    rationals with a large power-of-ten denominator; such a model is approximate by construction and is not compared"""
    try:
        x = sp.sympify(getattr(expr, 'sympy', expr))
        if x.atoms(sp.Float):
            return True
        for r in x.atoms(sp.Rational):
            q0 = int(r.q)
            if q0 >= 10**9:
                q_ = q0
                while q_ % 2 == 0:
                    q_ //= 2
                while q_ % 5 == 0:
                    q_ //= 5
                if q_ == 1:
                    return True
    except CaseTimeout:
        raise
    except Exception:
        return False
    return False


def check_exact(model, which):
    src = model.Voc if which == 'th' else model.Isc
    imm = model.Z if which == 'th' else model.Y
    parts = list(src.values()) if hasattr(src, 'values') else [src]
    if any(inexact(v) for v in parts) or inexact(imm):
        raise Inexact('model contains floating-point approximations (numerical inverse Laplace transform)')


def mk(lines):
    c = Circuit()
    for line in lines:
        c.add(line)
    return c


def sval(x, point):
    """X(s) at s0 for a Superposition / expression (ac: the phasor of the single angular frequency)"""
    if AC[0]:
        if isinstance(x, dict):
            vals = list(x.values())
            if len(vals) == 0:
                return '0/1|0/1'
            if len(vals) == 1:
                return crat(vals[0], point)
            return None
        return crat(x, point)
    try:
        return rat(x(lcapy.s), point)
    except CaseTimeout:
        raise
    except Exception:
        try:
            return rat(x, point)
        except CaseTimeout:
            raise
        except Exception:
            return None


def attempt(api, name, f, point, tm=None):
    t0 = time.time()
    if TAINT[0]:
        api[name] = {'error': 'skipped: after a timeout in this process'}
        return
    try:
        arm()
        try:
            v = f()
            api[name] = v if (type(v) in (str, dict) or v is None) else sval(v, point)
        finally:
            disarm()
        if api[name] is None:
            api[name] = {'error': 'not rational at the point'}
    except CaseTimeout:
        disarm()
        TAINT[0] = True
        api[name] = {'error': 'timeout: step exceeded its time budget'}
    except Exception as e:
        api[name] = {'error': type(e).__name__ + ': ' + str(e)[:160]}
    if tm is not None:
        tm[name] = round(time.time() - t0, 2)


def subst_load(load, p, m):
    out = []
    for l in load:
        toks = l.split()
        toks = [p if t == 'P_' else m if t == 'M_' else t for t in toks]
        out.append(' '.join(toks))
    return out


def load_response(lines, p, m, cur, point):
    c = mk(lines)
    v = sval(c.get_Vd(p, m), point)
    i = sval(c[cur].I, point)
    return [v, i]


def model_lines(kind, point, V, Z, I, Y, which, p, m):
    """netlist of the RETURNED model: V(Voc)+Z(Zth) or I(Isc)|Y(Yth).  V / I are the model's own
    Voc / Isc as s-domain expressions; for a dc analysis the source is attached as a dc source of
    value s0 * X(s0) (X(s) = d/s for a constant d), otherwise as an s-domain source."""
    def src(x):
        if kind == 'ac':
            return 'ac {%s} 0 %s' % (x, point['omega'])
        if kind == 'dc':
            d = sp.Rational(rat(x, point)) * point['s']
            return 'dc {%s}' % d
        return 's {%s}' % x
    def at_dc(x):
        """value of an immittance in a dc analysis (s -> 0): 0, a finite value, or None when it is infinite"""
        x = sp.sympify(x)
        try:
            v = sp.limit(x, ssym, 0) if x.has(ssym) else x
        except CaseTimeout:
            raise
        except Exception:
            return None
        if v.has(sp.zoo, sp.oo, -sp.oo, sp.nan) or not v.is_finite:
            return None
        return v
    # The netlist components Z and Y are stamped through their admittance.  A model impedance that is (identically, or
    # in a dc analysis at s = 0) zero is therefore attached as a wire and a zero admittance is left out; an immittance
    # that is infinite at dc (a series capacitance / a shunt inductance of the model) has no dc netlist form: no comparison.
    if which == 'thev':
        z0 = at_dc(Z) if kind == 'dc' else (sp.Integer(0) if sp.sympify(Z) == 0 else sp.Integer(1))
        if z0 is None:
            raise Inexact('model impedance is infinite at dc: no dc netlist form')
        zl = 'W %s ath_' % p if z0 == 0 else 'Zth_ %s ath_ {%s}' % (p, Z)
        return ['Vth_ ath_ %s %s' % (m, src(V)), zl]
    y0 = at_dc(Y) if kind == 'dc' else (sp.Integer(0) if sp.sympify(Y) == 0 else sp.Integer(1))
    if y0 is None:
        raise Inexact('model admittance is infinite at dc: no dc netlist form')
    out = ['Ino_ %s %s %s' % (p, m, src(I))]
    if y0 != 0:
        out.append('Yno_ %s %s {%s}' % (p, m, Y))
    return out


def srcexpr(sup):
    """the model's own source value as an expression for the netlist of the returned model"""
    if AC[0]:
        vals = list(sup.values()) if isinstance(sup, dict) else [sup]
        return sp.sympify(vals[0].sympy) if vals else sp.Integer(0)
    return sup(lcapy.s).sympy


def run_net(case, point):
    state.current_sign_convention = case.get('convention', 'passive')
    lines = case['netlist']
    p, m = case['port']
    res = {'api': {}, 't': {}, 'load': {}, 'ground': {}}
    api, tm = res['api'], res['t']
    c = mk(lines)
    floating = '0' not in c.nodes
    # ---- dumps of the sub-netlists the model is built from ----
    cd = mk(lines + (['W %s 0' % m] if floating else []))     # what _add_ground(Nm) does
    t0 = time.time()
    arm(30)
    subs = cd.sub
    kinds = [str(k) for k in subs.keys()]
    res['kinds'] = kinds
    ackeys = [k for k in subs.keys() if not isinstance(k, str)]
    if len(kinds) == 1 and len(ackeys) == 1 and sp.sympify(ackeys[0]).is_Rational:
        # a single angular frequency: phasor analysis; immittances are taken at s = j omega
        w = sp.Rational(sp.sympify(ackeys[0]))
        AC[0] = True
        point['omega'] = w
        point['s'] = sp.I * w
        res['kind'] = 'ac'
        res['omega'] = '%d/%d' % (w.p, w.q)
        d = dump_sub(subs[ackeys[0]], point)
        d['kind'] = 'ac'
        res['dumps'] = {'orig': d}
    elif len(kinds) == 1 and kinds[0] in ('dc', 'transient', 'ivp'):
        kind = kinds[0]
        res['kind'] = kind
        res['dumps'] = {'orig': dump_sub(subs[kind], point)}
        if kind == 'dc':
            res['dumps']['lap'] = dump_sub(SubNetlist(cd.expand(), 'transient'), point)
    elif kinds == ['time']:
        # resistive circuit: Lcapy analyses it in the time domain whatever mixture of dc and causal sources it has;
        # the model uses the Laplace-domain analysis of the same netlist (memoryless: transform of the solution = solution
        # of the transformed system), so X(s0) is compared directly
        res['kind'] = 'laplace'
        res['kind_lcapy'] = 'time'
        res['dumps'] = {'orig': dump_sub(SubNetlist(cd.expand(), 'laplace'), point)}
    elif len(kinds) == 0:
        # no sources at all: passive network; analyse as transient
        res['kind'] = 'none'
        res['dumps'] = {'lap': dump_sub(SubNetlist(cd.expand(), 'transient'), point)}
    else:
        res['kind'] = 'multi'
    disarm()
    tm['dump'] = round(time.time() - t0, 2)
    # ---- the probes (public API) ----
    attempt(api, 'Voc', lambda: mk(lines).Voc(p, m), point, tm)
    attempt(api, 'Isc', lambda: mk(lines).Isc(p, m), point, tm)
    attempt(api, 'Z', lambda: mk(lines).impedance(p, m), point, tm)
    attempt(api, 'Y', lambda: mk(lines).admittance(p, m), point, tm)
    models = {}

    def thev():
        th = mk(lines).thevenin(p, m)
        check_exact(th, 'th')
        models['th'] = th
        return sval(th.Voc, point)

    def nort():
        nt = mk(lines).norton(p, m)
        check_exact(nt, 'nt')
        models['nt'] = nt
        return sval(nt.Isc, point)
    attempt(api, 'thVoc', thev, point, tm)
    if 'th' in models:
        attempt(api, 'thZ', lambda: rat(models['th'].Z, point), point)
        api['th_repr'] = str(models['th'])[:300]
    attempt(api, 'noIsc', nort, point, tm)
    if 'nt' in models:
        attempt(api, 'noY', lambda: rat(models['nt'].Y, point), point)
        api['no_repr'] = str(models['nt'])[:300]
    if case.get('port2'):
        p2, m2 = case['port2']
        attempt(api, 'H', lambda: mk(lines).transfer(p, m, p2, m2), point, tm)
        # the same quantity by the documented route (test voltage source, open-circuit voltage) without the ladder shortcut
        attempt(api, 'H_direct', lambda: mk(lines).apply_test_voltage_source(p, m).Voc(p2, m2), point, tm)
    # ---- which terminal is grounded (floating circuits) ----
    if case.get('swap'):
        attempt(api, 'Zswap', lambda: mk(lines).impedance(m, p), point, tm)
        attempt(api, 'Vocswap', lambda: mk(lines).Voc(m, p), point, tm)
    for g in case.get('ground', []):
        t0 = time.time()
        gr = {}
        attempt(gr, 'Z', lambda: mk(lines + ['W %s 0' % g]).impedance(p, m), point)
        attempt(gr, 'Voc', lambda: mk(lines + ['W %s 0' % g]).Voc(p, m), point)
        res['ground'][g] = gr
        tm['ground_' + g] = round(time.time() - t0, 2)
    # ---- load oracle: original + load  vs  returned model + load ----
    try:
        groups = [str(k) for k in mk(lines).independent_source_groups(transform=True).keys()]
    except Exception:
        groups = ['?']
    res['groups'] = groups
    # the model's source is attached the way the original's sources are: as a dc source when all of them are dc
    # (Lcapy then chooses dc / ivp analysis for original+load and model+load alike), as an s-domain source when none is;
    # a mixture of dc and causal sources is not a single signal kind: no load comparison
    srckind = 'ac' if AC[0] else ('dc' if (groups == ['dc'] and res.get('kind') != 'ivp') else 's')
    if case.get('load') and len(groups) <= 1:
        ld = subst_load(case['load'], p, m)
        if groups == ['dc'] and res.get('kind') != 'ivp':
            # a load with initial conditions would turn the dc (steady state) analysis of the original into an initial value
            # problem (unspecified initial conditions = 0): a different signal kind.  Attach the load without them.
            ld = [' '.join(l.split()[:4]) if l.split()[0] in ('Cld_', 'Lld_') else l for l in ld]
            res['load_ic_stripped'] = True
        cur = case['load_cur']
        gl = ['W %s 0' % m] if floating else []
        mg = [] if '0' in (p, m) else ['W %s 0' % m]      # reference for the two-element model circuit
        attempt(res['load'], 'orig', lambda: {'vi': load_response(lines + gl + ld, p, m, cur, point)}, point, tm)
        if 'th' in models:
            def lt():
                th = models['th']
                V = srcexpr(th.Voc)
                Z = th.Z.sympy
                return {'vi': load_response(model_lines(srckind, point, V, Z, None, None, 'thev', p, m) + mg + ld, p, m, cur, point)}
            attempt(res['load'], 'thev', lt, point, tm)
        if 'nt' in models:
            def ln():
                nt = models['nt']
                I = srcexpr(nt.Isc)
                Y = nt.Y.sympy
                return {'vi': load_response(model_lines(srckind, point, None, None, I, Y, 'nort', p, m) + mg + ld, p, m, cur, point)}
            attempt(res['load'], 'nort', ln, point, tm)
    return res


def build_tree(t):
    from lcapy import R, C, L, V, I, Vdc, Idc, Vstep, Istep, Vac, Iac, Ser, Par
    k = t[0]
    if k in ('V', 'I') and t[1] == 'ac':
        # ["V", "ac", amplitude, phase (a sympy expression in pi), omega]
        return (Vac if k == 'V' else Iac)(sp.Rational(t[2]), sp.sympify(t[3]), sp.Rational(t[4]))
    if k == 'R':
        return R(sp.Rational(t[1]))
    if k == 'C':
        return C(sp.Rational(t[1])) if t[2] is None else C(sp.Rational(t[1]), sp.Rational(t[2]))
    if k == 'L':
        return L(sp.Rational(t[1])) if t[2] is None else L(sp.Rational(t[1]), sp.Rational(t[2]))
    if k == 'V':
        return {'dc': Vdc, 'step': Vstep}[t[1]](sp.Rational(t[2]))
    if k == 'I':
        return {'dc': Idc, 'step': Istep}[t[1]](sp.Rational(t[2]))
    args = [build_tree(x) for x in t[1]]
    return Ser(*args) if k == 'ser' else Par(*args)


def run_oneport(case, point):
    state.current_sign_convention = case.get('convention', 'passive')
    res = {'api': {}, 't': {}, 'load': {}, 'cct': {}}
    api, tm = res['api'], res['t']
    if case.get('profile') == 'ac':
        # every source of the tree is an ac source of the one angular frequency case['omega']: phasors, immittances at s = j omega
        w = sp.Rational(case['omega'])
        AC[0] = True
        point['omega'] = w
        point['s'] = sp.I * w
        res['kind'] = 'ac'
    net = build_tree(case['tree'])
    res['repr'] = str(net)[:300]
    attempt(api, 'Voc', lambda: build_tree(case['tree']).Voc, point, tm)
    attempt(api, 'Isc', lambda: build_tree(case['tree']).Isc, point, tm)
    attempt(api, 'Z', lambda: rat(build_tree(case['tree']).Z, point), point, tm)
    attempt(api, 'Y', lambda: rat(build_tree(case['tree']).Y, point), point, tm)
    models = {}

    def thev():
        th = build_tree(case['tree']).thevenin()
        check_exact(th, 'th')
        models['th'] = th
        return sval(th.Voc, point)

    def nort():
        nt = build_tree(case['tree']).norton()
        check_exact(nt, 'nt')
        models['nt'] = nt
        return sval(nt.Isc, point)
    attempt(api, 'thVoc', thev, point, tm)
    if 'th' in models:
        attempt(api, 'thZ', lambda: rat(models['th'].Z, point), point)
        api['th_repr'] = str(models['th'])[:300]
    attempt(api, 'noIsc', nort, point, tm)
    if 'nt' in models:
        attempt(api, 'noY', lambda: rat(models['nt'].Y, point), point)
        api['no_repr'] = str(models['nt'])[:300]
    lines = case['netlist']
    attempt(res['cct'], 'Voc', lambda: mk(lines).Voc('1', '0'), point, tm)
    attempt(res['cct'], 'Isc', lambda: mk(lines).Isc('1', '0'), point, tm)
    if case.get('load'):
        ld = subst_load(case['load'], '1', '0')
        cur = case['load_cur']
        attempt(res['load'], 'orig', lambda: {'vi': load_response(lines + ld, '1', '0', cur, point)}, point, tm)
        if 'th' in models:
            def lt():
                th = models['th']
                V = srcexpr(th.Voc) if AC[0] else th.Voc(lcapy.s).sympy
                return {'vi': load_response(model_lines(case.get('profile'), point, V, th.Z.sympy, None, None, 'thev', '1', '0') + ld, '1', '0', cur, point)}
            attempt(res['load'], 'thev', lt, point, tm)
        if 'nt' in models:
            def ln():
                nt = models['nt']
                I = srcexpr(nt.Isc) if AC[0] else nt.Isc(lcapy.s).sympy
                return {'vi': load_response(model_lines(case.get('profile'), point, None, None, I, nt.Y.sympy, 'nort', '1', '0') + ld, '1', '0', cur, point)}
            attempt(res['load'], 'nort', ln, point, tm)
    return res


def run(case):
    AC[0] = False
    TP_SRC_BY_CLASS.clear()
    TP_SRC_BY_CLASS.update(case.get('tp_src', {}))
    point = {'s': sp.Rational(case.get('s0', '2'))}
    if case.get('mode') == 'oneport':
        return run_oneport(case, point)
    return run_net(case, point)


def _alarm(signum, frame):
    raise CaseTimeout()


def main():
    import signal
    signal.signal(signal.SIGALRM, _alarm)
    cases = json.load(sys.stdin)
    out = []
    for k, c in enumerate(cases):
        if TAINT[0]:
            # fresh interpreter for the rest
            import subprocess
            try:
                pr = subprocess.run([sys.executable, '-W', 'ignore', __file__], input=json.dumps(cases[k:]),
                                    stdout=subprocess.PIPE, stderr=subprocess.PIPE, text=True)
                rest = json.loads(pr.stdout)
                assert len(rest) == len(cases) - k
            except Exception as e:
                rest = [{'error': 'worker respawn failed: ' + str(e)[:200]}] * (len(cases) - k)
            out += rest
            break
        t0 = time.time()
        try:
            DEADLINE[0] = t0 + float(c.get('timeout', 60))
            STEP[0] = float(c.get('step', 12))
            try:
                r = run(c)
            finally:
                disarm()
            r['secs'] = round(time.time() - t0, 2)
            out.append(r)
        except CaseTimeout:
            disarm()
            TAINT[0] = True
            out.append({'error': 'timeout: case exceeded its time budget'})
        except Exception as e:
            import traceback
            out.append({'error': type(e).__name__ + ': ' + str(e)[:300], 'tb': traceback.format_exc()[-600:]})
    json.dump(out, sys.stdout)


main()
