"""Fail-closed translator for the time-stepping part of property C17.

Reads the source text (python `ast`; nothing is imported or run) of

  lcapy/simulator.py  geq / veq of SimulatedCapacitorTrapezoid, SimulatedInductorTrapezoid,
                      SimulatedCapacitorBackwardEuler, SimulatedInductorBackwardEuler;
                      SimulatedComponent.stamp and .subsdict; the index bindings in
                      Simulator.__call__ and the history bindings in Simulator._step
  lcapy/mnacpts.py    C._r_model and L._r_model (orientation of the Thevenin companion)
  lcapy/sexpr.py      the substitution of generalized_bilinear_transform and the
                      alpha chosen by `response` for each method name

and emits Coq definitions over an abstract field K.

Recognised subset for geq / veq (anything else raises Untranslatable):
  `if n < 1: return 0` (history guard, recorded) | `name = <expr>` | `return <expr>`
  expressions: self.Cval | self.Lval | dt | v1[n - 1] | v2[n - 1] | i[n - 1]
               | int literals | + - * / unary - | locals
Everything else (bindings, stamp, companion orientation) is matched against the
exact statement text it had when the model was written; a difference is
reported as Untranslatable (the obligation is then treated as broken).
"""
import ast
import hashlib
import os
import warnings


class Untranslatable(Exception):
    pass


def fail(node, why, fname):
    raise Untranslatable('%s:%s: %s: %s' % (fname, getattr(node, 'lineno', '?'), why,
                                            ast.unparse(node)[:160] if isinstance(node, ast.AST) else str(node)))


def is_doc(st):
    return isinstance(st, ast.Expr) and isinstance(st.value, ast.Constant) and isinstance(st.value.value, str)


CLASSES = {'SimulatedCapacitorTrapezoid': ('CT', 'Cval'), 'SimulatedInductorTrapezoid': ('LT', 'Lval'),
           'SimulatedCapacitorBackwardEuler': ('CB', 'Cval'), 'SimulatedInductorBackwardEuler': ('LB', 'Lval')}


class NumSim:
    def __init__(self, repo):
        self.repo = repo
        self.files = {}
        self.defs = {}       # (tag, 'geq'|'veq') -> dict(expr IR, guard, line)
        # statements of Simulator.__call__/_step that no longer have their pinned text: the formulas are still
        # translated (so that the step-by-step recursion of the model can be compared with the real run), the
        # mismatch itself is reported by checks/c17.py as a broken obligation
        self.soft_errors = []
        self.load_sim()
        self.load_cpts()
        self.load_sexpr()

    def read(self, rel):
        src = open(os.path.join(self.repo, rel)).read()
        self.files[rel] = hashlib.sha256(src.encode()).hexdigest()
        with warnings.catch_warnings():
            warnings.simplefilter('ignore')
            return ast.parse(src)

    # ---- expressions ----------------------------------------------------------
    def expr(self, e, env, pname, F):
        if isinstance(e, ast.Constant) and isinstance(e.value, int) and not isinstance(e.value, bool):
            return ('int', e.value)
        if isinstance(e, ast.Name):
            if e.id in env:
                return env[e.id]
            if e.id == 'dt':
                return ('var', 'dt')
            fail(e, 'unknown name', F)
        if isinstance(e, ast.Attribute) and ast.unparse(e) == 'self.' + pname:
            return ('var', 'X')
        if isinstance(e, ast.Subscript) and isinstance(e.value, ast.Name) and e.value.id in ('v1', 'v2', 'i') \
                and ast.unparse(e.slice) == 'n - 1':
            return ('var', e.value.id + 'p')
        if isinstance(e, ast.UnaryOp) and isinstance(e.op, ast.USub):
            return ('neg', self.expr(e.operand, env, pname, F))
        if isinstance(e, ast.BinOp):
            ops = {ast.Add: 'add', ast.Sub: 'sub', ast.Mult: 'mul', ast.Div: 'div'}
            if type(e.op) not in ops:
                fail(e, 'unsupported operator', F)
            return (ops[type(e.op)], self.expr(e.left, env, pname, F), self.expr(e.right, env, pname, F))
        fail(e, 'unsupported expression', F)

    def method(self, fn, pname, F):
        if [a.arg for a in fn.args.args] != ['self', 'n', 'dt', 'v1', 'v2', 'i']:
            fail(fn, 'unexpected signature', F)
        body = [st for st in fn.body if not is_doc(st)]
        guard = False
        if body and isinstance(body[0], ast.If):
            if ast.unparse(body[0]) != 'if n < 1:\n    return 0':
                fail(body[0], 'unexpected guard', F)
            guard = True
            body = body[1:]
        env = {}
        for st in body[:-1]:
            if not (isinstance(st, ast.Assign) and len(st.targets) == 1 and isinstance(st.targets[0], ast.Name)):
                fail(st, 'unsupported statement', F)
            env[st.targets[0].id] = self.expr(st.value, env, pname, F)
        if not body or not isinstance(body[-1], ast.Return) or body[-1].value is None:
            fail(fn, 'no final return', F)
        return {'ir': self.expr(body[-1].value, env, pname, F), 'guard': guard, 'line': fn.lineno}

    # ---- simulator.py -----------------------------------------------------------
    def load_sim(self):
        F = 'lcapy/simulator.py'
        tree = self.read(F)
        classes = {n.name: n for n in tree.body if isinstance(n, ast.ClassDef)}
        for cn, (tag, pname) in CLASSES.items():
            if cn not in classes:
                raise Untranslatable('%s: class %s not found' % (F, cn))
            c = classes[cn]
            base = 'SimulatedCapacitor' if pname == 'Cval' else 'SimulatedInductor'
            if [ast.unparse(b) for b in c.bases] != [base]:
                fail(c, 'unexpected base', F)
            ms = {m.name: m for m in c.body if isinstance(m, ast.FunctionDef)}
            if set(ms) != {'geq', 'veq'}:
                fail(c, 'unexpected methods', F)
            for mn in ('geq', 'veq'):
                self.defs[(tag, mn)] = self.method(ms[mn], pname, F)
        # parameter binding of the two base classes
        for cn, attr, src in (('SimulatedCapacitor', 'Cval', 'self.Cval = C.C.expr'), ('SimulatedInductor', 'Lval', 'self.Lval = L.L.expr')):
            c = classes.get(cn)
            if c is None or src not in [ast.unparse(st) for m in c.body if isinstance(m, ast.FunctionDef) for st in m.body]:
                raise Untranslatable('%s: %s no longer binds `%s`' % (F, cn, src))
        sc = classes.get('SimulatedComponent')
        if sc is None:
            raise Untranslatable('%s: SimulatedComponent not found' % F)
        ms = {m.name: m for m in sc.body if isinstance(m, ast.FunctionDef)}
        want_stamp = ['geq = self.geq(n, dt, v1, v2, i)', 'veq = self.veq(n, dt, v1, v2, i)',
                      'n1, n2 = (self.v1_index, self.v3_index)',
                      'if n1 >= 0 and n2 >= 0:\n    A[n1, n2] -= geq\n    A[n2, n1] -= geq',
                      'if n1 >= 0:\n    A[n1, n1] += geq', 'if n2 >= 0:\n    A[n2, n2] += geq',
                      'm = self.i_index + num_nodes', 'Z[m] += veq']
        got = [ast.unparse(st) for st in ms['stamp'].body if not is_doc(st)]
        if got != want_stamp:
            raise Untranslatable('%s:%d: SimulatedComponent.stamp changed:\n%s' % (F, ms['stamp'].lineno, '\n'.join(got)))
        # entries (row, col, sign) of the conductance stamp and of the source row
        self.stamp_A = [('N1', 'N3', 'Minus'), ('N3', 'N1', 'Minus'), ('N1', 'N1', 'Plus'), ('N3', 'N3', 'Plus')]
        want_subs = ['geq = self.geq(n, dt, v1, v2, i)', 'veq = self.veq(n, dt, v1, v2, i)',
                     'return {self.Reqsym: 1 / geq, self.Veqsym: veq}']
        got = [ast.unparse(st) for st in ms['subsdict'].body if not is_doc(st)]
        if got != want_subs:
            raise Untranslatable('%s:%d: SimulatedComponent.subsdict changed' % (F, ms['subsdict'].lineno))
        sim = classes.get('Simulator')
        ms = {m.name: m for m in sim.body if isinstance(m, ast.FunctionDef)}
        call_src = [ast.unparse(st) for st in ast.walk(ms['__call__']) if isinstance(st, ast.stmt)]
        for wnt in ("v1_index = r_model.mna._node_index(elt.node_names[0])",
                    "v2_index = r_model.mna._node_index(elt.node_names[1])",
                    "i_index = r_model.mna._branch_index('V%seq' % elt.name)",
                    "relt = self.r_model.elements['R%seq' % elt.name]",
                    "v3_index = r_model.mna._node_index(relt.node_names[1])",
                    "simcpt = cls(elt, v1_index, v2_index, v3_index, i_index)",
                    "Asubsdict[simcpt.Reqsym] = oo", "Zsubsdict[simcpt.Veqsym] = 0",
                    "for n, t1 in enumerate(tv):\n    self._step(r_model, n, tv, results)"):
            if wnt not in call_src:
                self.soft_errors.append('%s:%d: Simulator.__call__ no longer contains `%s`' % (F, ms['__call__'].lineno, wnt.split('\n')[0]))
        # integrator name -> classes
        sel = None
        for st in ms['__call__'].body:
            if isinstance(st, ast.If) and "integrator == 'trapezoid'" in ast.unparse(st.test):
                sel = ast.unparse(st)
        want_sel = ("if integrator == 'trapezoid':\n    Ccls = SimulatedCapacitorTrapezoid\n    Lcls = SimulatedInductorTrapezoid\n"
                    "elif integrator == 'backward-euler':\n    Ccls = SimulatedCapacitorBackwardEuler\n    Lcls = SimulatedInductorBackwardEuler\n"
                    "else:\n    raise ValueError('Unknown integrator ' + integrator)")
        if sel != want_sel:
            raise Untranslatable('%s:%d: integrator selection changed' % (F, ms['__call__'].lineno))
        step_src = [ast.unparse(st) for st in ast.walk(ms['_step']) if isinstance(st, ast.stmt)]
        for wnt in ("dt = tv[n] - tv[n - 1]", "subsdict = {tsym: tv[n]}",
                    "v1 = results.node_voltages[cpt.v1_index]", "v2 = results.node_voltages[cpt.v2_index]",
                    "i = results.branch_currents[cpt.i_index]",
                    "cpt.stamp(A, Z, results.num_nodes, n, dt, v1, v2, i)",
                    "A = self.A + 0", "Ainv = linalg.inv(A)", "results1 = dot(Ainv, Z)",
                    "results.node_voltages[0:num_nodes, n] = results1[0:num_nodes]",
                    "results.branch_currents[:, n] = results1[num_nodes:]"):
            if wnt not in step_src:
                self.soft_errors.append('%s:%d: Simulator._step no longer contains `%s`' % (F, ms['_step'].lineno, wnt))

    # ---- mnacpts.py ---------------------------------------------------------------
    def load_cpts(self):
        F = 'lcapy/mnacpts.py'
        tree = self.read(F)
        classes = {n.name: n for n in tree.body if isinstance(n, ast.ClassDef)}
        self.rmodel = {}
        for cn in ('C', 'L'):
            ms = {m.name: m for m in classes[cn].body if isinstance(m, ast.FunctionDef)}
            if '_r_model' not in ms:
                raise Untranslatable('%s: %s._r_model not found' % (F, cn))
            fn = ms['_r_model']
            calls = {}
            for st in fn.body:
                if isinstance(st, ast.Assign) and isinstance(st.value, ast.Call) and ast.unparse(st.value.func) == 'self._netmake_variant':
                    kind = ast.literal_eval(st.value.args[0])
                    kw = {k.arg: ast.unparse(k.value) for k in st.value.keywords}
                    calls[kind] = kw
            src = [ast.unparse(st) for st in fn.body]
            for wnt in ("dummy_node = self._dummy_node()", "Req = 'R%seq' % self.name", "Veq = 'V%seq' % self.name",
                        "return rnet + '\\n' + vnet"):
                if wnt not in src:
                    fail(fn, 'expected `%s`' % wnt, F)
            if set(calls) != {'R', 'V'}:
                fail(fn, 'companion is not one R and one V', F)
            nodemap = {'self.relnodes[0]': 'N1', 'self.relnodes[1]': 'N2', 'dummy_node': 'N3'}

            def nodes(txt):
                t = ast.parse(txt, mode='eval').body
                if not (isinstance(t, ast.Tuple) and len(t.elts) == 2):
                    fail(fn, 'unexpected node tuple', F)
                r = []
                for el in t.elts:
                    u = ast.unparse(el)
                    if u not in nodemap:
                        fail(fn, 'unexpected node %s' % u, F)
                    r.append(nodemap[u])
                return r
            if calls['R'].get('args') != 'Req' or calls['V'].get('args') != "('dc', Veq)":
                fail(fn, 'unexpected companion values', F)
            if calls['R'].get('suffix') != "'eq'" or calls['V'].get('suffix') != "'eq'":
                fail(fn, 'unexpected companion names', F)
            self.rmodel[cn] = {'R': nodes(calls['R']['nodes']), 'V': nodes(calls['V']['nodes']), 'line': fn.lineno}

    # ---- sexpr.py -------------------------------------------------------------------
    def load_sexpr(self):
        F = 'lcapy/sexpr.py'
        tree = self.read(F)
        cls = [n for n in tree.body if isinstance(n, ast.ClassDef) and n.name == 'LaplaceDomainExpression']
        if len(cls) != 1:
            raise Untranslatable('%s: LaplaceDomainExpression not found' % F)
        ms = {m.name: m for m in cls[0].body if isinstance(m, ast.FunctionDef)}
        g = ms['generalized_bilinear_transform']
        last = [st for st in g.body if not is_doc(st)][-1]
        want = 'return self.subs(1 / dt * (1 - z ** (-1)) / (alpha + (1 - alpha) * z ** (-1))) * scale'
        if ast.unparse(last) != want:
            fail(last, 'generalized bilinear substitution changed', F)
        self.gbt_line = last.lineno
        # s = (1/dt) (1 - zi) / (alpha + (1 - alpha) zi)   with zi = z^-1
        self.gbt = ('div', ('mul', ('div', ('int', 1), ('var', 'dt')), ('sub', ('int', 1), ('var', 'zi'))),
                    ('add', ('var', 'alpha'), ('mul', ('sub', ('int', 1), ('var', 'alpha')), ('var', 'zi'))))
        r = ms['response']
        self.response_line = r.lineno
        alphas = {}
        for st in ast.walk(r):
            if isinstance(st, ast.If) and isinstance(st.test, ast.Compare) and ast.unparse(st.test.left) == 'method':
                names = ast.literal_eval(st.test.comparators[0])
                body = ast.unparse(st.body[0])
                for nm in names:
                    alphas[nm] = body
        self.methods = alphas
        want_m = {'bilinear': 'alpha=0.5', 'tustin': 'alpha=0.5', 'trapezoidal': 'alpha=0.5',
                  'euler': 'alpha=0', 'forward-diff': 'alpha=0', 'forward-euler': 'alpha=0',
                  'backward-diff': 'alpha=1', 'backward-euler': 'alpha=1', 'gbf': 'alpha=alpha', 'generalized-bilinear': 'alpha=alpha'}
        for nm, a in want_m.items():
            if nm not in alphas or '_response_bilinear' not in alphas[nm] or a + ')' not in alphas[nm].replace(' ', ''):
                raise Untranslatable('%s:%d: response(): method %s no longer maps to _response_bilinear(%s)' % (F, r.lineno, nm, a))
        # the final scaling of response(): recorded as text, checked by the convergence search
        self.response_return = ast.unparse([st for st in r.body if isinstance(st, ast.Return)][-1])
        # time-base bookkeeping of the impulse-invariance path (separate obligation: a failure here does not hide the rest)
        self.resp_ii, self.resp_ii_error = None, None
        try:
            if '_response_impulse_invariance' not in ms:
                raise Untranslatable('%s: _response_impulse_invariance not found' % F)
            self.resp_ii = self.load_response_ii(ms['_response_impulse_invariance'], F)
            for nm in ('impulse-invariance', 'adhoc'):
                if nm not in alphas or alphas[nm] != 'result = expr._response_impulse_invariance(xvector, tvector, dtval)':
                    raise Untranslatable('%s:%d: response(): method %s no longer calls _response_impulse_invariance(xvector, tvector, dtval)' % (F, r.lineno, nm))
        except Untranslatable as e:
            self.resp_ii, self.resp_ii_error = None, str(e)

    # ---- sexpr.py: time bases of _response_impulse_invariance ---------------------------
    def load_response_ii(self, fn, F):
        """Which time vector is what in LaplaceDomainExpression._response_impulse_invariance:
             h_base       the instants the impulse response is sampled at (argument of transient_response)
             interp_base  the abscissae handed to interp1d together with the convolved output y
             query_base   the instants (minus the delay) at which the interpolant is evaluated
           each resolved to 'TBcaller' (the parameter tvector, never rebound) or 'TBzero' (arange(Nt) * dtval with
           Nt = len(tvector)).  Anything that cannot be resolved that way is Untranslatable."""
        if [a.arg for a in fn.args.args] != ['self', 'xvector', 'tvector', 'dtval']:
            fail(fn, 'unexpected signature', F)
        binds = {}          # name -> list of (lineno, value source) of plain assignments anywhere in the function
        for st in ast.walk(fn):
            if isinstance(st, (ast.AugAssign, ast.AnnAssign, ast.For, ast.With, ast.NamedExpr)):
                tg = st.target if not isinstance(st, ast.With) else None
                if tg is not None and any(isinstance(n, ast.Name) and n.id in ('tvector', 'th', 'ty', 'Nt', 'dtval', 'delay') for n in ast.walk(tg)):
                    fail(st, 'a time-base name is rebound', F)
            if isinstance(st, ast.Assign):
                for tg in st.targets:
                    for n in ast.walk(tg):
                        if isinstance(n, ast.Name):
                            binds.setdefault(n.id, []).append((st.lineno, ast.unparse(st.value), isinstance(tg, ast.Name)))
        for nm in ('tvector', 'dtval'):
            if nm in binds:
                fail(fn, 'parameter %s is rebound' % nm, F)

        def single(nm):
            b = binds.get(nm, [])
            if len(b) != 1 or not b[0][2]:
                fail(fn, '%s is not bound exactly once by a plain assignment' % nm, F)
            return b[0]
        if single('Nt')[1] != 'len(tvector)':
            fail(fn, 'Nt is not len(tvector)', F)

        def base(name, before, depth=0):
            if depth > 3:
                fail(fn, 'alias chain too long', F)
            if name == 'tvector':
                return 'TBcaller'
            ln, src, _ = single(name)
            if ln >= before:
                fail(fn, '%s is bound after its use' % name, F)
            if src == 'arange(Nt) * dtval' and single('Nt')[0] < ln:
                return 'TBzero'
            if src.isidentifier():
                return base(src, ln, depth + 1)
            fail(fn, 'cannot resolve the time base %s = %s' % (name, src), F)
        body = [st for st in fn.body if not is_doc(st)]
        # impulse response samples
        hs = [st for st in body if isinstance(st, ast.Assign) and ast.unparse(st.targets[0]) == 'hvector']
        if len(hs) != 1 or not (isinstance(hs[0].value, ast.Call) and ast.unparse(hs[0].value.func) == 'H.transient_response'
                                and len(hs[0].value.args) == 1 and isinstance(hs[0].value.args[0], ast.Name) and not hs[0].value.keywords):
            fail(fn, 'hvector is not H.transient_response(<name>)', F)
        h_base = base(hs[0].value.args[0].id, hs[0].lineno)
        ys = [st for st in body if isinstance(st, ast.Assign) and ast.unparse(st.targets[0]) == 'y']
        if len(ys) != 1 or ast.unparse(ys[0].value) != 'convolve(xvector, hvector)[0:Nt] * dtval':
            fail(fn, 'y is not convolve(xvector, hvector)[0:Nt] * dtval', F)
        # the delay branch
        ifs = [st for st in body if isinstance(st, ast.If) and 'delay' in ast.unparse(st.test)]
        if len(ifs) != 1 or ast.unparse(ifs[0].test) != 'delay != 0.0' or ifs[0].orelse:
            fail(fn, 'expected exactly one `if delay != 0.0:` without else', F)
        ib = [st for st in ifs[0].body if not is_doc(st)]
        if len(ib) != 2 or not all(isinstance(st, ast.Assign) and ast.unparse(st.targets[0]) == 'y' for st in ib):
            fail(ifs[0], 'delay branch is not two assignments to y', F)
        c1, c2 = ib[0].value, ib[1].value
        if not (isinstance(c1, ast.Call) and ast.unparse(c1.func) == 'interp1d' and len(c1.args) == 2 and isinstance(c1.args[0], ast.Name)
                and ast.unparse(c1.args[1]) == 'y'
                and sorted((k.arg, ast.unparse(k.value)) for k in c1.keywords) == [('bounds_error', 'False'), ('fill_value', '0')]):
            fail(ib[0], 'unexpected interpolant', F)
        interp_base = base(c1.args[0].id, ifs[0].lineno)
        if not (isinstance(c2, ast.Call) and ast.unparse(c2.func) == 'y' and len(c2.args) == 1 and not c2.keywords
                and isinstance(c2.args[0], ast.BinOp) and isinstance(c2.args[0].op, ast.Sub) and isinstance(c2.args[0].left, ast.Name)
                and ast.unparse(c2.args[0].right) == 'float(delay)'):
            fail(ib[1], 'the interpolant is not evaluated at <time vector> - float(delay)', F)
        query_base = base(c2.args[0].left.id, ifs[0].lineno)
        if not (isinstance(body[-1], ast.Return) and ast.unparse(body[-1]) == 'return y'):
            fail(fn, 'does not end with `return y`', F)
        return {'h': h_base, 'interp': interp_base, 'query': query_base, 'line': fn.lineno}

    # ---- Coq ----------------------------------------------------------------------
    def coq(self, ir):
        t = ir[0]
        if t == 'int':
            return '(kz K (%d))' % ir[1]
        if t == 'var':
            return ir[1]
        if t == 'neg':
            return '(fopp %s)' % self.coq(ir[1])
        return '(f%s %s %s)' % (t, self.coq(ir[1]), self.coq(ir[2]))

    def text(self):
        out = ['(* GENERATED by tools/tr_numsim.py from %s.\n   Do not edit: regenerated from the working tree on every run. *)' %
               ', '.join('%s (sha256 %s)' % (k, v[:12]) for k, v in sorted(self.files.items())),
               'From Coq Require Import ZArith List.', 'Require Import LT.FieldSec LT.NumEval LT.NumEvalSim LT.NumEvalResp.', 'Import ListNotations.', '',
               'Section Gen.\nVariable K : fld.\n']
        names = []
        for (tag, mn), d in sorted(self.defs.items()):
            out.append('(* lcapy/simulator.py:%d%s *)' % (d['line'], '  (returns 0 for n < 1)' if d['guard'] else ''))
            if mn == 'geq':
                out.append('Definition geq_%s (X dt : K) : K := %s.\n' % (tag, self.coq(d['ir'])))
            else:
                out.append('Definition veq_%s (X dt v1p v2p ip : K) : K := %s.\n' % (tag, self.coq(d['ir'])))
            names.append('%s_%s' % (mn, tag))
        out.append('(* lcapy/sexpr.py:%d  generalized_bilinear_transform: s as a function of zi = 1/z *)' % self.gbt_line)
        out.append('Definition gbt_s (alpha dt zi : K) : K := %s.\n' % self.coq(self.gbt))
        names.append('gbt_s')
        out.append('End Gen.\n')
        for nm in names:
            out.append('Arguments %s {K}.' % nm)
        out.append('')
        for cn in ('C', 'L'):
            r = self.rmodel[cn]
            out.append('(* lcapy/mnacpts.py:%d  %s._r_model: R%seq between (%s, %s), V%seq between (%s, %s) *)' % (
                r['line'], cn, cn, r['R'][0], r['R'][1], cn, r['V'][0], r['V'][1]))
            out.append('Definition rmodel_%s : companion := MkCompanion %s %s %s %s.\n' % (cn, r['R'][0], r['R'][1], r['V'][0], r['V'][1]))
        out.append('(* lcapy/simulator.py SimulatedComponent.stamp *)')
        out.append('Definition stamp_A : list (cnode * cnode * csign) := [%s].\n' % '; '.join('(%s, %s, %s)' % e for e in self.stamp_A))
        out.append(self.resp_text())
        out.append('Ltac sim_unfold := cbv beta iota zeta delta [%s kz kpos] in *.\n' % ' '.join(names))
        return '\n'.join(out)


def _resp_text(self):
    if self.resp_ii is None:
        return '(* lcapy/sexpr.py _response_impulse_invariance: time bases NOT translated: %s *)\n' % str(self.resp_ii_error).replace('*)', '* )')
    d = self.resp_ii
    return ('(* lcapy/sexpr.py:%d  _response_impulse_invariance: which time vector is used where *)\n'
            'Definition resp_ii_h_base : tbase := %s.\nDefinition resp_ii_interp_base : tbase := %s.\n'
            'Definition resp_ii_query_base : tbase := %s.\n' % (d['line'], d['h'], d['interp'], d['query']))


NumSim.resp_text = _resp_text


if __name__ == '__main__':
    import sys
    ns = NumSim(sys.argv[1] if len(sys.argv) > 1 else '/repo')
    print(ns.text())
    print(ns.methods, ns.response_return)
