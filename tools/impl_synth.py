"""Worker for C19: runs Lcapy's network synthesis on JSON cases (stdin) and
reports, per case (stdout, same order):

  status   'net' | 'none' | 'error'
  tree     the returned network parsed STRUCTURALLY into
           ['R'|'G'|'L'|'C', 'p/q'] | ['Ser', t1, t2, ...] | ['Par', ...]
           with exact rational element values (symbolic cases: instantiated at
           the case's rational point); None when some value is not rational
  errtype  exception class name
  terms    fosterI/fosterII only: the arguments the realiser was called with
           (recorded by wrapping Synthesis.parallelRLC / seriesRLC at run time),
           each as [[num coeffs], [den coeffs]] (ints, low power first) or None
  oracle   'ok' | 'bad' | 'na' : is  together(net.Z(s) - Z)  exactly 0 (sympy,
           numerator expanded)?  -- independent of the model
  zdiff    text of the difference when 'bad'

case: {'kind': 'network', 'N': [...], 'D': [...], 'form': str, 'mode': 'impedance'|'admittance'|'function',
       'sym': {'expr': str, 'point': {name: 'p/q'}} (optional, replaces N/D)}
      {'kind': 'transform', 'net': tree, 'form': str}
"""
import json
import os
import signal
import sys
import time
from fractions import Fraction

import sympy as sym

import lcapy
from lcapy import s, impedance, admittance, expr
from lcapy.oneport import Ser, Par, R, G, L, C
from lcapy import synthesis as syn

ssym = s.sympy
LEAVES = {'R': R, 'G': G, 'L': L, 'C': C}

_recorded = []
_sdep = []


def _wrap(name):
    orig = getattr(syn.Synthesis, name)

    def w(self, lexpr):
        _recorded.append((name, lexpr))
        return orig(self, lexpr)
    w.__wrapped__ = orig
    setattr(syn.Synthesis, name, w)


for _nm in [n for n in dir(syn.Synthesis) if n.startswith(('series', 'parallel'))]:
    _wrap(_nm)


def frac_str(x):
    return '%d/%d' % (x.p, x.q)


def to_rational(e, point):
    e = sym.sympify(getattr(e, 'sympy', e))
    if point:
        e = e.subs(point)
    e = sym.nsimplify(e) if e.is_number and not e.is_Rational and e.is_rational else e
    if e.is_Rational:
        return sym.Rational(e)
    e2 = sym.simplify(e)
    if e2.is_Rational:
        return sym.Rational(e2)
    return None


def tree_of(net, point):
    """structural parse; returns (tree, all_rational)"""
    if isinstance(net, (Ser, Par)):
        subs = [tree_of(a, point) for a in net.args]
        return [type(net).__name__] + [t for t, _ in subs], all(ok for _, ok in subs)
    nm = type(net).__name__
    if nm not in LEAVES or len(net.args) != 1:
        return ['?', str(net)], False
    v = to_rational(expr(net.args[0]), point)
    if v is None:
        try:
            if ssym in sym.sympify(expr(net.args[0]).sympy).free_symbols:
                _sdep.append(str(net))
        except Exception:
            pass
        return [nm, str(net.args[0])], False
    return [nm, frac_str(v)], True


def build(tree):
    if tree[0] == 'Ser':
        return Ser(*[build(t) for t in tree[1:]])
    if tree[0] == 'Par':
        return Par(*[build(t) for t in tree[1:]])
    return LEAVES[tree[0]](sym.Rational(tree[1]))


def poly_expr(cs):
    return sum(sym.Integer(c) * ssym ** i for i, c in enumerate(cs))


def ratfun_coeffs(e, point):
    """sympy expression in s -> ([num], [den]) integer coefficients low first, or None"""
    e = sym.sympify(getattr(e, 'sympy', e))
    if point:
        e = e.subs(point)
    e = sym.cancel(sym.together(e))
    n, d = sym.fraction(e)
    try:
        pn = sym.Poly(sym.expand(n), ssym)
        pd = sym.Poly(sym.expand(d), ssym)
    except Exception:
        return None
    cn = pn.all_coeffs()[::-1]
    cd = pd.all_coeffs()[::-1]
    if not all(c.is_Rational for c in cn + cd):
        return None
    den = 1
    for c in cn + cd:
        den = sym.ilcm(den, sym.Rational(c).q)
    return [[int(c * den) for c in cn], [int(c * den) for c in cd]]


def exact_zero(d):
    """True / False / None (undecided).  Exact: the numerator of together(d) is
    expanded; rational coefficients are compared literally, algebraic (radical)
    coefficients through their minimal polynomial (c == 0 iff minpoly(c) = x)."""
    d = sym.together(d)
    n, _ = sym.fraction(d)
    n = sym.expand(n)
    if n == 0:
        return True
    try:
        P = sym.Poly(n, ssym)
    except Exception:
        return None
    X = sym.Dummy('X')
    verdict = True
    for cf in P.all_coeffs():
        if cf.is_Rational:
            if cf != 0:
                return False
            continue
        if cf.free_symbols:
            cf2 = sym.factor(sym.together(cf))
            if cf2 == 0:
                continue
            num = sym.expand(sym.fraction(sym.together(cf2))[0])
            if num == 0:
                continue
            if num.is_polynomial(*num.free_symbols) and all(c.is_Rational for c in sym.Poly(num, *num.free_symbols).coeffs()):
                return False
            verdict = None
            continue
        try:
            mp = sym.minimal_polynomial(cf, X)
        except Exception:
            verdict = None
            continue
        if mp != X:
            return False
    return verdict


class CaseTimeout(Exception):
    pass


def _alarm(signum, frame):
    raise CaseTimeout()


signal.signal(signal.SIGALRM, _alarm)
T_CALL = int(os.environ.get('C19_T_CALL', '20'))
T_ORACLE = int(os.environ.get('C19_T_ORACLE', '15'))


def run_case(c):
    out = {}
    del _recorded[:]
    point = None
    try:
        if c['kind'] == 'transform':
            net0 = build(c['net'])
            Zreq = net0.Z(s)
            call = (lambda: net0.transform()) if c.get('omit') else (lambda: net0.transform(c['form']))
        else:
            if c.get('sym'):
                point = {sym.Symbol(k, positive=True): sym.Rational(v) for k, v in c['sym']['point'].items()}
                Zx = expr(c['sym']['expr'])
                # lcapy symbols are positive by default; rebuild the point on the symbols actually used
                names = {str(a): a for a in Zx.sympy.free_symbols}
                point = {names[k]: sym.Rational(v) for k, v in c['sym']['point'].items() if k in names}
                Zs = Zx.sympy
            else:
                Zs = poly_expr(c['N']) / poly_expr(c['D'])
            mode = c.get('mode', 'impedance')
            if mode == 'impedance':
                Zreq = impedance(Zs)
                call = (lambda: Zreq.network()) if c.get('omit') else (lambda: Zreq.network(c['form']))
            elif mode == 'admittance':
                Y = admittance(1 / Zs)
                Zreq = impedance(Zs)
                call = (lambda: Y.network()) if c.get('omit') else (lambda: Y.network(c['form']))
            else:
                Zreq = impedance(Zs)
                call = (lambda: syn.network(Zreq)) if c.get('omit') else (lambda: syn.network(Zreq, c['form']))
    except Exception as e:
        return {'status': 'setup-error', 'errtype': type(e).__name__, 'msg': str(e)[:200]}
    if c['kind'] == 'transform' or c.get('sym'):
        try:
            out['zreq'] = ratfun_coeffs(Zreq, point)
        except Exception:
            out['zreq'] = None
    t0 = time.time()
    signal.alarm(T_CALL)
    try:
        net = call()
        err = None
    except CaseTimeout:
        out.update(status='timeout', secs=round(time.time() - t0, 1))
        return out
    except RecursionError as e:
        net, err = None, e
    except Exception as e:
        net, err = None, e
    finally:
        signal.alarm(0)
    out['secs'] = round(time.time() - t0, 2)
    # recorded realiser arguments (foster terms)
    if c['form'] in ('fosterI', 'fosterII') or c.get('omit'):
        want = None
        terms = []
        for nm, lx in _recorded:
            terms.append((nm, ratfun_coeffs(lx, point)))
        out['terms'] = [t for _, t in terms]
        out['term_realisers'] = sorted(set(nm for nm, _ in terms))
    if err is not None:
        out.update(status='error', errtype=type(err).__name__, msg=str(err)[:160], oracle='na')
        return out
    if net is None:
        out.update(status='none', oracle='na')
        return out
    del _sdep[:]
    tree, ok = tree_of(net, point)
    if _sdep:
        out['sdep'] = _sdep[:3]
    out['status'] = 'net'
    out['tree'] = tree if ok else None
    out['text'] = str(net)[:300]
    signal.alarm(T_ORACLE)
    try:
        d = net.Z(s).sympy - Zreq.sympy
        z = exact_zero(d)
        if z is True:
            out['oracle'] = 'ok'
        elif z is False:
            out['oracle'] = 'bad'
            out['zdiff'] = str(sym.together(d))[:300]
        else:
            out['oracle'] = 'na'
            out['oracle_error'] = 'undecided (irrational coefficients)'
    except CaseTimeout:
        out['oracle'] = 'na'
        out['oracle_error'] = 'timeout'
    except Exception as e:
        out['oracle'] = 'na'
        out['oracle_error'] = '%s: %s' % (type(e).__name__, str(e)[:120])
    finally:
        signal.alarm(0)
    return out


def main():
    cases = json.load(sys.stdin)
    res = []
    for c in cases:
        try:
            res.append(run_case(c))
        except CaseTimeout:
            signal.alarm(0)
            res.append({'status': 'timeout'})
        except RecursionError as e:
            res.append({'status': 'harness-error', 'msg': 'RecursionError'})
        except Exception as e:
            res.append({'status': 'harness-error', 'msg': '%s: %s' % (type(e).__name__, str(e)[:200])})
    json.dump(res, sys.stdout)


if __name__ == '__main__':
    sys.setrecursionlimit(3000)
    main()
