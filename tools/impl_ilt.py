"""Worker for property C10: runs the REAL Lcapy inverse Laplace transform (from
$PYTHONPATH) on the cases given on stdin (JSON list) and prints exact results.

case = {"terms": [{"c": "p/q", "T": "p/q", "B": [g..], "A": [g..], "form": "ratio"|"factored"|"sum"}, ...],
        "const": "p/q", "opts": [[name, value], ...] (ordered kwargs), "damping": null|"under"|...,
        "ivfv": bool}
  g = [re, im] with "p/q" strings (Gaussian rational), polynomials LOWEST power first.
result = {"obs": parsed time function (first call), "same": second call (cache hit) equal,
          "again": equal after a call with other options in between, "other": parsed result of that call,
          "certs": per term {Q (highest first), R, P, O} as Lcapy's Ratfun.as_QRPO returned them,
          "res_sub": per term R/P/O of Ratfun._find_residues_sub on Lcapy's own poles,
          "iv", "fv": X.post_initial_value(), X.final_value(),
          "tiv", "tfv": limits of the returned time function (sympy), "is_causal": flag}
Numbers are exact; anything that cannot be brought to the exp-poly normal form is
reported as {"unparsed": text} and treated as a disagreement by the check.
The parser: Piecewise((e, t >= 0)) -> cond flag; cos/sin/cosh/sinh rewritten to
complex exponentials exactly; every additive term must be
   c * (t-T)^n * exp(p (t-T)) [* Heaviside(t-T)]   or   c * DiracDelta(t-T, k)."""
import sys
import json
import warnings
warnings.filterwarnings('ignore')
import sympy as sym
from sympy import Rational, I
import lcapy
from lcapy import s as ls, t as lt
from lcapy.ratfun import Ratfun
from lcapy.inverse_laplace import inverse_laplace_transformer as ILTR

S = ls.sympy
Tt = lt.sympy


def to_pair(x):
    """exact value of a constant sympy expression built from rationals, I, +, *, integer powers
    as a pair of Fractions (re, im); raises ValueError otherwise"""
    from fractions import Fraction
    if x.is_Rational:
        return (Fraction(int(x.p), int(x.q)), Fraction(0))
    if x == I:
        return (Fraction(0), Fraction(1))
    if x.is_Add:
        re, im = Fraction(0), Fraction(0)
        for a in x.args:
            r, i = to_pair(a)
            re += r
            im += i
        return (re, im)
    if x.is_Mul:
        re, im = Fraction(1), Fraction(0)
        for a in x.args:
            r, i = to_pair(a)
            re, im = re * r - im * i, re * i + im * r
        return (re, im)
    if x.is_Pow and x.exp.is_Integer:
        r, i = to_pair(x.base)
        n = int(x.exp)
        if n < 0:
            d = r * r + i * i
            if d == 0:
                raise ValueError('division by zero')
            r, i = r / d, -i / d
            n = -n
        re, im = Fraction(1), Fraction(0)
        for _ in range(n):
            re, im = re * r - im * i, re * i + im * r
        return (re, im)
    raise ValueError('not a Gaussian rational: %s' % str(x)[:80])


SQD = None      # set per case: d when the case lives in Q(i)(sqrt d) (numbers are then 4-lists, tools/ilt_qext.py)


def gauss(x):
    """sympy number -> [re, im] strings ("p/q"), or raise; exact, never via floats.
    Cases over Q(i)(sqrt d): -> [re a, im a, re b, im b] for a + b sqrt(d)"""
    x = sym.sympify(x)
    if SQD is not None:
        import ilt_qext
        return ilt_qext.quad_json(x, SQD)
    try:
        re, im = to_pair(x)
    except ValueError:
        re, im = to_pair(sym.expand(sym.simplify(x)))
    return ['%d/%d' % (re.numerator, re.denominator), '%d/%d' % (im.numerator, im.denominator)]


def ungauss(g):
    return Rational(g[0]) + I * Rational(g[1])


def poly_expr(coeffs):
    """lowest power first"""
    e = 0
    for k, g in enumerate(coeffs):
        e += ungauss(g) * S ** k
    return e


def factored_expr(roots, lead):
    e = ungauss(lead)
    for p, m in roots:
        e *= (S - ungauss(p)) ** m
    return e


def term_expr(tm):
    B = poly_expr(tm['B'])
    if tm.get('form') == 'factored' and tm.get('roots') is not None:
        A = factored_expr(tm['roots'], tm['lead'])
    else:
        A = poly_expr(tm['A'])
    R = B / A
    if tm.get('form') == 'sum':
        R = sym.apart(sym.cancel(B / A), S) if all(Rational(g[1]) == 0 for g in tm['A'] + tm['B']) else R
    e = Rational(tm['c']) * R
    T = Rational(tm['T'])
    if T != 0:
        e = e * sym.exp(-T * S)
    return e


class Unparsed(Exception):
    pass


def parse_time(e):
    t = Tt
    cond = False
    if isinstance(e, sym.Piecewise):
        if len(e.args) != 1:
            raise Unparsed('Piecewise with several pieces')
        val, c = e.args[0]
        if c != (t >= 0):
            raise Unparsed('Piecewise condition %s' % c)
        cond = True
        e = val
    if e.has(sym.Piecewise) or e.has(sym.Integral) or e.has(sym.Sum) or e.has(sym.nan) or e.has(sym.zoo) or e.has(sym.oo):
        raise Unparsed('unsupported construct')
    for fn in (sym.cos, sym.sin, sym.cosh, sym.sinh, sym.tanh):
        e = e.rewrite(fn, sym.exp)
    if SQD is not None:
        # constants with sums in their denominators (1/(3 - sqrt(5))) are brought to a + b sqrt(d) first,
        # otherwise expand() merges them with exponentials of negative exponent into one denominator
        import ilt_qext

        def _canon(x):
            try:
                q = ilt_qext.to_quad(x, SQD)
            except ValueError:
                return x
            return (ungauss(q.a.js()) + ungauss(q.b.js()) * sym.sqrt(SQD))
        e = e.replace(lambda x: x.is_Pow and x.exp.is_Integer and x.exp < 0 and x.base.is_Add and not x.base.has(t), _canon)
    e = sym.expand(e)
    reg = {}
    sing = {}
    for term in sym.Add.make_args(e):
        if term == 0:
            continue
        H, Dl, rest = [], [], []
        for f in sym.Mul.make_args(term):
            if f.func == sym.Heaviside:
                H.append(f)
            elif f.func == sym.DiracDelta:
                Dl.append(f)
            elif f.is_Pow and f.base.func == sym.Heaviside and f.exp.is_Integer and f.exp > 0:
                H.append(f.base)          # u(x)**k = u(x) (almost everywhere; irrelevant for the transform)
            else:
                rest.append(f)
        if len(set(H)) > 1 or len(Dl) > 1 or (H and Dl):
            raise Unparsed('product of steps/impulses')
        rest = sym.Mul(*rest)
        if Dl:
            d = Dl[0]
            T = sym.expand(t - d.args[0])
            k = int(d.args[1]) if len(d.args) > 1 else 0
            if T.has(t) or not T.is_Rational or rest.has(t):
                raise Unparsed('DiracDelta term %s' % term)
            key = ('%d/%d' % (T.p, T.q), k)
            sing[key] = sing.get(key, 0) + rest
            continue
        step = bool(H)
        T = Rational(0)
        if H:
            T = sym.expand(t - H[0].args[0])
            if T.has(t) or not T.is_Rational:
                raise Unparsed('Heaviside argument %s' % H[0])
        tau = sym.Dummy('tau')
        g = sym.expand(rest.subs(t, tau + T))
        for sub in sym.Add.make_args(g):
            c, dep = sub.as_independent(tau)
            n = 0
            p = 0
            for f in sym.Mul.make_args(dep):
                if f == tau:
                    n += 1
                elif f.is_Pow and f.base == tau and f.exp.is_Integer and f.exp > 0:
                    n += int(f.exp)
                elif f.func == sym.exp:
                    a = sym.expand(f.args[0])
                    pa = sym.Poly(a, tau)
                    if pa.degree() != 1:
                        raise Unparsed('exponent %s' % a)
                    p += pa.all_coeffs()[0]
                    c = c * sym.exp(pa.all_coeffs()[1])
                elif f == 1:
                    pass
                else:
                    raise Unparsed('factor %s' % f)
            pg = tuple(gauss(p))
            key = ('%d/%d' % (T.p, T.q), n, pg, step)
            reg[key] = reg.get(key, 0) + c
    out_reg = []
    for (T, n, pg, step), c in sorted(reg.items(), key=lambda kv: str(kv[0])):
        gc = gauss(c * sym.factorial(n))     # Lcapy writes c * t^n e^{pt}; the normal form uses t^n/n!
        if all(z == '0/1' for z in gc):
            continue
        out_reg.append([T, n, list(pg), gc, step])
    out_sing = []
    for (T, k), c in sorted(sing.items(), key=lambda kv: str(kv[0])):
        gc = gauss(c)
        if all(z == '0/1' for z in gc):
            continue
        out_sing.append([T, k, gc])
    return {'cond': cond, 'reg': out_reg, 'sing': out_sing}


def numeric_roundtrip(hs, e):
    """SEARCH ONLY (floats): |int_0^oo h(t) e^{-s0 t} dt - X(s0)| for s0 = 8, with the Dirac terms
    handled analytically and break-points at the steps; returns relative error or None"""
    import mpmath
    t = Tt
    if isinstance(hs, sym.Piecewise):
        hs = hs.args[0][0]
    if hs.has(sym.nan) or hs.has(sym.zoo):
        return None
    s0 = mpmath.mpf(8)
    hs = sym.expand(hs)
    dsum = mpmath.mpc(0)
    reg = 0
    for a in sym.Add.make_args(hs):
        ds = list(a.atoms(sym.DiracDelta))
        if ds:
            d = ds[0]
            c = a / d
            if c.has(t) or len(ds) > 1:
                return None
            T = sym.expand(t - d.args[0])
            k = int(d.args[1]) if len(d.args) > 1 else 0
            dsum += complex(c) * s0 ** k * mpmath.exp(-s0 * float(T))
        else:
            reg += a
    bps = [0.0]
    for H in reg.atoms(sym.Heaviside) if reg != 0 else []:
        T = sym.expand(t - H.args[0])
        if T.has(t):
            return None
        bps.append(float(T))
    bps = sorted(set(x for x in bps if x >= 0))
    bps.append(bps[-1] + 40.0)
    val = mpmath.mpc(0)
    if reg != 0:
        f = sym.lambdify(t, reg, modules=[{'Heaviside': lambda x: 1.0 if x >= 0 else 0.0}, 'mpmath'])
        val = mpmath.quad(lambda tt: f(tt + 1e-30) * mpmath.exp(-s0 * tt), bps)
    want = complex(e.subs(S, 8))
    got = complex(val + dsum)
    return abs(got - want) / max(1.0, abs(want))


def parse_safe(h):
    try:
        return limited(60, parse_time, h.sympy)
    except Unparsed as e:
        return {'unparsed': str(e)[:120], 'text': str(h.sympy)[:400]}
    except Timeout:
        return {'unparsed': 'parser timeout', 'text': str(h.sympy)[:400]}
    except Exception as e:
        return {'unparsed': type(e).__name__ + ': ' + str(e)[:120], 'text': str(h.sympy)[:400]}


def polycoeffs_high(Q):
    if Q == 0:
        return []
    return [gauss(c) for c in sym.Poly(Q, S).all_coeffs()]


def cert(tm, damping):
    B = poly_expr(tm['B'])
    A = poly_expr(tm['A'])
    rf = Ratfun(B / A, S)
    Q, R, P, O, delay, undef = rf.as_QRPO(damping)
    out = {'Q': polycoeffs_high(Q), 'R': [gauss(r) for r in R], 'P': [gauss(p) for p in P], 'O': [int(o) for o in O]}
    # the substitution method on Lcapy's own pole list (for the residues_sub model)
    try:
        Qm, M, Aa, _, _ = rf.as_QMA()
        sx = Ratfun(M / Aa, S)
        poles = sx.poles(damping=damping if damping != 'critical' else None)
        Bn = sx.B / sx.Apoly.LC()
        R2, P2, O2 = rf._find_residues_sub(poles, Bn)
        out['sub'] = {'poles': [[gauss(p.expr), int(p.n)] for p in poles],
                      'B': [gauss(c) for c in reversed(sym.Poly(Bn, S).all_coeffs())] if Bn != 0 else [],
                      'R': [gauss(r) for r in R2], 'P': [gauss(p) for p in P2], 'O': [int(o) for o in O2]}
    except Exception as e:
        out['sub'] = {'error': type(e).__name__ + ': ' + str(e)[:100]}
    return out


def lim_str(v):
    v = sym.sympify(getattr(v, 'sympy', v))
    if v in (sym.oo, -sym.oo, sym.zoo) or v.has(sym.oo) or v.has(sym.zoo):
        return 'inf'
    if v.has(sym.nan) or v.has(sym.AccumBounds):
        return 'undef'
    try:
        return gauss(v)
    except Exception:
        return 'other:' + str(v)[:60]


class Timeout(Exception):
    pass


def _alarm(sig, frm):
    raise Timeout()


def limited(seconds, fn, *a):
    """run fn(*a) under a wall-clock limit (SIGALRM); raises Timeout"""
    import signal
    old = signal.signal(signal.SIGALRM, _alarm)
    signal.alarm(seconds)
    try:
        return fn(*a)
    finally:
        signal.alarm(0)
        signal.signal(signal.SIGALRM, old)


def classify_undef(e):
    """structure of the time-domain result for  <factor> * V(s)"""
    t = Tt
    if isinstance(e, sym.Piecewise):
        e = e.args[0][0]
    ders = list(e.atoms(sym.Derivative))
    ints = list(e.atoms(sym.Integral))
    if ints:
        if len(ints) != 1:
            his = set()
            for it in ints:
                (tau, lo, hi) = it.limits[0]
                if lo != 0:
                    return {'ukind': 'other', 'text': str(e)[:200]}
                his.add(hi)
            if len(his) == 1:
                hi = his.pop()
                return {'ukind': 'conv', 'causal_limits': bool(hi == t), 'upper': str(hi), 'n_integrals': len(ints)}
            return {'ukind': 'other', 'text': str(e)[:200]}
        it = ints[0]
        (tau, lo, hi) = it.limits[0]
        if lo != 0:
            return {'ukind': 'other', 'text': str(e)[:200]}
        f = it.function
        if isinstance(f, sym.core.function.AppliedUndef) and f.args == (tau,) and hi == t:
            return {'ukind': 'int'}
        return {'ukind': 'conv', 'causal_limits': bool(hi == t), 'upper': str(hi)}
    top = [d for d in ders if isinstance(d.expr, sym.core.function.AppliedUndef) and not d.has(sym.Subs)]
    if top:
        n = max(d.derivative_count for d in top)
        return {'ukind': 'deriv', 'n': int(n), 'ics': bool(e.has(sym.DiracDelta))}
    if e.has(sym.DiracDelta):
        return {'ukind': 'other', 'text': str(e)[:200]}
    return {'ukind': 'func'}


def run_undef(case):
    opts = {}
    for k, v in case['opts']:
        opts[k] = v
    ILTR.clear_cache()
    X = lcapy.expr(case['undef'])
    h = X(lt, **opts)
    out = classify_undef(h.sympy)
    out['expr'] = case['undef']
    h2 = X(lt, **opts)
    out['same'] = bool(h2.sympy == h.sympy)
    return out


def run(case):
    global SQD
    SQD = None
    if 'undef' in case:
        return run_undef(case)
    SQD = case.get('sqrtd')
    damping = case.get('damping')
    opts = {}
    for k, v in case['opts']:
        opts[k] = v
    if damping is not None:
        opts['damping'] = damping
    e = 0
    if case.get('nested'):
        # exp(-T0 s) * (R_0 + exp(-(T_1 - T0) s) R_1 + ...): a delay in front of a sum containing delays
        T0 = min(Rational(tm['T']) for tm in case['terms'])
        inner = 0
        for tm in case['terms']:
            t2 = dict(tm)
            t2['T'] = str(Rational(tm['T']) - T0)
            inner = inner + term_expr(t2)
        e = sym.Mul(sym.exp(-T0 * S), inner, evaluate=False)
    else:
        for tm in case['terms']:
            e = e + term_expr(tm)
    e = Rational(case.get('const', '1/1')) * e
    X = lcapy.LaplaceDomainExpression(e)
    out = {'expr': str(e)[:300]}
    ILTR.clear_cache()
    try:
        h1 = limited(60, lambda: X(lt, **opts))
    except Timeout:
        out['error'] = 'timeout: inverse transform'
        h1 = None
    except Exception as ex:
        out['error'] = type(ex).__name__ + ': ' + str(ex)[:200]
        h1 = None
    if h1 is not None:
        out['obs'] = parse_safe(h1)
        if 'unparsed' in out['obs']:
            try:
                hs = h1.sympy
                if hs.has(sym.Integral):
                    hs = limited(30, lambda: hs.doit())       # unevaluated convolutions (search only)
                err = limited(60, numeric_roundtrip, hs, e)
                out['obs']['numeric_err'] = None if err is None else float(err)
            except BaseException as ex:
                out['obs']['numeric_err'] = None
        out['is_causal'] = bool(h1.is_causal)
        n1 = len(ILTR.cache)
        h2 = X(lt, **opts)
        out['same'] = bool(h2.sympy == h1.sympy) and len(ILTR.cache) == n1
        o2 = dict(opts)
        o2['causal'] = not bool(opts.get('causal', False))
        for k in ('ac', 'dc'):
            o2.pop(k, None)
        try:
            hB = X(lt, **o2)
            out['other'] = parse_safe(hB)
            out['other_causal'] = bool(o2['causal'])
        except Exception as ex:
            out['other'] = {'error': str(ex)[:100]}
        h3 = X(lt, **opts)
        out['again'] = bool(h3.sympy == h1.sympy)
        if case.get('ivfv'):
            try:
                out['tiv'] = limited(20, lambda: lim_str(h1.post_initial_value()))
            except BaseException as ex:
                out['tiv'] = 'error:' + type(ex).__name__
            try:
                hh = h1.remove_condition() if hasattr(h1, 'remove_condition') else h1
                out['tfv'] = limited(20, lambda: lim_str(hh.final_value()))
            except BaseException as ex:
                out['tfv'] = 'error:' + type(ex).__name__
    try:
        out['certs'] = limited(120, lambda: [cert(tm, damping) for tm in case['terms']])
    except BaseException as ex:
        out['certs_error'] = type(ex).__name__ + ': ' + str(ex)[:200]
    if case.get('ivfv'):
        try:
            out['iv'] = limited(20, lambda: lim_str(X.post_initial_value()))
        except BaseException as ex:
            out['iv'] = 'error:' + type(ex).__name__
        try:
            out['fv'] = limited(20, lambda: lim_str(X.final_value()))
        except BaseException as ex:
            out['fv'] = 'error:' + type(ex).__name__
    return out


def main():
    cases = json.load(sys.stdin)
    res = []
    import time
    for c in cases:
        t0 = time.time()
        try:
            res.append(run(c))
            if isinstance(res[-1], dict):
                res[-1]['secs'] = round(time.time() - t0, 2)
        except Exception as e:
            import traceback
            res.append({'error': 'worker: ' + type(e).__name__ + ': ' + str(e)[:200] + traceback.format_exc()[-300:]})
    json.dump(res, sys.stdout)


main()
