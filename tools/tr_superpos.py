"""Fail-closed translator for the signal-kind bookkeeping of lcapy/superposition.py and
lcapy/netlist.py (C03): regenerates, from the current source text, the small tables that
decide WHICH analysis a part of a source value goes to and WHICH stored parts a view sums:

  Superposition.kinds(transform=True)   decomposed key -> transform group ('x','s' -> 'transient')
  Superposition.select                  kind keyword -> view (self / time() / laplace() / n / transient)
  Superposition.transient               which entries make up the transient part ('x' of the decomposition, 's')
  Superposition.time / .laplace         sum over ALL stored values of val.time() / val.laplace()
  Superposition.netval.kind_keyword     kind -> netlist keyword
  Netlist._analysis_groups              ivp: every non-noise group merged under one key, noise dropped;
                                        time domain: non-noise merged under one key, noise groups kept;
                                        otherwise the transform groups unchanged

Method: every statement of the function body is un-parsed (ast.unparse normalises layout and
quotes) and must match, in order, one of the statement templates listed for that function; the
literals are read out of the match.  Doc-strings and comments are ignored.  Any other statement,
a missing one, or a literal outside the expected vocabulary raises Untranslatable (the check
treats that as a broken obligation).  Nothing is evaluated and nothing is guessed.
Output: Coq definitions (Gen/SuperposGen.v) over the types of LT.SuperposModel.
"""
import ast
import hashlib
import re


class Untranslatable(Exception):
    pass


def _find(tree, cls, name):
    for n in ast.walk(tree):
        if isinstance(n, ast.ClassDef) and n.name == cls:
            for f in n.body:
                if isinstance(f, ast.FunctionDef) and f.name == name:
                    return f
    raise Untranslatable('%s.%s not found' % (cls, name))


def _stmts(body):
    """statements without doc-strings"""
    out = []
    for s in body:
        if isinstance(s, ast.Expr) and isinstance(s.value, ast.Constant) and isinstance(s.value.value, str):
            continue
        out.append(s)
    return out


def _u(node):
    return ast.unparse(node).strip()


def _expect(where, text, pattern):
    m = re.fullmatch(pattern, text, re.S)
    if not m:
        raise Untranslatable('%s: unexpected statement `%s` (wanted /%s/)' % (where, text[:200], pattern[:120]))
    return m


GROUPS = {'dc': 'GDC', 'transient': 'GTR'}
VIEWS = {'self': 'VwSelf', 'self.time()': 'VwTime', 'self.laplace()': 'VwLaplace', 'self.n': 'VwNoise',
         'self.transient_laplace if transform else self.transient': 'VwTransient'}


class SuperposTranslator:
    def __init__(self, sup_path, netlist_path):
        self.sup_src = open(sup_path).read()
        self.net_src = open(netlist_path).read()
        import warnings
        with warnings.catch_warnings():
            warnings.simplefilter('ignore')           # invalid escape sequences in lcapy doc-strings
            self.sup = ast.parse(self.sup_src)
            self.net = ast.parse(self.net_src)
        # the grouping of sources into sub-netlists also lives in netlistmixin.py, subnetlist.py and mnacpts.py
        import os
        d = os.path.dirname(sup_path)
        self.extra_src = {}
        self.extra = {}
        with warnings.catch_warnings():
            warnings.simplefilter('ignore')
            for nm in ('netlistmixin.py', 'subnetlist.py', 'mnacpts.py'):
                try:
                    self.extra_src[nm] = open(os.path.join(d, nm)).read()
                    self.extra[nm] = ast.parse(self.extra_src[nm])
                except (OSError, SyntaxError) as e:
                    self.extra_src[nm] = ''
                    self.extra[nm] = None
        self.sha = hashlib.sha256((self.sup_src + self.net_src + ''.join(self.extra_src[k] for k in sorted(self.extra_src))).encode()).hexdigest()
        self.out = {}

    # -- kinds -------------------------------------------------------------------------
    def tr_kinds(self):
        f = _find(self.sup, 'Superposition', 'kinds')
        st = _stmts(f.body)
        if len(st) != 2 or not isinstance(st[0], ast.If):
            raise Untranslatable('kinds: body shape')
        _expect('kinds', _u(st[0].test), r'transform')
        _expect('kinds', _u(st[1]), r'return list\(self\.keys\(\)\)')
        if st[0].orelse:
            raise Untranslatable('kinds: else branch')
        body = _stmts(st[0].body)
        _expect('kinds', _u(body[0]), r'kinds = list\(self\.decompose\(\)\.keys\(\)\)')
        _expect('kinds', _u(body[-1]), r'return kinds')
        table = {}
        for blk in body[1:-1]:
            if not isinstance(blk, ast.If) or blk.orelse:
                raise Untranslatable('kinds: unexpected statement `%s`' % _u(blk)[:120])
            key = _expect('kinds', _u(blk.test), r"'(\w+)' in kinds").group(1)
            inner = _stmts(blk.body)
            _expect('kinds', _u(inner[0]), r"kinds\.pop\(kinds\.index\('%s'\)\)" % key)
            if len(inner) != 2:
                raise Untranslatable('kinds: block for %s has %d statements' % (key, len(inner)))
            app = inner[1]
            if isinstance(app, ast.If):
                # a guard that only avoids a duplicate entry
                _expect('kinds', _u(app.test), r"'\w+' not in kinds")
                if app.orelse or len(app.body) != 1:
                    raise Untranslatable('kinds: guard shape')
                app = app.body[0]
            val = _expect('kinds', _u(app), r"kinds\.append\('(\w+)'\)").group(1)
            if val not in GROUPS:
                raise Untranslatable('kinds: unknown group %s' % val)
            table[key] = GROUPS[val]
        if set(table) != {'x', 's'}:
            raise Untranslatable('kinds: rewritten keys %s' % sorted(table))
        self.out['kinds'] = table

    # -- select ------------------------------------------------------------------------
    def tr_select(self):
        f = _find(self.sup, 'Superposition', 'select')
        st = _stmts(f.body)
        if len(st) != 5:
            raise Untranslatable('select: %d statements' % len(st))
        top = st[0]
        _expect('select', _u(top.test), r'isinstance\(kind, str\)')
        if top.orelse:
            raise Untranslatable('select: else')
        inner = _stmts(top.body)
        if len(inner) != 2:
            raise Untranslatable('select: string branch shape')
        table = {}
        node = inner[0]
        while True:
            if not isinstance(node, ast.If):
                raise Untranslatable('select: chain')
            t = _u(node.test)
            m = re.fullmatch(r"kind == '(\w+)'", t)
            keys = [m.group(1)] if m else None
            if keys is None:
                m = _expect('select', t, r"kind in \(((?:'\w+'(?:, )?)+)\)")
                keys = re.findall(r"'(\w+)'", m.group(1))
            if len(node.body) != 1:
                raise Untranslatable('select: branch body')
            view = _expect('select', _u(node.body[0]), r'return (.+)').group(1)
            if view not in VIEWS:
                raise Untranslatable('select: unknown view `%s`' % view)
            for k in keys:
                table[k] = VIEWS[view]
            if not node.orelse:
                break
            if len(node.orelse) != 1:
                raise Untranslatable('select: elif shape')
            node = node.orelse[0]
        if set(table) != {'super', 'time', 'ivp', 'laplace', 'noise', 'transient'}:
            raise Untranslatable('select: keywords %s' % sorted(table))
        # one noise identifier: the stored entry or zero
        _expect('select', _u(inner[1]),
                r"if isinstance\(kind, str\) and kind\[0\] == 'n':\n\s+if kind not in self:\n\s+return self\.decompose_to_domain\(0, 'n'\)\n\s+return self\[kind\]")
        # any other key: entry of the decomposition (when a 't' entry is present) or of the container, or zero
        _expect('select', _u(st[1]), r'obj = self')
        _expect('select', _u(st[2]), r"if 't' in self and \(kind == omega or 't' != kind\):\n\s+obj = self\.decompose\(\)")
        _expect('select', _u(st[3]), r'if kind not in obj:\n\s+return obj\.decompose_to_domain\(0, kind\)')
        _expect('select', _u(st[4]), r'return obj\[kind\]')
        self.out['select'] = table

    # -- transient / time / laplace ----------------------------------------------------------
    def tr_views(self):
        f = _find(self.sup, 'Superposition', 'transient')
        st = _stmts(f.body)
        if len(st) != 5:
            raise Untranslatable('transient: %d statements' % len(st))
        _expect('transient', _u(st[0]), r"result = domain_quantity_to_class\('time', quantity=self\.quantity\)\(0\)")
        _expect('transient', _u(st[1]), r'decomp = self\.decompose\(\)')
        k1 = _expect('transient', _u(st[2]), r"if '(\w+)' in decomp:\n\s+result \+= decomp\['(\w+)'\]")
        k2 = _expect('transient', _u(st[3]), r"if '(\w+)' in self:\n\s+result \+= self\['(\w+)'\]\.inverse_laplace\(\)")
        _expect('transient', _u(st[4]), r'return result')
        if k1.group(1) != k1.group(2) or k2.group(1) != k2.group(2):
            raise Untranslatable('transient: test and use differ')
        self.out['transient'] = [k1.group(1), k2.group(1)]
        for name in ('time', 'laplace'):
            f = _find(self.sup, 'Superposition', name)
            st = [s for s in _stmts(f.body)]
            texts = [_u(s) for s in st]
            _expect(name, texts[0], r"result = domain_quantity_to_class\('%s', quantity=self\.quantity\)\(0\)" % name)
            rest = [t for t in texts[1:] if t != 'result.is_causal = True']
            if len(rest) != 2:
                raise Untranslatable('%s: shape' % name)
            _expect(name, rest[0], r'for val in self\.values\(\):\n\s+result \+= val\.%s\(\*\*assumptions\)' % name)
            _expect(name, rest[1], r'return result')
        self.out['sum_all'] = True

    # -- netval.kind_keyword -----------------------------------------------------------------------
    def tr_keyword(self):
        f = _find(self.sup, 'Superposition', 'netval')
        kk = [s for s in f.body if isinstance(s, ast.FunctionDef) and s.name == 'kind_keyword']
        if len(kk) != 1:
            raise Untranslatable('netval: kind_keyword not found')
        st = _stmts(kk[0].body)
        if len(st) != 3:
            raise Untranslatable('kind_keyword: shape')
        _expect('kind_keyword', _u(st[0]), r"if not isinstance\(kind, str\):\n\s+return 'ac'")
        m = _expect('kind_keyword', _u(st[1]),
                    r"if kind\[0\] == 'n':\n\s+return 'noise'\nelif kind in \(((?:'\w+'(?:, )?)+)\):\n\s+return 's'\nelif kind in \(((?:'\w+'(?:, )?)+)\):\n\s+return ''")
        _expect('kind_keyword', _u(st[2]), r'return kind')
        self.out['keyword'] = {'s': re.findall(r"'(\w+)'", m.group(1)), '': re.findall(r"'(\w+)'", m.group(2))}
        if sorted(self.out['keyword']['s']) != ['ivp', 'laplace'] or sorted(self.out['keyword']['']) != ['t', 'time', 'transient']:
            raise Untranslatable('kind_keyword: vocabulary %s' % self.out['keyword'])

    # -- Netlist._analysis_groups -------------------------------------------------------------------
    def tr_analysis_groups(self):
        f = _find(self.net, 'Netlist', '_analysis_groups')
        st = _stmts(f.body)
        if len(st) != 1 or not isinstance(st[0], ast.If):
            raise Untranslatable('_analysis_groups: body shape')
        top = st[0]
        _expect('_analysis_groups', _u(top.test), r'self\.is_IVP')
        if len(top.orelse) != 1 or not isinstance(top.orelse[0], ast.If):
            raise Untranslatable('_analysis_groups: elif')
        mid = top.orelse[0]
        _expect('_analysis_groups', _u(mid.test), r'self\.is_time_domain')
        if len(mid.orelse) != 1:
            raise Untranslatable('_analysis_groups: else')
        _expect('_analysis_groups', _u(mid.orelse[0]), r'return self\.independent_source_groups\(True\)')
        res = {}
        for tag, blk in (('ivp', top.body), ('time', mid.body)):
            stx = _stmts(blk)
            # helper definition and warnings do not touch the groups
            stx = [s for s in stx if not (isinstance(s, ast.FunctionDef) and s.name == 'namelist')]
            stx = [s for s in stx if not re.fullmatch(r"if self\.missing_ic != \{\}:\n\s+warn\(.*\)", _u(s), re.S)]
            if len(stx) != 4:
                raise Untranslatable('_analysis_groups[%s]: %d statements' % (tag, len(stx)))
            _expect(tag, _u(stx[0]), r'groups = self\.independent_source_groups\(True\)')
            key = _expect(tag, _u(stx[1]), r"newgroups = \{'(\w+)': \[\]\}").group(1)
            loop = stx[2]
            if not isinstance(loop, ast.For):
                raise Untranslatable('_analysis_groups[%s]: loop' % tag)
            _expect(tag, _u(loop.target) + ' in ' + _u(loop.iter), r'\(?key, sources\)? in groups\.items\(\)')
            if len(loop.body) != 1 or not isinstance(loop.body[0], ast.If):
                raise Untranslatable('_analysis_groups[%s]: loop body' % tag)
            br = loop.body[0]
            _expect(tag, _u(br.test), r"isinstance\(key, str\) and key\[0\] == 'n'")
            if len(br.body) != 1 or len(br.orelse) != 1:
                raise Untranslatable('_analysis_groups[%s]: branch shape' % tag)
            nz = _u(br.body[0])
            if re.fullmatch(r'warn\(.*\)', nz, re.S):
                noise = 'drop'
            elif nz == 'newgroups[key] = sources':
                noise = 'keep'
            else:
                raise Untranslatable('_analysis_groups[%s]: noise branch `%s`' % (tag, nz[:100]))
            k2 = _expect(tag, _u(br.orelse[0]), r"newgroups\['(\w+)'\] \+= sources").group(1)
            if k2 != key:
                raise Untranslatable('_analysis_groups[%s]: keys %s / %s' % (tag, key, k2))
            _expect(tag, _u(stx[3]), r'return newgroups')
            res[tag] = (key, noise)
        if res['ivp'][0] not in ('ivp', 'time') or res['time'][0] not in ('ivp', 'time'):
            raise Untranslatable('_analysis_groups: merged keys %s' % res)
        self.out['agroups'] = res

    # -- grouping of sources into sub-netlists ---------------------------------------------------------
    def _tree(self, nm):
        t = self.extra.get(nm)
        if t is None:
            raise Untranslatable('lcapy/%s cannot be read or parsed' % nm)
        return t

    def _exact(self, where, stmts, patterns):
        """the statements must match the patterns one to one, in order; returns the match objects"""
        texts = [_u(s_) for s_ in stmts]
        if len(texts) != len(patterns):
            raise Untranslatable('%s: %d statements, expected %d: %s' % (where, len(texts), len(patterns), ' | '.join(t[:60] for t in texts)))
        return [_expect(where, t, p) for t, p in zip(texts, patterns)]

    def tr_source_groups(self):
        ATTR = {'Voc': True, 'Isc': False}
        # NetlistMixin.independent_source_groups
        f = _find(self._tree('netlistmixin.py'), 'NetlistMixin', 'independent_source_groups')
        if [a.arg for a in f.args.args] != ['self', 'transform']:
            raise Untranslatable('independent_source_groups: arguments')
        st = _stmts(f.body)
        if len(st) != 3 or not isinstance(st[1], ast.For) or st[1].orelse:
            raise Untranslatable('independent_source_groups: body shape')
        _expect('independent_source_groups', _u(st[0]), r'groups = \{\}')
        _expect('independent_source_groups', _u(st[2]), r'return groups')
        loop = st[1]
        _expect('independent_source_groups', _u(loop.target) + ' in ' + _u(loop.iter), r'\(?eltname, elt\)? in self\.elements\.items\(\)')
        body = _stmts(loop.body)
        if len(body) != 4 or not isinstance(body[2], ast.If):
            raise Untranslatable('independent_source_groups: loop body shape')
        _expect('independent_source_groups', _u(body[0]), r'if not elt\.is_independent_source:\n\s+continue')
        _expect('independent_source_groups', _u(body[1]), r'cpt = elt\.cpt')
        br = body[2]
        _expect('independent_source_groups', _u(br.test), r'cpt\.is_voltage_source')
        attr = {}
        transform = True
        for tag, blk in ((True, br.body), (False, br.orelse)):
            m1, m2 = self._exact('independent_source_groups', _stmts(blk), [r'(\w+) = cpt\.(\w+)', r'cpt_kinds = (\w+)\.kinds\((\w*)\)'])
            if m1.group(1) != m2.group(1) or m1.group(2) not in ATTR:
                raise Untranslatable('independent_source_groups: kinds taken from `%s`' % m1.group(2))
            attr[tag] = ATTR[m1.group(2)]
            if m2.group(2) != 'transform':
                transform = False
        _expect('independent_source_groups', _u(body[3]),
                r'for cpt_kind in cpt_kinds:\n\s+if cpt_kind not in groups:\n\s+groups\[cpt_kind\] = \[\]\n\s+groups\[cpt_kind\]\.append\(eltname\)')
        self.out['isg_attr'] = attr
        self.out['isg_transform'] = transform
        # V._select / I._select
        sel = {}
        for cls, tag in (('V', True), ('I', False)):
            f = _find(self._tree('mnacpts.py'), cls, '_select')
            (m,) = self._exact('%s._select' % cls, _stmts(f.body),
                               [r'return self\._netmake\(args=self\.cpt\.(\w+)\.netval\(kind\), ignore_keyword=True\)'])
            if m.group(1) not in ATTR:
                raise Untranslatable('%s._select: value taken from `%s`' % (cls, m.group(1)))
            sel[tag] = ATTR[m.group(1)]
        self.out['sel_attr'] = sel
        # Netlist._subcircuits_make
        f = _find(self.net, 'Netlist', '_subcircuits_make')
        st = _stmts(f.body)
        if len(st) != 6 or not isinstance(st[3], ast.For) or st[3].orelse:
            raise Untranslatable('_subcircuits_make: body shape')
        self._exact('_subcircuits_make', st[:3] + st[4:],
                    [r'cct = self\.expand\(\)', r'groups = cct\._analysis_groups\(\)', r'sub = TransformDomains\(\)',
                     r"if sub == \{\} and \(?not nowarn\)?:\n\s+warn\('Netlist has no sources'\)", r'return sub'])
        loop = st[3]
        _expect('_subcircuits_make', _u(loop.target) + ' in ' + _u(loop.iter), r'\(?kind, sources\)? in groups\.items\(\)')
        (m,) = self._exact('_subcircuits_make', _stmts(loop.body), [r'sub\[(\w+)\] = SubNetlist\((\w+), (\w+)\)'])
        self.out['sub_per_key'] = (m.group(1) == 'kind' and m.group(3) == 'kind')
        self.out['sub_whole'] = (m.group(2) == 'cct')
        # SubNetlist.__new__: the sub-netlist is netlist.select(kind)
        f = _find(self._tree('subnetlist.py'), 'SubNetlist', '__new__')
        if [a.arg for a in f.args.args] != ['cls', 'netlist', 'kind']:
            raise Untranslatable('SubNetlist.__new__: arguments')
        self._exact('SubNetlist.__new__', _stmts(f.body),
                    [r"kinds = \('dc', 'transient', 'time', 'ivp', 'laplace'\)",
                     r"if not isinstance\(kind, str\) or kind\[0\] == 'n':\n\s+pass\nelif kind not in kinds:\n\s+raise ValueError\(.*\)",
                     r'obj = netlist\.select\(kind=kind\)', r'obj\.context = state\.new_context\(\)', r'obj\.kind = kind',
                     r'obj\.__class__ = cls', r'obj\._analysis = obj\.analyse\(\)', r'obj\.solver_method = netlist\.solver_method',
                     r'return obj'])
        # Netlist.select: every component goes through _select(kind)
        f = _find(self.net, 'Netlist', 'select')
        if [a.arg for a in f.args.args] != ['self', 'kind']:
            raise Untranslatable('Netlist.select: arguments')
        self._exact('Netlist.select', _stmts(f.body),
                    [r'new = self\._new\(\)', r'new\.kind = kind',
                     r'for cpt in self\._elements\.values\(\):\n\s+net = cpt\._select\(kind\)\n\s+new\._add\(net\)', r'return new'])
        self.out['select_every_cpt'] = True
        # Netlist.get_I / _get_Vd: the results of ALL sub-netlists are accumulated with add
        f = _find(self.net, 'Netlist', 'get_I')
        self._exact('Netlist.get_I', _stmts(f.body),
                    [r'self\._add_ground\(\)', r'subs = self\._subcircuits_make\(nowarn=nowarn\)', r'result = SuperpositionCurrent\(\)',
                     r'for sub in subs\.values\(\):\n\s+I = sub\.get_I\(name\)\n\s+result\.add\(I\)', r'result = result', r'return result'])
        f = _find(self.net, 'Netlist', '_get_Vd')
        self._exact('Netlist._get_Vd', _stmts(f.body),
                    [r'self\._add_ground\(\)', r'subs = self\._subcircuits_make\(nowarn=nowarn\)', r'result = SuperpositionVoltage\(\)',
                     r'for sub in subs\.values\(\):\n\s+Vd = sub\.get_Vd\(Np, Nm\)\n\s+result\.add\(Vd\)', r'result = result\.canonical\(\)', r'return result'])
        self.out['accumulate_all'] = True

    def translate_all(self):
        self.tr_kinds()
        self.tr_select()
        self.tr_views()
        self.tr_keyword()
        self.tr_analysis_groups()
        self.tr_source_groups()
        return self.out


def emit(tr):
    o = tr.out
    bl = lambda v: 'true' if v else 'false'
    ag = {'ivp': 'AgIvp', 'time': 'AgTime'}
    sel = o['select']
    lines = ['(* GENERATED from lcapy/superposition.py + lcapy/netlist.py (sha256 %s) by tools/tr_superpos.py. Do not edit. *)' % tr.sha,
             'Require Import LT.FieldSec LT.SuperposModel.',
             '',
             '(* Superposition.kinds(transform=True): group of the decomposed keys that are renamed *)',
             'Definition gen_group_x : group := %s.' % o['kinds']['x'],
             'Definition gen_group_s : group := %s.' % o['kinds']['s'],
             '(* Superposition.select: view returned for a kind keyword *)',
             'Definition gen_view (k : selkey) : view :=',
             '  match k with SkSuper => %s | SkTime => %s | SkIvp => %s | SkLaplace => %s | SkNoise => %s | SkTransient => %s end.' % (
                 sel['super'], sel['time'], sel['ivp'], sel['laplace'], sel['noise'], sel['transient']),
             '(* Superposition.transient: the decomposition entry and the stored entry it adds *)',
             'Definition gen_transient_dec_key : key := %s.' % {'x': 'KyX', 's': 'KyS', 't': 'KyT', 'dc': 'KyDC'}.get(o['transient'][0], 'KyDC'),
             'Definition gen_transient_stored_key : key := %s.' % {'x': 'KyX', 's': 'KyS', 't': 'KyT', 'dc': 'KyDC'}.get(o['transient'][1], 'KyDC'),
             '(* Netlist._analysis_groups *)',
             'Definition gen_ivp_key : agroup := %s.' % ag[o['agroups']['ivp'][0]],
             'Definition gen_ivp_keeps_noise : bool := %s.' % ('true' if o['agroups']['ivp'][1] == 'keep' else 'false'),
             'Definition gen_time_key : agroup := %s.' % ag[o['agroups']['time'][0]],
             'Definition gen_time_keeps_noise : bool := %s.' % ('true' if o['agroups']['time'][1] == 'keep' else 'false'),
             'Definition gen_agroup_of (m : amode) (g : group) : option agroup :=',
             '  match m, g with',
             '  | AIvp, GN i => if gen_ivp_keeps_noise then Some (AgKind (GN i)) else None',
             '  | AIvp, _ => Some gen_ivp_key',
             '  | ATime, GN i => if gen_time_keeps_noise then Some (AgKind (GN i)) else None',
             '  | ATime, _ => Some gen_time_key',
             '  | AGeneral, g => Some (AgKind g)',
             '  end.',
             '(* keys of the analysis groups (= of the sub-netlists of Netlist._subcircuits_make) from the keys of independent_source_groups(True) *)',
             'Definition gen_is_noise_group (g : group) : bool := match g with GN _ => true | _ => false end.',
             'Definition gen_akeys (m : amode) (ks : list group) : list agroup :=',
             '  match m with',
             '  | AIvp => gen_ivp_key :: (if gen_ivp_keeps_noise then List.map AgKind (List.filter gen_is_noise_group ks) else nil)',
             '  | ATime => gen_time_key :: (if gen_time_keeps_noise then List.map AgKind (List.filter gen_is_noise_group ks) else nil)',
             '  | AGeneral => List.map AgKind ks',
             '  end.',
             '(* NetlistMixin.independent_source_groups / V._select, I._select: the Superposition the kinds / the selected value',
             '   of a source are taken from (true = Voc, false = Isc), as a function of is_voltage_source *)',
             'Definition gen_isg_attr (is_voltage_source : bool) : bool := if is_voltage_source then %s else %s.' % (bl(o['isg_attr'][True]), bl(o['isg_attr'][False])),
             'Definition gen_sel_attr (is_voltage_source : bool) : bool := if is_voltage_source then %s else %s.' % (bl(o['sel_attr'][True]), bl(o['sel_attr'][False])),
             'Definition gen_isg_transform : bool := %s.' % bl(o['isg_transform']),
             '(* Netlist._subcircuits_make: sub[kind] = SubNetlist(cct, kind) for every key of the analysis groups *)',
             'Definition gen_sub_per_group_key : bool := %s.' % bl(o['sub_per_key']),
             'Definition gen_sub_whole_circuit : bool := %s.' % bl(o['sub_whole']),
             '(* SubNetlist.__new__ / Netlist.select: every component goes through _select(kind) *)',
             'Definition gen_select_every_cpt : bool := %s.' % bl(o['select_every_cpt']),
             '(* Netlist.get_I / _get_Vd: result.add over every sub-netlist *)',
             'Definition gen_accumulate_all_subs : bool := %s.' % bl(o['accumulate_all']),
             '']
    return '\n'.join(lines)


if __name__ == '__main__':
    import sys
    t = SuperposTranslator(sys.argv[1] + '/lcapy/superposition.py', sys.argv[1] + '/lcapy/netlist.py')
    t.translate_all()
    print(emit(t))
