"""Runs the REAL lcapy netlist analysis (from /repo) and dumps, for every
sub-netlist (analysis kind) of a circuit, everything the Coq MNA model needs,
as exact rationals evaluated at a rational point (s -> s0, symbols -> values).

case: {"netlist": [lines], "s0": "p/q", "subs": {"sym": "p/q"}, "convention": "passive"|"hybrid"|None,
       "methods": ["DM","LU",...], "kinds": optional list of kinds to dump}
result: {"kinds": {kind: {...}}} or {"error": "..."}.
Values of the ac kinds (sn.kind is the angular frequency, not a string) are
Gaussian rationals, reported as "p/q|r/s" (real|imaginary part); values that
are neither (noise, irrational phases) are null and skipped by the caller.
"""
import sys, json, warnings
warnings.filterwarnings('ignore')
import sympy as sp
from lcapy import Circuit, state
from lcapy.matrix import matrix_solve
from lcapy.sym import ssym, eps as EPS


def rat(x, point):
    """exact rational value of a sympy/lcapy expression at the point, else None"""
    try:
        x = sp.sympify(getattr(x, 'sympy', x))
    except Exception:
        return None
    try:
        if x.has(EPS):
            x = sp.limit(x, EPS, 0)
        sub = {}
        for sy in x.free_symbols:
            if sy.name in point:
                sub[sy] = point[sy.name]
        x = x.subs(sub)
        if x.is_number and not x.is_Rational:
            g = gauss(x)
            if g is not None:
                return g
            x = sp.nsimplify(x)
        if not x.is_number:
            x = sp.cancel(sp.together(x))
        if x.is_Rational:
            return '%d/%d' % (x.p, x.q)
        x = sp.simplify(x)
        if x.is_Rational:
            return '%d/%d' % (x.p, x.q)
        return gauss(x)
    except Exception:
        return None
    return None


def gauss(x):
    """'p/q|r/s' for a Gaussian rational, else None"""
    if not x.is_number:
        return None
    re_, im_ = sp.expand(x, complex=True).as_real_imag()
    if not re_.is_Rational:
        re_ = sp.simplify(re_)
    if not im_.is_Rational:
        im_ = sp.simplify(im_)
    if re_.is_Rational and im_.is_Rational:
        if im_ == 0:
            return '%d/%d' % (re_.p, re_.q)
        return '%d/%d|%d/%d' % (re_.p, re_.q, im_.p, im_.q)
    return None


def rat_eps(x, point):
    """value keeping eps symbolic -> (value at eps->0 is taken by caller);
    for matrix entries we substitute eps by the rational given in point['eps']"""
    try:
        x = sp.sympify(getattr(x, 'sympy', x))
        sub = {}
        for sy in x.free_symbols:
            if sy == EPS:
                sub[sy] = point['__eps__']
            elif sy.name in point:
                sub[sy] = point[sy.name]
        x = sp.cancel(sp.together(x.subs(sub)))
        if x.is_Rational:
            return '%d/%d' % (x.p, x.q)
        return gauss(x)
    except Exception:
        return None
    return None


PARAM_ATTRS = [('pY', lambda e: e.Y.sympy), ('pZ', lambda e: e.Z.sympy), ('pIsc', lambda e: e.Isc.sympy),
               ('pVoc', lambda e: e.Voc.sympy),
               ('pAlpha', lambda e: e.cpt.alpha.sympy),
               ('pA11', lambda e: e.cpt.A11.sympy), ('pA12', lambda e: e.cpt.A12.sympy),
               ('pA21', lambda e: e.cpt.A21.sympy), ('pA22', lambda e: e.cpt.A22.sympy),
               ('pY11', lambda e: e.cpt.Y11.sympy), ('pY12', lambda e: e.cpt.Y12.sympy),
               ('pY21', lambda e: e.cpt.Y21.sympy), ('pY22', lambda e: e.cpt.Y22.sympy),
               ('V0', lambda e: e.V0.sympy)]
TP_SRC = ('V1a', 'I1a', 'V2b', 'I2b', 'I1g', 'V2g', 'V1h', 'I2h', 'I1y', 'I2y', 'V1z', 'V2z')


TP_SRC_BY_CLASS = {}


def dump_sub(sn, point, methods, want_solution=True):
    from lcapy.cexpr import ConstantDomainExpression
    mna = sn.mna
    out = {'kind': str(sn.kind), 'ac': not isinstance(sn.kind, str), 'noise': isinstance(sn.kind, str) and sn.kind[0] == 'n' and sn.kind[1:].isdigit(), 'node_list': list(sn.node_list), 'solver_method': str(sn.solver_method),
           'node_index': {str(n): int(mna._node_index(n)) for n in sn.nodes},
           'unknown_branch_currents': list(mna.unknown_branch_currents),
           'extra_branch_currents': list(mna.extra_branch_currents)}
    elts = []
    for elt in sn.elements.values():
        if elt.nosim:
            continue
        d = {'name': elt.name, 'cls': type(elt).__name__, 'type': elt.type,
             'mro': [k.__name__ for k in type(elt).__mro__ if k.__module__.endswith('mnacpts')],
             'nodes': [str(n) for n in elt.node_names],
             'nidx': [int(i) for i in mna._cpt_node_indexes(elt)],
             'nargs': len(elt.args), 'ignore': bool(elt.ignore),
             'need_branch_current': bool(elt.need_branch_current),
             'need_extra_branch_current': bool(elt.need_extra_branch_current),
             'is_current_controlled': bool(elt.is_current_controlled),
             'is_source': bool(elt.is_source), 'eqn': bool(getattr(elt, 'equipotential_nodes', ()))}
        try:
            d['has_ic'] = bool(elt.cpt.has_ic)
        except Exception:
            d['has_ic'] = False
        if elt.is_current_controlled or type(elt).__name__ in ('F', 'H', 'CCCS', 'CCVS'):
            cn = elt.args[0]
            d['ctrl'] = cn
            if cn in sn.elements:
                ce = sn.elements[cn]
                d['ctrl_is_vsrc'] = bool(ce.is_voltage_source)
                d['cidx'] = [int(mna._node_index(n)) for n in ce.node_names[0:2]]
        if elt.type == 'K':
            d['L1'], d['L2'] = elt.Lname1, elt.Lname2
        params = {}
        for nm, f in PARAM_ATTRS:
            try:
                params[nm] = rat(f(elt), point)
            except Exception:
                pass
        for k in (0, 1):
            if len(elt.args) > k:
                try:
                    params['pArg%d' % k] = rat(ConstantDomainExpression(elt.args[k]).sympy, point)
                except Exception:
                    pass
        src = False
        # only the attributes that the component's own _stamp chain tests
        # (list extracted from the source by tools/tr_stamps.py)
        attrs = []
        for k in type(elt).__mro__:
            attrs += TP_SRC_BY_CLASS.get(k.__name__, [])
        for a in attrs:
            try:
                if getattr(elt.cpt, a) != 0:
                    src = True
            except Exception:
                pass
        d['tp_has_src'] = src
        if elt.type == 'K':
            # textbook mutual impedance (NOT read from the stamp): M = K sqrt(L1 L2)
            try:
                ZL1 = sn.elements[elt.Lname1].Z.sympy
                ZL2 = sn.elements[elt.Lname2].Z.sympy
                kk = elt.cpt.K.sympy
                zm = sp.sqrt(sp.simplify(ZL1 * ZL2))
                zm = kk * zm
                params['pZM0'] = params['pZM1'] = rat(sp.sqrt(sp.cancel(ZL1 * ZL2 / ssym**2)) * ssym * kk, point) \
                    if str(sn.kind) in ('s', 'ivp', 'laplace', 'transient') else rat(zm, point)
                # textbook mutual inductance and the initial currents as the netlist gives them
                L1v = sp.cancel(ZL1 / ssym) if str(sn.kind) in ('s', 'ivp', 'laplace', 'transient') else None
                L2v = sp.cancel(ZL2 / ssym) if L1v is not None else None
                if L1v is not None:
                    params['pZM2'] = rat(kk * sp.sqrt(L1v * L2v), point)
                for pn, ln in (('pI01', elt.Lname1), ('pI02', elt.Lname2)):
                    a = sn.elements[ln].args
                    params[pn] = rat(ConstantDomainExpression(a[1]).sympy, point) if len(a) > 1 and a[1] is not None else '0/1'
            except Exception:
                pass
        d['params'] = params
        elts.append(d)
    out['elements'] = elts
    A, Z = mna._A, mna._Z
    out['A'] = [[rat_eps(A[i, j], point) for j in range(A.shape[1])] for i in range(A.shape[0])]
    out['Z'] = [rat_eps(Z[i], point) for i in range(Z.shape[0])]
    out['has_eps'] = bool(A.has(EPS))
    if want_solution:
        sols = {}
        for m in ([out['solver_method']] + [m_ for m_ in methods if m_ != out['solver_method']]):
            try:
                x = matrix_solve(A, Z, method=m)
                x = x.subs(sn.context.symbols)
                if x.has(EPS):
                    x = x.limit(EPS, 0)
                sols[m] = [rat(x[i], point) for i in range(x.shape[0])]
            except Exception as e:
                sols[m] = {'error': type(e).__name__ + ': ' + str(e)[:120]}
        out['solutions'] = sols
        try:
            mna._solve()
            out['Vdict'] = {str(k): rat(v, point) for k, v in mna._Vdict.items()}
            out['Idict'] = {str(k): rat(v, point) for k, v in mna._Idict.items()}
        except Exception as e:
            out['solve_error'] = type(e).__name__ + ': ' + str(e)[:200]
    return out


def run(case):
    TP_SRC_BY_CLASS.clear()
    TP_SRC_BY_CLASS.update(case.get('tp_src', {}))
    state.current_sign_convention = case.get('convention', 'passive')
    c = Circuit()
    for line in case['netlist']:
        c.add(line)
    point = {'s': sp.Rational(case.get('s0', '2'))}
    for k, v in case.get('subs', {}).items():
        point[k] = sp.Rational(v)
    point['__eps__'] = sp.Rational(case.get('eps', '1/7'))
    # resistive circuits are analysed in the time domain: evaluate at an instant t0 > 0 (u(t0) = 1)
    point['t'] = sp.Rational(case.get('t0', '3/2'))
    # noise analyses are functions of the angular frequency: evaluate at omega = w0 (Gaussian rationals)
    point['omega'] = sp.Rational(case.get('w0', '2'))
    if case.get('solver'):
        c.solver_method = case['solver']
    res = {'kinds': {}}
    subs = c.sub
    for kind in list(subs.keys()):
        if case.get('kinds') and str(kind) not in case['kinds']:
            continue
        sn = subs[kind]
        res['kinds'][str(kind)] = dump_sub(sn, point, case.get('methods', ['DM']))
    # independent sources as the ORIGINAL netlist defines them: class of the one-port, arguments as given
    # (phase of ac sources in units of pi), for the source-value model (coq/theory/Sources.v)
    srcs = []
    from lcapy import expr as _expr
    for name, e in c.elements.items():
        try:
            if e.type not in ('V', 'I') or not e.is_independent_source:
                continue
            cl = type(e.cpt).__name__
            vals = []
            for k, a in enumerate(list(e.args)[:3]):
                if a is None:
                    vals.append(None)
                    continue
                x = _expr(a).sympy
                if cl in ('Vac', 'Iac') and k == 1:
                    x = x / sp.pi
                vals.append(rat(x, point))
            srcs.append({'name': name, 'cls': cl, 'type': e.type, 'args': vals, 'given': [a is not None for a in list(e.args)[:3]]})
        except Exception as ex:
            srcs.append({'name': name, 'error': type(ex).__name__})
    res['sources'] = srcs
    # public API results (what a user sees)
    api = {}
    if case.get('api', True):
        for name in c.elements:
            e = c.elements[name]
            if e.nosim or e.ignore:
                continue
            try:
                api[name] = {'V': rat(c[name].V(ssym) if hasattr(c[name].V, '__call__') else c[name].V, point)}
            except Exception as ex:
                api[name] = {'V_error': type(ex).__name__}
            try:
                api[name]['I'] = rat(c[name].I(ssym), point)
            except Exception as ex:
                api[name]['I_error'] = type(ex).__name__
    res['api'] = api
    return res


class CaseTimeout(Exception):
    pass


TIMED_OUT = [False]


def _alarm(signum, frame):
    # lcapy's bare `except:` clauses can swallow this exception and carry on with a fall-back value:
    # remember that the budget was exceeded so that the whole case is discarded even if it "completes"
    TIMED_OUT[0] = True
    raise CaseTimeout()


def main():
    import signal
    signal.signal(signal.SIGALRM, _alarm)
    cases = json.load(sys.stdin)
    out = []
    for c in cases:
        try:
            # repeating timer: lcapy's bare `except:` clauses can swallow a single alarm
            signal.setitimer(signal.ITIMER_REAL, float(c.get('timeout', 45)), 3.0)
            TIMED_OUT[0] = False
            try:
                r = run(c)
            finally:
                signal.setitimer(signal.ITIMER_REAL, 0)
            if TIMED_OUT[0]:
                raise CaseTimeout()
            out.append(r)
        except CaseTimeout:
            out.append({'error': 'timeout: case exceeded its time budget'})
        except Exception as e:
            import traceback
            out.append({'error': type(e).__name__ + ': ' + str(e)[:300], 'tb': traceback.format_exc()[-600:]})
    json.dump(out, sys.stdout)


if __name__ == "__main__":
    main()
