"""Runs ONE session (= the whole history of one interpreter) against the real
lcapy from /repo: stdin = JSON session, stdout = JSON list with one record per
step.  After every step the netlist text of every live object and the set of
memoised attributes present in its instance dictionary are recorded."""
import sys, json, os, warnings, gc
warnings.filterwarnings('ignore')
sys.path.insert(0, os.path.dirname(os.path.abspath(__file__)))
import c16_ops as O
O.limit_memory(3)


def main():
    sess = json.load(sys.stdin)
    limit = int(sess.get('step_seconds', 25))
    objs = {}
    memo_attrs = sess.get('memo_attrs', [])
    out = []
    for st in sess['steps']:
        rec = {}
        try:
            op = st['op']
            if op == 'new':
                objs[st['obj']] = O.with_alarm(limit, O.build, st['text'])
                rec['r'] = 'ok'
            elif op == 'mut':
                O.with_alarm(limit, O.mutate, objs[st['obj']], st['m'])
                rec['r'] = 'ok'
            elif op == 'derive':
                objs[st['as']] = O.with_alarm(limit, O.derive, objs[st['obj']], st['d'])
                rec['r'] = 'ok'
            elif op == 'query':
                rec['r'] = O.with_alarm(limit, O.query, objs[st['obj']], st['q'])
            elif op == 'xform':
                rec['r'] = O.with_alarm(limit, O.transform, st['t'])
            elif op == 'env':
                O.set_env(st['e'])
                rec['r'] = 'ok'
            elif op == 'del':
                objs.pop(st['obj'], None)
                gc.collect()
                rec['r'] = 'ok'
            elif op == 'clear':
                # diagnostic only (attribution of a stale answer): drop one memoised attribute
                c = objs[st['obj']]
                a = st['attr']
                if a in c.__dict__:
                    del c.__dict__[a]
                elif hasattr(type(c), a) and hasattr(getattr(type(c), a), 'cache_clear'):
                    getattr(type(c), a).cache_clear()
                rec['r'] = 'ok'
            else:
                rec['r'] = 'ERR:badop'
        except (MemoryError, O.StepTimeout, RecursionError) as e:
            rec['r'] = O.err(e)
            gc.collect()
        except Exception as e:
            rec['r'] = O.err(e)
            rec['msg'] = str(e)[:160]
        texts, filled = {}, {}
        for name, c in objs.items():
            try:
                texts[name] = O.dump(c)
            except Exception as e:
                texts[name] = O.err(e)
            filled[name] = sorted(a for a in memo_attrs if a in c.__dict__)
        rec['texts'] = texts
        rec['filled'] = filled
        out.append(rec)
    json.dump(out, sys.stdout)


main()
