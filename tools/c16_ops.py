"""Shared by tools/impl_history.py (runs a whole session = one process history)
and tools/impl_fresh.py (evaluates one query on a freshly built circuit in a
fresh interpreter).  Every observable is canonicalised to a string that is
compared for equality; symbolic results are rational functions in s and the
component symbols and are brought to an exact normal form (cancel -> monic
denominator -> sorted term lists), never simplified heuristically, never
evaluated in floating point."""
import re
import warnings
warnings.filterwarnings('ignore')
import sympy as sp


def _names(text):
    """canonical renaming of generated names (anonymous nodes/components): the n-th distinct
    generated name in order of appearance becomes #n.  ComponentNamer may pick any unused
    name, which one it picks is allowed to depend on history."""
    seen = {}

    def rn(m):
        k = m.group(0)
        if k not in seen:
            seen[k] = '%s#%d' % (m.group(1), len(seen) + 1)
        return seen[k]
    return re.sub(r'(_?nodeanon|[A-Za-z]+anon)(\d+)', rn, text)


def canon_expr(e):
    """exact normal form of a rational function (string); falls back to srepr"""
    try:
        e = e.sympy
    except AttributeError:
        pass
    e = sp.sympify(e)
    try:
        e2 = sp.cancel(sp.together(e))
        num, den = sp.fraction(e2)
        syms = sorted(e2.free_symbols, key=lambda x: x.name)
        if not syms:
            return 'C:' + sp.srepr(sp.nsimplify(e2) if e2.is_Rational else e2)
        pn, pd = sp.Poly(num, *syms), sp.Poly(den, *syms)
        lc = pd.LC()
        if lc == 0:
            return 'SR:' + sp.srepr(e)
        tn = sorted((m, sp.nsimplify(c / lc) if (c / lc).is_Rational else sp.cancel(c / lc)) for m, c in pn.terms())
        td = sorted((m, sp.nsimplify(c / lc) if (c / lc).is_Rational else sp.cancel(c / lc)) for m, c in pd.terms())
        return 'RF:%s:%s/%s' % ([s.name for s in syms], [(m, str(c)) for m, c in tn if c != 0], [(m, str(c)) for m, c in td if c != 0])
    except (sp.PolynomialError, sp.GeneratorsNeeded, ZeroDivisionError, TypeError, ValueError, AttributeError, NotImplementedError):
        return 'SR:' + sp.srepr(e)


def lap(x):
    """Laplace-domain form of a voltage/current/transfer result"""
    from lcapy import s
    try:
        return canon_expr(x(s))
    except Exception:
        return canon_expr(x.laplace())


ENV_DEFAULTS = {'current_sign_convention': 'passive'}       # process-wide switches that are part of what answers depend on


def env_lines():
    from lcapy import state
    return ['#env %s=%s' % (k, getattr(state, k)) for k, v in sorted(ENV_DEFAULTS.items()) if getattr(state, k) != v]


def build(text):
    """circuit from dump(): netlist text preceded by the process-wide switches that differ from their
    defaults (only fresh, one-shot interpreters are given such lines) and the constructor argument `kind`"""
    from lcapy import Circuit, state
    lines = text.split('\n')
    while lines and lines[0].startswith('#env '):
        k, v = lines[0][5:].split('=', 1)
        setattr(state, k, v)
        lines = lines[1:]
    kind = 'super'
    if lines and lines[0].startswith('#kind '):
        kind = lines[0][6:]
        lines = lines[1:]
    c = Circuit(kind=kind)
    for line in lines:
        if line.strip():
            c.add(line)
    return c


def dump(c):
    """the data of a circuit: the constructor argument `kind` (set by select()/laplace()/dc()...,
    not part of the netlist text) and the netlist text"""
    k = c.kind
    env = ''.join(l + '\n' for l in env_lines())
    if k == 'super':
        return env + str(c)
    if not isinstance(k, str):
        k = '?' + str(k)
    return env + '#kind %s\n%s' % (k, str(c))


FLAGS = ['is_dc', 'is_ac', 'has_dc', 'has_ac', 'is_IVP', 'is_causal', 'is_time_domain', 'has_transient',
         'has_s_transient', 'reactances', 'independent_sources', 'ics', 'control_sources', 'dependent_sources',
         'mutual_couplings', 'zeroic', 'is_superposition', 'is_passive', 'has_independent_source', 'sources']
COMPCATS = ['capacitors', 'current_sources', 'inductors', 'resistors', 'switches', 'open_circuits', 'ports',
            'transformers', 'twoports', 'voltage_sources', 'wires']

# query kind -> attributes of Circuit that the query enters through (used by the model)
ENTRY = {
    'text': ['netlist'], 'cpts': ['cpts'], 'complist': ['components'], 'flags': ['analysis'], 'switching': ['is_switching'],
    'node_list': ['node_list'], 'node_map': ['node_map'], 'branch_list': ['branch_list'], 'enodes': ['equipotential_nodes'],
    'kinds': ['kinds'], 'sim': ['sim'], 'V': ['cb:V'], 'I': ['cb:I'], 'Vc': ['cb:V'],
    'cg': ['cg', 'is_connected', 'in_parallel', 'in_series'], 'nodes': ['nodes'], 'transfer': ['transfer'], 'impedance': ['impedance'],
    'ss': ['state_space'], 'nodal': ['nodal_analysis'], 'mesh': ['mesh_analysis'], 'params': ['params', 'undefined_symbols'],
    'symbols': ['symbols'], 'lists': ['capacitors', 'inductors', 'voltage_sources', 'current_sources', 'transformers', 'twoports'],
    'thevenin': ['thevenin'],
    'wired_to': ['cb:wired_to'], 'is_wired_to': ['cb:is_wired_to'], 'across': ['across_nodes'], 'in_series': ['in_series'],
    'in_parallel': ['in_parallel'], 'loops': ['cg'], 'nodeinfo': ['nodes'], 'unconnected': ['unconnected_nodes'],
}
DERIVE_ENTRY = {
    'copy': ['copy'], 'subs': ['subs'], 'kill': ['kill'], 'kill_except': ['kill_except'], 'simplify': ['simplify'], 'select': ['select'],
    'replace': ['replace'], 'laplace': ['laplace'], 'r_model': ['r_model'], 'prune': ['prune'], 'dc': ['dc'], 'transient': ['transient'],
    'remove_dangling': ['remove_dangling'], 'remove_disconnected': ['remove_disconnected'],
    'ac': ['ac'], 'noise_model': ['noise_model'], 'expand': ['expand'], 'time': ['time'], 'renumber': ['renumber'],
}
MUT_ENTRY = {
    'add': ['add'], 'remove': ['remove'], 'open_circuit': ['open_circuit'], 'short_circuit': ['short_circuit'],
    'netfile_add': ['netfile_add'], 'rename_node': ['cb:rename'],
}


def query(c, q):
    """run one query on circuit c; returns a canonical string"""
    k = q['k']
    if k == 'text':
        return str(c)
    if k == 'cpts':
        return repr(list(c.cpts))
    if k == 'complist':
        comps = c.components
        return repr({cat: list(getattr(comps, cat)) for cat in COMPCATS})
    if k == 'lists':
        return repr([list(c.capacitors), list(c.inductors), list(c.voltage_sources), list(c.current_sources), list(c.transformers), list(c.twoports)])
    if k == 'flags':
        out = {}
        for f in FLAGS:
            v = getattr(c, f)
            out[f] = sorted(v) if isinstance(v, dict) else (list(v) if isinstance(v, (list, tuple)) else v)
        return repr(out)
    if k == 'switching':
        return repr(c.is_switching)
    if k == 'node_list':
        return repr(list(c.node_list))
    if k == 'node_map':
        return repr(sorted(c.node_map.items()))
    if k == 'branch_list':
        return repr(list(c.branch_list))
    if k == 'enodes':
        return repr(sorted((a, list(b)) for a, b in c.equipotential_nodes.items()))
    if k == 'kinds':
        return repr([str(x) for x in c.kinds])
    if k == 'sim':
        return _names(str(c.sim.r_model))
    if k == 'V':
        return lap(c[q['a']].V)
    if k == 'I':
        return lap(c[q['a']].I)
    if k == 'Vc':
        return lap(c[q['a']].V)
    if k == 'Vdict':
        d = c.Vdict
        return repr(sorted((str(n), lap(v)) for n, v in d.items()))
    if k == 'Idict':
        d = c.Idict
        return repr(sorted((str(n), lap(v)) for n, v in d.items()))
    if k == 'cg':
        out = [c.is_connected]
        for name in c.cpts:
            try:
                out.append((name, sorted(c.in_parallel(name)), sorted(c.in_series(name))))
            except Exception as e:
                out.append((name, 'ERR ' + type(e).__name__))
        return repr(out)
    if k == 'nodes':
        return repr(sorted((n, nd.count, sorted(x.name for x in nd.connected)) for n, nd in c.nodes.items()))
    if k == 'wired_to':
        return repr(sorted(c[q['a']].wired_to()))
    if k == 'is_wired_to':
        return repr(c[q['a']].is_wired_to(q['b']))
    if k == 'across':
        return repr(sorted(c.across_nodes(q['a'], q['b'])))
    if k == 'in_series':
        return repr(sorted(c.in_series(q['a'])))
    if k == 'in_parallel':
        return repr(sorted(c.in_parallel(q['a'])))
    if k == 'loops':
        # facts of the circuit graph that do not depend on WHICH cycle basis is returned
        g = c.cg
        loops = g.loops()
        return repr((len(loops), sorted({str(n) for l in loops for n in l}), sorted(str(n) for n in g.nodes), g.is_connected))
    if k == 'unconnected':
        return repr(sorted(c.unconnected_nodes()))
    if k == 'nodeinfo':
        nd = c[q['a']]
        return repr((nd.count, sorted(x.name for x in nd.connected), nd.is_dangling if hasattr(type(nd), 'is_dangling') else None))
    if k == 'transfer':
        return lap(c.transfer(q['a'], 0, q['b'], 0))
    if k == 'impedance':
        return lap(c.impedance(q['a'], q['b']))
    if k == 'thevenin':
        th = c.thevenin(q['a'], q['b'])
        return repr((lap(th.Voc), lap(th.Z)))
    if k == 'ss':
        ss = c.ss
        return repr([[canon_expr(x) for x in M.sympy] if M.sympy.shape[0] * M.sympy.shape[1] else [] for M in (ss.A, ss.B, ss.C, ss.D)] + [str(ss.x)])
    if k == 'nodal':
        na = c.nodal_analysis()
        return repr(sorted((str(a), sp.srepr(b.lhs.sympy), sp.srepr(b.rhs.sympy)) for a, b in na.nodal_equations().items()))
    if k == 'mesh':
        ma = c.mesh_analysis()
        return repr(sorted((str(a), sp.srepr(b.lhs.sympy), sp.srepr(b.rhs.sympy)) for a, b in ma.mesh_equations().items()))
    if k == 'params':
        return repr((list(c.params), [str(x) for x in c.undefined_symbols]))
    if k == 'symbols':
        return repr(sorted(c.symbols))
    raise ValueError('unknown query ' + k)


def derive(c, d):
    """apply a non-mutating rewrite; returns the new circuit"""
    h = d['how']
    if h == 'copy':
        return c.copy()
    if h == 'subs':
        return c.subs(d['map'])
    if h == 'kill':
        return c.kill(*d.get('args', []))
    if h == 'kill_except':
        return c.kill_except(*d.get('args', []))
    if h == 'simplify':
        return c.simplify()
    if h == 'select':
        return c.select(d['kind'])
    if h == 'replace':
        return c.replace(d['old'], d['new'])
    if h == 'prune':
        return c.prune(d['name'])
    if h in ('remove_dangling', 'remove_disconnected', 'laplace', 'r_model', 'dc', 'transient', 'ac', 'noise_model', 'expand', 'time', 'renumber'):
        return getattr(c, h)()
    raise ValueError('unknown rewrite ' + h)


def mutate(c, m):
    h = m['how']
    if h == 'add':
        c.add(m['line'])
    elif h == 'remove':
        c.remove(m['name'])
    elif h == 'open_circuit':
        c[m['name']].open_circuit()
    elif h == 'short_circuit':
        c[m['name']].short_circuit()
    elif h == 'rename_node':
        c[m['name']].rename(m['new'])
    elif h == 'netfile_add':
        if 'file_text' in m:
            import os
            os.makedirs(os.path.dirname(m['file']), exist_ok=True)
            with open(m['file'], 'w') as f:
                f.write(m['file_text'])
        c.netfile_add(m['file'])
    else:
        raise ValueError('unknown mutator ' + h)


def set_env(e):
    from lcapy import state
    if e['name'] not in ENV_DEFAULTS:
        raise ValueError('unknown switch ' + e['name'])
    setattr(state, e['name'], e['val'])


def transform(t):
    """unrelated expression work: returns canonical string of the result"""
    import lcapy
    from lcapy import expr, s, t as tt, f, symbol
    what = t['what']
    e = expr(t['e'])
    if what == 'laplace':
        return sp.srepr(e(s, **t.get('kw', {})).sympy)
    if what in ('zt', 'izt', 'dft', 'idft', 'dtft'):
        # discrete-time transformers through the public call interface, options passed through
        from lcapy import n, k, z
        from lcapy.sym import fsym
        kw = dict(t.get('kw', {}))
        if what == 'zt':
            return sp.srepr(e.ZT(**kw).sympy)
        if what == 'izt':
            return sp.srepr(e.IZT(**kw).sympy)
        if what == 'dft':
            return sp.srepr(e.DFT(**kw).sympy)
        if what == 'idft':
            return sp.srepr(e.IDFT(**kw).sympy)
        return sp.srepr(e.DTFT(**kw).sympy)
    if what == 'ilt':
        return sp.srepr(e(tt, **t.get('kw', {})).sympy)
    if what == 'fourier':
        return sp.srepr(e(f).sympy)
    if what == 'ift':
        return sp.srepr(e(tt).sympy)
    if what == 'symbol':
        x = symbol(t['name'], **t.get('kw', {}))
        return sp.srepr(x.sympy) + repr(sorted(x.sympy.assumptions0.items()))
    if what == 'simplify':
        return sp.srepr(e.simplify().sympy)
    raise ValueError(what)


def err(e):
    return 'ERR:%s' % type(e).__name__


# ---- resource guards (the machine is shared) ---------------------------------------------------
SKIP_MARKS = ('ERR:MemoryError', 'ERR:StepTimeout', 'ERR:RecursionError')


class StepTimeout(Exception):
    pass


def limit_memory(gib=3):
    import resource
    try:
        resource.setrlimit(resource.RLIMIT_AS, (gib << 30, gib << 30))
    except (ValueError, OSError):
        pass


def with_alarm(seconds, fn, *args):
    """run fn(*args) but give up after `seconds` of wall time (StepTimeout)"""
    import signal

    def handler(signum, frame):
        raise StepTimeout()
    old = signal.signal(signal.SIGALRM, handler)
    signal.alarm(int(seconds))
    try:
        return fn(*args)
    finally:
        signal.alarm(0)
        signal.signal(signal.SIGALRM, old)
