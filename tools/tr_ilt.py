"""Fail-closed translator (T) for property C10:
   lcapy/inverse_laplace.py, lcapy/transformer.py, lcapy/ratfun.py  ->  Coq.

Reads the *source text* with `ast` (never imports or runs Lcapy) and extracts

  InverseLaplaceTransformer.ratfun
    poly_term    the Dirac term of the polynomial part
                   cresult += c * sym.diff(sym.DiracDelta(t), t, len(C) - n - 1)
    guard        the acceptance test of the partner search inside `if o == 1:`
                   (conjunction of the negated `if <cond>: continue` tests over the atoms
                    qp.is_conjugate_pair(qp2), O[n], o, integer literals)
    conj         q, alpha, omega, b = Poly(q, s).all_coeffs(), the `len(b) == 1` split,
                   Ac, As and the closed form  (Ac cos wt + As sin wt) exp(-alpha t)
    simple/repeated   result = r * sym.exp(p * t);  if o > 1: result *= t**(o-1)/factorial(o-1)
  InverseLaplaceTransformer.do_damped_sin   (three numerator lengths; sym.sqrt(X) becomes a
                   witness w with the hypothesis w*w = X; .simplify() is erased)
  InverseLaplaceTransformer.key             the tuple of cache-key fields with defaults
  Ratfun._find_residues_sub                 the selection test of the cover-up denominator and
                   the literal residue expressions (shape check + extraction)
  plus a statement-level skeleton check of ratfun / term / make / doit / as_QRPO against the
  shapes the hand model coq/theory/ILT.v was written for.

Anything outside the recognised subset raises Untranslatable with file:line; the
check treats that as a broken obligation.  Skeleton statements are compared by the
ast.dump of their parse (layout and redundant parentheses are ignored, the grouping
of operators is not).

Value kinds of the little symbolic evaluator:
  ('K', coq)   scalar (free of t)        ('N', coq)  natural number
  ('T', coq)   closed form in t (ILT.texp)   ('Lt', coq)  coq * t
  ('int', n)   Python integer literal    ('tvar',) ('svar',)
  ('P', {deg: coq})  polynomial in s     ('CL', P)   Poly(..).all_coeffs()
  ('L', [..])  static Python list        ('tpow', n) t**n   ('fact', n) factorial(n)
"""
import ast
import hashlib
import os


class Untranslatable(Exception):
    pass


def fail(node, why, fname='lcapy/inverse_laplace.py'):
    raise Untranslatable('%s:%s: %s: %s' % (fname, getattr(node, 'lineno', '?'), why,
                                            (ast.unparse(node) if isinstance(node, ast.AST) else str(node))[:160]))


def kint(n):
    if n < 0:
        return '(fopp %s)' % kint(-n)
    if n == 0:
        return '0'
    if n == 1:
        return '1'
    if n == 2:
        return '2'
    return '(' + ' + '.join(['1'] * n) + ')'


def un(node):
    return ast.unparse(node)


def nz(text):
    """canonical form of a statement/expression text: the dump of its AST (so that only
    layout and redundant parentheses are ignored, never the grouping of operators)"""
    import textwrap
    try:
        tree = ast.parse(textwrap.dedent(text))
    except SyntaxError:
        # fragments such as `break`, `continue`, `return x` or an `if ...:` header
        try:
            tree = ast.parse('def _f():\n    for _i in _x:\n' + textwrap.indent(textwrap.dedent(text), '        '))
        except SyntaxError:
            try:
                tree = ast.parse('def _f():\n    for _i in _x:\n' + textwrap.indent(textwrap.dedent(text), '        ') + '\n            pass')
            except SyntaxError:
                return 'TEXT:' + ' '.join(text.split())
    return ast.dump(tree)


def all_stmts(fn):
    """canonical forms of every statement nested in fn, plus the headers of its if-statements"""
    out = set()
    for n in ast.walk(fn):
        if isinstance(n, ast.stmt):
            out.add(nz(ast.unparse(n)))
            if isinstance(n, ast.If):
                out.add(nz('if %s:' % ast.unparse(n.test)))
    return out


class Ev:
    """symbolic evaluator of expressions over the kinds above"""

    def __init__(self, fname):
        self.fname = fname
        self.wit = []        # (name, coq expr of the radicand)

    def K(self, v, node=None):
        if v[0] == 'K':
            return v[1]
        if v[0] == 'int':
            return kint(v[1])
        fail(node if node is not None else str(v), 'scalar expected', self.fname)

    def N(self, v, node=None):
        if v[0] == 'N':
            return v[1]
        if v[0] == 'int' and v[1] >= 0:
            return '%d' % v[1]
        fail(node if node is not None else str(v), 'natural number expected', self.fname)

    def P(self, v, node=None):
        if v[0] == 'P':
            return dict(v[1])
        if v[0] == 'svar':
            return {1: '1'}
        if v[0] in ('K', 'int'):
            return {0: self.K(v)}
        fail(node if node is not None else str(v), 'polynomial in s expected', self.fname)

    def ev(self, node, env):
        f = self.fname
        if isinstance(node, ast.Constant):
            if isinstance(node.value, int) and not isinstance(node.value, bool):
                return ('int', node.value)
            fail(node, 'unsupported constant', f)
        if isinstance(node, ast.Name):
            if node.id == 'Zero':
                return ('int', 0)
            if node.id == 'One':
                return ('int', 1)
            if node.id in env:
                return env[node.id]
            fail(node, 'unknown name', f)
        if isinstance(node, ast.Attribute):
            if un(node) == 'sym.I':
                return ('K', 'j')
            fail(node, 'unsupported attribute', f)
        if isinstance(node, ast.UnaryOp) and isinstance(node.op, ast.USub):
            v = self.ev(node.operand, env)
            if v[0] == 'int':
                return ('int', -v[1])
            if v[0] == 'K':
                return ('K', '(fopp %s)' % v[1])
            if v[0] == 'Lt':
                return ('Lt', '(fopp %s)' % v[1])
            if v[0] in ('P', 'svar'):
                return ('P', {d: '(fopp %s)' % c for d, c in self.P(v).items()})
            fail(node, 'unsupported negation', f)
        if isinstance(node, ast.BinOp):
            return self.binop(node, env)
        if isinstance(node, ast.Call):
            return self.call(node, env)
        if isinstance(node, ast.Subscript):
            base = self.ev(node.value, env)
            idx = self.ev(node.slice, env)
            if idx[0] != 'int':
                fail(node, 'static index expected', f)
            if base[0] == 'L':
                if not 0 <= idx[1] < len(base[1]):
                    fail(node, 'index out of range (IndexError at run time)', f)
                return base[1][idx[1]]
            if base[0] == 'CLfix':
                if not 0 <= idx[1] < len(base[1]):
                    fail(node, 'index out of range', f)
                return ('K', base[1][idx[1]])
            fail(node, 'unsupported subscript', f)
        if isinstance(node, ast.ListComp):
            if len(node.generators) != 1 or node.generators[0].ifs:
                fail(node, 'unsupported comprehension', f)
            g = node.generators[0]
            it = self.ev(g.iter, env)
            if it[0] != 'L' or not isinstance(g.target, ast.Name):
                fail(node, 'unsupported comprehension', f)
            out = []
            for x in it[1]:
                e2 = dict(env)
                e2[g.target.id] = x
                out.append(self.ev(node.elt, e2))
            return ('L', out)
        fail(node, 'unsupported expression', f)

    def binop(self, node, env):
        f = self.fname
        a = self.ev(node.left, env)
        b = self.ev(node.right, env)
        op = node.op
        ka, kb = a[0], b[0]
        sc = ('K', 'int')
        if isinstance(op, ast.Pow):
            if ka == 'tvar':
                return ('tpow', self.N(b, node))
            if ka in sc and kb == 'int' and b[1] >= 0:
                if ka == 'int':
                    return ('int', a[1] ** b[1])
                return ('K', '(fpow %s %d)' % (a[1], b[1]))
            fail(node, 'unsupported power', f)
        if isinstance(op, (ast.Add, ast.Sub)):
            sym_ = '+' if isinstance(op, ast.Add) else '-'
            if ka == 'int' and kb == 'int':
                return ('int', a[1] + b[1] if sym_ == '+' else a[1] - b[1])
            if ka == 'N' or kb == 'N':
                if ka in ('N', 'int') and kb in ('N', 'int'):
                    return ('N', '(%s %s %s)%%nat' % (self.N(a, node), sym_, self.N(b, node)))
                fail(node, 'mixed nat arithmetic', f)
            if ka in sc and kb in sc:
                return ('K', '(%s %s %s)' % (self.K(a), sym_, self.K(b)))
            if ka == 'T' and kb == 'T':
                if sym_ == '+':
                    return ('T', '(TAdd %s %s)' % (a[1], b[1]))
                return ('T', '(TAdd %s (TScale (fopp 1) %s))' % (a[1], b[1]))
            if ka == 'int' and a[1] == 0 and kb == 'T' and sym_ == '+':
                return b
            if kb == 'int' and b[1] == 0 and ka == 'T':
                return a
            if ka in ('P', 'svar') + sc and kb in ('P', 'svar') + sc:
                pa, pb = self.P(a), self.P(b)
                out = dict(pa)
                for d, c in pb.items():
                    if d in out:
                        out[d] = '(%s %s %s)' % (out[d], sym_, c)
                    else:
                        out[d] = c if sym_ == '+' else '(fopp %s)' % c
                return ('P', out)
            fail(node, 'unsupported sum', f)
        if isinstance(op, ast.Mult):
            if ka == 'int' and kb == 'int':
                return ('int', a[1] * b[1])
            if ka in sc and kb in sc:
                return ('K', '(%s * %s)' % (self.K(a), self.K(b)))
            if ka in sc and kb == 'tvar':
                return ('Lt', self.K(a))
            if ka == 'tvar' and kb in sc:
                return ('Lt', self.K(b))
            if ka in sc and kb == 'Lt':
                return ('Lt', '(%s * %s)' % (self.K(a), b[1]))
            if ka in sc and kb == 'T':
                if ka == 'int' and a[1] == 0:
                    return ('int', 0)
                return ('T', '(TScale %s %s)' % (self.K(a), b[1]))
            if ka == 'T' and kb in sc:
                return ('T', '(TScale %s %s)' % (self.K(b), a[1]))
            if ka == 'T' and kb == 'T':
                return ('T', '(TMul %s %s)' % (a[1], b[1]))
            if ka in ('P', 'svar') + sc and kb in ('P', 'svar') + sc:
                pa, pb = self.P(a), self.P(b)
                out = {}
                for d1, c1 in pa.items():
                    for d2, c2 in pb.items():
                        t = '(%s * %s)' % (c1, c2)
                        out[d1 + d2] = '(%s + %s)' % (out[d1 + d2], t) if d1 + d2 in out else t
                return ('P', out)
            fail(node, 'unsupported product', f)
        if isinstance(op, ast.Div):
            if ka == 'tpow' and kb == 'fact':
                if a[1] != b[1]:
                    fail(node, 't**n / factorial(m) with n != m', f)
                return ('T', '(TPF %s)' % a[1])
            if ka in sc and kb in sc:
                return ('K', '(%s / %s)' % (self.K(a), self.K(b)))
            if ka == 'T' and kb in sc:
                return ('T', '(TScale (1 / %s) %s)' % (self.K(b), a[1]))
            fail(node, 'unsupported quotient', f)
        fail(node, 'unsupported operator', f)

    def call(self, node, env):
        f = self.fname
        fn = un(node.func)
        args = node.args
        if node.keywords:
            fail(node, 'keyword arguments', f)
        if fn in ('sym.exp', 'sym.cos', 'sym.sin'):
            if len(args) != 1:
                fail(node, 'arity', f)
            v = self.ev(args[0], env)
            if v[0] != 'Lt':
                fail(node, 'argument must be <scalar> * t', f)
            return ('T', '(%s %s)' % ({'sym.exp': 'TE', 'sym.cos': 'TCos', 'sym.sin': 'TSin'}[fn], v[1]))
        if fn == 'sym.sqrt':
            v = self.ev(args[0], env)
            nm = 'w%d' % (len(self.wit) + 1)
            self.wit.append((nm, self.K(v, node)))
            return ('K', nm)
        if fn == 'sym.factorial':
            return ('fact', self.N(self.ev(args[0], env), node))
        if fn == 'sym.DiracDelta':
            if len(args) == 1 and un(args[0]) == 't':
                return ('T', '(TDel 0)')
            if len(args) == 2 and un(args[0]) == 't':
                return ('T', '(TDel %s)' % self.N(self.ev(args[1], env), node))
            fail(node, 'unsupported DiracDelta', f)
        if fn == 'sym.diff':
            if len(args) == 3 and un(args[0]) == 'sym.DiracDelta(t)' and un(args[1]) == 't':
                return ('T', '(TDel %s)' % self.N(self.ev(args[2], env), node))
            fail(node, 'unsupported diff', f)
        if fn == 'len':
            v = self.ev(args[0], env)
            if v[0] == 'L':
                return ('int', len(v[1]))
            if v[0] == 'Nlen':
                return ('N', v[1])
            fail(node, 'unsupported len', f)
        if isinstance(node.func, ast.Attribute) and node.func.attr == 'simplify' and not args:
            return self.ev(node.func.value, env)          # value-preserving, erased
        if isinstance(node.func, ast.Attribute) and node.func.attr == 'all_coeffs' and not args:
            inner = node.func.value
            if isinstance(inner, ast.Call) and un(inner.func) == 'sym.Poly' and len(inner.args) == 2 and un(inner.args[1]) == 's':
                return ('CL', self.P(self.ev(inner.args[0], env), node))
            fail(node, 'unsupported all_coeffs', f)
        fail(node, 'unsupported call', f)


def strip_doc(body):
    return [s for s in body if not (isinstance(s, ast.Expr) and isinstance(s.value, ast.Constant))]


def find_class(tree, name, fname):
    for n in tree.body:
        if isinstance(n, ast.ClassDef) and n.name == name:
            return n
    raise Untranslatable('%s: class %s not found' % (fname, name))


def find_method(cls, name, fname):
    for n in cls.body:
        if isinstance(n, ast.FunctionDef) and n.name == name:
            return n
    raise Untranslatable('%s: method %s.%s not found' % (fname, cls.name, name))


def expect(cond, node, why, fname='lcapy/inverse_laplace.py'):
    if not cond:
        fail(node, why, fname)


class ILTTranslation:
    def __init__(self, repo):
        self.repo = repo
        self.files = {}
        self.trees = {}
        for rel in ('lcapy/inverse_laplace.py', 'lcapy/transformer.py', 'lcapy/ratfun.py', 'lcapy/assumptions.py'):
            p = os.path.join(repo, rel)
            src = open(p).read()
            self.files[rel] = hashlib.sha256(src.encode()).hexdigest()
            self.trees[rel] = ast.parse(src)
        self.ilt = find_class(self.trees['lcapy/inverse_laplace.py'], 'InverseLaplaceTransformer', 'lcapy/inverse_laplace.py')
        self.notes = []
        self.tr_ratfun()
        self.tr_damped_sin()
        self.tr_key()
        self.tr_skeleton()
        self.tr_residues_sub()
        self.tr_delay()

    # ------------------------------------------------------------------ ratfun
    def tr_ratfun(self):
        F = 'lcapy/inverse_laplace.py'
        fn = find_method(self.ilt, 'ratfun', F)
        expect([a.arg for a in fn.args.args] == ['self', 'expr', 's', 't'] and fn.args.kwarg is not None, fn, 'signature of ratfun')
        body = strip_doc(fn.body)
        texts = [un(s) for s in body]
        self.ratfun_line = fn.lineno
        self.ds_dispatch_checks_delay = 'sexpr.delay == 0' in un(fn)

        def idx(pred, what):
            hits = [i for i, s in enumerate(body) if pred(s)]
            if len(hits) != 1:
                fail(fn, 'expected exactly one statement: ' + what)
            return hits[0]

        # fixed statements the hand model relies on, in this order
        fixed = [
            "sexpr = Ratfun(expr, s)",
            ("if kwargs.get('damped_sin', False):\n    if sexpr.degree == 2:\n        return self.do_damped_sin(sexpr, s, t)",
             "if kwargs.get('damped_sin', False):\n    if sexpr.degree == 2 and sexpr.delay == 0:\n        return self.do_damped_sin(sexpr, s, t)"),
            "damping = kwargs.get('damping', None)",
            "(Q, R, P, O, delay, undef) = sexpr.as_QRPO(damping)",
            "if delay != 0:\n    self.error('Unhandled delay %s' % delay)",
            "cresult = Zero",
            "if R == []:\n    return (cresult, 0)",
            "uresult = 0",
            "if damping == 'critical':\n    damping = None",
            "QP = [Root(p, 1, damping) for p in P]",
            "return (cresult, uresult)",
        ]
        pos = -1
        fixed_nz = []
        for fx in fixed:
            alts = fx if isinstance(fx, tuple) else (fx,)
            fixed_nz += [nz(a) for a in alts]
            hits = [i for i, tx in enumerate(texts) if nz(tx) in [nz(a) for a in alts]]
            fx = alts[0]
            if len(hits) != 1 or hits[0] <= pos:
                fail(fn, 'ratfun skeleton: statement missing, duplicated or out of order: ' + fx.split('\n')[0])
            pos = hits[0]
        allowed_extra = lambda s: (un(s).startswith("if kwargs.pop('pdb', False):") or un(s).startswith('self.debug('))
        # --- polynomial part
        iq = idx(lambda s: isinstance(s, ast.If) and un(s.test) == 'Q', '`if Q:`')
        ifq = body[iq]
        expect(not ifq.orelse and len(ifq.body) == 3, ifq, 'shape of `if Q:`')
        expect(un(ifq.body[0]) == 'Qpoly = sym.Poly(Q, s)' and un(ifq.body[1]) == 'C = Qpoly.all_coeffs()', ifq, 'Qpoly / C')
        fr = ifq.body[2]
        expect(isinstance(fr, ast.For) and un(fr.target) in ('n, c', '(n, c)') and un(fr.iter) == 'enumerate(C)' and len(fr.body) == 1 and not fr.orelse, fr, 'enumerate(C) loop')
        st = fr.body[0]
        expect(isinstance(st, ast.AugAssign) and isinstance(st.op, ast.Add) and un(st.target) == 'cresult', st, 'cresult += ...')
        ev = Ev(F)
        env = {'c': ('K', 'c'), 'n': ('N', 'n'), 'C': ('Nlen', 'lenC'), 't': ('tvar',), 's': ('svar',)}
        v = ev.ev(st.value, env)
        expect(v[0] == 'T', st, 'Dirac term must be a closed form')
        self.poly_term = v[1]
        self.poly_line = st.lineno
        # --- the main loop
        il = idx(lambda s: isinstance(s, ast.For) and un(s.target) == 'm', 'for m loop')
        lp = body[il]
        expect(un(lp.iter) == 'range(len(R))' and not lp.orelse, lp, 'range of the m loop')
        for i, s in enumerate(body):
            if nz(texts[i]) in fixed_nz or i in (iq, il) or allowed_extra(s):
                continue
            fail(s, 'ratfun skeleton: unexpected statement')
        L = strip_doc(lp.body)
        expect(len(L) == 7, lp, 'm loop must have 7 statements')
        expect(nz(un(L[0])) == nz('(r, qp, o) = (R[m], QP[m], O[m])'), L[0], 'loop head')
        expect(un(L[1]) == 'if r is None:\n    continue', L[1], 'skip consumed residues')
        expect(un(L[2]) == 'has_conjugate = False', L[2], 'has_conjugate init')
        # partner search
        ps = L[3]
        expect(isinstance(ps, ast.If) and un(ps.test) == 'o == 1' and not ps.orelse and len(ps.body) == 1, ps, 'outer test of the partner search must be `o == 1`')
        fr = ps.body[0]
        expect(isinstance(fr, ast.For) and un(fr.target) == 'n' and un(fr.iter) == 'range(m + 1, len(R))' and not fr.orelse, fr, 'partner search range')
        fb = strip_doc(fr.body)
        expect(len(fb) >= 6 and un(fb[0]) == 'qp2 = QP[n]', fr, 'partner search head')
        tail = [un(s) for s in fb[-4:]]
        expect(tail == ['rc = R[n]', 'R[n] = None', 'has_conjugate = True', 'break'], fr, 'partner search tail')
        conds = []
        for s in fb[1:-4]:
            expect(isinstance(s, ast.If) and not s.orelse and len(s.body) == 1 and isinstance(s.body[0], ast.Continue), s, 'only `if <cond>: continue` allowed in the partner search')
            conds.append(self.guard_expr(s.test))
        expect(len(conds) >= 1, fr, 'no acceptance test in the partner search')
        self.guard = ' && '.join('negb (%s)' % c for c in conds)
        self.guard_src = ' ; '.join(un(s.test) for s in fb[1:-4])
        self.guard_line = fr.lineno
        expect(un(L[4]) == 'p = qp.expr', L[4], 'p = qp.expr')
        br = L[5]
        expect(isinstance(br, ast.If) and un(br.test) == 'has_conjugate', br, 'if has_conjugate')
        expect(un(L[6]) == 'uresult += result', L[6], 'uresult += result')
        # conj branch
        cb = strip_doc(br.body)
        expect(un(cb[0]) == 'pc = qp2.expr', cb[0], 'pc = qp2.expr')
        ev = Ev(F)
        env = {'r': ('K', 'r'), 'rc': ('K', 'rc'), 'p': ('K', 'p'), 'pc': ('K', 'pc'), 't': ('tvar',), 's': ('svar',)}
        self.conj = self.block(ev, cb[1:], env, 'result')
        self.conj_line = br.lineno
        # simple / repeated branch
        eb = strip_doc(br.orelse)
        expect(len(eb) == 2 and isinstance(eb[0], ast.Assign) and un(eb[0].targets[0]) == 'result', br, 'else branch')
        ev = Ev(F)
        env = {'r': ('K', 'r'), 'p': ('K', 'p'), 'o': ('N', 'o'), 't': ('tvar',), 's': ('svar',)}
        v = ev.ev(eb[0].value, env)
        expect(v[0] == 'T', eb[0], 'closed form expected')
        self.simple = v[1]
        rp = eb[1]
        expect(isinstance(rp, ast.If) and un(rp.test) == 'o > 1' and not rp.orelse and len(rp.body) == 1, rp, '`if o > 1:`')
        st = rp.body[0]
        expect(isinstance(st, ast.AugAssign) and isinstance(st.op, ast.Mult) and un(st.target) == 'result', st, 'result *= ...')
        w = ev.ev(st.value, env)
        expect(w[0] == 'T', st, 'closed form expected')
        self.repeated = '(TMul %s %s)' % (v[1], w[1])
        self.simple_line = eb[0].lineno

    def guard_expr(self, node):
        """boolean expression over (c : bool) (on o : nat)"""
        if isinstance(node, ast.UnaryOp) and isinstance(node.op, ast.Not):
            return 'negb (%s)' % self.guard_expr(node.operand)
        if isinstance(node, ast.BoolOp):
            op = ' && ' if isinstance(node.op, ast.And) else ' || '
            return '(' + op.join('(%s)' % self.guard_expr(v) for v in node.values) + ')'
        if un(node) == 'qp.is_conjugate_pair(qp2)':
            return 'c'
        if isinstance(node, ast.Compare) and len(node.ops) == 1:
            def atom(x):
                u = un(x)
                if u == 'O[n]':
                    return 'on'
                if u in ('o', 'O[m]'):
                    return 'o'
                if isinstance(x, ast.Constant) and isinstance(x.value, int) and x.value >= 0:
                    return '%d' % x.value
                fail(x, 'unsupported atom in the partner-search test')
            a, b = atom(node.left), atom(node.comparators[0])
            op = node.ops[0]
            if isinstance(op, ast.Eq):
                return 'Nat.eqb %s %s' % (a, b)
            if isinstance(op, ast.NotEq):
                return 'negb (Nat.eqb %s %s)' % (a, b)
            if isinstance(op, ast.Gt):
                return 'Nat.ltb %s %s' % (b, a)
            if isinstance(op, ast.Lt):
                return 'Nat.ltb %s %s' % (a, b)
            if isinstance(op, ast.GtE):
                return 'Nat.leb %s %s' % (b, a)
            if isinstance(op, ast.LtE):
                return 'Nat.leb %s %s' % (a, b)
        fail(node, 'unsupported test in the partner search')

    def block(self, ev, stmts, env, result):
        """straight-line assignments with `if len(b) == 1: ... else: ...`;
        returns a Coq term (let-chain) for the final value of `result`"""
        F = ev.fname
        env = dict(env)
        lets = []
        for k, s in enumerate(stmts):
            if isinstance(s, ast.Assign) and len(s.targets) == 1 and isinstance(s.targets[0], ast.Name):
                nm = s.targets[0].id
                v = ev.ev(s.value, env)
                if v[0] in ('K', 'int'):
                    lets.append('let %s := %s in' % (nm + '_', ev.K(v)))
                    env[nm] = ('K', nm + '_')
                elif v[0] == 'T':
                    lets.append('let %s : texp K := %s in' % (nm + '_', v[1]))
                    env[nm] = ('T', nm + '_')
                else:
                    env[nm] = v
                continue
            if isinstance(s, ast.If) and isinstance(s.test, ast.Compare) and un(s.test.left).startswith('len(') and len(s.test.ops) == 1 \
                    and isinstance(s.test.ops[0], ast.Eq) and un(s.test.comparators[0]) == '1':
                nm = un(s.test.left)[4:-1]
                cl = env.get(nm)
                if cl is None or cl[0] != 'CL':
                    fail(s, 'len() of something that is not Poly(..).all_coeffs()', F)
                P = cl[1]
                if any(d > 1 for d in P):
                    fail(s, 'polynomial of degree > 1 in the conjugate branch', F)
                c1 = P.get(1, '0')
                c0 = P.get(0, '0')
                rest = stmts[k + 1:]
                # Poly(q, s).all_coeffs(): [c1, c0] when c1 != 0, [c0] otherwise
                e1 = dict(env)
                e1[nm] = ('CLfix', [c0])
                e2 = dict(env)
                e2[nm] = ('CLfix', [c1, c0])
                t1 = self.block(ev, list(s.body) + rest, e1, result)
                t2 = self.block(ev, list(s.orelse) + rest, e2, result)
                self.conj_c1 = c1
                return '\n    '.join(lets + ['if feqb %s 0 then (%s) else (%s)' % (c1, t1, t2)])
            fail(s, 'unsupported statement in a closed-form branch', F)
        if result not in env or env[result][0] != 'T':
            fail(stmts[-1] if stmts else result, 'branch does not define a closed form `%s`' % result, F)
        return '\n    '.join(lets + [env[result][1]])

    # ------------------------------------------------------------ do_damped_sin
    def tr_damped_sin(self):
        F = 'lcapy/inverse_laplace.py'
        fn = find_method(self.ilt, 'do_damped_sin', F)
        self.ds = {}
        self.ds_guard_omega1 = False
        self.ds_guard_degree = False
        self.ds_guard_real = False
        self.ds_guard_d2 = False
        self.ds_line = fn.lineno
        for k in (1, 2, 3):
            ev = Ev(F)
            env = {'t': ('tvar',), 's': ('svar',),
                   'ncoeffs': ('L', [('K', 'n%d' % i) for i in range(k)]),
                   'dcoeffs': ('L', [('K', 'd%d' % i) for i in range(3)])}
            lets = []
            ret = None
            for s in strip_doc(fn.body):
                r = self.ds_stmt(ev, s, env, lets)
                if r is not None:
                    ret = r
                    break
            if ret is None:
                fail(fn, 'do_damped_sin does not return for len(ncoeffs) = %d' % k, F)
            self.ds[k] = {'lets': lets, 'c': ret[0], 'u': ret[1], 'wit': list(ev.wit)}

    def ds_stmt(self, ev, s, env, lets):
        F = ev.fname
        if isinstance(s, ast.Assign) and len(s.targets) == 1:
            tg = s.targets[0]
            if isinstance(tg, ast.Tuple):
                if nz(un(s)) == nz('(ncoeffs, dcoeffs) = expr.coeffs()'):
                    return None
                fail(s, 'unsupported tuple assignment', F)
            nm = tg.id
            nw = len(ev.wit)
            v = ev.ev(s.value, env)
            for (wn, wx) in ev.wit[nw:]:
                lets.append(('wit', wn, wx))
            if v[0] in ('K', 'int'):
                cn = nm + '_' + str(sum(1 for l in lets if l[0] == 'let' and l[1].startswith(nm + '_')))
                lets.append(('let', cn, ev.K(v), 'K'))
                env[nm] = ('K', cn)
            elif v[0] == 'T':
                cn = nm + '_' + str(sum(1 for l in lets if l[0] == 'let' and l[1].startswith(nm + '_')))
                lets.append(('let', cn, v[1], 'texp K'))
                env[nm] = ('T', cn)
            else:
                env[nm] = v
            return None
        if isinstance(s, ast.If):
            t = un(s.test)
            if t == 'len(ncoeffs) > 3 or len(dcoeffs) > 3':
                return None
            if nz(t) in (nz('zeta.is_constant() and zeta > 1'), nz('zeta.is_constant() and zeta.is_real and zeta > 1')):
                if len(s.body) == 1 and un(s.body[0]).startswith('warn(') and not s.orelse:
                    return None
                fail(s, 'unexpected body', F)
            if nz(t) in (nz('len(dcoeffs) < 3 or any(c.is_real is False for c in ncoeffs + dcoeffs)'), nz('len(dcoeffs) < 3 or dcoeffs[2] == 0 or any(c.is_real is False for c in ncoeffs + dcoeffs)')) and not s.orelse \
                    and len(s.body) == 1 and nz(un(s.body[0])) == nz('return self.ratfun(expr.expr, s, t)'):
                # not a real second-order section: handed back to the general path
                self.ds_guard_degree = True
                self.ds_guard_real = True
                self.ds_guard_d2 = 'dcoeffs[2] == 0' in t
                return None
            if t == 'len(dcoeffs) < 3' and not s.orelse and len(s.body) == 1 and nz(un(s.body[0])) == nz('return self.ratfun(expr.expr, s, t)'):
                # denominator of degree < 2: handed back to the general path
                self.ds_guard_degree = True
                return None
            if t == 'omega1 == 0' and not s.orelse and len(s.body) == 1 and nz(un(s.body[0])) == nz('return self.ratfun(expr.expr, s, t)'):
                # critically damped: handed back to the general path (no damped_sin keyword => no recursion)
                self.ds_guard_omega1 = True
                return None
            if isinstance(s.test, ast.Compare) and un(s.test.left) == 'len(ncoeffs)' and isinstance(s.test.ops[0], ast.Eq):
                n = ev.ev(s.test.comparators[0], env)
                if n[0] != 'int':
                    fail(s, 'static length expected', F)
                if len(env['ncoeffs'][1]) == n[1]:
                    for b in s.body:
                        r = self.ds_stmt(ev, b, env, lets)
                        if r is not None:
                            return r
                    fail(s, 'branch does not return', F)
                if s.orelse:
                    fail(s, 'unexpected else', F)
                return None
            fail(s, 'unsupported test in do_damped_sin', F)
        if isinstance(s, ast.Return):
            v = s.value
            if not (isinstance(v, ast.Tuple) and len(v.elts) == 2):
                fail(s, 'return (cresult, uresult) expected', F)
            a = ev.ev(v.elts[0], env)
            b = ev.ev(v.elts[1], env)
            ca = None if (a[0] == 'int' and a[1] == 0) else a[1] if a[0] == 'T' else fail(s, 'closed form expected', F)
            if b[0] != 'T':
                fail(s, 'closed form expected', F)
            return (ca, b[1])
        fail(s, 'unsupported statement in do_damped_sin', F)

    # ------------------------------------------------------------------- key
    def tr_key(self):
        F = 'lcapy/inverse_laplace.py'
        fn = find_method(self.ilt, 'key', F)
        body = strip_doc(fn.body)
        expect(len(body) == 1 and isinstance(body[0], ast.Return) and isinstance(body[0].value, ast.Tuple), fn, 'key must return a tuple')
        fields = []
        for e in body[0].value.elts:
            u = un(e)
            if u in ('expr', 's', 't'):
                fields.append((u, None))
            elif isinstance(e, ast.Call) and un(e.func) == 'kwargs.get' and len(e.args) == 2 and isinstance(e.args[0], ast.Constant):
                fields.append((e.args[0].value, un(e.args[1])))
            else:
                fail(e, 'unsupported cache-key field', F)
        self.key_fields = fields
        # options read by the transformer code (kwargs.get / kwargs.pop), apart from the key method itself
        reads = set()
        for m in self.ilt.body:
            if isinstance(m, ast.FunctionDef) and m.name != 'key':
                for n in ast.walk(m):
                    if isinstance(n, ast.Call) and un(n.func) in ('kwargs.get', 'kwargs.pop') and n.args and isinstance(n.args[0], ast.Constant):
                        reads.add(n.args[0].value)
        mk = find_method(find_class(self.trees['lcapy/transformer.py'], 'UnilateralInverseTransformer', 'lcapy/transformer.py'), 'make', 'lcapy/transformer.py')
        self.make_reads = set()
        for n in ast.walk(mk):
            if isinstance(n, ast.Call) and un(n.func) in ('kwargs.get', 'kwargs.pop') and n.args and isinstance(n.args[0], ast.Constant):
                self.make_reads.add(n.args[0].value)
        self.opt_reads = sorted(reads - {'pdb'})

    # ------------------------------------------------------------ delay handling
    def lin(self, node, F='lcapy/inverse_laplace.py'):
        """polynomial in (t, s, delay) with Fraction coefficients: {(et, es, ed): Fraction}"""
        from fractions import Fraction
        if isinstance(node, ast.Constant) and isinstance(node.value, int):
            return {(0, 0, 0): Fraction(node.value)}
        if isinstance(node, ast.Name):
            if node.id == 't':
                return {(1, 0, 0): Fraction(1)}
            if node.id == 's':
                return {(0, 1, 0): Fraction(1)}
            if node.id == 'delay':
                return {(0, 0, 1): Fraction(1)}
            fail(node, 'unsupported name in a delay expression', F)
        if isinstance(node, ast.UnaryOp) and isinstance(node.op, ast.USub):
            return {k: -v for k, v in self.lin(node.operand, F).items()}
        if isinstance(node, ast.BinOp) and isinstance(node.op, (ast.Add, ast.Sub)):
            a, b = self.lin(node.left, F), self.lin(node.right, F)
            out = dict(a)
            for k, v in b.items():
                out[k] = out.get(k, 0) + (v if isinstance(node.op, ast.Add) else -v)
            return {k: v for k, v in out.items() if v != 0}
        if isinstance(node, ast.BinOp) and isinstance(node.op, ast.Mult):
            a, b = self.lin(node.left, F), self.lin(node.right, F)
            out = {}
            for k1, v1 in a.items():
                for k2, v2 in b.items():
                    k = (k1[0] + k2[0], k1[1] + k2[1], k1[2] + k2[2])
                    out[k] = out.get(k, 0) + v1 * v2
            return {k: v for k, v in out.items() if v != 0}
        fail(node, 'unsupported delay expression', F)

    @staticmethod
    def qcmul(c, var):
        from fractions import Fraction
        c = Fraction(c)
        return '(qc (%d) %d * %s)%%Qc' % (c.numerator, c.denominator, var)

    def shift_of(self, node):
        """g.subs(t, <node>) / Heaviside(<node>): <node> = t - a*delay  ->  the delay a*T (Coq, over T : Qc)"""
        P = self.lin(node)
        if P.get((1, 0, 0)) != 1 or any(k not in ((1, 0, 0), (0, 0, 1)) for k in P):
            fail(node, 'time argument is not t + <multiple of delay>')
        return self.qcmul(-P.get((0, 0, 1), 0), 'T')

    def exp_delay_of(self, node):
        """delay carried by a factor product: sum over sym.exp(k*s*delay) factors of -k (Coq, over T : Qc)"""
        from fractions import Fraction
        facs = []

        def flat(n):
            if isinstance(n, ast.BinOp) and isinstance(n.op, ast.Mult):
                flat(n.left)
                flat(n.right)
            else:
                facs.append(n)
        flat(node)
        tot = Fraction(0)
        for f in facs:
            if isinstance(f, ast.Call) and un(f.func) == 'sym.exp' and len(f.args) == 1:
                P = self.lin(f.args[0])
                if any(k != (0, 1, 1) for k in P):
                    fail(f, 'exponent is not <number> * s * delay')
                tot -= P.get((0, 1, 1), 0)
            elif any(isinstance(x, ast.Call) and un(x.func) == 'sym.exp' for x in ast.walk(f)):
                fail(f, 'exp() in an unsupported position')
        return self.qcmul(tot, 'T')

    def tr_delay(self):
        F = 'lcapy/inverse_laplace.py'
        # delay_factor: how exp(c[0]*s + c[1]) updates the delay
        df = find_method(self.ilt, 'delay_factor', F)
        upd = [n for n in ast.walk(df) if (isinstance(n, ast.AugAssign) and un(n.target) == 'delay') or
               (isinstance(n, ast.Assign) and un(n.targets[0]) == 'delay' and un(n.value) != 'Zero')]
        if len(upd) != 1:
            fail(df, 'exactly one update of `delay` expected in delay_factor')
        u = upd[0]

        def c0lin(node):
            if un(node) == 'c[0]':
                return ('c0', 1)
            if isinstance(node, ast.UnaryOp) and isinstance(node.op, ast.USub) and un(node.operand) == 'c[0]':
                return ('c0', -1)
            fail(node, 'unsupported delay update')
        if isinstance(u, ast.AugAssign) and isinstance(u.op, (ast.Sub, ast.Add)):
            _, sg = c0lin(u.value)
            sg = sg if isinstance(u.op, ast.Add) else -sg
            self.delay_upd = '(d + c0)%Qc' if sg > 0 else '(d - c0)%Qc'
        else:
            fail(u, 'unsupported delay update')
        self.delay_upd_src = un(u)
        # term(): the shift of cresult / uresult, the step, the re-attached factor of the fall-back
        tm = find_method(self.ilt, 'term', F)
        subs = {}
        step = None
        fb = None
        for n in ast.walk(tm):
            if isinstance(n, ast.Assign) and isinstance(n.value, ast.Call) and isinstance(n.value.func, ast.Attribute) and n.value.func.attr == 'subs' \
                    and un(n.targets[0]) in ('cresult', 'uresult') and un(n.value.func.value) == un(n.targets[0]) and len(n.value.args) == 2 and un(n.value.args[0]) == 't':
                if un(n.targets[0]) in subs:
                    fail(n, 'second shift of the same result')
                subs[un(n.targets[0])] = (self.shift_of(n.value.args[1]), un(n))
            if isinstance(n, ast.AugAssign) and un(n.target) == 'cresult' and isinstance(n.value, ast.BinOp) and isinstance(n.value.op, ast.Mult) \
                    and un(n.value.left) == 'uresult' and isinstance(n.value.right, ast.Call) and un(n.value.right.func) == 'sym.Heaviside' \
                    and 'delay' in un(n.value.right):
                if step is not None:
                    fail(n, 'second delayed step')
                step = (self.shift_of(n.value.right.args[0]), un(n))
            if isinstance(n, ast.For) and un(n.target) == 'term' and un(n.iter) == 'terms':
                calls = [c for c in ast.walk(n) if isinstance(c, ast.Call) and un(c.func) == 'self.term']
                if len(calls) != 1 or fb is not None:
                    fail(n, 'exactly one recursive self.term(...) expected in the expansion fall-back')
                call = calls[0]
                if len(call.args) != 3 or un(call.args[1]) != 's' or un(call.args[2]) != 't':
                    fail(call, 'unexpected arguments of the recursive call')
                arg = call.args[0]
                # `term = term * sym.exp(...)` before the call counts as well
                d = self.exp_delay_of(arg)
                pre = [a for a in ast.walk(n) if isinstance(a, ast.Assign) and un(a.targets[0]) == 'term' and 'sym.exp' in un(a.value)]
                if pre:
                    if len(pre) > 1 or 'sym.exp' in un(arg):
                        fail(n, 'delay factor re-attached more than once')
                    d = self.exp_delay_of(pre[0].value)
                fb = (d, un(call))
        if set(subs) != {'cresult', 'uresult'} or step is None or fb is None:
            fail(tm, 'term(): shift of cresult/uresult, delayed step or expansion fall-back not found')
        self.shift_c, self.shift_u, self.step_d, self.fallback_d = subs['cresult'], subs['uresult'], step, fb

    # -------------------------------------------------------------- skeletons
    def tr_skeleton(self):
        """statements of term / make / doit / delay_factor that the hand model mirrors"""
        F = 'lcapy/inverse_laplace.py'
        term = all_stmts(find_method(self.ilt, 'term', F))
        need_term = [
            "(expr, delay) = self.delay_factor(expr, s)",
            "(cresult, uresult) = self.term1(expr, s, t, **kwargs)",
            "if delay != 0:",
            "if not delay.is_negative:",
            "self.error('Causality violated with time advance %s.' % delay)",
            "if kwargs.get('causal', False):\n    cresult += uresult * sym.Heaviside(t)\n    uresult = Zero",
            "return (cresult, uresult)",
        ]
        for tx in need_term:
            if nz(tx) not in term:
                raise Untranslatable('%s: term(): expected statement not found: %s' % (F, tx.split('\n')[0]))
        df = all_stmts(find_method(self.ilt, 'delay_factor', F))
        for tx in ["delay = Zero", "if b == sym.E and e.is_polynomial(var):", "return (rest, delay)"]:
            if nz(tx) not in df:
                raise Untranslatable('%s: delay_factor(): expected statement not found: %s' % (F, tx))
        t1 = all_stmts(find_method(self.ilt, 'term1', F))
        for tx in ["(const, expr) = factor_const(expr, s)", "(cresult, uresult) = self.ratfun(expr, s, t, **kwargs)", "return (const * cresult, const * uresult)"]:
            if nz(tx) not in t1:
                raise Untranslatable('%s: term1(): expected statement not found: %s' % (F, tx))
        G = 'lcapy/transformer.py'
        ucls = find_class(self.trees[G], 'UnilateralInverseTransformer', G)
        mk = strip_doc(find_method(ucls, 'make', G).body)
        want = ["result = const * (cresult + uresult)",
                "if not kwargs.get('causal', False):\n    if uresult != 0:\n        result = Piecewise((result, var >= 0))",
                "return result"]
        if [nz(un(s)) for s in mk] != [nz(x) for x in want]:
            raise Untranslatable('%s: UnilateralInverseTransformer.make differs from the modelled shape' % G)
        dt = all_stmts(find_method(ucls, 'doit', G))
        for tx in ["(const, expr) = factor_const(expr, var)", "key = self.key(expr, var, conjvar, **kwargs)",
                   "if key in self.cache:\n    return self.make(conjvar, const, *self.cache[key], **kwargs)",
                   "terms = expr.as_ordered_terms()", "(cterm, uterm) = self.term(sterm, var, conjvar, **kwargs)",
                   "cresult += cterm", "uresult += uterm", "self.cache[key] = (cresult, uresult)",
                   "return self.make(conjvar, const, *self.cache[key], **kwargs)"]:
            if nz(tx) not in dt:
                raise Untranslatable('%s: doit(): expected statement not found: %s' % (G, tx.split('\n')[0]))
        H = 'lcapy/assumptions.py'
        st = un(find_method(find_class(self.trees[H], 'Assumptions', H), 'set', H))
        want = ("def set(self, assumption, value):\n    if assumption in ('dc', 'ac', 'causal', 'unknown'):\n        if value:\n"
                "            self.pop('dc', None)\n            self.pop('ac', None)\n            self.pop('causal', None)\n            self.pop('unknown', None)\n"
                "            self[assumption] = value\n        else:\n            self.pop(assumption, None)\n    else:\n        self[assumption] = value")
        if nz(st) != nz(want):
            raise Untranslatable('%s: Assumptions.set differs from the modelled shape' % H)

    # ---------------------------------------------------------- residues (sub)
    def tr_residues_sub(self):
        F = 'lcapy/ratfun.py'
        cls = find_class(self.trees[F], 'Ratfun', F)
        fn = find_method(cls, '_find_residues_sub', F)
        loops = [s for s in strip_doc(fn.body) if isinstance(s, ast.For)]
        if len(loops) != 2:
            fail(fn, 'two loops expected', F)
        build, comp = loops
        btxt = un(build)
        want_build = ("for pole in poles:\n    p = pole.expr\n    f = var - p\n    for m in range(pole.n):\n        o = pole.n - m\n"
                      "        F.append(f)\n        P.append(p)\n        O.append(o)\n        M.append(pole.n)")
        if nz(btxt) != nz(want_build):
            fail(build, 'entry construction differs from the modelled shape', F)
        expect(un(comp.target) == 'i' and un(comp.iter) == 'range(len(P))', comp, 'residue loop', F)
        cb = strip_doc(comp.body)
        expect(len(cb) == 1 and isinstance(cb[0], ast.If) and un(cb[0].test) == 'M[i] == O[i]', comp, 'top-order test', F)
        top, nxt = cb[0].body, cb[0].orelse
        expect(un(top[0]) == 'denom = One', top[0], 'denom init', F)
        fr = top[1]
        expect(isinstance(fr, ast.For) and un(fr.target) == 'j' and un(fr.iter) == 'range(len(P))', fr, 'denominator loop', F)
        fb = strip_doc(fr.body)
        expect(len(fb) == 2 and un(fb[0]) == 'if i == j:\n    continue', fr, 'skip i == j', F)
        sel = fb[1]
        expect(isinstance(sel, ast.If) and len(sel.body) == 1 and un(sel.body[0]) == 'denom *= F[j]' and not sel.orelse, sel, 'denominator factor', F)
        self.res_sel = self.sel_expr(sel.test)
        self.res_sel_src = un(sel.test)
        expect([un(s) for s in top[2:]] == ['expr = B / denom', 'r = expr.subs(var, P[i])', 'R.append(r)'], top[2], 'top-order residue', F)
        expect(len(nxt) == 3 and un(nxt[0]) == 'expr = expr.diff(var)' and un(nxt[2]) == 'R.append(r)', nxt[0] if nxt else comp, 'lower-order residue', F)
        rs = nxt[1]
        expect(isinstance(rs, ast.Assign) and un(rs.targets[0]) == 'r', rs, 'lower-order residue assignment', F)
        v = rs.value
        if isinstance(v, ast.BinOp) and isinstance(v.op, ast.Div) and un(v.left) == 'expr.subs(var, P[i])':
            self.res_div = self.div_expr(v.right)
            self.res_div_src = un(v.right)
        elif un(v) == 'expr.subs(var, P[i])':
            self.res_div = '1'
            self.res_div_src = '1'
        else:
            fail(rs, 'lower-order residue is not expr.subs(var, P[i]) / <divisor>', F)
        self.res_line = fn.lineno

    def nat_expr(self, node):
        F = 'lcapy/ratfun.py'
        u = un(node)
        if u == 'M[i]':
            return 'M'
        if u == 'O[i]':
            return 'O'
        if isinstance(node, ast.Constant) and isinstance(node.value, int) and node.value >= 0:
            return '%d' % node.value
        if isinstance(node, ast.BinOp) and isinstance(node.op, (ast.Add, ast.Sub, ast.Mult)):
            op = {ast.Add: '+', ast.Sub: '-', ast.Mult: '*'}[type(node.op)]
            return '(%s %s %s)%%nat' % (self.nat_expr(node.left), op, self.nat_expr(node.right))
        fail(node, 'unsupported natural-number expression in the residue divisor', F)

    def div_expr(self, node):
        """divisor of the lower-order residues as a field element, over (M O : nat)"""
        if isinstance(node, ast.Call) and un(node.func) == 'sym.factorial' and len(node.args) == 1:
            return 'fnat (natfact %s)' % self.nat_expr(node.args[0])
        return 'fnat %s' % self.nat_expr(node)

    def sel_expr(self, node):
        """boolean over (same : bool) (oi oj : nat): F[i] is F[j], O[i], O[j]"""
        F = 'lcapy/ratfun.py'
        if isinstance(node, ast.BoolOp):
            op = ' && ' if isinstance(node.op, ast.And) else ' || '
            return '(' + op.join('(%s)' % self.sel_expr(v) for v in node.values) + ')'
        if isinstance(node, ast.UnaryOp) and isinstance(node.op, ast.Not):
            return 'negb (%s)' % self.sel_expr(node.operand)
        u = un(node)
        if u == 'F[i] is not F[j]':
            return 'negb same'
        if u == 'F[i] is F[j]':
            return 'same'
        if isinstance(node, ast.Compare) and len(node.ops) == 1:
            names = {'O[i]': 'oi', 'O[j]': 'oj'}
            a, b = un(node.left), un(node.comparators[0])
            if a in names and b in names:
                a, b = names[a], names[b]
                op = node.ops[0]
                if isinstance(op, ast.Gt):
                    return 'Nat.ltb %s %s' % (b, a)
                if isinstance(op, ast.Lt):
                    return 'Nat.ltb %s %s' % (a, b)
                if isinstance(op, ast.GtE):
                    return 'Nat.leb %s %s' % (b, a)
                if isinstance(op, ast.LtE):
                    return 'Nat.leb %s %s' % (a, b)
                if isinstance(op, ast.Eq):
                    return 'Nat.eqb %s %s' % (a, b)
                if isinstance(op, ast.NotEq):
                    return 'negb (Nat.eqb %s %s)' % (a, b)
        fail(node, 'unsupported selection test', F)

    # ------------------------------------------------------------- Coq output
    def coq_defs(self):
        out = []
        out.append('(* GENERATED by tools/tr_ilt.py from\n' + ''.join('     %s (sha256 %s)\n' % (k, v[:16]) for k, v in sorted(self.files.items())) +
                   '   Do not edit: regenerated from the working tree on every run. *)')
        out.append('Require Import LT.FieldSec LT.PolyQ LT.ExpPoly LT.ILT.\nLocal Open Scope F_scope.\n')
        hd = '{K : fld} (j : K)'
        out.append('(* ratfun, line %d: cresult += <this> for (n, c) in enumerate(C) *)' % self.poly_line)
        out.append('Definition poly_term_gen %s (c : K) (lenC n : nat) : texp K :=\n    %s.\n' % (hd, self.poly_term))
        out.append('(* ratfun, line %d: partner accepted iff none of the `continue` tests fires: %s *)' % (self.guard_line, self.guard_src))
        out.append('Definition guard_gen (c : bool) (on o : nat) : bool :=\n    %s.\n' % self.guard)
        out.append('(* ratfun, line %d: result = r * sym.exp(p * t) *)' % self.simple_line)
        out.append('Definition simple_gen %s (r p : K) : texp K :=\n    %s.\n' % (hd, self.simple))
        out.append('(* ... if o > 1: result *= t ** (o - 1) / sym.factorial(o - 1) *)')
        out.append('Definition repeated_gen %s (r p : K) (o : nat) : texp K :=\n    %s.\n' % (hd, self.repeated))
        out.append('(* ratfun, line %d: conjugate pair branch *)' % self.conj_line)
        out.append('Definition conj_gen %s (r rc p pc : K) : texp K :=\n    %s.\n' % (hd, self.conj))
        out.append('Definition B_gen (K : fld) (j : K) : branches K :=\n  Branches (fun r p => den K j (simple_gen j r p)) (fun r p o => den K j (repeated_gen j r p o))\n'
                   '           (fun r rc p pc => den K j (conj_gen j r rc p pc)) (fun c lenC n => den K j (poly_term_gen j c lenC n)).\n')
        for k in (1, 2, 3):
            d = self.ds[k]
            ws = [l for l in d['lets'] if l[0] == 'wit']
            args = ' '.join(['n%d' % i for i in range(k)] + ['d0', 'd1', 'd2'] + [w[1] for w in ws])
            chain = ''.join('let %s : %s := %s in\n    ' % (l[1], l[3], l[2]) for l in d['lets'] if l[0] == 'let')
            out.append('(* do_damped_sin (line %d), len(ncoeffs) = %d; sqrt witnesses: %s *)' % (
                self.ds_line, k, '; '.join('%s*%s = %s' % (w[1], w[1], w[2]) for w in ws) or 'none'))
            out.append('Definition ds%d_u %s (%s : K) : texp K :=\n    %s%s.\n' % (k, hd, args, chain, d['u']))
            if d['c'] is not None:
                out.append('Definition ds%d_c %s (%s : K) : texp K :=\n    %s%s.\n' % (k, hd, args, chain, d['c']))
            # the radicands, as functions of the same arguments (for the witness hypotheses)
            for wi, w in enumerate(ws):
                pre = []
                for l in d['lets']:
                    if l[0] == 'wit' and l[1] == w[1]:
                        break
                    if l[0] == 'let' and l[3] == 'K':
                        pre.append('let %s : K := %s in\n    ' % (l[1], l[2]))
                out.append('Definition ds%d_rad%d %s (%s : K) : K :=\n    %s%s.\n' % (k, wi + 1, hd, args, ''.join(pre), w[2]))
            self.ds[k]['nwit'] = len(ws)
            self.ds[k]['args'] = args
        out.append('(* Ratfun._find_residues_sub (lcapy/ratfun.py line %d): factor F[j] enters the cover-up denominator iff %s *)' % (self.res_line, self.res_sel_src))
        out.append('Definition res_sel_gen (same : bool) (oi oj : nat) : bool :=\n    %s.\n' % self.res_sel)
        out.append('(* Ratfun._find_residues_sub: divisor of the lower-order residues, source `%s` *)' % self.res_div_src)
        out.append('Definition res_div_gen {K : fld} (M O : nat) : K :=\n    %s.\n' % self.res_div)
        out.append('From Coq Require Import QArith Qcanon.')
        out.append('(* delay_factor: `%s` for a factor exp(c[0]*s + c[1]) *)' % self.delay_upd_src)
        out.append('Definition delay_upd_gen (d c0 : Qc) : Qc :=\n    %s.\n' % self.delay_upd)
        out.append('(* term(): `%s`, `%s`: the delay by which cresult / uresult are shifted *)' % (self.shift_c[1], self.shift_u[1]))
        out.append('Definition shift_c_gen (T : Qc) : Qc :=\n    %s.' % self.shift_c[0])
        out.append('Definition shift_u_gen (T : Qc) : Qc :=\n    %s.' % self.shift_u[0])
        out.append('(* term(): `%s`: position of the step *)' % self.step_d[1])
        out.append('Definition step_gen (T : Qc) : Qc :=\n    %s.' % self.step_d[0])
        out.append('(* term(), expansion fall-back: `%s`: delay re-attached to every expanded term *)' % self.fallback_d[1])
        out.append('Definition fallback_gen (T : Qc) : Qc :=\n    %s.\n' % self.fallback_d[0])
        kf = '; '.join('("%s", %s)' % (n, '"%s"' % d if d is not None else '""') for n, d in self.key_fields)
        out.append('From Coq Require Import String.\nOpen Scope string_scope.')
        out.append('(* InverseLaplaceTransformer.key: fields of the cache key with their defaults *)')
        out.append('Definition key_fields_gen : list (string * string) := [%s].' % kf)
        out.append('(* options read (kwargs.get / kwargs.pop) anywhere in InverseLaplaceTransformer, and by make() *)')
        out.append('Definition opt_reads_gen : list string := [%s].' % '; '.join('"%s"' % x for x in self.opt_reads))
        out.append('Definition make_reads_gen : list string := [%s].' % '; '.join('"%s"' % x for x in sorted(self.make_reads)))
        out.append('Close Scope string_scope.')
        return '\n'.join(out) + '\n'


if __name__ == '__main__':
    import sys
    tr = ILTTranslation(sys.argv[1] if len(sys.argv) > 1 else '/repo')
    print(tr.coq_defs())
