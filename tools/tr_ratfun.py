"""tr_ratfun — fail-closed translator (T) for property C11.

Reads the SOURCE TEXT of lcapy/ratfun.py with `ast` and extracts, for every
formatting method of class Ratfun, HOW the delay and undefined-function
factors are carried into the returned expression:

  * the literal exponent of every `sym.exp(...)` the result is multiplied by,
    as an arithmetic expression over (var, delay)  ->  Coq  `fun x d => ...`
  * whether that multiplication is guarded by `if delay != 0`
  * how many times the result is multiplied by `undef`
  * for methods returning tuples (as_QMA, as_QRPO, as_QRF, as_ZPK,
    as_B_A_delay_undef): the expression returned in the delay slot
  * the delay update `delay -= c[0]` of the module-level as_B_A_delay_undef
  * whether the conjugate partner search of as_QRF(combine_conjugates=True)
    also requires the partner to have order 1 (`oguard`).

The method bodies are run through a small ABSTRACT INTERPRETER whose values are
   D(e)   scalar arithmetic over the symbols delay / var / integers   (kept literally)
   U      the undef factor
   V      the variable
   X(exps, nundef)  an expression value: list of (exponent e, guarded?) of the
          exp factors multiplied in so far + number of undef factors; everything
          else about the value is opaque
   T(...) tuples of the above.
Recognised subset: assignments (names, tuples, self.attr), `*=`/`+=`/`-=`/`/=`,
`if <delay> != 0:` guards, `if <flag>:` on a keyword parameter fixed by the
variant, `if <name> != 1: t = Mul(name, t)` (multiplying by 1 is the identity),
other `if`s whose branches agree on all tracked values, `for` loops whose body
leaves the tracked values unchanged, `return`.  A delay value used anywhere
else than in delay arithmetic, inside exp(...), in `!= 0` tests or as a returned
component, an exp/undef-carrying value used in +,- or as a divisor, or any
statement outside the subset raises Untranslatable (treated by the check as a
broken obligation).
"""
import ast
import hashlib
import os


class Untranslatable(Exception):
    pass


def fail(node, msg):
    raise Untranslatable('lcapy/ratfun.py:%s: %s' % (getattr(node, 'lineno', '?'), msg))


# ---- abstract values ---------------------------------------------------------
class D:                      # delay arithmetic; ir = nested tuples
    def __init__(self, ir):
        self.ir = ir

    def __eq__(self, o):
        return isinstance(o, D) and self.ir == o.ir

    def __repr__(self):
        return 'D%r' % (self.ir,)


class X:
    def __init__(self, exps=(), nundef=0):
        self.exps = tuple(exps)
        self.nundef = nundef

    def __eq__(self, o):
        return isinstance(o, X) and self.exps == o.exps and self.nundef == o.nundef

    def __repr__(self):
        return 'X(%r,%d)' % (self.exps, self.nundef)

    @property
    def plain(self):
        return not self.exps and self.nundef == 0


class Tup:
    def __init__(self, items):
        self.items = list(items)

    def __eq__(self, o):
        return isinstance(o, Tup) and self.items == o.items

    def __repr__(self):
        return 'T%r' % (self.items,)


class Const:
    """a Python-level constant (bool/None/str) — keyword flags"""

    def __init__(self, v):
        self.v = v

    def __eq__(self, o):
        return isinstance(o, Const) and self.v == o.v

    def __repr__(self):
        return 'C(%r)' % (self.v,)


OPAQUE = X()
VAR = D(('var',))
DELAY = D(('delay',))
UNDEF = X((), 1)


def is_num(d):
    return isinstance(d, D) and d.ir[0] == 'num'


def has_delay(ir):
    if ir[0] == 'delay':
        return True
    return any(has_delay(x) for x in ir[1:] if isinstance(x, tuple))


def dmul(a, b):
    return D(('mul', a.ir, b.ir))


def ir_to_coq(ir):
    t = ir[0]
    if t == 'var':
        return 'x'
    if t == 'delay':
        return 'd'
    if t == 'num':
        n = ir[1]
        if n == 0:
            return '0'
        s = '(' + ' + '.join(['1'] * abs(n)) + ')'
        return s if n > 0 else '(- %s)' % s
    if t == 'neg':
        return '(- %s)' % ir_to_coq(ir[1])
    if t in ('mul', 'add', 'sub'):
        return '(%s %s %s)' % (ir_to_coq(ir[1]), {'mul': '*', 'add': '+', 'sub': '-'}[t], ir_to_coq(ir[2]))
    raise Untranslatable('internal: ir %r' % (ir,))


def ir_to_py(ir):
    t = ir[0]
    if t == 'var':
        return 'var'
    if t == 'delay':
        return 'delay'
    if t == 'num':
        return str(ir[1])
    if t == 'neg':
        return '(-%s)' % ir_to_py(ir[1])
    return '(%s %s %s)' % (ir_to_py(ir[1]), {'mul': '*', 'add': '+', 'sub': '-'}[t], ir_to_py(ir[2]))


class Ret(Exception):
    def __init__(self, v):
        self.v = v


class Interp:
    """abstract interpreter for one method of Ratfun with fixed keyword flags"""

    def __init__(self, tr, fn, flags, depth=0):
        self.tr = tr
        self.fn = fn
        self.flags = flags
        self.depth = depth
        self.returns = []

    # -- expressions
    def ev(self, e, env):
        if isinstance(e, ast.Constant):
            if isinstance(e.value, bool) or e.value is None or isinstance(e.value, str):
                return Const(e.value)
            if isinstance(e.value, int):
                return D(('num', e.value))
            return OPAQUE
        if isinstance(e, ast.Name):
            if e.id in env:
                return env[e.id]
            if e.id in self.tr.globals:
                return OPAQUE
            if e.id in ('True', 'False', 'None'):
                return Const(eval(e.id))
            fail(e, 'unbound name %s' % e.id)
        if isinstance(e, ast.Attribute):
            if isinstance(e.value, ast.Name) and e.value.id == 'self':
                key = 'self.' + e.attr
                if key in env:
                    return env[key]
                if e.attr == 'delay':
                    return DELAY
                if e.attr == 'undef':
                    return UNDEF
                if e.attr == 'var':
                    return VAR
                return OPAQUE          # B, A, Bpoly, Apoly, expr, N, D ...
            base = self.ev(e.value, env)
            self.no_delay(base, e)
            if isinstance(base, X) and not base.plain:
                fail(e, 'attribute of a value carrying exp/undef factors')
            return OPAQUE
        if isinstance(e, ast.Tuple) or isinstance(e, ast.List):
            items = [self.ev(x, env) for x in e.elts]
            if isinstance(e, ast.List):
                for it in items:
                    self.no_tracked(it, e)
                return OPAQUE
            return Tup(items)
        if isinstance(e, ast.UnaryOp):
            v = self.ev(e.operand, env)
            if isinstance(e.op, ast.USub):
                if isinstance(v, D):
                    return D(('neg', v.ir))
                self.no_tracked(v, e)
                return OPAQUE
            if isinstance(e.op, ast.Not):
                if isinstance(v, Const):
                    return Const(not v.v)
                self.no_tracked(v, e)
                return OPAQUE
            fail(e, 'unary operator')
        if isinstance(e, ast.BinOp):
            a = self.ev(e.left, env)
            b = self.ev(e.right, env)
            return self.binop(e, e.op, a, b)
        if isinstance(e, ast.Compare):
            vals = [self.ev(e.left, env)] + [self.ev(c, env) for c in e.comparators]
            for v in vals:
                if isinstance(v, X) and not v.plain:
                    pass            # comparisons do not change values
            return OPAQUE
        if isinstance(e, ast.BoolOp):
            vals = [self.ev(v, env) for v in e.values]
            if all(isinstance(v, Const) for v in vals):
                if isinstance(e.op, ast.Or):
                    return Const(any(v.v for v in vals))
                return Const(all(v.v for v in vals))
            return OPAQUE
        if isinstance(e, ast.Subscript):
            base = self.ev(e.value, env)
            self.no_tracked(base, e)
            self.no_tracked(self.ev(e.slice, env), e)
            return OPAQUE
        if isinstance(e, ast.Call):
            return self.call(e, env)
        if isinstance(e, (ast.ListComp, ast.GeneratorExp)):
            # comprehension over opaque data; must not mention tracked names
            for n in ast.walk(e):
                if isinstance(n, ast.Name) and n.id in env and n.id not in [g.target.id for g in e.generators if isinstance(g.target, ast.Name)]:
                    v = env[n.id]
                    if isinstance(v, D) and has_delay(v.ir) or (isinstance(v, X) and not v.plain):
                        fail(e, 'comprehension uses tracked value %s' % n.id)
            return OPAQUE
        if isinstance(e, ast.Starred):
            self.no_tracked(self.ev(e.value, env), e)
            return OPAQUE
        if isinstance(e, ast.IfExp):
            a = self.ev(e.body, env)
            b = self.ev(e.orelse, env)
            if a == b:
                return a
            fail(e, 'conditional expression with differing tracked values')
        fail(e, 'unsupported expression %s' % type(e).__name__)

    def no_delay(self, v, node):
        if isinstance(v, D) and has_delay(v.ir):
            fail(node, 'delay value used outside delay arithmetic / exp(...)')
        if isinstance(v, Tup):
            for it in v.items:
                self.no_delay(it, node)

    def no_tracked(self, v, node):
        self.no_delay(v, node)
        if isinstance(v, X) and not v.plain:
            fail(node, 'value carrying exp/undef factors used in an untracked position')
        if isinstance(v, Tup):
            for it in v.items:
                self.no_tracked(it, node)

    def binop(self, node, op, a, b):
        if isinstance(a, Const) or isinstance(b, Const):
            fail(node, 'arithmetic on a flag')
        if isinstance(a, Tup) or isinstance(b, Tup):
            fail(node, 'arithmetic on a tuple')
        if isinstance(a, D) and isinstance(b, D):
            if isinstance(op, ast.Mult):
                return dmul(a, b)
            if isinstance(op, ast.Add):
                return D(('add', a.ir, b.ir))
            if isinstance(op, ast.Sub):
                return D(('sub', a.ir, b.ir))
            if has_delay(a.ir) or has_delay(b.ir):
                fail(node, 'unsupported delay arithmetic')
            return OPAQUE
        # mixed with expression values: delay must not leak
        for v in (a, b):
            self.no_delay(v, node)
        xa = a if isinstance(a, X) else OPAQUE
        xb = b if isinstance(b, X) else OPAQUE
        if isinstance(op, ast.Mult):
            return X(xa.exps + xb.exps, xa.nundef + xb.nundef)
        if isinstance(op, ast.Div):
            if not xb.plain:
                fail(node, 'division by a value carrying exp/undef factors')
            return X(xa.exps, xa.nundef)
        if isinstance(op, (ast.Add, ast.Sub)):
            if not (xa.plain and xb.plain):
                fail(node, 'sum involving a value that carries exp/undef factors')
            return OPAQUE
        if isinstance(op, ast.Pow):
            if not (xa.plain and xb.plain):
                fail(node, 'power of a value carrying exp/undef factors')
            return OPAQUE
        fail(node, 'unsupported operator')

    def call(self, e, env):
        f = e.func
        args = [self.ev(a, env) for a in e.args]
        kws = {k.arg: self.ev(k.value, env) for k in e.keywords}
        name = ast.unparse(f)
        # exp(...)
        if name in ('sym.exp', 'exp'):
            if len(args) != 1:
                fail(e, 'exp arity')
            a = args[0]
            if isinstance(a, D):
                if has_delay(a.ir):
                    return X(((a.ir, False),), 0)
                return OPAQUE
            self.no_tracked(a, e)
            return OPAQUE
        if name == 'sym.Mul':
            r = OPAQUE
            for a in args:
                if isinstance(a, D):
                    self.no_delay(a, e)
                    continue
                if isinstance(a, X):
                    r = X(r.exps + a.exps, r.nundef + a.nundef)
                else:
                    self.no_tracked(a, e)
            return r
        if name == 'sym.Pow':
            for a in args:
                self.no_tracked(a, e)
            return OPAQUE
        if name in ('sympify',) and len(args) == 1:
            return args[0]
        # methods of self that carry delay/undef
        if isinstance(f, ast.Attribute) and isinstance(f.value, ast.Name) and f.value.id == 'self':
            m = f.attr
            if m == 'as_B_A_delay_undef':
                return Tup([OPAQUE, OPAQUE, DELAY, UNDEF])
            if m in self.tr.methods and m in ('as_QMA', 'as_QRPO', 'as_QRF', 'as_ZPK'):
                flags = {}
                fn = self.tr.methods[m]
                params = [a.arg for a in fn.args.args][1:]
                for i, a in enumerate(args):
                    if i < len(params) and isinstance(a, Const):
                        flags[params[i]] = a.v
                for k, v in kws.items():
                    if isinstance(v, Const):
                        flags[k] = v.v
                for a in list(args) + list(kws.values()):
                    self.no_tracked(a, e)
                return self.tr.run_method(m, flags, self.depth + 1)
            for a in list(args) + list(kws.values()):
                self.no_tracked(a, e)
            return OPAQUE
        if name == '_zp2tf':
            # result = K * prod(zeros) / prod(poles): carries the factors of K (3rd argument)
            self.tr.check_zp2tf()
            if len(args) < 3:
                fail(e, '_zp2tf arity')
            for i, a in enumerate(args):
                if i != 2:
                    if isinstance(a, D) and not has_delay(a.ir):
                        continue
                    self.no_tracked(a, e)
            k = args[2]
            if isinstance(k, X):
                return X(k.exps, k.nundef)
            self.no_delay(k, e)
            return OPAQUE
        # method call on a value: x.simplify(), x.expand(), x.cancel() keep plain values plain
        if isinstance(f, ast.Attribute):
            base = self.ev(f.value, env)
            for a in list(args) + list(kws.values()):
                self.no_tracked(a, e)
            if isinstance(base, X) and not base.plain:
                fail(e, 'method %s called on a value carrying exp/undef factors' % f.attr)
            self.no_delay(base, e)
            return OPAQUE
        # any other function: arguments must not carry tracked data
        for a in list(args) + list(kws.values()):
            if isinstance(a, D) and not has_delay(a.ir):
                continue
            self.no_tracked(a, e)
        return OPAQUE

    # -- statements
    def assign(self, target, val, env, node):
        if isinstance(target, ast.Name):
            env[target.id] = val
        elif isinstance(target, ast.Attribute) and isinstance(target.value, ast.Name) and target.value.id == 'self':
            env['self.' + target.attr] = val
        elif isinstance(target, (ast.Tuple, ast.List)):
            if isinstance(val, Tup):
                if len(val.items) != len(target.elts):
                    fail(node, 'tuple arity mismatch')
                for t, v in zip(target.elts, val.items):
                    self.assign(t, v, env, node)
            else:
                self.no_tracked(val, node)
                for t in target.elts:
                    self.assign(t, OPAQUE, env, node)
        elif isinstance(target, ast.Subscript):
            self.no_tracked(val, node)
            self.no_tracked(self.ev(target.value, env), node)
        else:
            fail(node, 'unsupported assignment target')

    def is_delay_test(self, test, env):
        """`delay != 0` / `self.delay != 0`"""
        if isinstance(test, ast.Compare) and len(test.ops) == 1 and isinstance(test.ops[0], ast.NotEq):
            l = self.ev(test.left, env)
            r = test.comparators[0]
            if isinstance(l, D) and has_delay(l.ir) and isinstance(r, ast.Constant) and r.value == 0:
                return True
        return False

    def block(self, stmts, env):
        for s in stmts:
            self.stmt(s, env)

    def tracked(self, env):
        return {k: v for k, v in env.items()}

    def stmt(self, s, env):
        if isinstance(s, ast.Expr):
            if isinstance(s.value, ast.Constant):
                return
            v = self.ev(s.value, env)      # e.g. list.append(...)
            return
        if isinstance(s, ast.Assign):
            v = self.ev(s.value, env)
            for t in s.targets:
                self.assign(t, v, env, s)
            return
        if isinstance(s, ast.AugAssign):
            cur = self.ev(s.target, env) if not isinstance(s.target, ast.Subscript) else OPAQUE
            v = self.ev(s.value, env)
            r = self.binop(s, s.op, cur, v)
            self.assign(s.target, r, env, s)
            return
        if isinstance(s, ast.Return):
            v = self.ev(s.value, env) if s.value is not None else Const(None)
            self.returns.append((v, s.lineno))
            raise Ret(v)
        if isinstance(s, ast.If):
            return self.if_stmt(s, env)
        if isinstance(s, ast.For):
            it = self.ev(s.iter, env)
            self.no_tracked(it, s)
            before = dict(env)
            self.assign(s.target, OPAQUE, env, s) if not isinstance(s.target, ast.Tuple) else [self.assign(t, OPAQUE, env, s) for t in s.target.elts]
            try:
                self.block(s.body, env)
            except Ret:
                fail(s, 'return inside a loop')
            def untracked(v):
                return v is None or isinstance(v, Const) or (isinstance(v, X) and v.plain) or (isinstance(v, D) and not has_delay(v.ir))
            for k in set(before) | set(env):
                old, new = before.get(k), env.get(k)
                if old == new:
                    continue
                if untracked(old) and untracked(new):
                    env[k] = OPAQUE       # rebinding of untracked data inside the loop
                    continue
                fail(s, 'loop body changes tracked value %s' % k)
            if s.orelse:
                fail(s, 'for-else')
            return
        if isinstance(s, (ast.Import, ast.ImportFrom, ast.Pass, ast.Break, ast.Continue)):
            return
        if isinstance(s, ast.Raise):
            raise Ret(None)
        if isinstance(s, ast.FunctionDef):
            env[s.name] = OPAQUE
            return
        fail(s, 'unsupported statement %s' % type(s).__name__)

    def run_branch(self, stmts, env):
        """returns (env', returned?)"""
        e2 = dict(env)
        try:
            self.block(stmts, e2)
        except Ret as r:
            return e2, True
        return e2, False

    def if_stmt(self, s, env):
        # 1. the delay guard
        if self.is_delay_test(s.test, env):
            if s.orelse:
                fail(s, 'else branch on a delay guard')
            e2, ret = self.run_branch(s.body, env)
            if ret:
                fail(s, 'return inside a delay guard')
            for k in set(e2) | set(env):
                old, new = env.get(k), e2.get(k)
                if old == new:
                    continue
                if isinstance(old, X) and isinstance(new, X) and new.nundef == old.nundef and new.exps[:len(old.exps)] == old.exps:
                    added = tuple((ir, True) for ir, g in new.exps[len(old.exps):])
                    env[k] = X(old.exps + added, old.nundef)
                else:
                    fail(s, 'delay guard changes %s other than by multiplying in exp(...)' % k)
            return
        # 2. a keyword flag fixed by the variant, or a constant
        tv = None
        try:
            tv = self.ev(s.test, dict(env))
        except Untranslatable:
            tv = None
        if isinstance(tv, Const):
            self.block(s.body if tv.v else s.orelse, env)
            return
        # 3. `if K != 1: t = Mul(K, t)`: multiplying by 1 is the identity, so unconditional
        if (not s.orelse and len(s.body) == 1 and isinstance(s.test, ast.Compare) and len(s.test.ops) == 1
                and isinstance(s.test.ops[0], ast.NotEq) and isinstance(s.test.left, ast.Name)
                and isinstance(s.test.comparators[0], ast.Constant) and s.test.comparators[0].value == 1):
            kname = s.test.left.id
            b = s.body[0]
            txt = ast.unparse(b)
            if isinstance(b, ast.Assign) and len(b.targets) == 1 and isinstance(b.targets[0], ast.Name):
                t = b.targets[0].id
                if txt in ('%s = sym.Mul(%s, %s, evaluate=False)' % (t, kname, t), '%s = %s * %s' % (t, kname, t), '%s = %s * %s' % (t, t, kname)):
                    self.stmt(b, env)
                    return
            if isinstance(b, ast.AugAssign) and txt.endswith('*= %s' % kname):
                self.stmt(b, env)
                return
        # 4. generic: both branches must agree on every tracked value
        e1, r1 = self.run_branch(s.body, env)
        e2, r2 = self.run_branch(s.orelse, env)
        if r1 and r2:
            raise Ret(None)
        live = [e for e, r in ((e1, r1), (e2, r2)) if not r]
        if len(live) == 2:
            for k in set(e1) | set(e2):
                a, b = e1.get(k), e2.get(k)
                if a != b:
                    def untracked(v):
                        return v is None or isinstance(v, Const) or (isinstance(v, X) and v.plain) or (isinstance(v, D) and not has_delay(v.ir))
                    if untracked(a) and untracked(b):
                        e1[k] = OPAQUE
                        e2[k] = OPAQUE
                        continue
                    fail(s, 'branches of `if %s` disagree on tracked value %s (%r vs %r)' % (ast.unparse(s.test)[:40], k, a, b))
        env.clear()
        env.update(live[0])

    def run(self):
        env = {}
        params = [a.arg for a in self.fn.args.args]
        defaults = self.fn.args.defaults
        dvals = {}
        for p, d in zip(params[len(params) - len(defaults):], defaults):
            dvals[p] = d
        for p in params:
            if p == 'self':
                continue
            if p in self.flags:
                env[p] = Const(self.flags[p])
            elif p in dvals and isinstance(dvals[p], ast.Constant) and (isinstance(dvals[p].value, bool) or dvals[p].value is None):
                env[p] = Const(dvals[p].value)
            elif p == 'var':
                env[p] = VAR
            else:
                env[p] = OPAQUE
        try:
            self.block(self.fn.body, env)
        except Ret:
            pass
        vals = [v for v, ln in self.returns if v is not None]
        if not vals:
            return None, env
        for v in vals[1:]:
            if v != vals[0]:
                # different returns: allowed only if they agree on tracked content
                fail(self.fn, 'return statements of %s disagree on tracked values: %r vs %r' % (self.fn.name, vals[0], v))
        return vals[0], env


FORMATS = [
    # (key, method, flags)
    ('canonical', 'canonical', {'factor_const': False}),
    ('canonical_fc', 'canonical', {'factor_const': True}),
    ('general', 'general', {}),
    ('standard', 'standard', {}),
    ('expandcanonical', 'expandcanonical', {}),
    ('timeconst', 'timeconst', {}),
    ('partfrac', 'partfrac', {'combine_conjugates': False}),
    ('partfrac_cc', 'partfrac', {'combine_conjugates': True}),
    ('ZPK', 'ZPK', {'combine_conjugates': False}),
    ('ZPK_cc', 'ZPK', {'combine_conjugates': True}),
]
TUPLES = [
    # (key, method, flags, index of delay in the returned tuple, index of undef)
    ('as_QMA', 'as_QMA', {}, 3, 4),
    ('as_QRPO', 'as_QRPO', {}, 4, 5),
    ('as_QRF', 'as_QRF', {'combine_conjugates': False}, 3, 4),
    ('as_QRF_cc', 'as_QRF', {'combine_conjugates': True}, 3, 4),
    ('as_ZPK', 'as_ZPK', {}, None, 3),
]

DECOMP_TEMPLATE = [
    'delay = Zero', 'undef = One', 'F = sym.factor(expr).as_ordered_factors()', 'rf = One',
    ('for', 'f', 'F', [
        'b, e = f.as_base_exp()',
        ('if', 'b == sym.E and e.is_polynomial(var)', [
            'p = sym.Poly(e, var)', 'c = p.all_coeffs()',
            ('if', 'p.degree() == 1', ['@DELAY_UPDATE', ('if', 'c[1] != 0', ['rf *= sym.exp(c[1])']), 'continue'])]),
        ('if', 'isinstance(f, AppliedUndef)', ['undef *= f', 'continue']),
        'rf *= f']),
    ('if', 'not rf.is_rational_function(var)', ['@RAISE']),
    'N, D = rf.as_numer_denom()', 'return (N, D, delay, undef)',
]


class Translator:
    def __init__(self, path):
        self.path = path
        src = open(path).read()
        self.sha = hashlib.sha256(src.encode()).hexdigest()
        self.tree = ast.parse(src)
        self.methods = {}
        self.funcs = {}
        for n in self.tree.body:
            if isinstance(n, ast.FunctionDef):
                self.funcs[n.name] = n
            if isinstance(n, ast.ClassDef) and n.name == 'Ratfun':
                for m in n.body:
                    if isinstance(m, ast.FunctionDef):
                        self.methods[m.name] = m
        if not self.methods:
            raise Untranslatable('class Ratfun not found in %s' % path)
        # module-level names (imports, functions, classes, constants) are opaque
        self.globals = set(['range', 'len', 'zip', 'enumerate', 'reversed', 'list', 'isinstance', 'max', 'tuple', 'ValueError'])
        for n in self.tree.body:
            if isinstance(n, (ast.Import, ast.ImportFrom)):
                for a in n.names:
                    self.globals.add((a.asname or a.name).split('.')[0])
            elif isinstance(n, (ast.FunctionDef, ast.ClassDef)):
                self.globals.add(n.name)
            elif isinstance(n, ast.Assign):
                for t in n.targets:
                    if isinstance(t, ast.Name):
                        self.globals.add(t.id)
        self.cache = {}
        self._zp_ok = None
        self.formats = {}
        self.tuples = {}
        self.errors = {}

    def check_zp2tf(self):
        if self._zp_ok is None:
            fn = self.funcs.get('_zp2tf')
            if fn is None:
                raise Untranslatable('_zp2tf not found')
            params = [a.arg for a in fn.args.args]
            if params[:3] != ['zeros', 'poles', 'K']:
                fail(fn, '_zp2tf signature changed')
            body = [s for s in fn.body if not (isinstance(s, ast.Expr) and isinstance(s.value, ast.Constant))]
            # K may only be passed through sympify and multiplied into the result
            kassign = [ast.unparse(s) for s in ast.walk(fn) if isinstance(s, (ast.Assign, ast.AugAssign)) and 'K' in [ast.unparse(t) for t in (s.targets if isinstance(s, ast.Assign) else [s.target])]]
            if kassign != ['K = sympify(K)']:
                fail(fn, '_zp2tf modifies K: %s' % kassign)
            rets = [ast.unparse(s) for s in ast.walk(fn) if isinstance(s, ast.Return)]
            if sorted(rets) != sorted(['return sym.Mul(*zz + pp, evaluate=False)', 'return sym.Mul(K, *zz + pp, evaluate=False)']):
                fail(fn, '_zp2tf return statements changed: %s' % rets)
            tests = [ast.unparse(s.test) for s in ast.walk(fn) if isinstance(s, ast.If)]
            if 'K == 1' not in tests:
                fail(fn, '_zp2tf: K-less return is not guarded by K == 1')
            # zz / pp are built from var - z only
            for s in ast.walk(fn):
                if isinstance(s, ast.Assign) and ast.unparse(s.targets[0]) in ('zz', 'pp'):
                    txt = ast.unparse(s.value)
                    if txt not in ('[var - z for z in zeros]', '[(var - z) ** zeros[z] for z in zeros]',
                                   '[1 / (var - p) for p in poles]', '[1 / (var - p) ** poles[p] for p in poles]'):
                        fail(s, '_zp2tf factor construction changed: %s' % txt)
            self._zp_ok = True
        return True

    def run_method(self, name, flags, depth=0):
        if depth > 6:
            raise Untranslatable('call depth')
        key = (name, tuple(sorted(flags.items())))
        if key not in self.cache:
            fn = self.methods.get(name)
            if fn is None:
                raise Untranslatable('method Ratfun.%s not found' % name)
            it = Interp(self, fn, flags, depth)
            v, env = it.run()
            if v is None:
                fail(fn, 'method %s has no return value' % name)
            self.cache[key] = v
        return self.cache[key]

    # -- as_B_A_delay_undef (module level) and __init__
    def match_block(self, stmts, template, out):
        stmts = [s for s in stmts if not (isinstance(s, ast.Expr) and isinstance(s.value, ast.Constant))]
        if len(stmts) != len(template):
            fail(stmts[0] if stmts else self.tree, 'as_B_A_delay_undef: statement count differs from the recognised shape')
        for s, t in zip(stmts, template):
            if isinstance(t, str):
                if t == '@DELAY_UPDATE':
                    if not (isinstance(s, ast.AugAssign) and isinstance(s.target, ast.Name) and s.target.id == 'delay'
                            and isinstance(s.op, (ast.Add, ast.Sub))):
                        fail(s, 'as_B_A_delay_undef: unrecognised delay update `%s`' % ast.unparse(s))
                    out['delay_update'] = (type(s.op).__name__, self.coef_ir(s.value), s.lineno, ast.unparse(s))
                elif t == '@RAISE':
                    if not isinstance(s, ast.Raise):
                        fail(s, 'as_B_A_delay_undef: expected raise')
                elif ast.unparse(s) != t:
                    fail(s, 'as_B_A_delay_undef: `%s` is not the recognised `%s`' % (ast.unparse(s), t))
            else:
                kind = t[0]
                if kind == 'for':
                    if not (isinstance(s, ast.For) and ast.unparse(s.target) == t[1] and ast.unparse(s.iter) == t[2] and not s.orelse):
                        fail(s, 'as_B_A_delay_undef: loop header changed')
                    self.match_block(s.body, t[3], out)
                elif kind == 'if':
                    if not (isinstance(s, ast.If) and ast.unparse(s.test) == t[1] and not s.orelse):
                        fail(s, 'as_B_A_delay_undef: condition `%s` is not the recognised `%s`' % (ast.unparse(s.test) if isinstance(s, ast.If) else ast.unparse(s), t[1]))
                    self.match_block(s.body, t[2], out)

    def coef_ir(self, e):
        """arithmetic over c[0] (coefficient of var) and c[1] (constant term)"""
        if isinstance(e, ast.Subscript) and ast.unparse(e.value) == 'c' and isinstance(e.slice, ast.Constant) and e.slice.value in (0, 1):
            return ('c1',) if e.slice.value == 0 else ('c0',)
        if isinstance(e, ast.UnaryOp) and isinstance(e.op, ast.USub):
            return ('neg', self.coef_ir(e.operand))
        if isinstance(e, ast.Constant) and isinstance(e.value, int):
            return ('num', e.value)
        if isinstance(e, ast.BinOp) and isinstance(e.op, (ast.Mult, ast.Add, ast.Sub)):
            return ({ast.Mult: 'mul', ast.Add: 'add', ast.Sub: 'sub'}[type(e.op)], self.coef_ir(e.left), self.coef_ir(e.right))
        fail(e, 'unrecognised delay update operand `%s`' % ast.unparse(e))

    def translate(self):
        res = {'formats': {}, 'tuples': {}, 'errors': {}}
        # decomposition
        try:
            fn = self.funcs.get('as_B_A_delay_undef')
            if fn is None or [a.arg for a in fn.args.args] != ['expr', 'var']:
                raise Untranslatable('module function as_B_A_delay_undef(expr, var) not found')
            out = {}
            self.match_block(fn.body, DECOMP_TEMPLATE, out)
            res['decomp'] = out['delay_update']
        except Untranslatable as e:
            res['errors']['decomp'] = str(e)
        # __init__: how N is assembled
        try:
            fn = self.methods['__init__']
            it = Interp(self, fn, {})
            env = {'expr': OPAQUE, 'var': VAR}
            # as_B_A_delay_undef(expr, var) is the module-level function here
            body = []
            for s in fn.body:
                if isinstance(s, ast.Assign) and ast.unparse(s) == 'self.B, self.A, self.delay, self.undef = as_B_A_delay_undef(expr, var)':
                    env['self.B'] = OPAQUE
                    env['self.A'] = OPAQUE
                    env['self.delay'] = DELAY
                    env['self.undef'] = UNDEF
                    continue
                body.append(s)
            if 'self.delay' not in env:
                fail(fn, '__init__ does not unpack as_B_A_delay_undef(expr, var) into self.B, self.A, self.delay, self.undef')
            try:
                it.block(body, env)
            except Ret:
                pass
            n = env.get('self.N')
            dd = env.get('self.D')
            if not isinstance(n, X) or not (isinstance(dd, X) and dd.plain):
                fail(fn, '__init__: self.N / self.D not recognised')
            res['formats']['init_N'] = self.att_of(n, fn.lineno)
        except Untranslatable as e:
            res['errors']['init_N'] = str(e)
        for key, m, flags in FORMATS:
            try:
                v = self.run_method(m, flags)
                if not isinstance(v, X):
                    fail(self.methods[m], '%s does not return an expression' % m)
                res['formats'][key] = self.att_of(v, self.methods[m].lineno)
            except Untranslatable as e:
                res['errors'][key] = str(e)
        for key, m, flags, di, ui in TUPLES:
            try:
                v = self.run_method(m, flags)
                if not isinstance(v, Tup):
                    fail(self.methods[m], '%s does not return a tuple' % m)
                ent = {'line': self.methods[m].lineno}
                if di is not None:
                    d = v.items[di]
                    if not isinstance(d, D):
                        fail(self.methods[m], '%s: delay slot is not a delay expression' % m)
                    ent['delay'] = d.ir
                u = v.items[ui]
                ent['undef'] = isinstance(u, X) and u.nundef == 1 and not u.exps
                if key == 'as_ZPK':
                    k = v.items[2]
                    if not isinstance(k, X):
                        fail(self.methods[m], 'as_ZPK: gain slot not recognised')
                    ent['K'] = self.att_of(X(k.exps, 1 if ent['undef'] else 0), self.methods[m].lineno)
                for i, it_ in enumerate(v.items):
                    if i not in (di, ui) and not (key == 'as_ZPK' and i == 2):
                        if not (isinstance(it_, X) and it_.plain):
                            fail(self.methods[m], '%s: slot %d carries delay/undef data' % (m, i))
                res['tuples'][key] = ent
            except Untranslatable as e:
                res['errors'][key] = str(e)
        # conjugate partner search guard in as_QRF
        try:
            res['oguard'] = self.oguard()
        except Untranslatable as e:
            res['errors']['oguard'] = str(e)
        self.result = res
        return res

    def att_of(self, v, line):
        if len(v.exps) > 1:
            raise Untranslatable('lcapy/ratfun.py:%d: more than one exp factor attached' % line)
        if v.nundef > 1:
            raise Untranslatable('lcapy/ratfun.py:%d: undef multiplied in %d times' % (line, v.nundef))
        if v.exps:
            ir, g = v.exps[0]
            return {'exp': ir, 'guard': g, 'undef': v.nundef == 1, 'line': line, 'py': ir_to_py(ir)}
        return {'exp': None, 'guard': False, 'undef': v.nundef == 1, 'line': line, 'py': None}

    def oguard(self):
        """as_QRF: shape of the partner search
             if o == 1:
                 for n in range(m + 1, len(R)):
                     qp2 = QP[n]
                     if not qp.is_conjugate_pair(qp2) [or O[n] != 1 | or O[n] != o]:
                         continue
                     [if O[n] != 1: continue]
                     rc = R[n]; R[n] = None; has_conjugate = True; break
        returns True when the partner must also have order 1"""
        fn = self.methods.get('as_QRF')
        if fn is None:
            raise Untranslatable('as_QRF not found')
        loops = [n for n in ast.walk(fn) if isinstance(n, ast.For) and ast.unparse(n.iter) == 'range(m + 1, len(R))']
        if len(loops) != 1:
            fail(fn, 'as_QRF: partner search loop not found')
        lp = loops[0]
        parent_if = [n for n in ast.walk(fn) if isinstance(n, ast.If) and lp in n.body]
        if len(parent_if) != 1 or ast.unparse(parent_if[0].test) != 'o == 1':
            fail(lp, 'as_QRF: partner search is not under `if o == 1`')
        body = [s for s in lp.body if not (isinstance(s, ast.Expr) and isinstance(s.value, ast.Constant))]
        txt = [ast.unparse(s) for s in body]
        tail = ['rc = R[n]', 'R[n] = None', 'has_conjugate = True', 'break']
        if txt[-4:] != tail or txt[0] != 'qp2 = QP[n]':
            fail(lp, 'as_QRF: partner search body changed: %s' % txt)
        mids = body[1:-4]
        guard = False
        seen_conj = False
        ORDER = ('O[n] != 1', 'O[n] != o', 'o != O[n]', '1 != O[n]')
        for s in mids:
            if not (isinstance(s, ast.If) and not s.orelse and [ast.unparse(b) for b in s.body] == ['continue']):
                fail(s, 'as_QRF: unrecognised statement in the partner search')
            t = s.test
            parts = t.values if isinstance(t, ast.BoolOp) and isinstance(t.op, ast.Or) else [t]
            for p in parts:
                u = ast.unparse(p)
                if u == 'not qp.is_conjugate_pair(qp2)':
                    seen_conj = True
                elif u in ORDER:
                    guard = True
                else:
                    fail(s, 'as_QRF: unrecognised partner condition `%s`' % u)
        if not seen_conj:
            fail(lp, 'as_QRF: conjugate test missing')
        return guard

    # ---- Coq generation
    def coq(self):
        r = self.result
        out = ['(* GENERATED from %s (sha256 %s) by tools/tr_ratfun.py.' % (self.path, self.sha),
               '   How each method of Ratfun re-attaches exp(...delay...) and undef.  Do not edit. *)',
               'Require Import LT.FieldSec LT.PolyQ LT.RatfunFmt.', 'Local Open Scope F_scope.', '']
        names = []
        for key, a in sorted(r['formats'].items()):
            e = ir_to_coq(a['exp']) if a['exp'] is not None else '0'
            out.append('(* Ratfun.%s (line %d): exp(%s)%s, undef x%d *)' % (key, a['line'], a['py'], ' if delay != 0' if a['guard'] else '', 1 if a['undef'] else 0))
            out.append('Definition att_%s (K : fld) : attach K := Att (fun x d : K => %s) %s %s.\n' % (
                key, e, 'true' if a['guard'] else 'false', 'true' if a['undef'] else 'false'))
            names.append('att_' + key)
        if 'as_ZPK' in r['tuples']:
            a = r['tuples']['as_ZPK']['K']
            e = ir_to_coq(a['exp']) if a['exp'] is not None else '0'
            out.append('(* Ratfun.as_ZPK: gain K carries exp(%s) *)' % a['py'])
            out.append('Definition att_as_ZPK (K : fld) : attach K := Att (fun x d : K => %s) %s %s.\n' % (
                e, 'true' if a['guard'] else 'false', 'true' if a['undef'] else 'false'))
        for key, t in sorted(r['tuples'].items()):
            if 'delay' in t:
                out.append('(* Ratfun.%s: delay slot = %s *)' % (key, ir_to_py(t['delay'])))
                out.append('Definition dslot_%s (K : fld) (x d : K) : K := %s.\n' % (key, ir_to_coq(t['delay'])))
            out.append('Definition uslot_%s : bool := %s.\n' % (key, 'true' if t['undef'] else 'false'))
        if 'decomp' in r:
            op, ir, line, txt = r['decomp']
            def c2(ir):
                t = ir[0]
                if t == 'c1':
                    return 'c1'
                if t == 'c0':
                    return 'c0'
                if t == 'num':
                    return ir_to_coq(ir)
                if t == 'neg':
                    return '(- %s)' % c2(ir[1])
                return '(%s %s %s)' % (c2(ir[1]), {'mul': '*', 'add': '+', 'sub': '-'}[t], c2(ir[2]))
            out.append('(* as_B_A_delay_undef (line %d): `%s`, c = all_coeffs() of the exponent: c[0] = c1 (coefficient of var), c[1] = c0 *)' % (line, txt))
            out.append('Definition dupd (K : fld) (dl c1 c0 : K) : K := dl %s %s.\n' % ('-' if op == 'Sub' else '+', c2(ir)))
        if 'oguard' in r:
            out.append('(* as_QRF: conjugate partner must have order 1? *)')
            out.append('Definition qrf_oguard : bool := %s.\n' % ('true' if r['oguard'] else 'false'))
        if 'pair_conjugates' in r:
            out.append(pair_conjugates_coq(r['pair_conjugates']))
        return '\n'.join(out) + '\n'


# ---- lcapy/root.py: pair_conjugates --------------------------------------------------
def nat_ir(e):
    """arithmetic over the multiplicities o1, o2 (natural numbers)"""
    if isinstance(e, ast.Name) and e.id in ('o1', 'o2'):
        return e.id
    if isinstance(e, ast.Constant) and isinstance(e.value, int) and e.value >= 0:
        return '%d' % e.value
    if isinstance(e, ast.BinOp) and isinstance(e.op, (ast.Add, ast.Sub, ast.Mult)):
        return '(%s %s %s)' % (nat_ir(e.left), {ast.Add: '+', ast.Sub: '-', ast.Mult: '*'}[type(e.op)], nat_ir(e.right))
    raise Untranslatable('lcapy/root.py:%s: unrecognised multiplicity expression `%s`' % (getattr(e, 'lineno', '?'), ast.unparse(e)))


def translate_pair_conjugates(repo):
    """pair_conjugates(roots_dict): for a root and a LATER root that are conjugates, both are removed from the
    singles and, depending on o1 ? o2, a pair of some order is recorded and a leftover is credited to `root`
    and/or `root_c`.  Returns {'eq'|'gt'|'lt': (pair order, leftover of root, leftover of root_c)} as Coq nat
    expressions over o1 o2 (the three branches of `if o1 == o2 / elif o1 > o2 / else`).  Fail-closed."""
    path = os.path.join(repo, 'lcapy', 'root.py')
    tree = ast.parse(open(path).read())
    fn = None
    for n in tree.body:
        if isinstance(n, ast.FunctionDef) and n.name == 'pair_conjugates':
            fn = n

    def bad(node, msg):
        raise Untranslatable('lcapy/root.py:%s: pair_conjugates: %s' % (getattr(node, 'lineno', '?'), msg))
    if fn is None:
        raise Untranslatable('lcapy/root.py: pair_conjugates not found')
    body = [x for x in fn.body if not (isinstance(x, ast.Expr) and isinstance(x.value, ast.Constant))]
    txt = [ast.unparse(x) for x in body]
    want_head = ['root_single_dict = roots_dict.copy()', 'root_pair_dict = {}', 'root_list = list(roots_dict)', 'P = {}']
    if txt[:4] != want_head or txt[-1] != 'return (root_pair_dict, root_single_dict)' or len(body) != 7:
        bad(fn, 'outer shape changed: %s' % [t.split('\n')[0] for t in txt])
    if ast.unparse(body[4]) != 'for root in root_list:\n    P[root] = Root(root, 1, damping=damping)':
        bad(body[4], 'construction of P changed')
    lp = body[5]
    if not (isinstance(lp, ast.For) and ast.unparse(lp.target) == '(i, root)' and ast.unparse(lp.iter) == 'enumerate(root_list)' and not lp.orelse):
        bad(lp, 'outer loop changed')
    b1 = [x for x in lp.body if not (isinstance(x, ast.Expr) and isinstance(x.value, ast.Constant))]
    if len(b1) != 2 or ast.unparse(b1[0]) != 'p = P[root]':
        bad(lp, 'outer loop body changed')
    lp2 = b1[1]
    if not (isinstance(lp2, ast.For) and ast.unparse(lp2.target) == 'root_c' and ast.unparse(lp2.iter) == 'root_list[i + 1:]' and not lp2.orelse):
        bad(lp2, 'inner loop changed')
    b2 = lp2.body
    if len(b2) != 2 or ast.unparse(b2[0]) != 'pc = P[root_c]' or not isinstance(b2[1], ast.If) or ast.unparse(b2[1].test) != 'p.is_conjugate_pair(pc)' or b2[1].orelse:
        bad(lp2, 'conjugate test changed')
    b3 = b2[1].body
    t3 = [ast.unparse(x) for x in b3[:4]]
    if t3 != ['root_single_dict.pop(root, None)', 'root_single_dict.pop(root_c, None)', 'o1 = roots_dict[root]', 'o2 = roots_dict[root_c]'] or len(b3) != 5:
        bad(b2[1], 'prelude of the pairing step changed: %s' % t3)
    top = b3[4]
    if not (isinstance(top, ast.If) and ast.unparse(top.test) == 'o1 == o2' and len(top.orelse) == 1 and isinstance(top.orelse[0], ast.If)
            and ast.unparse(top.orelse[0].test) == 'o1 > o2' and top.orelse[0].orelse):
        bad(top, 'branch structure is not `if o1 == o2 / elif o1 > o2 / else`')

    def branch(stmts):
        pair, lr, lc = '0', '0', '0'
        for st in stmts:
            if not (isinstance(st, ast.Assign) and len(st.targets) == 1 and isinstance(st.targets[0], ast.Subscript)):
                bad(st, 'unrecognised statement `%s`' % ast.unparse(st))
            tgt = ast.unparse(st.targets[0])
            val = nat_ir(st.value)
            if tgt == 'root_pair_dict[root, root_c]':
                pair = val
            elif tgt == 'root_single_dict[root]':
                lr = val
            elif tgt == 'root_single_dict[root_c]':
                lc = val
            else:
                bad(st, 'unrecognised target `%s`' % tgt)
        return pair, lr, lc
    return {'eq': branch(top.body), 'gt': branch(top.orelse[0].body), 'lt': branch(top.orelse[0].orelse),
            'line': top.lineno, 'sha': hashlib.sha256(open(path, 'rb').read()).hexdigest()}


def pair_conjugates_coq(pc):
    out = ['(* lcapy/root.py pair_conjugates (line %d, sha256 %s): (pair order, leftover credited to root, leftover credited to root_c) *)' % (pc['line'], pc['sha'][:16])]
    for k in ('eq', 'gt', 'lt'):
        out.append('Definition pc_%s (o1 o2 : nat) : nat * nat * nat := ((%s)%%nat, (%s)%%nat, (%s)%%nat).' % ((k,) + pc[k]))
    return '\n'.join(out) + '\n'


def translate(repo):
    tr = Translator(os.path.join(repo, 'lcapy', 'ratfun.py'))
    tr.translate()
    try:
        tr.result['pair_conjugates'] = translate_pair_conjugates(repo)
    except Untranslatable as e:
        tr.result['errors']['pair_conjugates'] = str(e)
    return tr


if __name__ == '__main__':
    import sys
    import json
    t = translate(sys.argv[1] if len(sys.argv) > 1 else '/repo')
    print(json.dumps(t.result, indent=1, default=str))
    print(t.coq())
