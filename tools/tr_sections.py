"""Fail-closed translator (extension of tools/tr_twoport.py): the two-port
*section* layer of lcapy/twoport.py -> Coq.

  (1) @classmethod section constructors of the matrix classes
        AMatrix/BMatrix: Zseries Yseries Yshunt Zshunt transformer gyrator Lsection Tsection Pisection
        ZMatrix        : Tsection Pisection Lsection
      -> Definition <K>_ctor_<name> (Z0 : K) (p_<arg> ...) : mat K
  (2) Series / SeriesAlt / Shunt / IdealTransformer / IdealGyrator .__init__
      (which matrix constructor, of which one-port quantity; V2b / I2b)
  (3) Chain.__init__ (B product and source-vector fold, ORDER) by symbolic
      execution for the two arguments that _check_twoport_args admits
  (4) Par2 / Ser2 / Hybrid2 / InverseHybrid2 .__init__ : which parameter set is summed
  (5) LSection LSectionAlt TSection PiSection SeriesPair CSection HSection BoxSection
      : the chain expression assigned to self.tp;  Ladder / LadderAlt : the loop

Recognised subset for (1): docstring | `if not isinstance(x, T): raise ..`
  | x = ConstantDomainExpression(x) | x = expr(x) | x = <scalar expr>
  | a, b, c = F(x, y, z) with F a module-level function `v = e; return (e1, e2, e3)`
  | a, b, c = e1, e2, e3
  | return cls(((a, b), (c, d))) | return cls.<ctor>(args) | <mat>.chain(<mat>)
Everything else raises Untranslatable (the constructor is then listed as
unsupported, which the check treats as a broken obligation unless the real
constructor raises as well).
"""
import ast
import os
import sys

sys.path.insert(0, os.path.dirname(os.path.abspath(__file__)))
import tr_twoport as T
from tr_twoport import Untranslatable, fail
T.SCALAR_WRAPPERS.update({'LaplaceDomainCurrent', 'LaplaceDomainVoltage'})
_prev_coq = T.Translator.coq


def _coq_param(self, ir, selfname='m'):
    if ir[0] == 'param':
        return 'p_' + ir[1]
    return _prev_coq(self, ir, selfname)


T.Translator.coq = _coq_param

CTORS = ['Zseries', 'Yseries', 'Yshunt', 'Zshunt', 'transformer', 'gyrator', 'Lsection', 'Tsection', 'Pisection']
CTOR_KINDS = {'A': CTORS, 'B': CTORS, 'Z': ['Tsection', 'Pisection', 'Lsection']}
IDENT = {'ConstantDomainExpression', 'expr', 'LaplaceDomainExpression', 'LaplaceDomainImpedance', 'LaplaceDomainAdmittance',
         'LaplaceDomainVoltage', 'LaplaceDomainCurrent'}
SECTION_CLASSES = ['SeriesPair', 'LSection', 'LSectionAlt', 'TSection', 'PiSection', 'CSection', 'HSection', 'BoxSection']


def nodoc(body):
    return [s for s in body if not (isinstance(s, ast.Expr) and isinstance(s.value, ast.Constant))]


class SectionTranslator:
    def __init__(self, tr):
        """tr: a tr_twoport.Translator (with .chains filled in by checks/c08.translate)"""
        self.tr = tr
        self.tree = ast.parse(tr.src)
        self.funcs = {n.name: n for n in self.tree.body if isinstance(n, ast.FunctionDef)}
        self.classes = tr.classes
        self.ctors = {}        # (kind, name) -> (params, ir)
        self.ctor_err = {}     # (kind, name) -> reason
        self.elems = {}        # class -> dict
        self.chain = None
        self.sums = {}
        self.sections = {}
        self.ladders = {}
        self.unsupported = {}

    # ---- (1) section constructors -------------------------------------------------
    def chain_ir(self, kind, a, b):
        owner, fn = self.tr.resolve(kind, 'chain')
        if fn is None:
            raise Untranslatable('%sMatrix has no chain' % kind)
        body = nodoc(fn.body)
        if len(body) != 1:
            fail(fn, 'unsupported chain')
        u = ast.unparse(body[0])
        if u == 'return self * TP':
            return ('mmul', a, b)
        if u == 'return TP * self':
            return ('mmul', b, a)
        fail(fn, 'unsupported chain')

    def classmethod_of(self, kind, name):
        cname = kind + 'Matrix'
        for n in self.classes[cname].body:
            if isinstance(n, ast.FunctionDef) and n.name == name:
                if not any(isinstance(d, ast.Name) and d.id == 'classmethod' for d in n.decorator_list):
                    fail(n, 'not a classmethod')
                return n
        return None

    def lower_ctor(self, kind, name, argirs, depth=0):
        if depth > 6:
            raise Untranslatable('constructor recursion too deep')
        fn = self.classmethod_of(kind, name)
        if fn is None:
            raise Untranslatable('%sMatrix.%s not found' % (kind, name))
        params = [a.arg for a in fn.args.args]
        if params[0] != 'cls' or fn.args.defaults or fn.args.vararg or fn.args.kwarg:
            fail(fn, 'unexpected signature')
        params = params[1:]
        if len(params) != len(argirs):
            raise Untranslatable('lcapy/twoport.py:%d: %sMatrix.%s takes %d arguments, %d given (TypeError at run time)'
                                 % (fn.lineno, kind, name, len(params), len(argirs)))
        env = dict(zip(params, argirs))
        for st in nodoc(fn.body):
            if isinstance(st, ast.If):
                t = ast.unparse(st.test)
                if t.startswith('not isinstance(') and len(st.body) == 1 and isinstance(st.body[0], ast.Raise) and not st.orelse:
                    continue
                fail(st, 'unsupported if')
            if isinstance(st, ast.Assign) and len(st.targets) == 1:
                tg = st.targets[0]
                if isinstance(tg, ast.Name):
                    env[tg.id] = self.scalar(kind, st.value, env, depth)
                    continue
                if isinstance(tg, ast.Tuple) and all(isinstance(e, ast.Name) for e in tg.elts):
                    vals = self.tuple_value(kind, st.value, env, depth)
                    if len(vals) != len(tg.elts):
                        fail(st, 'tuple arity')
                    for e, v in zip(tg.elts, vals):
                        env[e.id] = v
                    continue
                fail(st, 'unsupported assignment')
            if isinstance(st, ast.Return):
                return params, self.matrix(kind, st.value, env, depth)
            fail(st, 'unsupported statement')
        fail(fn, 'no return')

    def tuple_value(self, kind, e, env, depth):
        if isinstance(e, ast.Tuple):
            return [self.scalar(kind, x, env, depth) for x in e.elts]
        if isinstance(e, ast.Call) and isinstance(e.func, ast.Name) and e.func.id in self.funcs and not e.keywords:
            fn = self.funcs[e.func.id]
            ps = [a.arg for a in fn.args.args]
            if len(ps) != len(e.args) or fn.args.defaults:
                fail(e, 'arity')
            fenv = {p: self.scalar(kind, a, env, depth) for p, a in zip(ps, e.args)}
            for st in nodoc(fn.body):
                if isinstance(st, ast.Assign) and len(st.targets) == 1 and isinstance(st.targets[0], ast.Name):
                    fenv[st.targets[0].id] = self.scalar(kind, st.value, fenv, depth)
                    continue
                if isinstance(st, ast.Return) and isinstance(st.value, ast.Tuple):
                    return [self.scalar(kind, x, fenv, depth) for x in st.value.elts]
                fail(st, 'unsupported statement in ' + fn.name)
        fail(e, 'unsupported tuple value')

    def scalar(self, kind, e, env, depth):
        if isinstance(e, ast.Constant):
            if isinstance(e.value, int) and not isinstance(e.value, bool) and 0 <= e.value <= 16:
                return ('num', e.value)
            fail(e, 'unsupported constant')
        if isinstance(e, ast.Name):
            if e.id in env:
                return env[e.id]
            fail(e, 'unknown name')
        if isinstance(e, ast.UnaryOp) and isinstance(e.op, ast.USub):
            return ('neg', self.scalar(kind, e.operand, env, depth))
        if isinstance(e, ast.BinOp):
            op = {ast.Add: 'add', ast.Sub: 'sub', ast.Mult: 'mul', ast.Div: 'div'}.get(type(e.op))
            if op is None:
                fail(e, 'unsupported operator')
            return (op, self.scalar(kind, e.left, env, depth), self.scalar(kind, e.right, env, depth))
        if isinstance(e, ast.Call) and isinstance(e.func, ast.Name) and e.func.id in IDENT and len(e.args) == 1 and not e.keywords:
            return self.scalar(kind, e.args[0], env, depth)
        fail(e, 'unsupported scalar expression')

    def matrix(self, kind, e, env, depth):
        if isinstance(e, ast.Call):
            f = e.func
            if isinstance(f, ast.Name) and f.id == 'cls' and len(e.args) == 1 and not e.keywords:
                a = e.args[0]
                if isinstance(a, ast.Tuple) and len(a.elts) == 2 and all(isinstance(r, ast.Tuple) and len(r.elts) == 2 for r in a.elts):
                    return ('lit',) + tuple(self.scalar(kind, c, env, depth) for r in a.elts for c in r.elts)
                fail(e, 'unsupported matrix literal')
            if isinstance(f, ast.Attribute) and isinstance(f.value, ast.Name) and f.value.id == 'cls' and not e.keywords:
                args = [self.scalar(kind, a, env, depth) for a in e.args]
                _, ir = self.lower_ctor(kind, f.attr, args, depth + 1)
                return ir
            if isinstance(f, ast.Attribute) and f.attr in ('chain', 'cascade') and len(e.args) == 1 and not e.keywords:
                a = self.matrix(kind, f.value, env, depth)
                b = self.matrix(kind, e.args[0], env, depth)
                return self.chain_ir(kind, a, b)
        fail(e, 'unsupported matrix expression')

    def translate_ctors(self):
        for kind, names in CTOR_KINDS.items():
            for nm in names:
                fn = self.classmethod_of(kind, nm)
                if fn is None:
                    continue
                params = [a.arg for a in fn.args.args][1:]
                try:
                    ps, ir = self.lower_ctor(kind, nm, [('param', p) for p in params])
                    self.ctors[(kind, nm)] = (ps, ir)
                except Untranslatable as ex:
                    self.ctor_err[(kind, nm)] = str(ex)

    # ---- (2) elementary two-ports ----------------------------------------------------
    def init_of(self, cname):
        if cname not in self.classes:
            raise Untranslatable('class %s not found' % cname)
        for n in self.classes[cname].body:
            if isinstance(n, ast.FunctionDef) and n.name == '__init__':
                return n
        raise Untranslatable('%s.__init__ not found' % cname)

    def super_call(self, cname, fn):
        for st in nodoc(fn.body):
            if isinstance(st, ast.Expr) and isinstance(st.value, ast.Call) and isinstance(st.value.func, ast.Attribute) \
                    and st.value.func.attr == '__init__':
                head = ast.unparse(st.value.func.value)
                if head not in ('super(%s, self)' % cname, 'super()'):
                    raise Untranslatable('lcapy/twoport.py:%d: %s.__init__ calls %s.__init__ (TypeError at run time)'
                                         % (st.lineno, cname, head))
                return st.value
        fail(fn, 'no super().__init__ call')

    def op_atom(self, e, opname):
        """OP.Z.laplace() / OP.Y.laplace() / OP.Voc.laplace() / OP.Isc.laplace() / 0 (through identity wrappers)"""
        while isinstance(e, ast.Call) and isinstance(e.func, ast.Name) and e.func.id in IDENT and len(e.args) == 1:
            e = e.args[0]
        if isinstance(e, ast.UnaryOp) and isinstance(e.op, ast.USub):
            return ('neg', self.op_atom(e.operand, opname))
        u = ast.unparse(e)
        for q in ('Z', 'Y', 'Voc', 'Isc'):
            if u == '%s.%s.laplace()' % (opname, q):
                return ('param', 'op' + q)
        if u == '0':
            return ('num', 0)
        fail(e, 'unsupported one-port quantity')

    def translate_elems(self):
        for cname in ('Series', 'SeriesAlt', 'Shunt'):
            fn = self.init_of(cname)
            ps = [a.arg for a in fn.args.args][1:]
            if len(ps) != 1:
                fail(fn, 'unexpected signature')
            call = self.super_call(cname, fn)
            if len(call.args) != 1 or set(k.arg for k in call.keywords) != {'V2b', 'I2b'}:
                fail(call, 'unsupported super().__init__ arguments')
            m = call.args[0]
            if not (isinstance(m, ast.Call) and isinstance(m.func, ast.Attribute) and ast.unparse(m.func.value) == 'BMatrix'
                    and len(m.args) == 1):
                fail(m, 'unsupported matrix argument')
            arg = self.op_atom(m.args[0], ps[0])
            _, ir = self.lower_ctor('B', m.func.attr, [arg])
            kw = {k.arg: self.op_atom(k.value, ps[0]) for k in call.keywords}
            self.elems[cname] = {'B': ir, 'V2b': kw['V2b'], 'I2b': kw['I2b'], 'ctor': m.func.attr, 'line': fn.lineno}
        for cname, ctor in (('IdealTransformer', 'transformer'), ('IdealGyrator', 'gyrator')):
            fn = self.init_of(cname)
            call = self.super_call(cname, fn)
            ps = [a.arg for a in fn.args.args][1:]
            if len(call.args) != 1 or call.keywords or ast.unparse(call.args[0]) != 'BMatrix.%s(%s)' % (ctor, ps[0]):
                fail(call, 'unsupported super().__init__ arguments')
            _, ir = self.lower_ctor('B', ctor, [('param', 'x')])
            self.elems[cname] = {'B': ir, 'V2b': ('num', 0), 'I2b': ('num', 0), 'ctor': ctor, 'line': fn.lineno}

    # ---- (3) Chain.__init__ by symbolic execution for args = (a, b) ------------------
    def check_two_args(self):
        for n in self.classes['TwoPort'].body:
            if isinstance(n, ast.FunctionDef) and n.name == '_check_twoport_args':
                b = nodoc(n.body)
                if b and isinstance(b[0], ast.If) and ast.unparse(b[0].test) == 'len(args) != 2' \
                        and isinstance(b[0].body[0], ast.Raise):
                    return
                fail(n, '_check_twoport_args no longer restricts to two arguments')
        raise Untranslatable('_check_twoport_args not found')

    def translate_chain(self):
        self.check_two_args()
        fn = self.init_of('Chain')
        if fn.args.vararg is None or fn.args.vararg.arg != 'args' or len(fn.args.args) != 1:
            fail(fn, 'unexpected signature')
        env = {}
        ARGS = ['a', 'b']

        def tpref(e):
            """expression denoting one of the two-port arguments -> 'a' | 'b'"""
            u = ast.unparse(e)
            if u == 'args[-1]' or u == 'args[1]':
                return 'b'
            if u == 'args[0]':
                return 'a'
            if isinstance(e, ast.Name) and e.id in env and env[e.id][0] == 'tp':
                return env[e.id][1]
            fail(e, 'not a two-port argument')

        def val(e):
            if isinstance(e, ast.Attribute):
                if e.attr == 'Bparams':
                    return ('mat', 'tB ' + tpref(e.value))
                if e.attr in ('V2b', 'I2b'):
                    return ('sc', '(t%s %s)' % (e.attr, tpref(e.value)))
            if isinstance(e, ast.Name) and e.id in env:
                return env[e.id]
            if isinstance(e, ast.Call) and isinstance(e.func, ast.Name) and e.func.id == 'Vector' and len(e.args) == 1 \
                    and isinstance(e.args[0], ast.Tuple) and len(e.args[0].elts) == 2:
                x, y = [val(z) for z in e.args[0].elts]
                if x[0] != 'sc' or y[0] != 'sc':
                    fail(e, 'vector of non-scalars')
                return ('vec', x[1], y[1])
            if isinstance(e, ast.BinOp) and isinstance(e.op, ast.Mult):
                l, r = val(e.left), val(e.right)
                if l[0] == 'mat' and r[0] == 'vec':
                    m = '(%s)' % l[1]
                    return ('vec', '(m11 %s * %s + m12 %s * %s)' % (m, r[1], m, r[2]), '(m21 %s * %s + m22 %s * %s)' % (m, r[1], m, r[2]))
                if l[0] == 'mat' and r[0] == 'mat':
                    return ('mat', 'mmul (%s) (%s)' % (l[1], r[1]))
            if isinstance(e, ast.Subscript) and isinstance(e.value, ast.Name) and e.value.id in env and env[e.value.id][0] == 'vec':
                ix = ast.unparse(e.slice)
                if ix in ('0, 0', '(0, 0)'):
                    return ('sc', env[e.value.id][1])
                if ix in ('1, 0', '(1, 0)'):
                    return ('sc', env[e.value.id][2])
            if isinstance(e, ast.Call) and isinstance(e.func, ast.Name) and e.func.id in IDENT and len(e.args) == 1:
                return val(e.args[0])
            fail(e, 'unsupported expression in Chain.__init__')

        def run(stmts):
            for st in stmts:
                u = ast.unparse(st)
                if u == 'self._check_twoport_args(args)' or u == 'self.args = args':
                    continue
                if isinstance(st, ast.Assign) and len(st.targets) == 1 and isinstance(st.targets[0], ast.Name):
                    nm = st.targets[0].id
                    try:
                        env[nm] = ('tp', tpref(st.value))
                    except Untranslatable:
                        env[nm] = val(st.value)
                    continue
                if isinstance(st, ast.AugAssign) and isinstance(st.op, ast.Add) and isinstance(st.target, ast.Name):
                    cur, inc = env[st.target.id], val(st.value)
                    if cur[0] != 'vec' or inc[0] != 'vec':
                        fail(st, 'unsupported +=')
                    env[st.target.id] = ('vec', '(%s + %s)' % (cur[1], inc[1]), '(%s + %s)' % (cur[2], inc[2]))
                    continue
                if isinstance(st, ast.For) and isinstance(st.target, ast.Name) and not st.orelse:
                    it = ast.unparse(st.iter)
                    if it == 'reversed(args[0:-1])' or it == 'reversed(args[:-1])':
                        seq = ['a']
                    elif it == 'args[1:]':
                        seq = ['b']
                    else:
                        fail(st, 'unsupported loop')
                    for x in seq:
                        env[st.target.id] = ('tp', x)
                        run(st.body)
                    continue
                if isinstance(st, ast.Expr) and isinstance(st.value, ast.Call) and ast.unparse(st.value.func).endswith('__init__'):
                    c = st.value
                    if ast.unparse(c.func.value) not in ('super(Chain, self)', 'super()'):
                        fail(st, 'unexpected super()')
                    if len(c.args) != 1 or set(k.arg for k in c.keywords) != {'V2b', 'I2b'}:
                        fail(st, 'unsupported super().__init__ arguments')
                    m = val(c.args[0])
                    kw = {k.arg: val(k.value) for k in c.keywords}
                    if m[0] != 'mat' or kw['V2b'][0] != 'sc' or kw['I2b'][0] != 'sc':
                        fail(st, 'unsupported super().__init__ values')
                    self.chain = {'B': m[1], 'V2b': kw['V2b'][1], 'I2b': kw['I2b'][1], 'line': fn.lineno}
                    continue
                fail(st, 'unsupported statement in Chain.__init__')
        run(nodoc(fn.body))
        if self.chain is None:
            fail(fn, 'no super().__init__')
        # TwoPort.chain(self, TP) must build Chain(self, TP)
        for n in self.classes['TwoPort'].body:
            if isinstance(n, ast.FunctionDef) and n.name == 'chain':
                b = nodoc(n.body)
                if ast.unparse(b[-1]) != 'return Chain(self, TP)':
                    fail(n, 'TwoPort.chain is not Chain(self, TP)')

    # ---- (4) Par2 / Ser2 / Hybrid2 / InverseHybrid2 ------------------------------------
    def translate_sums(self):
        for cname in ('Par2', 'Ser2', 'Hybrid2', 'InverseHybrid2'):
            fn = self.init_of(cname)
            kind = None
            first = None
            loop = None
            for st in nodoc(fn.body):
                u = ast.unparse(st)
                if isinstance(st, ast.Assign) and len(st.targets) == 1 and isinstance(st.value, ast.Attribute) \
                        and st.value.attr.endswith('params') and ast.unparse(st.value.value) == 'arg':
                    kind = st.value.attr[0]
                    first = ast.unparse(st.targets[0])
                if isinstance(st, ast.For) and ast.unparse(st.iter) == 'args[1:]':
                    for s2 in st.body:
                        if isinstance(s2, ast.AugAssign) and isinstance(s2.op, ast.Add) and ast.unparse(s2.target) == first \
                                and ast.unparse(s2.value) == 'arg.%sparams' % kind:
                            loop = True
                        elif isinstance(s2, ast.AugAssign) and not isinstance(s2.op, ast.Add):
                            fail(s2, 'unsupported accumulation')
            call = self.super_call(cname, fn)
            base = [ast.unparse(b) for b in self.classes[cname].bases]
            if kind is None or not loop or len(call.args) != 1 or ast.unparse(call.args[0]) != first \
                    or base != ['TwoPort%sModel' % kind]:
                fail(fn, 'unsupported parameter accumulation in %s.__init__' % cname)
            if 'arg = args[0]' not in [ast.unparse(s) for s in nodoc(fn.body)]:
                fail(fn, 'first argument not taken from args[0]')
            # the two source entries are accumulated the same way and handed to the model constructor
            own = self.SRC_OWN[kind]
            kws = {k.arg: ast.unparse(k.value) for k in call.keywords}
            u_all = [ast.unparse(s_) for s_ in nodoc(fn.body)]
            loop_u = []
            for st in nodoc(fn.body):
                if isinstance(st, ast.For):
                    loop_u = [ast.unparse(x) for x in st.body]
            src_ok = all(('%s = arg.%s' % (o, o)) in u_all and ('%s += arg.%s' % (o, o)) in loop_u and kws.get(o) == o for o in own)
            self.sums[cname] = {'kind': kind, 'line': fn.lineno, 'src_ok': src_ok}

    # ---- (5) compound sections -----------------------------------------------------------
    def tp_expr(self, e, params):
        """Series(OPk) | Shunt(OPk) | SeriesAlt | SeriesPair(OPi, OPj) | X.chain(Y)  ->  Coq term over the one-port data o_<name>"""
        if isinstance(e, ast.Call) and isinstance(e.func, ast.Name) and e.func.id in ('Series', 'SeriesAlt', 'Shunt') \
                and len(e.args) == 1 and isinstance(e.args[0], ast.Name) and e.args[0].id in params:
            return '(tp_%s Z0 o_%s)' % (e.func.id, e.args[0].id)
        if isinstance(e, ast.Call) and isinstance(e.func, ast.Name) and e.func.id == 'SeriesPair' and len(e.args) == 2 \
                and all(isinstance(a, ast.Name) and a.id in params for a in e.args):
            return '(tp_SeriesPair Z0 o_%s o_%s)' % (e.args[0].id, e.args[1].id)
        if isinstance(e, ast.Call) and isinstance(e.func, ast.Attribute) and e.func.attr == 'chain' and len(e.args) == 1:
            return '(tp_Chain %s %s)' % (self.tp_expr(e.func.value, params), self.tp_expr(e.args[0], params))
        fail(e, 'unsupported section expression')

    def translate_sections(self):
        for cname in SECTION_CLASSES:
            try:
                fn = self.init_of(cname)
                params = [a.arg for a in fn.args.args][1:]
                tp = None
                for st in nodoc(fn.body):
                    if isinstance(st, ast.Assign) and ast.unparse(st.targets[0]) == 'self.tp':
                        tp = self.tp_expr(st.value, params)
                call = self.super_call(cname, fn)
                if tp is None or len(call.args) != 1 or ast.unparse(call.args[0]) != 'self.tp' or call.keywords:
                    fail(fn, 'unsupported section constructor')
                self.sections[cname] = {'params': params, 'tp': tp, 'line': fn.lineno}
            except Untranslatable as ex:
                self.unsupported[cname] = str(ex)
        for cname in ('Ladder', 'LadderAlt'):
            fn = self.init_of(cname)
            b = nodoc(fn.body)
            u = [ast.unparse(s) for s in b]
            first = None
            odd = even = None
            for st in b:
                if isinstance(st, ast.Assign) and ast.unparse(st.targets[0]) == 'self.tp' and isinstance(st.value, ast.Call) \
                        and isinstance(st.value.func, ast.Name) and ast.unparse(st.value.args[0]) == 'OP1':
                    first = st.value.func.id
                if isinstance(st, ast.For) and ast.unparse(st.target) == '(m, arg)' and ast.unparse(st.iter) == 'enumerate(args)' \
                        and len(st.body) == 1 and isinstance(st.body[0], ast.If) and ast.unparse(st.body[0].test) == 'm & 1':
                    def pick(ss):
                        if len(ss) == 1 and isinstance(ss[0], ast.Assign) and ast.unparse(ss[0].targets[0]) == 'self.tp':
                            v = ss[0].value
                            for k in ('Series', 'Shunt'):
                                if ast.unparse(v) == 'self.tp.chain(%s(arg))' % k:
                                    return k
                        return None
                    odd, even = pick(st.body[0].body), pick(st.body[0].orelse)
            call = self.super_call(cname, fn)
            if first not in ('Series', 'Shunt') or odd is None or even is None or ast.unparse(call.args[0]) != 'self.tp':
                fail(fn, 'unsupported ladder constructor')
            self.ladders[cname] = {'first': first, 'odd': odd, 'even': even, 'line': fn.lineno}


    # ---- (6) source-vector conversions of the two-port model classes ------------------------
    SRC_OWN = {'B': ('V2b', 'I2b'), 'A': ('V1a', 'I1a'), 'G': ('I1g', 'V2g'), 'H': ('V1h', 'I2h'), 'Y': ('I1y', 'I2y'), 'Z': ('V1z', 'V2z')}
    SRC_TARGETS = {'B': ['V1a', 'I1a', 'I1g', 'V2g', 'V1h', 'I2h', 'I1y', 'I2y', 'V1z', 'V2z'],
                   'A': ['V2b', 'I2b'], 'G': ['V2b', 'I2b'], 'H': ['V2b', 'I2b'], 'Y': ['V2b', 'I2b'], 'Z': ['V2b', 'I2b', 'I1y', 'I2y']}

    def src_method(self, cname, prop):
        if cname in self.classes:
            for n in self.classes[cname].body:
                if isinstance(n, ast.FunctionDef) and n.name == prop:
                    return n
        return None

    def lower_src(self, kind, fn):
        """one source property of a two-port model whose own parameter set is `kind`:
        scalar expression over the entries of its matrix and its own two sources"""
        own = self.SRC_OWN[kind]

        class Tr(ast.NodeTransformer):
            def visit_Attribute(self, node):
                self.generic_visit(node)
                if isinstance(node.value, ast.Name) and node.value.id == 'self' and node.attr.lstrip('_') in own:
                    return ast.copy_location(ast.Name(id='p_' + node.attr.lstrip('_'), ctx=ast.Load()), node)
                return node
        import copy
        fn2 = copy.deepcopy(fn)
        body = []
        for st in nodoc(fn2.body):
            # "avoid the matrix inverse" short cut of TwoPortAModel: both own sources zero -> return one of them (0)
            if isinstance(st, ast.If) and not st.orelse and len(st.body) == 1 and isinstance(st.body[0], ast.Return):
                t = ast.unparse(st.test)
                r = ast.unparse(st.body[0].value)
                if t == 'self.%s == 0 and self.%s == 0' % own and r in ('self.' + own[0], 'self.' + own[1]):
                    continue
            body.append(Tr().visit(st))
        fn2.body = body
        fn2.decorator_list = fn.decorator_list
        env_names = {'p_' + o: (('S',), ('param', o)) for o in own}
        # tr_twoport.lower_fn has no hook for an initial environment: wrap the statements
        tr = self.tr
        env = dict(env_names)
        result = None
        for st in fn2.body:
            if isinstance(st, ast.Assign) and len(st.targets) == 1 and isinstance(st.targets[0], ast.Name):
                env[st.targets[0].id] = tr.lower(kind, st.value, env)
                continue
            if isinstance(st, ast.Return):
                result = tr.lower(kind, st.value, env)
                continue
            fail(st, 'unsupported statement in source property')
        if result is None or result[0] != ('S',):
            fail(fn, 'source property does not return a scalar')
        return result[1]

    def translate_srcconv(self):
        self.srcconv = {}       # (owner class, kind, prop) -> ir
        self.srcconv_err = {}
        for kind, props in self.SRC_TARGETS.items():
            owners = ['TwoPort%sModel' % kind] + (['TwoPort'] if kind == 'B' else [])
            for prop in props:
                found = False
                for owner in owners:
                    fn = self.src_method(owner, prop)
                    if fn is None:
                        continue
                    found = True
                    try:
                        self.srcconv[(owner, kind, prop)] = self.lower_src(kind, fn)
                    except Untranslatable as ex:
                        self.srcconv_err[(owner, kind, prop)] = str(ex)
                if not found:
                    self.srcconv_err[(owners[0], kind, prop)] = 'not defined'
        # which definition a TwoPortBModel instance uses (MRO: TwoPortBModel, then TwoPort)
        self.src_B = {}
        for prop in self.SRC_TARGETS['B']:
            for owner in ('TwoPortBModel', 'TwoPort'):
                if (owner, 'B', prop) in self.srcconv:
                    self.src_B[prop] = owner
                    break

    def translate_all(self):
        self.translate_ctors()
        self.translate_elems()
        self.translate_chain()
        self.translate_sums()
        self.translate_sections()
        self.translate_srcconv()
        return self

    # ---- Coq ----------------------------------------------------------------------------
    def coq(self, ir):
        if ir[0] == 'param':
            return 'p_' + ir[1]
        t = ir[0]
        c = self.coq
        if t == 'num':
            n = ir[1]
            return '0' if n == 0 else '1' if n == 1 else '(' + '+'.join(['1'] * n) + ')'
        if t in ('add', 'sub', 'mul', 'div'):
            return '(%s %s %s)' % (c(ir[1]), {'add': '+', 'sub': '-', 'mul': '*', 'div': '/'}[t], c(ir[2]))
        if t == 'neg':
            return '(fopp %s)' % c(ir[1])
        if t == 'lit':
            return '(Mat %s %s %s %s)' % tuple(c(x) for x in ir[1:])
        if t == 'mmul':
            return '(mmul %s %s)' % (c(ir[1]), c(ir[2]))
        raise Untranslatable('internal: IR ' + t)

    def emit(self):
        o = ['(* GENERATED from %s (sha256 %s) by tools/tr_sections.py.  Do not edit. *)' % (self.tr.path, self.tr.sha),
             'Require Import LT.FieldSec LT.TwoPort LT.Sections Gen.TwoPortGen.', 'Local Open Scope F_scope.', '',
             'Section GenS.', 'Variable K : fld.', '']
        names = []
        for (kind, nm), (ps, ir) in sorted(self.ctors.items()):
            o.append('(* %sMatrix.%s *)' % (kind, nm))
            o.append('Definition %s_ctor_%s %s : mat K :=\n  %s.\n' % (kind, nm, ' '.join('(p_%s : K)' % p for p in ps), self.coq(ir)))
            names.append('%s_ctor_%s' % (kind, nm))
        for cname, d in self.elems.items():
            o.append('(* %s.__init__, line %d: BMatrix.%s *)' % (cname, d['line'], d['ctor']))
            if cname in ('Series', 'SeriesAlt', 'Shunt'):
                o.append('Definition tp_%s (Z0 : K) (o : opd K) : tpm K :=\n  let p_opZ := opZ o in let p_opY := opY o in let p_opVoc := opVoc o in let p_opIsc := opIsc o in\n  TPM %s %s %s.\n'
                         % (cname, self.coq(d['B']), self.coq(d['V2b']), self.coq(d['I2b'])))
            else:
                o.append('Definition tp_%s (Z0 : K) (p_x : K) : tpm K := TPM %s 0 0.\n' % (cname, self.coq(d['B'])))
            names.append('tp_' + cname)
        c = self.chain
        o.append('(* Chain.__init__, line %d (two arguments a, b) *)' % c['line'])
        o.append('Definition tp_Chain (a b : tpm K) : tpm K :=\n  TPM (%s) %s %s.\n' % (c['B'], c['V2b'], c['I2b']))
        names.append('tp_Chain')
        for cname, d in self.sums.items():
            k = d['kind']
            o.append('(* %s.__init__, line %d: sums %sparams; every argument is represented by its B matrix *)' % (cname, d['line'], k))
            o.append('Definition tp_%s_%s (Z0 : K) (a b : mat K) : mat K := madd (B_%sparams Z0 a) (B_%sparams Z0 b).' % (cname, k, k, k))
            o.append('Definition tp_%s_B (Z0 : K) (a b : mat K) : mat K := %s_Bparams Z0 (tp_%s_%s Z0 a b).\n' % (cname, k, cname, k))
            names += ['tp_%s_%s' % (cname, k), 'tp_%s_B' % cname]
        order = [c_ for c_ in SECTION_CLASSES if c_ in self.sections]
        for cname in order:
            d = self.sections[cname]
            o.append('(* %s.__init__, line %d *)' % (cname, d['line']))
            o.append('Definition tp_%s (Z0 : K) %s : tpm K :=\n  %s.\n' % (cname, ' '.join('(o_%s : opd K)' % p for p in d['params']), d['tp']))
            names.append('tp_' + cname)
        for cname, d in self.ladders.items():
            o.append('(* %s.__init__, line %d: %s(OP1), then odd -> %s, even -> %s *)' % (cname, d['line'], d['first'], d['odd'], d['even']))
            o.append('Definition tp_%s (Z0 : K) (o1 : opd K) (args : list (opd K)) : tpm K :=\n'
                     '  ladder_fold tp_Chain (tp_%s Z0) (tp_%s Z0) (tp_%s Z0 o1) args 0.\n' % (cname, d['odd'], d['even'], d['first']))
            names.append('tp_' + cname)
        for (owner, kind, prop), ir in sorted(self.srcconv.items()):
            own = self.SRC_OWN[kind]
            nm = 'src_%s_%s' % (owner, prop)
            o.append('(* %s.%s *)' % (owner, prop))
            o.append('Definition %s (Z0 : K) (m : mat K) (p_%s p_%s : K) : K :=\n  %s.\n' % (nm, own[0], own[1], self.tr.coq(ir)))
            names.append(nm)
        o.append('End GenS.\n')
        for nm in names:
            o.append('Arguments %s {K}.' % nm)
        o.append('\nLtac sec_unfold := cbv [%s ladder_fold tB tV2b tI2b opZ opY opVoc opIsc] in *.' % ' '.join(names))
        return '\n'.join(o) + '\n'


if __name__ == '__main__':
    sys.path.insert(0, os.path.join(os.path.dirname(os.path.dirname(os.path.abspath(__file__)))))
    from checks import c08
    tr = c08.translate(sys.argv[1] if len(sys.argv) > 1 else '/repo')
    st = SectionTranslator(tr).translate_all()
    print(st.emit())
    print('(* ctor errors: %s *)' % st.ctor_err)
    print('(* unsupported: %s *)' % st.unsupported)
