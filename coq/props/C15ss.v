(* C15 - state-space model of a circuit (model of StateSpaceMaker.from_circuit with
   L._ss_model / C._ss_model): every inductor is replaced by a current source
   that draws the state value i_L from its first node (netlist `I_L n1 n2 {-i_L(t)}`),
   every capacitor by a voltage source v_C (`V_C n1 n2 {v_C(t)}`) with a fresh
   branch unknown; the resulting resistive circuit N' is solved for the voltages
   across the inductors and the currents through the capacitors:
        d i_L / dt = v_L / L,        d v_C / dt = i_C / C.
   s-domain statement (ss_equiv_partial, direction "state-space model => circuit"):
   whenever (v, ib) is a physical solution of N' driven by the state values read
   off (v, ib) themselves and the state equations hold in the form
        s x_k - x0_k = dotx_k,
   (v, ib) is a physical solution of the ORIGINAL circuit with initial
   conditions x0.  With the extraction contract  dotx = A X + B U  (sympy
   linear_eq_to_matrix, an oracle checked per case) this reads: for ANY X with
   (sI - A) X = B U + x0, the outputs C X + D U are node voltages / branch currents
   of a physical solution of the circuit; by Gen.C01net.phys_unique they are THE
   solution, i.e. C (sI-A)^-1 B + D is the transfer matrix and C (sI-A)^-1 x0 the
   initial-state response - no inverse needed.
   Partial: the converse direction is proved for the per-row identities only
   (kcl_subst, crel_subst); it needs the inductor rows to be private, which is the
   content of MNA.unknowns_NoDup and is not re-proved here. *)
Require Import LT.FieldSec LT.Circuit LT.MNA LT.FormulLeaf Gen.StampsGen Gen.C01model Gen.FormulLeafGen.
Local Open Scope Z_scope.
Local Open Scope bool_scope.

Section C15ss.
Variable K : fld.
Add Field KFss : (fth K).
Variable s : K.

Inductive skind := SKeep | SInd (Lval i0 : K) | SCap (Cval v0 : K) (bnew : Z).
Record sselt := SE { se_cl : cname; se_c : sctx K; se_k : skind }.
Definition orig (e : sselt) : cname * sctx K := (se_cl e, se_c e).

Definition set_par (c : sctx K) (f : pname -> K) : sctx K :=
  SCtx K (kind c) (typ c) (p0 c) (p1 c) (p2 c) (p3 c) (c0 c) (c1 c) (bown c) (bextra c) (bctrl c) (bL1 c) (bL2 c)
       (has_ic c) (ctrl_is_vsrc c) (has_arg1 c) (tp_has_src c) f.
Definition set_bown (c : sctx K) (b : Z) : sctx K :=
  SCtx K (kind c) (typ c) (p0 c) (p1 c) (p2 c) (p3 c) (c0 c) (c1 c) b (bextra c) (bctrl c) (bL1 c) (bL2 c)
       (has_ic c) (ctrl_is_vsrc c) (has_arg1 c) (tp_has_src c) (par c).
(* the state value carried by an element at (v, ib) *)
Definition state_of (e : sselt) (v ib : Z -> K) : K :=
  match se_k e with SKeep => f0 | SInd _ _ => ib (bown (se_c e)) | SCap _ _ _ => dV01 (se_c e) v end.
(* L._ss_model : I source with Isc = - i_L ; C._ss_model : V source with Voc = v_C *)
Definition subst (v ib : Z -> K) (e : sselt) : cname * sctx K :=
  match se_k e with
  | SKeep => orig e
  | SInd _ _ => (cI, set_par (se_c e) (fun n => match n with pIsc => fopp (state_of e v ib) | m => par (se_c e) m end))
  | SCap _ _ bnew => (cV, set_par (set_bown (se_c e) bnew) (fun n => match n with pVoc => state_of e v ib | m => par (se_c e) m end))
  end.
(* well-formed: the class matches the role, reactive parameters are the s-domain ones *)
Definition icterm (e : sselt) : bool := akind_eqb (kind (se_c e)) KIvp && has_ic (se_c e).
Definition ss_wf (e : sselt) : Prop :=
  match se_k e with
  | SKeep => True
  | SInd Lv i0 => se_cl e = cL /\ akind_eqb (kind (se_c e)) KDc = false /\ Lv <> f0 /\
                  par (se_c e) pZ = fmul s Lv /\ (if icterm e then par (se_c e) pVoc = fopp (fmul Lv i0) else i0 = f0)
  | SCap Cv v0 _ => se_cl e = cRC /\ typ (se_c e) = TyC /\ akind_eqb (kind (se_c e)) KDc = false /\ Cv <> f0 /\
                    par (se_c e) pY = fmul s Cv /\ (if icterm e then par (se_c e) pIsc = fmul Cv v0 else v0 = f0)
  end.
(* the expressions StateSpaceMaker differentiates: v_L / L and i_C / C of the substituted circuit *)
Definition dotx (e : sselt) (v ib : Z -> K) : K :=
  match se_k e with
  | SKeep => f0
  | SInd Lv _ => fdiv (dV01 (se_c e) v) Lv
  | SCap Cv _ bnew => fdiv (ib bnew) Cv
  end.
Definition x0_of (e : sselt) : K := match se_k e with SKeep => f0 | SInd _ i0 => i0 | SCap _ v0 _ => v0 end.
(* s X - x0 = dotx, element by element *)
Definition state_eq (e : sselt) (v ib : Z -> K) : Prop :=
  match se_k e with
  | SKeep => True
  | _ => fsub (fmul s (state_of e v ib)) (x0_of e) = dotx e v ib
  end.

(* per element: what the original draws / relates versus the substituted one *)
Lemma drawn_subst (e : sselt) (v ib : Z -> K) (r : Z) :
  ss_wf e -> state_eq e v ib ->
  drawn_of (fst (orig e)) (snd (orig e)) v ib r = drawn_of (fst (subst v ib e)) (snd (subst v ib e)) v ib r.
Proof.
  intros W S. unfold subst, orig, state_eq, dotx, x0_of, state_of, ss_wf, icterm in *. destruct (se_k e) as [|Lv i0|Cv v0 bnew]; cbn [fst snd].
  - reflexivity.
  - destruct W as [-> _]. cbn [drawn_of]. unfold drawn_L, drawn_I, set_par; cbn [p0 p1 par bown]. unfold thru. ring.
  - destruct W as [-> [Ty [Hdc [HC [HY Hic]]]]]. cbn [drawn_of].
    unfold drawn_RC, drawn_V, Yeff, set_par, set_bown, dV01 in *; cbn [p0 p1 par bown kind typ has_ic] in *.
    rewrite Ty, Hdc. cbn [ctype_eqb andb]. rewrite HY.
    assert (E : ib bnew = fsub (fmul (fmul s Cv) (fsub (vv v (p0 (se_c e))) (vv v (p1 (se_c e))))) (fmul Cv v0)).
    { transitivity (fmul Cv (fdiv (ib bnew) Cv)); [field; exact HC|]. rewrite <- S. ring. }
    rewrite E. destruct (akind_eqb (kind (se_c e)) KIvp && has_ic (se_c e)).
    + rewrite Hic. reflexivity.
    + rewrite Hic. unfold thru. ring.
Qed.
Lemma brel_subst (e : sselt) (v ib : Z -> K) (q : Z) :
  ss_wf e -> state_eq e v ib ->
  brel_of (fst (orig e)) (snd (orig e)) v ib q = brel_of (fst (subst v ib e)) (snd (subst v ib e)) v ib q.
Proof.
  intros W S. unfold subst, orig, state_eq, dotx, x0_of, state_of, ss_wf, icterm in *. destruct (se_k e) as [|Lv i0|Cv v0 bnew]; cbn [fst snd].
  - reflexivity.
  - destruct W as [-> [Hdc [HL [HZ Hic]]]]. cbn [brel_of]. unfold brel_L, brel_I, dV01 in *. rewrite Hdc, HZ.
    assert (E : fsub (vv v (p0 (se_c e))) (vv v (p1 (se_c e))) = fmul Lv (fsub (fmul s (ib (bown (se_c e)))) i0)).
    { rewrite S. field. exact HL. }
    rewrite E. destruct (akind_eqb (kind (se_c e)) KIvp && has_ic (se_c e)); rewrite Hic; ring.
  - destruct W as [-> _]. cbn [brel_of]. unfold brel_RC, brel_V, set_par, set_bown, dV01; cbn [p0 p1 par bown]. ring.
Qed.

Lemma sumK_map_ext {A} (f g : A -> K) (l : list A) : (forall x, In x l -> f x = g x) -> sumK (map f l) = sumK (map g l).
Proof. induction l as [|a l IH]; intros H; cbn [map sumK]; [reflexivity|].
  rewrite (H a (or_introl eq_refl)), IH; [reflexivity|]. intros x Hx. apply H. right. exact Hx. Qed.

(* induction over the netlist: the substituted circuit plus the state equations give the original circuit *)
Theorem ss_equiv_partial (N : list sselt) (v ib : Z -> K) :
  (forall e, In e N -> ss_wf e /\ state_eq e v ib) ->
  phys (map (subst v ib) N) v ib -> phys (map orig N) v ib.
Proof.
  intros H [Hk Hc]. split.
  - intros r Hr. rewrite <- (Hk r Hr). unfold kcl. rewrite !map_map. apply sumK_map_ext.
    intros e He. destruct (H e He) as [W S]. apply drawn_subst; assumption.
  - intros q Hq. rewrite <- (Hc q Hq). unfold crel. rewrite !map_map. apply sumK_map_ext.
    intros e He. destruct (H e He) as [W S]. apply brel_subst; assumption.
Qed.
(* and back, given the state equations (they are what the original relations say) *)
Theorem ss_equiv_back (N : list sselt) (v ib : Z -> K) :
  (forall e, In e N -> ss_wf e /\ state_eq e v ib) ->
  phys (map orig N) v ib -> phys (map (subst v ib) N) v ib.
Proof.
  intros H [Hk Hc]. split.
  - intros r Hr. rewrite <- (Hk r Hr). unfold kcl. rewrite !map_map. apply sumK_map_ext.
    intros e He. destruct (H e He) as [W S]. symmetry. apply drawn_subst; assumption.
  - intros q Hq. rewrite <- (Hc q Hq). unfold crel. rewrite !map_map. apply sumK_map_ext.
    intros e He. destruct (H e He) as [W S]. symmetry. apply brel_subst; assumption.
Qed.

(* with the extraction contract dotx = A X + B U:  (sI - A) X = B U + x0  is the state equation.
   X, x0 are indexed by the position of the reactive element; AXBU k is row k of A X + B U. *)
Corollary ss_response (N : list sselt) (v ib : Z -> K) (AXBU : sselt -> K) :
  (forall e, In e N -> ss_wf e) ->
  (forall e, In e N -> se_k e <> SKeep -> dotx e v ib = AXBU e) ->                       (* linear_eq_to_matrix contract *)
  (forall e, In e N -> se_k e <> SKeep -> fsub (fmul s (state_of e v ib)) (AXBU e) = x0_of e) ->   (* (sI - A) X - B U = x0 *)
  phys (map (subst v ib) N) v ib -> phys (map orig N) v ib.
Proof.
  intros W Hx Hs. apply ss_equiv_partial. intros e He. split; [apply W; exact He|].
  unfold state_eq. destruct (se_k e) eqn:Ek; [exact I| |].
  - rewrite (Hx e He) by (rewrite Ek; discriminate). specialize (Hs e He). rewrite Ek in Hs.
    specialize (Hs ltac:(discriminate)). rewrite <- Hs. ring.
  - rewrite (Hx e He) by (rewrite Ek; discriminate). specialize (Hs e He). rewrite Ek in Hs.
    specialize (Hs ltac:(discriminate)). rewrite <- Hs. ring.
Qed.
(* under the state equations the two circuits have the same solutions *)
Theorem ss_equiv (N : list sselt) (v ib : Z -> K) :
  (forall e, In e N -> ss_wf e /\ state_eq e v ib) ->
  (phys (map (subst v ib) N) v ib <-> phys (map orig N) v ib).
Proof. intros H. split; [apply ss_equiv_partial | apply ss_equiv_back]; exact H. Qed.

(* the conventions regenerated from L._ss_model / C._ss_model / from_circuit are the ones of [subst]:
   the inductor becomes a source with Isc = - i_L whose negated value is the state, the capacitor a
   source with Voc = v_C which is the state *)
Lemma ss_conventions :
  @ss_L_src K = fopp f1 /\ @ss_L_var K = fopp f1 /\ @ss_C_src K = f1 /\ @ss_C_var K = f1.
Proof. repeat split; reflexivity. Qed.
End C15ss.
Print Assumptions ss_equiv.
Print Assumptions ss_conventions.
Print Assumptions ss_equiv_partial.
Print Assumptions ss_equiv_back.
Print Assumptions ss_response.
