(* C02, netlist level, on top of the files C01 regenerates from lcapy/mnacpts.py on every run.

   A time-domain netlist is a list of (class, time-domain element) with the PHYSICAL semantics of
   TimeDomCircuit.v: KCL at every node and one constitutive law per branch row, every law a
   linear-differential relation between the node-voltage and branch-current SIGNALS
   (capacitor i = C (D v - v0 δ), inductor v = L (D i - i0 δ) with the mutual terms of every K,
   sources, controlled sources, transformer, gyrator).

   ode_from_sdomain   if, outside a finite set of s, the images of the signals satisfy the s-domain
                      semantics [phys] of the netlist evaluated at s, then the signals satisfy the
                      time-domain semantics [tphys]: KCL, every ODE, every instantaneous law, for
                      all t > 0, together with the initial state (the δ bookkeeping)
   ode_from_mna       with C01's mna_iff_phys: the same for any solution of the MNA systems that
                      the CURRENT stamps of lcapy/mnacpts.py assemble at each s
   Precondition [tsupported]: gains are constants, the analysis is not a dc analysis, and coupled
   inductors with initial currents are analysed as an initial value problem (kind ivp: the K stamp
   then carries the mutual flux M·i0k of the physical law TimeDom.time_law_L). *)
Require Import LT.FieldSec LT.PolyQ LT.ExpPoly LT.Circuit LT.CircuitLinear LT.TimeDom LT.TimeDomInj LT.TimeDomCircuit.
Require Import Gen.StampsGen Gen.C01 Gen.C01model Gen.C01net.
Local Open Scope Z_scope.

Section C02net.
Variable K : fld.
Add Field KFn2 : (fth K).
Notation sig := (sig K).
Definition tnetlist := list (cname * tctx K).

Definition tsupported (cl : cname) (e : tctx K) : Prop :=
  match cl with
  | cRC | cL => akind_eqb (t_kind e) KDc = false
  | cV | cAM | cI | cDummy => True
  | cVCVS => gain_const e pArg0 /\ gain_const e pArg1
  | cVCCS => gain_const e pArg0
  | cCCCS | cCCVS => gain_const e pArg1
  | cK => akind_eqb (t_kind e) KDc = false /\ k_ic_ok e
  | cTF => gain_const e pAlpha
  | cGY => gain_const e pArg0
  | _ => False
  end.
Definition tzero (v ib : Z -> sig) (r : Z) : sig := szero.
Definition tdrawn_of (cl : cname) (e : tctx K) : (Z -> sig) -> (Z -> sig) -> Z -> sig :=
  match cl with
  | cRC => tdrawn_RC e
  | cL | cV | cAM | cVCVS => tdrawn_own e
  | cI => tdrawn_I e
  | cVCCS => tdrawn_VCCS e
  | cCCCS => tdrawn_CCCS e
  | cCCVS => tdrawn_CCVS e
  | cTF => tdrawn_TF e
  | cGY => tdrawn_GY e
  | _ => tzero
  end.
Definition tbrel_of (cl : cname) (e : tctx K) : (Z -> sig) -> (Z -> sig) -> Z -> sig :=
  match cl with
  | cL => tbrel_L e
  | cV => tbrel_V e
  | cAM => tbrel_AM e
  | cVCVS => tbrel_VCVS e
  | cCCVS => tbrel_CCVS e
  | cK => tbrel_K e
  | cTF => tbrel_TF e
  | cGY => tbrel_GY e
  | _ => tzero
  end.
Definition net_at (s : K) (N : tnetlist) : netlist K := map (fun ce => (fst ce, ctx_at s (snd ce))) N.
Definition tkcl (N : tnetlist) (v ib : Z -> sig) (r : Z) : sig := ssum (map (fun ce => tdrawn_of (fst ce) (snd ce) v ib r) N).
Definition tcrel (N : tnetlist) (v ib : Z -> sig) (q : Z) : sig := ssum (map (fun ce => tbrel_of (fst ce) (snd ce) v ib q) N).
(* the time-domain semantics of the circuit *)
Definition tphys (N : tnetlist) (v ib : Z -> sig) : Prop :=
  (forall r, 0 <= r -> seq (tkcl N v ib r) szero) /\ (forall q, 0 <= q -> seq (tcrel N v ib q) szero).

Section At.
Variable s : K.
Variables v ib : Z -> sig.
Hypothesis Hv : forall n, pole_free s (v n).
Hypothesis Hib : forall j, pole_free s (ib j).
Notation Lv := (fun n => Lval s (v n)).
Notation Lib := (fun j => Lval s (ib j)).

Ltac xfer := first [ assumption | tauto | idtac ].
Lemma drawn_transfer cl e r : tsupported cl e -> Lval s (tdrawn_of cl e v ib r) = drawn_of cl (ctx_at s e) Lv Lib r.
Proof. destruct cl; cbn [tsupported tdrawn_of drawn_of]; intros H; try contradiction; try (apply Lval_szero).
  - apply transfer_RC; xfer.
  - apply transfer_own.
  - apply transfer_own.
  - apply transfer_own.
  - apply transfer_I.
  - apply transfer_own.
  - apply transfer_VCCS; xfer.
  - apply transfer_CCCS; xfer.
  - apply transfer_CCVS_d.
  - apply transfer_TF_d; xfer.
  - apply transfer_GY_d. Qed.
Lemma brel_transfer cl e q : tsupported cl e -> Lval s (tbrel_of cl e v ib q) = brel_of cl (ctx_at s e) Lv Lib q.
Proof. destruct cl; cbn [tsupported tbrel_of brel_of]; intros H; try contradiction; try (apply Lval_szero).
  - apply transfer_L; xfer.
  - apply transfer_V.
  - apply transfer_AM.
  - apply transfer_VCVS; xfer.
  - apply transfer_CCVS_b; xfer.
  - apply transfer_K; xfer.
  - apply transfer_TF_b; xfer.
  - apply transfer_GY_b; xfer. Qed.
Lemma tkcl_transfer N r : Forall (fun ce => tsupported (fst ce) (snd ce)) N -> Lval s (tkcl N v ib r) = kcl (net_at s N) Lv Lib r.
Proof. unfold tkcl, kcl, net_at. induction N as [|[cl e] N IH]; intros HF; cbn [map ssum sumK fst snd]; [apply Lval_szero|].
  inversion HF as [|? ? H1 H2]; subst. rewrite Lval_sadd, (drawn_transfer cl e r H1), (IH H2). reflexivity. Qed.
Lemma tcrel_transfer N q : Forall (fun ce => tsupported (fst ce) (snd ce)) N -> Lval s (tcrel N v ib q) = crel (net_at s N) Lv Lib q.
Proof. unfold tcrel, crel, net_at. induction N as [|[cl e] N IH]; intros HF; cbn [map ssum sumK fst snd]; [apply Lval_szero|].
  inversion HF as [|? ? H1 H2]; subst. rewrite Lval_sadd, (brel_transfer cl e q H1), (IH H2). reflexivity. Qed.
End At.

(* MAIN THEOREM: the inverse transforms of an s-domain solution satisfy the time-domain laws *)
Theorem ode_from_sdomain (N : tnetlist) (v ib : Z -> sig) (E : list K) :
  Forall (fun ce => tsupported (fst ce) (snd ce)) N ->
  (forall s, ~ In s E -> (forall n, pole_free s (v n)) /\ (forall j, pole_free s (ib j)) /\
                         phys (net_at s N) (fun n => Lval s (v n)) (fun j => Lval s (ib j))) ->
  tphys N v ib.
Proof. intros HF H. split; [intros r Hr | intros q Hq]; apply (L_injective_char0 K _ E); intros s Hs;
  destruct (H s Hs) as [Hv [Hib [Hk Hc]]].
  - rewrite tkcl_transfer by assumption. apply Hk. exact Hr.
  - rewrite tcrel_transfer by assumption. apply Hc. exact Hq. Qed.
(* ... and conversely the time-domain laws give the s-domain relations at every non-pole s *)
Theorem sdomain_from_ode (N : tnetlist) (v ib : Z -> sig) (s : K) :
  Forall (fun ce => tsupported (fst ce) (snd ce)) N ->
  (forall n, pole_free s (v n)) -> (forall j, pole_free s (ib j)) ->
  tphys N v ib -> phys (net_at s N) (fun n => Lval s (v n)) (fun j => Lval s (ib j)).
Proof. intros HF Hv Hib [Hk Hc]. split; [intros r Hr | intros q Hq].
  - rewrite <- tkcl_transfer by assumption. rewrite (Lval_seq K s _ _ (Hk r Hr)). apply Lval_szero.
  - rewrite <- tcrel_transfer by assumption. rewrite (Lval_seq K s _ _ (Hc q Hq)). apply Lval_szero. Qed.

(* with C01: any solution of the MNA systems assembled by the CURRENT stamps *)
Theorem ode_from_mna (N : tnetlist) (v ib : Z -> sig) (E : list K) :
  Forall (fun ce => tsupported (fst ce) (snd ce)) N ->
  (forall s, ~ In s E -> (forall n, pole_free s (v n)) /\ (forall j, pole_free s (ib j)) /\ wf_net (net_at s N) /\
     exists T, assemble (net_at s N) = SOk T /\
       (forall r, 0 <= r -> node_res T (fun n => Lval s (v n)) (fun j => Lval s (ib j)) r = f0) /\
       (forall q, 0 <= q -> br_res T (fun n => Lval s (v n)) (fun j => Lval s (ib j)) q = f0)) ->
  tphys N v ib.
Proof. intros HF H. apply (ode_from_sdomain N v ib E HF). intros s Hs. destruct (H s Hs) as [Hv [Hib [W [T [ET [Hn Hb]]]]]].
  split; [exact Hv|]. split; [exact Hib|]. apply (mna_iff_phys K (net_at s N) T _ _ W ET). split; assumption. Qed.

(* ---- the kind invariant discharges the K precondition ------------------------------------------------
   Netlist._analysis_groups: a netlist with any initial condition is solved as ONE initial value problem
   (every element gets kind ivp); a K element's initial currents are those of its two inductors.  Under this
   invariant (validated per case: Lcapy's is_IVP flag = "some element has an initial condition") the
   condition k_ic_ok of transfer_K holds for every K of the netlist. *)
Definition has_ic_net (N : tnetlist) : Prop := exists ce, In ce N /\ t_has_ic (snd ce) = true.
Definition kind_inv (N : tnetlist) : Prop := has_ic_net N -> forall ce, In ce N -> t_kind (snd ce) = KIvp.
Definition k_linked (N : tnetlist) : Prop := forall e, In (cK, e) N ->
  (t_ic1 e <> f0 -> exists eL, In (cL, eL) N /\ tbown eL = tbL1 e /\ t_has_ic eL = true) /\
  (t_ic2 e <> f0 -> exists eL, In (cL, eL) N /\ tbown eL = tbL2 e /\ t_has_ic eL = true).
Lemma k_ic_ok_wf (N : tnetlist) e : kind_inv N -> k_linked N -> In (cK, e) N -> k_ic_ok e.
Proof. intros Hk Hl Hin. destruct (Hl e Hin) as [H1 H2].
  assert (Hivp : (exists eL, In (cL, eL) N /\ t_has_ic eL = true) -> k_ic_ok e).
  { intros [eL [HinL Hic]]. left. pose proof (Hk (ex_intro _ (cL, eL) (conj HinL Hic)) (cK, e) Hin) as Ek. cbn [snd] in Ek. rewrite Ek. reflexivity. }
  destruct (fdec K (t_ic1 e) f0) as [Z1|N1].
  - destruct (fdec K (t_ic2 e) f0) as [Z2|N2]; [right; split; assumption|].
    destruct (H2 N2) as [eL [A [_ B]]]. apply Hivp. exists eL. split; assumption.
  - destruct (H1 N1) as [eL [A [_ B]]]. apply Hivp. exists eL. split; assumption. Qed.
Definition tsupported_wf (cl : cname) (e : tctx K) : Prop :=
  match cl with cK => akind_eqb (t_kind e) KDc = false | _ => tsupported cl e end.
Lemma tsupported_of_wf (N : tnetlist) : kind_inv N -> k_linked N ->
  Forall (fun ce => tsupported_wf (fst ce) (snd ce)) N -> Forall (fun ce => tsupported (fst ce) (snd ce)) N.
Proof. intros Hk Hl HF. rewrite Forall_forall in *. intros [cl e] Hin. specialize (HF (cl, e) Hin). cbn [fst snd] in *.
  destruct cl; try exact HF. cbn [tsupported tsupported_wf] in *. split; [exact HF | exact (k_ic_ok_wf N e Hk Hl Hin)]. Qed.
(* ode_from_mna for well-formed netlists: no condition on the initial currents of coupled inductors *)
Theorem ode_from_mna_wf (N : tnetlist) (v ib : Z -> sig) (E : list K) :
  kind_inv N -> k_linked N -> Forall (fun ce => tsupported_wf (fst ce) (snd ce)) N ->
  (forall s, ~ In s E -> (forall n, pole_free s (v n)) /\ (forall j, pole_free s (ib j)) /\ wf_net (net_at s N) /\
     exists T, assemble (net_at s N) = SOk T /\
       (forall r, 0 <= r -> node_res T (fun n => Lval s (v n)) (fun j => Lval s (ib j)) r = f0) /\
       (forall q, 0 <= q -> br_res T (fun n => Lval s (v n)) (fun j => Lval s (ib j)) q = f0)) ->
  tphys N v ib.
Proof. intros Hk Hl HF. apply ode_from_mna. exact (tsupported_of_wf N Hk Hl HF). Qed.

(* what a branch row says for an inductor that is alone in its row: the ODE with the initial state *)
Theorem inductor_row (e : tctx K) (v ib : Z -> sig) :
  seq (tbrel_L e v ib (tbown e)) szero ->
  seq (ssub (ssub (tdV01 e v) (app_op (t_op e pZ) (ib (tbown e)))) (if ivp_ic e then t_src e pVoc else szero)) szero.
Proof. unfold tbrel_L, tind. rewrite ind_refl. intros [A Bq]. split; intro; intros.
  - specialize (A n p). unfold sscale in A. cbn [reg] in A. rewrite rcoef_rscale in A. rewrite <- A. ring.
  - specialize (Bq k). unfold sscale in Bq. cbn [sing] in Bq. rewrite scoef_pscale in Bq. rewrite <- Bq. ring. Qed.
End C02net.

Print Assumptions ode_from_sdomain. Print Assumptions sdomain_from_ode. Print Assumptions ode_from_mna. Print Assumptions inductor_row.
Print Assumptions k_ic_ok_wf. Print Assumptions ode_from_mna_wf.
