(* C06 - the alias Meg of the engineering suffix M, on the slice length translated from the
   current lcapy/valueparser.py (Gen.ParserGrammarGen.meg_cut).  Kept in its own file: it is the
   statement that fails while value_parser cuts two letters instead of three.
   (template coq/props/C06_meg.v.tpl, copied into the work directory on every run) *)
From Coq Require Import List Ascii Bool Arith ZArith.
From LT Require Import ParserStr ParserModel ParserValue.
Require Import Gen.ParserGrammarGen.
Import ListNotations.
Theorem suffix_Meg_G : forall m, is_float m = true ->
  value_parser meg_cut k_cut suffix_table (m ++ [cM; "e"%char; cg]) = VScaled m 6%Z.
Proof. intros m Hm. change meg_cut with 3. apply suffix_Meg; [vm_compute; reflexivity|exact Hm]. Qed.
Print Assumptions suffix_Meg_G.
