(* C06 — the theorems instantiated on the grammar regenerated from the current
   lcapy/grammar.py (Gen.ParserGrammarGen.G = mk_grammar of the copied text).  The table
   is finite, so the vm_compute checks below are proofs over the complete table.
   (template coq/props/C06_grammar.v.tpl, copied into the work directory on every run) *)
From Coq Require Import List Ascii Bool Arith ZArith Lia.
From Coq Require String.
Import String.StringSyntax.
From LT Require Import ParserStr ParserModel ParserThm ParserRoundTrip ParserValue.
Require Import Gen.ParserGrammarGen.
Import ListNotations.
Local Open Scope string_scope.
Local Open Scope list_scope.
Local Open Scope nat_scope.

(* the Coq mirror of Parser.__init__ accepts the grammar text *)
Theorem grammar_parses : grammar_opt <> None.
Proof. vm_compute. discriminate. Qed.
Theorem grammar_nonempty : g_dict G <> [].
Proof. vm_compute. discriminate. Qed.

(* rules_wf: every rule has the shape nodes* [keyword nodes*] args*, argument parameters only
   after the nodes, optional ones trailing, recorded keyword position = layout position; the
   blank is a delimiter, "0" prints as itself, type keys are unique *)
Theorem rules_wf : grammar_ok G = true.
Proof. vm_compute. reflexivity. Qed.

Definition all_rules : list rule := flat_map snd (g_dict G).
Definition kw_key (r : rule) : option (nat * str) :=
  match r_pos r with
  | Some p => match nth_error (r_params r) p with Some k => Some (p, lower (p_name k)) | None => None end
  | None => None
  end.
Fixpoint distinct_keys (l : list (option (nat * str))) : bool :=
  match l with
  | [] => true
  | x :: r => negb (existsb (fun y => match x, y with
                                      | Some (p, k), Some (q, j) => (p =? q) && str_eqb k j
                                      | _, _ => false end) r) && distinct_keys r
  end.
(* keyword variants of a type are distinguishable at their position; only the first rule of a
   type may lack a keyword (a later one could never be selected) *)
Definition type_ok (rules : list rule) : bool :=
  negb (is_nil rules)
  && forallb (fun r => match r_pos r with Some _ => true | None => false end) (tl rules)
  && distinct_keys (map kw_key rules).
Theorem types_wf : forallb (fun kv => type_ok (snd kv)) (g_dict G) = true.
Proof. vm_compute. reflexivity. Qed.
(* at most one keyword parameter per rule *)
Theorem one_keyword : forallb (fun r => length (filter (fun p => is_kwkind (p_kind p)) (r_params r)) <=? 1) all_rules = true.
Proof. vm_compute. reflexivity. Qed.
(* only the five parameter kinds the extractor knows occur in rules *)
Theorem kinds_known : forallb (fun r => forallb (fun p => is_nodekind (p_kind p) || is_argkind (p_kind p) || is_kwkind (p_kind p)) (r_params r)) all_rules = true.
Proof. vm_compute. reflexivity. Qed.
(* class names identify rules; type names are letters only (they are spliced into a regex) *)
Theorem classes_unique : nodupb (map r_class all_rules) = true.
Proof. vm_compute. reflexivity. Qed.
Definition is_alpha (a : ascii) : bool := let n := code a in ((65 <=? n) && (n <=? 90)) || ((97 <=? n) && (n <=? 122)).
Theorem types_alpha : forallb (fun kv => negb (is_nil (fst kv)) && forallb is_alpha (fst kv)) (g_dict G) = true.
Proof. vm_compute. reflexivity. Qed.
(* brackets, quote, ';' and '=' are not delimiters *)
Theorem special_not_delims :
  mem LBR (g_delims G) = false /\ mem RBR (g_delims G) = false /\ mem QUO (g_delims G) = false
  /\ mem SEMI (g_delims G) = false /\ mem EQ (g_delims G) = false.
Proof. vm_compute. repeat split. Qed.

(* parse (print c) = norm c, norm idempotent, print (norm c) = print c — for every rule of
   every type of the current grammar *)
Theorem parse_print_G : forall ty rules i r c st,
  In (ty, rules) (g_dict G) -> nth_error rules i = Some r ->
  wf_cpt G rules i r c = true -> opts_rt (c_opts c) ->
  parse G st [] (print_cpt (g_delims G) c) = Ok (norm (g_delims G) c, st)
  /\ norm (g_delims G) (norm (g_delims G) c) = norm (g_delims G) c
  /\ print_cpt (g_delims G) (norm (g_delims G) c) = print_cpt (g_delims G) c.
Proof. exact (parse_print_grammar G rules_wf). Qed.

Theorem parse_print_anon_G : forall ty rules i r c st,
  In (ty, rules) (g_dict G) -> nth_error rules i = Some r ->
  wf_anon G rules i r c = true -> opts_rt (c_opts c) ->
  parse G st [] (print_cpt (g_delims G) c)
  = Ok (rename (norm (g_delims G) c) (anon_prefix (anon_pn (c_name c)) ++ fst (make_anon st (r_type r))),
        snd (make_anon st (r_type r))).
Proof. exact (parse_print_anon_grammar G rules_wf). Qed.

Theorem split_join_G : forall fs, Forall (fun w => field_ok (g_delims G) w = true) fs ->
  split (g_delims G) (join [SP] fs) = Some fs.
Proof. intros fs. apply split_join. vm_compute. reflexivity. Qed.
Theorem braced_value_G : forall v, balanced v = true -> field_ok (g_delims G) (LBR :: v ++ [RBR]) = true.
Proof. intros v. apply braced_field_ok. vm_compute. reflexivity. Qed.
Theorem reject_unbalanced_G : forall st s,
  is_directive G (strip s) = false ->
  quote_free (fst (split_first SEMI (strip s))) = true ->
  count_occ ascii_dec (fst (split_first SEMI (strip s))) RBR < count_occ ascii_dec (fst (split_first SEMI (strip s))) LBR ->
  parse G st [] s = Err EUnbalanced.
Proof. intros st s. apply reject_more_open; vm_compute; reflexivity. Qed.
(* too many fields for the longest rule of the type => rejected *)
Definition max_params (rules : list rule) : nat := fold_left (fun m r => Nat.max m (length (r_params r))) rules 0.
Lemma max_params_ge rules : forall m r, In r rules -> length (r_params r) <= fold_left (fun m r => Nat.max m (length (r_params r))) rules m.
Proof.
  induction rules as [|x rules IH]; intros m r Hin; [contradiction|]. cbn [fold_left]. destruct Hin as [->|Hin].
  - clear IH. generalize (Nat.max m (length (r_params r))) (Nat.le_max_r m (length (r_params r))).
    induction rules as [|y rules IH2]; intros a Ha; [exact Ha|]. cbn [fold_left]. apply IH2. lia.
  - now apply IH.
Qed.
Theorem reject_too_many_G : forall st ns net name fields rest ty id rules,
  no_empty_ns name = true ->
  match_type G (last_str (split_on DOT name)) = Some (ty, id) ->
  In (ty, rules) (g_dict G) -> max_params rules < length fields ->
  parse_cpt G st ns net name fields rest = Err ETooMany \/ parse_cpt G st ns net name fields rest = Err EUnknownKw.
Proof.
  intros st ns net name fields rest ty id rules Hn Hm Hin Hmax.
  assert (Hd : assoc_get ty (g_dict G) = Some rules) by (apply assoc_get_in; [vm_compute; reflexivity|exact Hin]).
  apply (reject_too_many G st ns net name fields rest ty id rules Hn Hm Hd).
  - pose proof types_wf as T. rewrite forallb_forall in T. specialize (T _ Hin). cbn [snd] in T.
    intros ->. discriminate.
  - apply Forall_forall. intros r Hr. pose proof (max_params_ge rules 0 r Hr). unfold max_params in Hmax. lia.
Qed.

(* engineering suffixes: the table of lcapy/valueparser.py is the SI one, and every entry scales *)
Theorem suffix_table_si :
  forallb (fun kv => match find (fun e => aeqb (fst e) (fst kv)) suffix_table with
                     | Some (_, k) => (k =? snd kv)%Z | None => false end)
    [("f"%char, (-15)%Z); ("p"%char, (-12)%Z); ("n"%char, (-9)%Z); ("u"%char, (-6)%Z); ("m"%char, (-3)%Z);
     ("k"%char, 3%Z); ("M"%char, 6%Z); ("G"%char, 9%Z); ("T"%char, 12%Z)] = true.
Proof. vm_compute. reflexivity. Qed.
Theorem suffix_table_ok : table_ok suffix_table = true.
Proof. vm_compute. reflexivity. Qed.
Theorem suffix_value_G : forall m suf k, In (suf, k) suffix_table -> is_float m = true ->
  value_parser meg_cut k_cut suffix_table (m ++ [suf]) = VScaled m k.
Proof.
  intros m suf k Hin Hm. apply suffix_value; [exact suffix_table_ok| |exact Hm].
  revert suf k Hin. assert (X : forallb (fun kv => match find (fun e => aeqb (fst e) (fst kv)) suffix_table with
                                                   | Some (s, k) => aeqb s (fst kv) && (k =? snd kv)%Z | None => false end) suffix_table = true)
    by (vm_compute; reflexivity).
  intros suf k Hin. rewrite forallb_forall in X. specialize (X _ Hin). cbn [fst snd] in X.
  destruct (find (fun e => aeqb (fst e) suf) suffix_table) as [[s k']|]; [|discriminate].
  apply andb_true_iff in X as [X1 X2]. apply aeqb_true in X1. apply Z.eqb_eq in X2. now subst.
Qed.
Theorem suffix_K_G : forall m, is_float m = true -> value_parser meg_cut k_cut suffix_table (m ++ [cK]) = VScaled m 3%Z.
Proof. intros m Hm. change k_cut with 1. apply suffix_K; [vm_compute; reflexivity|exact Hm]. Qed.

(* guards: hand-modelled constants still agree with the source text *)
Theorem anon_types_guard :
  forallb (fun t => str_in t anon_types) anon_types_parse && forallb (fun t => str_in t anon_types_parse) anon_types
  && forallb (fun t => str_in t anon_types) anon_types_print && forallb (fun t => str_in t anon_types_print) anon_types = true.
Proof. vm_compute. reflexivity. Qed.
Theorem cpt_pattern_guard : str_eqb cpt_pattern_text (s2l "(%s)([#_\w'?]+)?") = true.
Proof. vm_compute. reflexivity. Qed.

(* the writer's literal separators, translated from Cpt._netmake1 / Opts.format / _make_anon_cpt_name, are the ones
   the model (and every theorem above) uses: fields joined by one blank, "; " before the options, ", " between
   options, key=value, <type>anon<n> *)
Theorem printer_constants_guard :
  str_eqb field_sep_text [SP] && str_eqb opts_sep_text (s2l "; ") && str_eqb item_sep_text (s2l ", ")
  && str_eqb item_fmt_text (s2l "%s=%s") && str_eqb anon_suffix_text (s2l "anon") = true.
Proof. vm_compute. reflexivity. Qed.

Print Assumptions rules_wf.
Print Assumptions types_wf.
Print Assumptions parse_print_G.
Print Assumptions parse_print_anon_G.
Print Assumptions reject_unbalanced_G.
Print Assumptions reject_too_many_G.
Print Assumptions suffix_value_G.
