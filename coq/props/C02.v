(* C02 - time-domain responses satisfy the circuit ODEs, the initial state and causality.
   Property theorems that do not depend on generated code (the netlist-level theorem on
   top of the regenerated C01 files is props/C02net.v; the statements about the switch
   logic of the current source are generated into Gen/C02_switch.v).

   ode_from_sdomain     any law  Sigma (a_j + b_j d/dt) x_j = w  holds for the time signals as soon as its
                        image  Sigma (a_j + b_j s) X_j(s) = W(s)  holds outside a finite set of s
   sdomain_from_ode     and conversely at every non-pole s
   time_law_C_sdomain   I = C (s V - v0) outside a finite set  ==>  i = C dv/dt for t > 0 and
                        v(0+) = v0 + (impulse content of i)/C
   time_law_L_sdomain   V = L (s I - i0) + Sigma M_k (s I_k - i0_k)  ==>  v = L di/dt + Sigma M_k di_k/dt, i(0+) = ...
   continuity           no impulse (strictly proper image) ==> v_C(0+) = v0, i_L(0+) = i0
   causal_zero          zero initial state and causal sources ==> the model of Lcapy's time-domain
                        conversion multiplies every term by a step: the response is 0 for t < 0;
   noncausal_cond       otherwise the delay-free regular part is only claimed for t >= 0
   switch_handover_all  convert_IVP specification: solving the converted problem gives the piecewise
                        continued trajectory; every hand-over is the previous waveform at the instant *)
Require Import LT.FieldSec LT.PolyQ LT.QcI LT.ExpPoly LT.ILT LT.ILTCorr LT.TimeDom LT.TimeDomInj LT.TimeDomCorr LT.TimeDomSwitch.
Local Open Scope F_scope.

Section C02.
Variable K : fld.
Add Field KFc02 : (fth K).
Notation sig := (sig K).

Theorem ode_from_sdomain (ts : list (lterm K)) (w : sig) (xs : nat -> sig) (E : list K) :
  (forall s, ~ In s E -> law_pole_free s ts xs /\ lcombS s ts (fun j => Lval s (xs j)) = Lval s w) ->
  law_holds ts w xs.
Proof. apply law_from_sdomain. apply L_injective_char0. Qed.
Theorem sdomain_from_ode (ts : list (lterm K)) (w : sig) (xs : nat -> sig) s :
  law_holds ts w xs -> law_pole_free s ts xs -> lcombS s ts (fun j => Lval s (xs j)) = Lval s w.
Proof. apply law_to_sdomain. Qed.

(* the capacitor: from the s-domain (ivp) relation to the ODE and the initial state *)
Theorem time_law_C_sdomain (Cv v0 : K) (i v : sig) (E : list K) : Cv <> 0 ->
  (forall s, ~ In s E -> pole_free s i /\ pole_free s v /\ Lval s i = Cv * (s * Lval s v - v0)) ->
  (forall n p, rcoef n p (reg i) = rcoef n p (rscale Cv (Dord (reg v)))) /\
  at0 (reg v) = v0 + scoef 0 (sing i) / Cv /\
  (scoef 0 (sing i) = 0 -> at0 (reg v) = v0).
Proof. intros HC H.
  assert (Hl : law_C Cv v0 i v).
  { pose (xs := fun j : nat => match j with O => i | _ => v end).
    assert (Hh : law_holds [(1, 0, 0%nat); (0, - Cv, 1%nat)] (sdelta (- (Cv * v0))) xs).
    { apply (ode_from_sdomain _ _ _ E). intros s Hs. destruct (H s Hs) as [Hi [Hv He]]. split.
      - intros a b j [Hin|[Hin|[]]]; inversion Hin; subst; cbn; assumption.
      - cbn [lcombS xs]. rewrite He. unfold Lval at 3. cbn [sdelta sing reg peval rval]. ring. }
    exact Hh. }
  destruct (time_law_C K Cv v0 i v HC Hl) as [_ [R [_ [_ E0]]]]. split; [exact R|]. split; [exact E0|].
  intros Hz. exact (continuity_C K Cv v0 i v HC Hl Hz). Qed.

(* the inductor with mutual couplings *)
Theorem time_law_L_sdomain (Lv i0 : K) (ms : list (mutual K)) (v i : sig) (E : list K) : Lv <> 0 ->
  (forall s, ~ In s E -> pole_free s v /\ pole_free s i /\ (forall M i0k ik, In (M, i0k, ik) ms -> pole_free s ik) /\
       Lval s v = Lv * (s * Lval s i - i0) + mut_sval s ms) ->
  (forall n p, rcoef n p (reg v) = Lv * (rcoef (S n) p (reg i) + p * rcoef n p (reg i)) + mut_rc n p ms) /\
  at0 (reg i) = i0 + (scoef 0 (sing v) - (mut_at0 ms - mut_ic ms)) / Lv /\
  (scoef 0 (sing v) = 0 -> mut_at0 ms = mut_ic ms -> at0 (reg i) = i0).
Proof. intros HL H.
  assert (Hl : law_L Lv i0 ms v i).
  { unfold law_L. apply seq_zero_diff. apply (L_injective_char0 K _ E). intros s Hs.
    destruct (H s Hs) as [Hv [Hi [Hm He]]].
    unfold ssub, sneg. rewrite Lval_sadd, Lval_sscale, Lval_sadd, Lval_sadd, !Lval_opD, (Lval_mut_comb K s ms Hm), He by assumption.
    unfold Lval at 3. cbn [sdelta sing reg peval rval]. ring. }
  destruct (time_law_L K Lv i0 ms v i HL Hl) as [R [_ E0]]. split; [exact R|]. split; [exact E0|].
  intros Hz Hm. exact (continuity_L K Lv i0 ms v i HL Hl Hz Hm). Qed.

(* continuity of the state across t = 0: both reactive kinds *)
Theorem continuity (Cv v0 Lv i0 : K) (ic vc vl il : sig) : Cv <> 0 -> Lv <> 0 ->
  law_C Cv v0 ic vc -> law_L Lv i0 [] vl il ->
  scoef 0 (sing ic) = 0 -> scoef 0 (sing vl) = 0 ->
  at0 (reg vc) = v0 /\ at0 (reg il) = i0.
Proof. intros HC HL H1 H2 Z1 Z2. split; [exact (continuity_C K Cv v0 ic vc HC H1 Z1) | exact (continuity_L K Lv i0 [] vl il HL H2 Z2 eq_refl)]. Qed.
(* v(0+) as defined from the waveform tⁿ/n!·e^{pt} at t = 0 is the at0 used above *)
Theorem initial_value_is_waveform_at_0 (x : sig) : sig_t0 (reg x) = at0 (reg x).
Proof. apply sig_t0_at0. Qed.

(* ---- causality ------------------------------------------------------------------------------------- *)
Variable cj : K -> K.
Variable B : branches K.
Variable guard : bool -> nat -> nat -> bool.
(* MNA._solve: assumptions.set('ac', cct.is_ac); set('dc', cct.is_dc); set('causal', cct.is_causal) *)
Definition mna_kw (ac dc causal : bool) : list (aflag * bool) := [(Aac, ac); (Adc, dc); (Acausal, causal)].
Lemma mna_causal_flag ac dc : eff_causal None (mna_kw ac dc true) = true.
Proof. destruct ac, dc; reflexivity. Qed.
Theorem causal_zero (src_causal zeroic : list bool) (ac dc : bool) const F m :
  analysis_causal src_causal zeroic = true ->
  doit_model K cj B guard (eff_causal None (mna_kw ac dc (analysis_causal src_causal zeroic))) const F = Some m ->
  m_cond m = false /\ m_u m = szero.
Proof. intros Hc. rewrite Hc, mna_causal_flag. apply causal_flag. Qed.
Theorem noncausal_cond (src_causal zeroic : list bool) const F m :
  analysis_causal src_causal zeroic = false ->
  doit_model K cj B guard (eff_causal None (mna_kw false false (analysis_causal src_causal zeroic))) const F = Some m ->
  (m_cond m = true <-> reg (m_u m) <> []).
Proof. intros Hc. rewrite Hc. apply noncausal_flag. Qed.
(* what "causal" means for the circuit: every source causal and every initial condition zero *)
Theorem analysis_causal_spec (src_causal zeroic : list bool) :
  analysis_causal src_causal zeroic = true <-> (forall b, In b src_causal -> b = true) /\ (forall b, In b zeroic -> b = true).
Proof. unfold analysis_causal. rewrite andb_true_iff, !forallb_forall. tauto. Qed.
End C02.

(* ---- switched circuits: the specification of convert_IVP --------------------------------------------- *)
Theorem switch_handover_all (state : Type) (evolve : list bool -> state -> Qc -> state) (sws : list sw) :
  forall times tprev x t,
    traj state evolve sws tprev x times t =
      evolve (cfg_after sws (fst (handover state evolve sws tprev x times t))) (snd (handover state evolve sws tprev x times t))
             (t - fst (handover state evolve sws tprev x times t))%Qc
    /\ (forall c d y, In (c, d, y) (handed state evolve sws tprev x times t) -> exists t0 x0, c = cfg_after sws t0 /\ y = evolve c x0 d)
    /\ snd (handover state evolve sws tprev x times t) = fold_left (fun _ h => snd h) (handed state evolve sws tprev x times t) x.
Proof. intros times tprev x t. split; [apply switch_handover|]. split; [apply handed_is_previous_waveform | apply handover_last]. Qed.

(* ---- the per-case verdict (numeric circuits, and symbolic circuits specialised at a rational point) ----
   an empty verdict [case_items ... = []] of the generated cases_k.v MEANS: every certificate was accepted
   (so, by q_model_sound, the model signal is the inverse transform of Lcapy's own s-domain value), Lcapy's
   time function is that model signal with the step / t >= 0 bookkeeping of the flag model, every listed law
   holds for the signals, and Analysis.causal is the model's.  For a circuit solved with SYMBOLIC element
   values this is the statement at the substituted point: the specialised closed form satisfies the ODEs
   and starts from the specialised initial state. *)
Lemma idx_fail_nil {A} (f : A -> bool) base : forall l i, idx_fail f base i l = [] -> forall a, In a l -> f a = true.
Proof. induction l as [|x r IH]; intros i H a Hin; [destruct Hin|]. cbn [idx_fail] in H. apply app_eq_nil in H. destruct H as [H1 H2].
  destruct Hin as [E|Hin]; [subst x; destruct (f a); [reflexivity | discriminate H1] | exact (IH _ H2 a Hin)]. Qed.
Definition case_models (qs : list (quant * fmode)) : list (dsig KI) := map (fun qm => q_model (fst qm)) qs.
Theorem case_items_sound qs laws src zic c : case_items qs laws src zic c = [] ->
  (forall qm, In qm qs -> forallb cert_okb (q_img (fst qm)) = true /\ q_same (fst qm) = true /\ flags_ok (snd qm) (q_obs (fst qm)) = true) /\
  (forall l, In l laws -> claw_holds l (case_models qs)) /\
  analysis_causal src zic = c.
Proof. unfold case_items. cbv zeta. intros H.
  apply app_eq_nil in H. destruct H as [H1 H]. apply app_eq_nil in H. destruct H as [H2 H].
  apply app_eq_nil in H. destruct H as [H3 H]. apply app_eq_nil in H. destruct H as [H4 H5].
  split; [|split].
  - intros qm Hin. split; [exact (idx_fail_nil _ _ _ _ H1 qm Hin)|]. split; [exact (idx_fail_nil _ _ _ _ H2 qm Hin) | exact (idx_fail_nil _ _ _ _ H3 qm Hin)].
  - intros l Hin. apply claw_chk_sound. exact (idx_fail_nil _ _ _ _ H4 l Hin).
  - destruct (Bool.eqb (analysis_causal src zic) c) eqn:E; [apply eqb_prop; exact E | discriminate H5]. Qed.
(* the model signal of every quantity of an accepted case is the inverse transform of its s-domain value *)
Theorem case_models_are_inverses qs laws src zic c : case_items qs laws src zic c = [] ->
  forall qm, In qm qs -> forall (E : Qc -> KI) (s : KI), (forall e, In e (q_img (fst qm)) -> peval (cert_A e) s <> (0 : KI)) ->
  dLval E s (q_model (fst qm)) = img_sum E s (q_img (fst qm)).
Proof. intros H qm Hin. destruct (case_items_sound _ _ _ _ _ H) as [Hq _]. destruct (Hq qm Hin) as [Hc _]. apply q_model_sound. exact Hc. Qed.
(* an accepted case satisfies the capacitor ODE for t > 0 and starts from the (specialised) initial state *)
Theorem case_capacitor_ode qs laws src zic c (Cv v0 : KI) jv ji : case_items qs laws src zic c = [] ->
  In (LawC Cv v0 jv ji) laws -> Cv <> (0 : KI) ->
  let i := qsig (case_models qs) 0%Qc ji in let v := qsig (case_models qs) 0%Qc jv in
  (forall n p, rcoef n p (reg i) = rcoef n p (rscale Cv (Dord (reg v)))) /\
  at0 (reg v) = v0 + scoef 0 (sing i) / Cv /\
  (scoef 0 (sing i) = (0 : KI) -> at0 (reg v) = v0).
Proof. intros H Hin HC i v. destruct (case_items_sound _ _ _ _ _ H) as [_ [Hl _]].
  pose proof (claw_C_law _ _ _ _ _ (Hl _ Hin)) as Hlaw. fold i v in Hlaw.
  destruct (time_law_C KI Cv v0 i v HC Hlaw) as [_ [R [_ [_ E0]]]]. split; [exact R|]. split; [exact E0|].
  intros Hz. exact (continuity_C KI Cv v0 i v HC Hlaw Hz). Qed.

(* non-vacuity: series RLC with s^2 + 2 s + 5 (R = 2, L = 1, C = 1/5) driven by a 10 V step:
   i = 5 e^{-t} sin 2t,  v_C = 10 - e^{-t} (10 cos 2t + 5 sin 2t)  satisfy the capacitor law with v0 = 0,
   and the capacitor voltage starts at 0 *)
Definition mks (sg : list KI) (rg : list (KI * nat * KI)) : sig KI := Sig sg rg.
Definition ex_i : sig KI := mks [] [(qi 0 1 (-5) 2, 0%nat, qi (-1) 1 2 1); (qi 0 1 5 2, 0%nat, qi (-1) 1 (-2) 1)].
Definition ex_v : sig KI := mks [] [(qi 10 1 0 1, 0%nat, qi 0 1 0 1); (qi (-5) 1 5 2, 0%nat, qi (-1) 1 2 1); (qi (-5) 1 (-5) 2, 0%nat, qi (-1) 1 (-2) 1)].
Example ex_law_C : law_C (K:=KI) (qi 1 5 0 1) (qi 0 1 0 1) ex_i ex_v.
Proof. apply seqb_sound. vm_compute. reflexivity. Qed.
Example ex_starts_at_v0 : at0 (reg ex_v) = qi 0 1 0 1.
Proof. apply (continuity_C KI (qi 1 5 0 1) (qi 0 1 0 1) ex_i ex_v); [intro E; discriminate E | exact ex_law_C | reflexivity]. Qed.
(* two switches (the second never closes in the buggy code): the specification's hand-over trace *)
Example ex_trace : trace_spec [Sw SWno (qc 0 1); Sw SWno (qc 1 1)] [qc 0 1; qc 1 1] (qc 2 1)
                   = [([false; false], qc 0 1); ([true; false], qc 1 1)]
                   /\ final_cfg [Sw SWno (qc 0 1); Sw SWno (qc 1 1)] [qc 0 1; qc 1 1] (qc 2 1) = [true; true].
Proof. vm_compute. split; reflexivity. Qed.

Print Assumptions ode_from_sdomain. Print Assumptions sdomain_from_ode.
Print Assumptions time_law_C_sdomain. Print Assumptions time_law_L_sdomain. Print Assumptions continuity.
Print Assumptions causal_zero. Print Assumptions noncausal_cond. Print Assumptions switch_handover_all.
Print Assumptions ex_law_C. Print Assumptions ex_starts_at_v0.
Print Assumptions case_items_sound. Print Assumptions case_models_are_inverses. Print Assumptions case_capacitor_ode.
