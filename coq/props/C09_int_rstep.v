(* C09 — end to end over the reals: the closed form of LaplaceTransformer.function for rstep(a t), a > 0, translated
   from the source IS the defining integral of the function restricted to t >= 0 (real s > 0). *)
From Coq Require Import Reals Lra.
From Coquelicot Require Import Coquelicot.
Require Import LT.FieldSec LT.PolyQ LT.ExpPoly LT.LaplaceSig LT.LaplaceModel LT.LaplaceAnalysis LT.LaplaceLink.
Require Import Gen.LaplaceGen Gen.C09_entry_rstep.
Open Scope R_scope.
Theorem rstep_closed_form_is_integral (Fn : nat -> R -> R) (Ic : nat -> nat -> R) (a s : R) : 0 < a -> 0 < s ->
  LT (rampstep_pos a) s (gen_rstep RFld (Renv Fn Ic) a s).
Proof. intros Ha Hs. rewrite (table_entry_rstep RFld (Renv Fn Ic) a s); [apply spec_rstep_is_integral; assumption | cbn; lra | cbn; lra]. Qed.
Print Assumptions rstep_closed_form_is_integral.
