(* C03 executable helpers for the correspondence evaluation (vm_compute over the
   Gaussian rationals QcIF, which contain the rationals): the assembly model of
   Gen.C01model with the sources of selected component positions set to zero
   (Gen.C03net.set_src / s_mask - the very functions the theorems are about),
   solution checks, vector sums, reported currents, and the container / noise
   model of LT.SuperposModel. *)
Require Import LT.FieldSec LT.Circuit LT.MNA LT.LinearSys LT.QcI LT.SuperposModel.
Require Import Gen.StampsGen Gen.C01model Gen.C03defs.
Local Open Scope Z_scope.
Local Open Scope bool_scope.

Record rawc := RawC {
  c_cl : cname; c_info : cinfo; c_kind : akind; c_typ : ctype;
  c_n0 : Z; c_n1 : Z; c_n2 : Z; c_n3 : Z; c_c0 : Z; c_c1 : Z;
  c_L1 : nat; c_L2 : nat;
  c_ic : bool; c_cv : bool; c_a1 : bool; c_ts : bool;
  c_par : pname -> qci }.
Definition mkctxc (us : list bkey) (e : rawc) : sctx QcIF :=
  SCtx QcIF (c_kind e) (c_typ e) (c_n0 e) (c_n1 e) (c_n2 e) (c_n3 e) (c_c0 e) (c_c1 e)
    (zidx (ci_id (c_info e), false) us) (zidx (ci_id (c_info e), true) us)
    (zidx (ci_ctrl (c_info e), false) us) (zidx (c_L1 e, false) us) (zidx (c_L2 e, false) us)
    (c_ic e) (c_cv e) (c_a1 e) (c_ts e) (c_par e).
Definition unknownsc (es : list rawc) : list bkey := unknowns (map c_info es).
Definition netc (es : list rawc) : netlist QcIF :=
  let us := unknownsc es in map (fun e => (c_cl e, mkctxc us e)) es.
Definition srcsc (es : list rawc) : srcs QcIF :=
  fun i => match nth_error es i with
           | Some e => match c_cl e with
                       | cK => (c_par e pI01, c_par e pI02)      (* initial currents of the coupled inductors *)
                       | _ => (c_par e pIsc, c_par e pVoc)
                       end
           | None => (ci0, ci0) end.
Definition keepl (l : list nat) (i : nat) : bool := existsb (Nat.eqb i) l.
(* the netlist with only the sources at positions l alive *)
Definition net_masked (es : list rawc) (l : list nat) : netlist QcIF :=
  set_src (netc es) 0 (s_mask (keepl l) (srcsc es)).
Definition asm (N : netlist QcIF) : option (list (upd QcIF)) :=
  match assemble N with SOk T => Some T | SErr => None end.
Definition vecc (x : list qci) (off : nat) : Z -> qci := fun i => nth (off + Z.to_nat i) x ci0.
Definition solvesb (T : list (upd QcIF)) (nn mm : nat) (x : list qci) : bool :=
  forallb (fun r => qci_eqb (node_res T (vecc x 0) (vecc x nn) r) ci0) (upto nn) &&
  forallb (fun q => qci_eqb (br_res T (vecc x 0) (vecc x nn) q) ci0) (upto mm).
(* Lcapy's solution of the full sub-netlist solves the model system *)
Definition check_full (es : list rawc) (nn mm : nat) (x : list qci) : bool :=
  match asm (netc es) with Some T => solvesb T nn mm x | None => false end.
(* x solves the model system with all sources but those at positions l zeroed *)
Definition check_group (es : list rawc) (l : list nat) (nn mm : nat) (x : list qci) : bool :=
  match asm (net_masked es l) with Some T => solvesb T nn mm x | None => false end.
Fixpoint vaddl (a b : list qci) : list qci :=
  match a, b with
  | x :: a', y :: b' => ciadd x y :: vaddl a' b'
  | _, _ => []
  end.
Fixpoint veql (a b : list qci) : bool :=
  match a, b with
  | [], [] => true
  | x :: a', y :: b' => qci_eqb x y && veql a' b'
  | _, _ => false
  end.
Definition vscalel (k : qci) (a : list qci) : list qci := map (cimul k) a.
(* the group responses sum to the full response *)
Definition check_vsum (xs : list (list qci)) (x : list qci) : bool :=
  match xs with
  | [] => false
  | x0 :: xs' => veql (fold_left vaddl xs' x0) x
  end.
Definition at_node (x : list qci) (idx : Z) : qci := if 0 <=? idx then nth (Z.to_nat idx) x ci0 else ci0.
Definition check_node (x : list qci) (idx : Z) (v : qci) : bool := qci_eqb (at_node x idx) v.
Definition check_vd (x : list qci) (i j : Z) (v : qci) : bool := qci_eqb (cisub (at_node x i) (at_node x j)) v.
Definition check_reportc (es : list rawc) (i : nat) (rk : rkind) (V0 Zr : qci) (nn : nat) (x : list qci) (expected : qci) : bool :=
  match nth_error es i with
  | None => false
  | Some e => qci_eqb (report (K:=QcIF) Passive rk (mkctxc (unknownsc es) e) V0 Zr (vecc x 0) (vecc x nn)) expected
  end.

(* ---- container --------------------------------------------------------------- *)
Definition tm (k : key) (c : tclass) (t s pr pi : qci) : term QcIF := Tm (K:=QcIF) k c t s pr pi.
Definition nsqc (a : qci) : qci := ciofq (cinorm a).
Definition eqc := qci_eqb.
(* every group listed by the model with a non-zero selected value must be among
   the implementation's kinds; every implementation kind must be a model group *)
Definition group_in (g : group) (l : list group) : bool := existsb (group_eqb g) l.
Definition check_kinds (s : sig QcIF) (impl : list group) : bool :=
  forallb (fun g => group_in g impl || (eqc (select_t g s) ci0 && eqc (select_s g s) ci0)) (kinds_tr s) &&
  forallb (fun g => match g with GN _ => true | _ => group_in g (kinds_tr s) end) impl.
Definition noise_items (s : sig QcIF) : list (nitem QcIF) :=
  flat_map (fun t => match tkey t with KyN i => [(i, timg t)] | _ => [] end) s.

(* Netlist._analysis_groups: the analysis groups a source is listed in are those the model derives from
   the transform groups of its value (a model group whose selected value is zero need not be listed) *)
Definition agroup_in (a : agroup) (l : list agroup) : bool := existsb (agroup_eqb a) l.
Definition check_agroups (m : amode) (s : sig QcIF) (impl : list agroup) : bool :=
  forallb (fun a => agroup_in a impl || (eqc (aselect_t a s) ci0 && eqc (aselect_s a s) ci0)) (agroups m s) &&
  forallb (fun a => match a with AgKind (GN _) => true | _ => agroup_in a (agroups m s) end) impl.
