(* C15 - diagonal canonical form (from_ba_DCF regenerated into Gen.FormulGen).
   The poles p_n and residues r_n come from sympy (oracle); their contract - they
   are the partial-fraction data of the strictly proper part of b/a,
        a(s) * sum_n r_n / (s - p_n) = b(s) - d a(s),
        d = b[0]/a[0] when len b = len a, else 0
   - is a hypothesis (validated on every generated case).  What the code itself
   contributes is the diagonal A, the all-ones B, the residue row C and the
   feed-through D: with these, for EVERY order, any state vector satisfying the
   state equations gives a(s) y = b(s) u. *)
Require Import LT.FieldSec LT.FormulCanon Gen.FormulGen.
From Coq Require Import Arith Lia.
Local Open Scope F_scope.

Ltac nat_cases :=
  repeat match goal with
  | |- context [(?a =? ?b)%nat] => destruct (Nat.eqb_spec a b)
  | |- context [(?a <=? ?b)%nat] => destruct (Nat.leb_spec a b)
  | |- context [(?a <? ?b)%nat] => destruct (Nat.ltb_spec a b)
  end; cbn [andb]; try lia.

Section C15dcf.
Variable K : fld.
Add Field KFdcf : (fth K).

Section Fixed.
Variables (a b : list K) (pole res : nat -> K).
Hypothesis Hd : dcf_dom a b = true.
Hypothesis Ha : (2 <= length a)%nat.
Hypothesis Hb : (1 <= length b)%nat.
Hypothesis Hnz : nthK a 0 <> 0.
Let N := (length a - 1)%nat.
Let r := dcf a b pole res.

Lemma dcf_Nx : rNx r = N.
Proof. reflexivity. Qed.
Lemma dcf_A_entry i j : (i < N)%nat -> (j < N)%nat -> rA r i j = if (j =? i)%nat then pole i else 0.
Proof.
  intros Hi Hj. unfold r, dcf. cbv zeta. cbn [rA]. fold N.
  unfold entry. cbn [fold_left hit]. rewrite ?Nat.sub_0_r, ?Nat.add_0_r. nat_cases; reflexivity.
Qed.
Lemma dcf_B_entry i : (i < N)%nat -> rB r i = 1.
Proof. intros Hi. reflexivity. Qed.
Lemma dcf_C_entry j : (j < N)%nat -> rC r j = res j.
Proof.
  intros Hj. unfold r, dcf. cbv zeta. cbn [rC]. fold N.
  unfold entry. cbn [fold_left hit]. rewrite ?Nat.sub_0_r. nat_cases; reflexivity.
Qed.

Theorem dcf_sound (s u : K) (x : nat -> K) :
  (forall n, (n < N)%nat -> s - pole n <> 0) ->
  pe a N s * sumn N (fun n => res n / (s - pole n)) = pe b (length b - 1) s - dterm a b * pe a N s ->
  ss_state r s u x -> pe a N s * ss_out r u x = pe b (length b - 1) s * u.
Proof.
  intros Hp Hpf Hs. unfold ss_state in Hs. unfold ss_out. rewrite dcf_Nx in *.
  assert (Rows : forall n, (n < N)%nat -> s * x n = pole n * x n + u).
  { intros n Hn. rewrite (Hs n Hn). rewrite dcf_B_entry by lia.
    rewrite (sumn_single K N _ n); [| lia |].
    - rewrite dcf_A_entry by lia. rewrite Nat.eqb_refl. ring.
    - intros k Hk Hne. rewrite dcf_A_entry by lia. destruct (Nat.eqb_spec k n); [lia | ring]. }
  assert (EC : sumn N (fun j => rC r j * x j) = sumn N (fun j => res j * x j)).
  { apply sumn_ext. intros k Hk. rewrite dcf_C_entry by lia. reflexivity. }
  rewrite EC.
  rewrite (dcf_core K N pole res s u (rD r) x Hp Rows).
  transitivity ((pe a N s * sumn N (fun n => res n / (s - pole n)) + pe a N s * rD r) * u); [ring|].
  rewrite Hpf.
  (* what remains is the feed-through term: D must be the constant term b0/a0 (or 0) *)
  unfold dterm, r, dcf. cbv zeta. cbn [rD]. unfold entry. cbn [fold_left hit]. cbn [Nat.eqb andb].
  destruct (Nat.eqb_spec (length a) (length b)); field; exact Hnz.
Qed.
End Fixed.
End C15dcf.
Print Assumptions dcf_sound.
