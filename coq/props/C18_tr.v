(* C18 — domain transforms: statements over all quantities x the transforms between
   the time domain and the Laplace, Fourier and angular Fourier domains. *)
From Coq Require Import ZArith List Bool Lia.
Import ListNotations.
Require Import LT.QuantityBase LT.QuantityModel LT.QuantityCorr.
Require Import Gen.QuantityGen Gen.C18_known.
Local Open Scope Z_scope.

Definition spectral : list domain := [Dlaplace; Dfourier; Dangular_fourier].
Lemma forall_q' : forall P : quantity -> bool, forallb P all_quantities = true -> forall q, P q = true.
Proof. intros P H q. exact (forallb_In _ P _ H q (all_quantities_complete q)). Qed.

(* every units_scale of a continuous-time transform is the units of the variable that
   is integrated over (= the reciprocal of the other domain's variable), up to the
   dimensionless rad tag: V becomes V/Hz going to s, f or omega, and V again coming back *)
Definition site_ok (x : domain * domain * uvec) : bool :=
  let '(s, t, u) := x in
  if deqb s Dtime then dimeqb u (dom_units T Dtime) && (negb (is_spectral t) || dimeqb u (uneg (dom_units T t)))
  else if deqb t Dtime then dimeqb u (uneg (dom_units T Dtime)) && (negb (is_spectral s) || dimeqb u (dom_units T s))
  else true.
Theorem transform_sites_units : forall s t u, In (s, t, u) (sites T) -> site_ok (s, t, u) = true.
Proof.
  assert (H : forallb site_ok (sites T) = true) by (vm_cast_no_check (eq_refl true)).
  intros s t u Hin. exact (forallb_In _ _ _ H _ Hin).
Qed.
(* the four transforms the model relies on exist in the source *)
Theorem transform_sites_present :
  site_scale (sites T) Dtime Dlaplace <> None /\ site_scale (sites T) Dlaplace Dtime <> None /\
  site_scale (sites T) Dfourier Dtime <> None /\ site_scale (sites T) Dangular_fourier Dtime <> None.
Proof. vm_compute. repeat split; discriminate. Qed.

(* a transform keeps the quantity, lands in the target domain, and changes the units of
   a signal (voltage, current) or of a ratio (impedance, admittance, transfer) by
   exactly the transform variable's units: divided by them going to the spectral
   domain, multiplied by them coming back *)
Definition first_order (q : quantity) : bool := Z.eqb (sig_order q + ratio_order q) 1.
Definition fwd_ok (q : quantity) (x : domain) : bool :=
  match transform_model T (dop T Dtime q VV) x with
  | RK d q' u => deqb d x && qeqb q' q
                 && implb (first_order q) (dimeqb u (usub (def_units T Dtime q) (dom_units T x)))
  | _ => false
  end.
Definition inv_ok (q : quantity) (x : domain) : bool :=
  match transform_model T (dop T x q VV) Dtime with
  | RK d q' u => deqb d Dtime && qeqb q' q
                 && implb (first_order q) (dimeqb u (uadd (def_units T x q) (dom_units T x)))
  | _ => false
  end.
Lemma fwd_inv_all : forallb (fun q => forallb (fun x => fwd_ok q x && inv_ok q x) spectral) all_quantities = true.
Proof. vm_cast_no_check (eq_refl true). Qed.
Theorem transform_by_variable_units : forall q x, In x spectral ->
  (exists u, transform_model T (dop T Dtime q VV) x = RK x q u /\
             (first_order q = true -> dim u = dim (usub (def_units T Dtime q) (dom_units T x)))) /\
  (exists u, transform_model T (dop T x q VV) Dtime = RK Dtime q u /\
             (first_order q = true -> dim u = dim (uadd (def_units T x q) (dom_units T x)))).
Proof.
  intros q x Hx.
  pose proof (forallb_In _ _ _ (forall_q' _ fwd_inv_all q) x Hx) as K. cbv beta in K.
  apply andb_true_iff in K. destruct K as [K1 K2]. unfold fwd_ok in K1. unfold inv_ok in K2. split.
  - destruct (transform_model T (dop T Dtime q VV) x) as [d q' u| | |]; try discriminate.
    apply andb_true_iff in K1. destruct K1 as [K1 C]. apply andb_true_iff in K1. destruct K1 as [A B].
    apply deqb_eq in A. apply qeqb_eq in B. subst. exists u. split; [reflexivity|].
    intros F. rewrite F in C. simpl in C. unfold dimeqb in C. apply ueqb_eq in C. exact C.
  - destruct (transform_model T (dop T x q VV) Dtime) as [d q' u| | |]; try discriminate.
    apply andb_true_iff in K2. destruct K2 as [K2 C]. apply andb_true_iff in K2. destruct K2 as [A B].
    apply deqb_eq in A. apply qeqb_eq in B. subst. exists u. split; [reflexivity|].
    intros F. rewrite F in C. simpl in C. unfold dimeqb in C. apply ueqb_eq in C. exact C.
Qed.

(* there and back: a quantity that is transformed and transformed back has its
   original units.  Exception (finding transform.roundtrip): time -> f / omega -> time for
   the squared quantities and power, because FT rebuilds the spectrum with the class
   default (V^2/Hz^2, W) instead of the scaled units and the inverse scales by Hz *)
Definition density_reset (q : quantity) (start via : domain) : bool :=
  deqb start Dtime && (deqb via Dfourier || deqb via Dangular_fourier)
  && (Z.eqb (sig_order q) 2 || Z.eqb (ratio_order q) 2 || qeqb q Qpower).
Definition rt_ok (q : quantity) (x : domain) : bool :=
  let chk start via :=
    match roundtrip_model T (dop T start q VV) via with
    | RK d q' u => deqb d start && qeqb q' q
                   && (dimeqb u (def_units T start q) || (known_tr_density && density_reset q start via))
    | _ => false
    end in
  qeqb q Qundef || (chk Dtime x && chk x Dtime).
Lemma rt_all : forallb (fun q => forallb (rt_ok q) spectral) all_quantities = true.
Proof. vm_cast_no_check (eq_refl true). Qed.
Theorem transform_roundtrip : forall q x start via, q <> Qundef -> In x spectral ->
  (start = Dtime /\ via = x) \/ (start = x /\ via = Dtime) ->
  exists u, roundtrip_model T (dop T start q VV) via = RK start q u /\
            (dim u = dim (def_units T start q) \/ (known_tr_density = true /\ density_reset q start via = true)).
Proof.
  intros q x start via Hq Hx Hc.
  pose proof (forallb_In _ _ _ (forall_q' _ rt_all q) x Hx) as K. cbv beta in K. unfold rt_ok in K.
  apply orb_true_iff in K. destruct K as [K|K]; [apply qeqb_eq in K; contradiction|].
  apply andb_true_iff in K. destruct K as [K1 K2].
  assert (G : forall s v, match roundtrip_model T (dop T s q VV) v with
        | RK d q' u => deqb d s && qeqb q' q && (dimeqb u (def_units T s q) || (known_tr_density && density_reset q s v))
        | _ => false end = true ->
      exists u, roundtrip_model T (dop T s q VV) v = RK s q u /\
            (dim u = dim (def_units T s q) \/ (known_tr_density = true /\ density_reset q s v = true))).
  { intros s v G. destruct (roundtrip_model T (dop T s q VV) v) as [d q' u| | |]; try discriminate.
    apply andb_true_iff in G. destruct G as [G C]. apply andb_true_iff in G. destruct G as [A B].
    apply deqb_eq in A. apply qeqb_eq in B. subst. exists u. split; [reflexivity|].
    apply orb_true_iff in C. destruct C as [C|C]; [left; unfold dimeqb in C; apply ueqb_eq in C; exact C|].
    right. apply andb_true_iff in C. exact C. }
  destruct Hc as [[-> ->]|[-> ->]]; apply G; assumption.
Qed.

Definition present_tr_density : bool :=
  existsb (fun q => existsb (fun x =>
    negb (qeqb q Qundef) && density_reset q Dtime x &&
    match roundtrip_model T (dop T Dtime q VV) x with RK _ _ u => negb (dimeqb u (def_units T Dtime q)) | _ => false end) spectral) all_quantities.
Eval vm_compute in present_tr_density.

Print Assumptions transform_sites_units.
Print Assumptions transform_sites_present.
Print Assumptions transform_by_variable_units.
Print Assumptions transform_roundtrip.
