(* C15 - nodal equations.  For every netlist of two-terminal elements (R, C, Y, Z
   as cRC; L; V; I - the classes NodalAnalysis accepts), every node and every
   physical solution (phys of C01: KCL at every node + every constitutive
   relation; by Gen.C01net.mna_iff_phys exactly the solutions of the MNA system
   Lcapy solves):
     - the KCL equation that the model of NodalAnalysis._make_equations writes
       for the node evaluates to 0, provided each incident element's printed
       branch relation is sound (leaf_sound; proved per class in the generated
       files C15leaf_*.v from the relations regenerated from oneport.py);
     - the constraint written for a node that touches a voltage source holds.
   Induction over the netlist (the elements incident on the node are the ones
   that survive the filter). *)
Require Import LT.FieldSec LT.Circuit LT.MNA LT.FormulLeaf Gen.StampsGen Gen.C01model Gen.FormulLeafGen Gen.C15model.
Local Open Scope Z_scope.
Local Open Scope bool_scope.

Section C15nodal.
Variable K : fld.
Add Field KFnod : (fth K).

(* the current through a two-terminal element from its first to its second node *)
Definition i_of (cl : cname) (c : sctx K) (v ib : Z -> K) : K :=
  match cl with
  | cRC => fsub (fmul (Yeff c) (dV01 c v)) (if akind_eqb (kind c) KIvp && has_ic c then par c pIsc else f0)
  | cL | cV => ib (bown c)
  | cI => fopp (par c pIsc)
  | _ => f0 end.
Definition two_term (cl : cname) : bool := match cl with cRC | cL | cV | cI => true | _ => false end.
Lemma drawn_two_term cl c v ib r : two_term cl = true ->
  drawn_of cl c v ib r = thru (p0 c) (p1 c) r (i_of cl c v ib).
Proof. destruct cl; intros H; try discriminate; reflexivity. Qed.

(* an element of the formulation together with the physical element it stands for *)
Record pelt := PE { pe_l : lelt K; pe_cl : cname; pe_c : sctx K }.
Definition pe_ok (e : pelt) : Prop :=
  two_term (pe_cl e) = true /\ le_n1 (pe_l e) = p0 (pe_c e) /\ le_n2 (pe_l e) = p1 (pe_c e) /\
  p0 (pe_c e) <> p1 (pe_c e) /\ -1 <= p0 (pe_c e) /\ -1 <= p1 (pe_c e).
Definition to_phys (e : pelt) : cname * sctx K := (pe_cl e, pe_c e).

(* soundness of the printed branch relation of one element at a solution:
   seen from its first node the KCL term is the current through the element,
   seen from its second node it is minus that current *)
Definition leaf_sound (k : lkind) (s : K) (v v0 ib : Z -> K) (e : pelt) : Prop :=
  let l := pe_l e in
  let f := ceq_of (le_cls l) k (le_par l) s in
  nodal_contrib true f (unk v (le_n1 l)) (unk v (le_n2 l)) (unk v0 (le_n1 l)) (unk v0 (le_n2 l)) = i_of (pe_cl e) (pe_c e) v ib /\
  nodal_contrib false f (unk v (le_n1 l)) (unk v (le_n2 l)) (unk v0 (le_n1 l)) (unk v0 (le_n2 l)) = fopp (i_of (pe_cl e) (pe_c e) v ib).
(* only the side that faces node r is needed *)
Definition leaf_sound_at (k : lkind) (s : K) (v v0 ib : Z -> K) (r : Z) (e : pelt) : Prop :=
  let l := pe_l e in
  let f := ceq_of (le_cls l) k (le_par l) s in
  (le_n1 l = r -> nodal_contrib true f (unk v (le_n1 l)) (unk v (le_n2 l)) (unk v0 (le_n1 l)) (unk v0 (le_n2 l)) = i_of (pe_cl e) (pe_c e) v ib) /\
  (le_n1 l <> r -> le_n2 l = r ->
     nodal_contrib false f (unk v (le_n1 l)) (unk v (le_n2 l)) (unk v0 (le_n1 l)) (unk v0 (le_n2 l)) = fopp (i_of (pe_cl e) (pe_c e) v ib)).

Lemma unk_vv (v : Z -> K) n : unk v n = vv v n. Proof. reflexivity. Qed.

Lemma ind_self (r : Z) : @ind K r r = f1. Proof. apply ind_refl. Qed.
Lemma ind_diff (a r : Z) : a <> r -> @ind K a r = f0.
Proof. intros H. unfold ind. destruct (Z.eqb_spec a r); [contradiction | reflexivity]. Qed.

(* one element: what the formulation adds at node r is what the element draws from r *)
Lemma contrib_is_drawn k s v v0 ib r (e : pelt) :
  pe_ok e -> leaf_sound_at k s v v0 ib r e ->
  (if touches r (pe_l e) then contrib k s v v0 r (pe_l e) else f0) = drawn_of (pe_cl e) (pe_c e) v ib r.
Proof.
  intros [T [E1 [E2 [Hne _]]]] [S1 S2]. rewrite (drawn_two_term _ _ _ _ _ T).
  unfold touches, contrib, thru. rewrite <- E1, <- E2.
  assert (Hne' : le_n1 (pe_l e) <> le_n2 (pe_l e)) by (rewrite E1, E2; exact Hne).
  destruct (Z.eqb_spec (le_n1 (pe_l e)) r) as [A|A]; cbn [orb].
  - rewrite (S1 A). rewrite A at 1. rewrite ind_self. rewrite (ind_diff (le_n2 (pe_l e)) r) by congruence. ring.
  - destruct (Z.eqb_spec (le_n2 (pe_l e)) r) as [B|B].
    + rewrite (S2 A B). rewrite (ind_diff _ _ A). rewrite B. rewrite ind_self. ring.
    + rewrite (ind_diff _ _ A), (ind_diff _ _ B). ring.
Qed.

Lemma sumL_filter_map (f : lelt K -> K) (g : lelt K -> bool) (l : list (lelt K)) :
  sumL (map f (filter g l)) = sumL (map (fun e => if g e then f e else f0) l).
Proof. induction l as [|a l IH]; cbn [filter map sumL]; [reflexivity|].
  destruct (g a); cbn [map sumL]; rewrite IH; ring. Qed.

(* KCL: induction over the netlist *)
Theorem nodal_kcl_sat (k : lkind) (s : K) (N : list pelt) (v v0 ib : Z -> K) (r : Z) :
  0 <= r -> phys (map to_phys N) v ib ->
  (forall e, In e N -> pe_ok e /\ leaf_sound_at k s v v0 ib r e) ->
  sumL (map (contrib k s v v0 r) (filter (touches r) (map pe_l N))) = f0.
Proof.
  intros Hr [Hk _] HN. rewrite <- (Hk r Hr). unfold kcl. rewrite sumL_filter_map.
  clear Hk. induction N as [|e N IH]; cbn [map sumL sumK]; [reflexivity|].
  destruct (HN e (or_introl eq_refl)) as [Ok Snd].
  rewrite (contrib_is_drawn k s v v0 ib r e Ok Snd). cbn [to_phys fst snd]. f_equal.
  apply IH. intros e' He'. apply HN. right. exact He'.
Qed.

(* the constitutive relation of one branch element, isolated from the branch rows *)
Definition is_branch (cl : cname) : bool := match cl with cL | cV => true | _ => false end.
Definition branch_distinct (N : list pelt) : Prop :=
  NoDup (map (fun e => bown (pe_c e)) (filter (fun e => is_branch (pe_cl e)) N)).
Lemma brel_other (x : pelt) (v ib : Z -> K) (q : Z) :
  two_term (pe_cl x) = true -> (is_branch (pe_cl x) = true -> bown (pe_c x) <> q) ->
  brel_of (pe_cl x) (pe_c x) v ib q = f0.
Proof.
  intros T Hd. destruct (pe_cl x) eqn:Ecl; try discriminate; cbn [brel_of]; try reflexivity.
  - unfold brel_L. rewrite ind_diff by (apply Hd; reflexivity). ring.
  - unfold brel_V. rewrite ind_diff by (apply Hd; reflexivity). ring.
Qed.
Lemma crel_zero (N : list pelt) (v ib : Z -> K) (q : Z) :
  (forall x, In x N -> two_term (pe_cl x) = true /\ (is_branch (pe_cl x) = true -> bown (pe_c x) <> q)) ->
  crel (map to_phys N) v ib q = f0.
Proof.
  unfold crel. induction N as [|a N IH]; intros H; cbn [map sumK]; [reflexivity|]. cbn [to_phys fst snd].
  destruct (H a (or_introl eq_refl)) as [T D]. rewrite (brel_other a v ib q T D).
  rewrite IH; [ring|]. intros x Hx. apply H. right. exact Hx.
Qed.
Lemma crel_isolate (N : list pelt) (v ib : Z -> K) (e : pelt) :
  (forall x, In x N -> two_term (pe_cl x) = true) -> branch_distinct N -> In e N -> is_branch (pe_cl e) = true ->
  crel (map to_phys N) v ib (bown (pe_c e)) = brel_of (pe_cl e) (pe_c e) v ib (bown (pe_c e)).
Proof.
  unfold branch_distinct.
  induction N as [|a N IH]; intros HT ND Hin Hb; [contradiction|].
  change (crel (map to_phys (a :: N)) v ib (bown (pe_c e)))
    with (fadd (brel_of (pe_cl a) (pe_c a) v ib (bown (pe_c e))) (crel (map to_phys N) v ib (bown (pe_c e)))).
  destruct Hin as [<-|Hin].
  - cbn [filter] in ND. rewrite Hb in ND. cbn [map] in ND. inversion ND as [|? ? Hn ND']; subst.
    rewrite crel_zero; [ring|]. intros x Hx. split; [apply HT; right; exact Hx|].
    intros Hbx Heq. apply Hn. rewrite <- Heq. apply (in_map (fun e0 => bown (pe_c e0))). apply filter_In. split; assumption.
  - assert (Ha : brel_of (pe_cl a) (pe_c a) v ib (bown (pe_c e)) = f0).
    { apply brel_other; [apply HT; left; reflexivity|]. intros Hba Heq.
      cbn [filter] in ND. rewrite Hba in ND. cbn [map] in ND. inversion ND as [|? ? Hn _]; subst.
      apply Hn. rewrite Heq. apply (in_map (fun e0 => bown (pe_c e0))). apply filter_In. split; assumption. }
    rewrite Ha. rewrite IH; [ring | | | exact Hin | exact Hb].
    + intros x Hx. apply HT. right. exact Hx.
    + cbn [filter] in ND. destruct (is_branch (pe_cl a)); [cbn [map] in ND; inversion ND; assumption | exact ND].
Qed.

(* the constraint written for a node that touches a voltage source *)
Theorem nodal_vsrc_sat (k : lkind) (s : K) (N : list pelt) (v ib : Z -> K) (e : pelt) :
  phys (map to_phys N) v ib -> (forall x, In x N -> pe_ok x) -> branch_distinct N ->
  In e N -> pe_cl e = cV -> le_cls (pe_l e) = LV -> 0 <= bown (pe_c e) ->
  veq_V k (le_par (pe_l e)) s f0 f0 = par (pe_c e) pVoc ->
  nodal_vsrc (veq_of LV k (le_par (pe_l e)) s f0 f0) (unk v (le_n1 (pe_l e))) (unk v (le_n2 (pe_l e))) = f0.
Proof.
  intros [_ Hc] Hok ND Hin Hcl Hlc Hb Hsrc.
  assert (HT : forall x, In x N -> two_term (pe_cl x) = true) by (intros x Hx; apply (Hok x Hx)).
  pose proof (crel_isolate N v ib e HT ND Hin) as Iso. rewrite Hcl in Iso. specialize (Iso eq_refl).
  rewrite (Hc _ Hb) in Iso. cbn [brel_of] in Iso. unfold brel_V in Iso. rewrite ind_self in Iso.
  destruct (Hok e Hin) as [_ [E1 [E2 _]]]. rewrite E1, E2. cbn [veq_of]. rewrite Hsrc. unfold nodal_vsrc.
  unfold dV01, vv in Iso. unfold unk.
  set (a := if 0 <=? p0 (pe_c e) then v (p0 (pe_c e)) else f0) in *.
  set (b := if 0 <=? p1 (pe_c e) then v (p1 (pe_c e)) else f0) in *.
  transitivity (fmul f1 (fsub (fsub a b) (par (pe_c e) pVoc))); [ring|].
  rewrite <- Iso. reflexivity.
Qed.

(* the two together: the residual of the model of _make_equations at node r.
   Voltage sources never enter a KCL sum (a node that touches one gets the
   constraint instead), so no branch relation is required of them. *)
Theorem nodal_sat (k : lkind) (s : K) (N : list pelt) (v v0 ib : Z -> K) (r : Z) (pick : nat) :
  0 <= r -> phys (map to_phys N) v ib -> branch_distinct N ->
  (forall e, In e N -> pe_ok e /\ (is_V (pe_l e) = false -> leaf_sound_at k s v v0 ib r e)) ->
  (forall e, In e N -> pe_cl e = cV -> 0 <= bown (pe_c e) /\ veq_V k (le_par (pe_l e)) s f0 f0 = par (pe_c e) pVoc) ->
  (forall e, In e N -> is_V (pe_l e) = true -> pe_cl e = cV) ->
  pick_ok (map pe_l N) r pick = true ->
  node_residual k s (map pe_l N) v v0 r pick = f0.
Proof.
  intros Hr Hp ND HN HV HVc Hpk. unfold node_residual.
  unfold pick_ok in Hpk.
  destruct (existsb is_V (filter (touches r) (map pe_l N))) eqn:Ex.
  - cbn [negb orb] in Hpk. destruct (nth_error (map pe_l N) pick) as [l|] eqn:En; [|discriminate].
    apply andb_prop in Hpk. destruct Hpk as [HisV _].
    apply nth_error_In in En. apply in_map_iff in En. destruct En as [e [<- Hin]].
    destruct (HV e Hin (HVc e Hin HisV)) as [Hb Hs].
    apply (nodal_vsrc_sat k s N v ib e); try assumption.
    + intros x Hx. apply (HN x Hx).
    + apply HVc; assumption.
    + unfold is_V in HisV. destruct (le_cls (pe_l e)); try discriminate. reflexivity.
  - apply nodal_kcl_sat with (ib := ib); try assumption.
    intros e He. destruct (HN e He) as [Ok Snd]. split; [exact Ok|].
    destruct (is_V (pe_l e)) eqn:EV; [|apply Snd; reflexivity].
    (* a voltage source: it does not touch r, so nothing is asked *)
    assert (NT : touches r (pe_l e) = false).
    { destruct (touches r (pe_l e)) eqn:ET; [|reflexivity]. exfalso.
      assert (X : existsb is_V (filter (touches r) (map pe_l N)) = true).
      { apply existsb_exists. exists (pe_l e). split; [|exact EV]. apply filter_In. split; [apply in_map; exact He | exact ET]. }
      congruence. }
    unfold touches in NT. apply orb_false_elim in NT. destruct NT as [A B].
    apply Z.eqb_neq in A. apply Z.eqb_neq in B. split; intros; contradiction.
Qed.
End C15nodal.
Arguments i_of {K}. Arguments leaf_sound {K}. Arguments leaf_sound_at {K}. Arguments pe_ok {K}. Arguments PE {K}.
Arguments pe_l {K}. Arguments pe_cl {K}. Arguments pe_c {K}. Arguments to_phys {K}. Arguments branch_distinct {K}.
Print Assumptions nodal_kcl_sat.
Print Assumptions nodal_vsrc_sat.
Print Assumptions nodal_sat.
