(* C10 — inverse Laplace transform inverts the forward transform and respects
   causality.  Property theorems that do not depend on generated code (the
   statements about the translated closed forms, the partner-search guard and
   the instantiated main theorem ILT_LT_gen are generated into C10_branches.v /
   C10_guard.v / C10_ds.v on every run).  Each theorem restates a lemma of
   coq/theory/{ExpPoly,ILT,ILTCorr}.v so that its statement is visible here. *)
Require Import LT.FieldSec LT.PolyQ LT.QcI LT.ExpPoly LT.ILT LT.ILTResidue LT.ILTCorr.
Local Open Scope F_scope.

(* ---- signal algebra ---------------------------------------------------------- *)
Theorem C10_L_linear : forall (K : fld) (s a : K) (x y : sig K),
  Lval s (sadd x y) = Lval s x + Lval s y /\ Lval s (sscale a x) = a * Lval s x /\ L (sadd x y) = iadd (L x) (L y).
Proof. intros. repeat split; [apply Lval_sadd | apply Lval_sscale | apply L_sadd]. Qed.
Theorem C10_Linv_L : forall (K : fld) (x : sig K), Linv (L x) = x.
Proof. exact Linv_L. Qed.
Theorem C10_L_Linv : forall (K : fld) (F : img K), wf_img F -> L (Linv F) = F.
Proof. exact L_Linv. Qed.
(* inversion on normal forms: any number of poles, any orders, polynomial part *)
Theorem C10_LT_Linv : forall (K : fld) (s : K) (F : img K), wf_img F -> Lval s (Linv F) = ival s F.
Proof. exact LT_Linv. Qed.
Theorem C10_L_D : forall (K : fld) (s : K) (x : sig K), pole_free s x -> Lval s (D x) = s * Lval s x.
Proof. exact L_D. Qed.
Theorem C10_delay : forall (K : fld) (E : Qc -> K) (s : K) (T0 : Qc) (X : dsig K),
  (forall a b, E (a + b)%Qc = E a * E b) -> dLval E s (dshift T0 X) = E T0 * dLval E s X.
Proof. exact dLval_shift. Qed.
Theorem C10_delayed_inverse : forall (K : fld) (E : Qc -> K) (s : K) (G : dimg K),
  wf_dimg G -> dLval E s (dLinv G) = dival E s G.
Proof. exact dLval_dLinv. Qed.

(* ---- the model of InverseLaplaceTransformer.ratfun's loop ---------------------- *)
Theorem C10_loop_LT : forall (K : fld) (cj : K -> K) (B : branches K) (guard : bool -> nat -> nat -> bool),
  guard_sound guard -> branches_ok K B ->
  forall (s : K) (ts : list (pfterm K)), wf_tsb ts = true -> ipole_free s ts ->
  exists x, loop K cj B guard (length ts) (entries K ts) = Some x /\ sing x = [] /\
            Lval s x = pf_val ts s /\ at0 (reg x) = pf_iv ts.
Proof. exact loop_LT. Qed.
(* MAIN: for every sum of delayed terms in partial-fraction normal form *)
Theorem C10_ILT_LT : forall (K : fld) (cj : K -> K) (B : branches K) (guard : bool -> nat -> nat -> bool),
  guard_sound guard -> branches_ok K B ->
  forall (E : Qc -> K), E 0%Qc = 1 ->
  forall (causal : bool) (const s : K) (F : list (iterm K)), (forall tm, In tm F -> wf_term K s tm) ->
  exists m, doit_model K cj B guard causal const F = Some m /\
            dLval E s (m_c m) + Lval s (m_u m) = const * image_sum K E s F.
Proof. exact ILT_LT. Qed.
Theorem C10_ILT_LT_cert : forall (K : fld) (cj : K -> K) (B : branches K) (guard : bool -> nat -> nat -> bool),
  guard_sound guard -> branches_ok K B ->
  forall (E : Qc -> K), E 0%Qc = 1 ->
  forall (causal : bool) (const s : K) (F : list (cterm K)),
  (forall ct, In ct F -> cert_ok ct = true /\ peval (ct_A ct) s <> 0) ->
  exists m, doit_model K cj B guard causal const (map ct_term F) = Some m /\
            dLval E s (m_c m) + Lval s (m_u m) = const * input_sum K E s F.
Proof. exact ILT_LT_cert. Qed.
Theorem C10_pf_check_sound : forall (K : fld) (B A Q : list K) (ts : list (pfterm K)), pf_check B A Q ts = true ->
  forall x, peval A x <> 0 -> peval B x / peval A x = peval Q x + pf_val ts x.
Proof. exact pf_check_sound. Qed.

(* ---- causality ------------------------------------------------------------------- *)
Theorem C10_causal_flag : forall (K : fld) (cj : K -> K) (B : branches K) guard (const : K) (F : list (iterm K)) (m : mres K),
  doit_model K cj B guard true const F = Some m -> m_cond m = false /\ m_u m = szero.
Proof. exact causal_flag. Qed.
Theorem C10_noncausal_flag : forall (K : fld) (cj : K -> K) (B : branches K) guard (const : K) (F : list (iterm K)) (m : mres K),
  doit_model K cj B guard false const F = Some m -> (m_cond m = true <-> reg (m_u m) <> []).
Proof. exact noncausal_flag. Qed.
Theorem C10_delayed_flag : forall (K : fld) (cj : K -> K) (B : branches K) guard (causal : bool) (tm : iterm K) (r : tres K),
  term_model K cj B guard causal tm = Some r -> qc_eqb (it_delay tm) 0 = false ->
  t_u r = szero /\ exists x, t_c r = [(it_delay tm, x)].
Proof. exact delayed_flag. Qed.
Theorem C10_eff_causal : forall st kw, eff_causal st (kw ++ [(Acausal, true)]) = true /\
  forall f, f <> Acausal -> eff_causal st (kw ++ [(f, true)]) = false.
Proof. intros. split; [apply eff_causal_last | intros; apply eff_causal_overridden; assumption]. Qed.

(* ---- initial / final value -------------------------------------------------------- *)
Theorem C10_ivt_fvt : forall (K : fld) (cj : K -> K) (B : branches K) (guard : bool -> nat -> nat -> bool),
  guard_sound guard -> branches_ok K B ->
  forall (s : K) (ts : list (pfterm K)), wf_tsb ts = true -> ipole_free s ts ->
  (exists c u, ratfun_model K cj B guard [] ts = Some (c, u) /\ sig_t0 (reg u) = pf_iv ts /\ sXu 0 (reg u) = pf_iv ts) /\
  (fv_ok (reg (Linv (Img [] ts))) = true -> sX 0 (reg (Linv (Img [] ts))) = fv (reg (Linv (Img [] ts)))).
Proof. exact ivt_fvt. Qed.
Theorem C10_ivt_alg : forall (K : fld) (u : K) (l : list (rterm K)), u <> 0 ->
  (forall c n p, In (c, n, p) l -> 1 - p * u <> 0) -> sXu u l = (1 / u) * rval (1 / u) l.
Proof. exact ivt_alg. Qed.
Theorem C10_fvt_alg : forall (K : fld) (s : K) (l : list (rterm K)), s <> 0 -> rpole_free s l -> sX s l = s * rval s l.
Proof. exact fvt_alg. Qed.
Theorem C10_fv_formula : forall (K : fld) (ts : list (pfterm K)), wf_pf ts -> fv (reg (Linv (Img [] ts))) = pf_fv ts.
Proof. exact fv_Linv. Qed.

(* ---- the verified per-case round trip, cache, undefined transforms ------------------- *)
Theorem C10_roundtrip_sound : forall (K : fld) (Bp Ap : list K) (x : sig K), roundtrip_check Bp Ap x = true ->
  forall s, peval Ap s <> 0 -> Lval s x = peval Bp s / peval Ap s.
Proof. exact roundtrip_sound. Qed.
Theorem C10_case_rt_sound : forall const F o, rt_check const F o = true ->
  forall (E : Qc -> QcIF) (s : QcIF), (forall ct, In ct F -> peval (ct_A ct) s <> 0) ->
  dLval E s (obs_dsig (map (fun i => fst (fst i)) (ins_of const F)) o) = const * input_sum QcIF E s F.
Proof. exact case_rt_sound. Qed.
Theorem C10_model_eval_is_doit : forall B guard causal const F,
  model_eval B guard causal const F [] = doit_model QcIF ciconj B guard causal const (map ct_term F).
Proof. exact model_eval_cert. Qed.
Theorem C10_cache_sound : forall (Key Val : Type) (keqb : Key -> Key -> bool), (forall a b, keqb a b = true -> a = b) ->
  forall (compute : Key -> Val) (good : Key -> Val -> Prop), (forall k, good k (compute k)) ->
  forall ks c, cache_inv Key Val good c ->
  Forall2 good ks (fst (run Key Val keqb compute c ks)) /\ cache_inv Key Val good (snd (run Key Val keqb compute c ks)).
Proof. intros. apply cache_sound; assumption. Qed.
Theorem C10_undef_deriv : forall (K : fld) (v : sig K) (n : nat) (s : K), pole_free s v -> Lval s (Dn n v) = fpow s n * Lval s v.
Proof. exact undef_deriv_sound. Qed.
Theorem C10_undef_int : forall (K : fld) (y v : sig K) (s : K), D y = v -> pole_free s y -> s <> 0 -> Lval s y = Lval s v / s.
Proof. exact undef_int_sound. Qed.

(* ---- residues by substitution (cover-up), simple and double poles ("residues_partial") ---- *)
Theorem C10_residue_sub_simple : forall (K : fld) (Bp C : list K) (p : K), peval C p <> 0 ->
  pdivides (plin p) (psub Bp (pscale (rat_eval (Bp, C) p) C)).
Proof. exact residue_sub_simple. Qed.
Theorem C10_residue_sub_simple_value : forall (K : fld) (Bp C : list K) (p : K), peval C p <> 0 ->
  exists W, forall x, x - p <> 0 -> peval C x <> 0 ->
    peval Bp x / ((x - p) * peval C x) = rat_eval (Bp, C) p / (x - p) + peval W x / peval C x.
Proof. exact residue_sub_simple_value. Qed.
Theorem C10_residue_sub_double : forall (K : fld) (Bp C : list K) (p : K), peval C p <> 0 ->
  pdivides (plinpow p 2) (psub (psub Bp (pscale (rat_eval (Bp, C) p) C))
                               (pscale (rat_eval (rdiff (Bp, C)) p / fnat (natfact 1)) (pmul (plin p) C))).
Proof. exact residue_sub_double. Qed.
Theorem C10_residue_sub_double_value : forall (K : fld) (Bp C : list K) (p : K), peval C p <> 0 ->
  exists W, forall x, x - p <> 0 -> peval C x <> 0 ->
    peval Bp x / (fpow (x - p) 2 * peval C x) =
      rat_eval (Bp, C) p / fpow (x - p) 2 + (rat_eval (rdiff (Bp, C)) p / fnat (natfact 1)) / (x - p) + peval W x / peval C x.
Proof. exact residue_sub_double_value. Qed.
(* residues of EVERY order at a pole of EVERY multiplicity n: the Taylor-jet coefficients
   c_k = (B/C)^(k)(p)/k! obtained by division in ascending powers of the shifted polynomials *)
Theorem C10_residue_k_general : forall (K : fld) (Bp C : list K) (p : K) (n : nat), peval C p <> 0 ->
  forall x, peval Bp x = peval C x * peval (jet_residues p n Bp C) (x - p) + fpow (x - p) n * peval (jet_rest p n Bp C) (x - p).
Proof. exact residue_k_general. Qed.
Theorem C10_residue_k_general_value : forall (K : fld) (Bp C : list K) (p : K) (n : nat), peval C p <> 0 ->
  forall x, x - p <> 0 -> peval C x <> 0 ->
    peval Bp x / (fpow (x - p) n * peval C x) =
      pf_val (jet_pf p n (jet_residues p n Bp C)) x + peval (jet_rest p n Bp C) (x - p) / peval C x.
Proof. exact residue_k_general_value. Qed.
Theorem C10_asc_div_spec : forall (K : fld) (n : nat) (R d : list K), hd 0 d <> 0 ->
  forall y, peval R y = peval d y * peval (fst (asc_div n R d)) y + fpow y n * peval (snd (asc_div n R d)) y.
Proof. exact asc_div_spec. Qed.
Theorem C10_ptaylor_spec : forall (K : fld) (p : K) (P : list K) (y : K), peval (ptaylor p P) y = peval P (y + p).
Proof. exact ptaylor_spec. Qed.
(* the expand-and-recurse fall-back of term(): delay re-attached to every piece *)
Theorem C10_fallback_LT : forall (K : fld) (cj : K -> K) (B : branches K) (guard : bool -> nat -> nat -> bool),
  guard_sound guard -> branches_ok K B -> forall (E : Qc -> K), E 0%Qc = 1 ->
  forall causal s (pieces : list (iterm K)) (T : Qc), qc_ltb T 0 = false ->
  (forall tm, In tm pieces -> wf_term K s tm /\ it_delay tm = 0%Qc) ->
  exists r, sum_terms (map (fun tm => term_model K cj B guard causal (set_delay T tm)) pieces) = Some r /\
            tval K E s r = E T * image_sum K E s pieces.
Proof. exact fallback_LT. Qed.
Print Assumptions C10_residue_k_general. Print Assumptions C10_residue_k_general_value. Print Assumptions C10_asc_div_spec.
Print Assumptions C10_ptaylor_spec. Print Assumptions C10_fallback_LT.
Print Assumptions C10_residue_sub_simple. Print Assumptions C10_residue_sub_simple_value.
Print Assumptions C10_residue_sub_double. Print Assumptions C10_residue_sub_double_value.

Print Assumptions C10_L_linear. Print Assumptions C10_Linv_L. Print Assumptions C10_L_Linv. Print Assumptions C10_LT_Linv.
Print Assumptions C10_L_D. Print Assumptions C10_delay. Print Assumptions C10_delayed_inverse.
Print Assumptions C10_loop_LT. Print Assumptions C10_ILT_LT. Print Assumptions C10_ILT_LT_cert. Print Assumptions C10_pf_check_sound.
Print Assumptions C10_causal_flag. Print Assumptions C10_noncausal_flag. Print Assumptions C10_delayed_flag. Print Assumptions C10_eff_causal.
Print Assumptions C10_ivt_fvt. Print Assumptions C10_ivt_alg. Print Assumptions C10_fvt_alg. Print Assumptions C10_fv_formula.
Print Assumptions C10_roundtrip_sound. Print Assumptions C10_case_rt_sound. Print Assumptions C10_model_eval_is_doit.
Print Assumptions C10_cache_sound. Print Assumptions C10_undef_deriv. Print Assumptions C10_undef_int.
