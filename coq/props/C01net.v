(* C01, netlist level: by induction over the component list, the assembled MNA
   system holds iff KCL holds at every node and every constitutive relation
   holds (uses the per-class lemmas of Gen.C01). *)
Require Import LT.FieldSec LT.Circuit LT.CircuitLinear Gen.StampsGen Gen.C01 Gen.C01model.
Local Open Scope Z_scope.
Local Open Scope bool_scope.

Section C01net.
Variable K : fld.
Add Field KFn : (fth K).
Notation netlist := (netlist K).

Theorem stamp_of_sem (cl : cname) (c : sctx K) : wf_ctx c -> pre cl c ->
  realises (stamp_of cl c) c (drawn_of cl c) (brel_of cl c).
Proof.
  intros W Hp. destruct cl; cbn [stamp_of drawn_of brel_of pre] in *;
  first [ apply stamp_sem_RC | apply stamp_sem_L | apply stamp_sem_V | apply stamp_sem_AM | apply stamp_sem_I
        | apply stamp_sem_VCVS | apply stamp_sem_VCCS | apply stamp_sem_CCCS | apply stamp_sem_CCVS
        | apply stamp_sem_K | apply stamp_sem_TF | apply stamp_sem_GY | apply stamp_sem_TL
        | apply stamp_sem_TPA | apply stamp_sem_TPB | apply stamp_sem_TPG | apply stamp_sem_TPH
        | apply stamp_sem_TPY | apply stamp_sem_TPZ | apply stamp_sem_TR
        | apply stamp_sem_SPpp | apply stamp_sem_SPpm | apply stamp_sem_SPppp | apply stamp_sem_SPpmm
        | apply stamp_sem_SPppm | apply stamp_sem_RV | apply stamp_sem_Dummy ]; assumption.
Qed.

Lemma forallb_app' {A} (f : A -> bool) l1 l2 : forallb f l1 = true -> forallb f l2 = true -> forallb f (l1 ++ l2) = true.
Proof. intros H1 H2. rewrite forallb_app, H1, H2. reflexivity. Qed.

Theorem mna_sem (N : netlist) : wf_net N ->
  exists T, assemble N = SOk T /\ all_add T = true /\ no_neg T = true /\
    forall v ib, (forall r, 0 <= r -> node_res T v ib r = kcl N v ib r) /\
                 (forall q, 0 <= q -> br_res T v ib q = crel N v ib q).
Proof.
  induction N as [|[cl c] N IH]; intros W.
  - exists []. repeat split; intros; unfold kcl, crel; cbn [map sumK];
      [apply node_res_nil | apply br_res_nil].
  - inversion W as [|? ? [Wc Pc] W']; subst. destruct (IH W') as [T2 [E2 [A2 [G2 R2]]]].
    destruct (stamp_of_sem cl c Wc Pc) as [T1 [E1 [A1 [G1 R1]]]].
    exists (T1 ++ T2). cbn [assemble]. rewrite E1, E2. split; [reflexivity|].
    split; [apply forallb_app'; assumption|]. split; [apply forallb_app'; assumption|].
    intros v ib. destruct (R1 v ib) as [Rn1 Rb1]. destruct (R2 v ib) as [Rn2 Rb2].
    split; [intros r Hr | intros q Hq]; unfold kcl, crel in *; cbn [map sumK fst snd].
    + rewrite node_res_app, Rn1, Rn2 by assumption. reflexivity.
    + rewrite br_res_app, Rb1, Rb2 by assumption. reflexivity.
Qed.

(* the assembled MNA system is satisfied exactly by the physical solutions *)
Theorem mna_iff_phys (N : netlist) (T : list (upd K)) (v ib : Z -> K) :
  wf_net N -> assemble N = SOk T ->
  ((forall r, 0 <= r -> node_res T v ib r = f0) /\ (forall q, 0 <= q -> br_res T v ib q = f0)) <-> phys N v ib.
Proof.
  intros W E. destruct (mna_sem N W) as [T' [E' [_ [_ R]]]]. rewrite E in E'. inversion E'; subst T'.
  destruct (R v ib) as [Rn Rb]. unfold phys. split; intros [H1 H2]; split; intros x Hx.
  - rewrite <- Rn by assumption. auto. - rewrite <- Rb by assumption. auto.
  - rewrite Rn by assumption. auto. - rewrite Rb by assumption. auto.
Qed.


(* the reported solution is THE solution: for a well-posed netlist any two
   vectors that satisfy KCL and all constitutive relations coincide, so the
   result cannot depend on the linear-solver method *)
Theorem phys_unique (N : netlist) (T : list (upd K)) (nn mm : Z) (v1 ib1 v2 ib2 : Z -> K) :
  wf_net N -> assemble N = SOk T -> well_posed T nn mm ->
  phys N v1 ib1 -> phys N v2 ib2 ->
  (forall i, 0 <= i < nn -> v1 i = v2 i) /\ (forall j, 0 <= j < mm -> ib1 j = ib2 j).
Proof.
  intros W E WP P1 P2. apply (mna_unique K T nn mm v1 ib1 v2 ib2 WP).
  - apply (mna_iff_phys N T v1 ib1 W E). exact P1.
  - apply (mna_iff_phys N T v2 ib2 W E). exact P2.
Qed.

(* non-vacuity: a source driving a resistor (V1 1 0; R1 1 0) is well-formed and well-posed *)
Definition ex_ctx (cl : cname) (y voc : K) : sctx K :=
  SCtx K KS TyOtherType 0 (-1) (-1) (-1) (-1) (-1) 0 0 0 0 0 false false false false
       (fun n => match n with pY => y | pVoc => voc | _ => f0 end).
Definition ex_net (y voc : K) : netlist := [(cV, ex_ctx cV y voc); (cRC, ex_ctx cRC y voc)].
Example ex_net_wf y voc : wf_net (ex_net y voc).
Proof. repeat constructor; cbv [wf_ctx ex_ctx p0 p1 p2 p3 c0 c1 bown bextra bctrl bL1 bL2 snd]; repeat split; lia. Qed.
Example ex_net_well_posed y voc : exists T, assemble (ex_net y voc) = SOk T /\ well_posed T 1 1.
Proof.
  eexists. split; [reflexivity|]. intros v ib [Hn Hb].
  specialize (Hn 0 ltac:(lia)). specialize (Hb 0 ltac:(lia)).
  cbv [lin app um uo ur uc uv mname_eqb ind Z.eqb ex_ctx kind typ p0 p1 p2 p3 bown par
       akind_eqb ctype_eqb andb has_ic guard Z.leb Z.compare] in Hn, Hb.
  assert (V0 : v 0 = f0) by (rewrite <- Hb; ring).
  assert (I0 : ib 0 = f0) by (rewrite <- Hn, V0; ring).
  split; intros i Hi; assert (i = 0) by lia; subst; assumption.
Qed.
End C01net.
Print Assumptions phys_unique.


Print Assumptions stamp_of_sem.
Print Assumptions mna_sem.
Print Assumptions mna_iff_phys.
