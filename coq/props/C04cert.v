(* C04 - the per-circuit well-posedness certificate is sound: if [cert N nn mm B]
   evaluates to true (the correspondence evaluation does this by vm_compute for
   every generated circuit, with B computed by the harness), then N is
   determined from every port among its first nn nodes - the hypothesis of
   net_port_affine / probe_impedance / probe_Isc / probe_admittance. *)
Require Import LT.FieldSec LT.Circuit LT.MNA LT.Thevenin LT.TheveninDense Gen.StampsGen Gen.C01model Gen.C01 Gen.C01net Gen.C04model Gen.C04 Gen.C04mna.
Local Open Scope Z_scope.
Local Open Scope bool_scope.

Section Cert.
Variable K : fld.
Add Field KFce : (fth K).
Notation netlist := (netlist K).

Lemma wf_ctxb_sound (c : sctx K) : wf_ctxb c = true -> wf_ctx c.
Proof. unfold wf_ctxb, wf_ctx. rewrite !andb_true_iff, !Z.leb_le. tauto. Qed.
Lemma preb_sound cl (c : sctx K) : preb cl c = true -> pre cl c.
Proof. destruct cl; cbn [preb pre]; intros H; try exact I; try exact H;
  try (apply negb_true_iff in H; exact H). Qed.
Lemma wf_netb_sound (N : netlist) : wf_netb N = true -> wf_net N.
Proof. unfold wf_netb, wf_net. rewrite forallb_forall, Forall_forall. intros H e He. specialize (H e He).
  apply andb_true_iff in H. destruct H as [H1 H2]. split; [apply wf_ctxb_sound | apply preb_sound]; assumption. Qed.

Theorem cert_determined (N : netlist) nn mm B p m :
  cert N nn mm B = true -> p < Z.of_nat nn -> m < Z.of_nat nn -> net_determined p m N.
Proof.
  unfold cert. intros H Hp Hm. apply andb_true_iff in H. destruct H as [HW H].
  destruct (assemble (killnet N)) as [T|] eqn:ET; [|discriminate]. apply andb_true_iff in H. destruct H as [HC HB].
  pose proof (wf_killnet K N (wf_netb_sound N HW)) as Wk.
  intros v ib Hphys.
  pose proof (proj2 (mna_iff_phys K (killnet N) T v ib Wk ET) Hphys) as [Rn Rb].
  assert (P0 : phys (killnet N) (@vzero K) (@vzero K)).
  { split; intros x Hx; [rewrite kcl_killnet | rewrite crel_killnet]; apply linpart_zero. }
  pose proof (proj2 (mna_iff_phys K (killnet N) T vzero vzero Wk ET) P0) as [Zn Zb].
  assert (Ln : forall r, (r < nn)%nat -> fadd (lin T MG (Z.of_nat r) v) (lin T MB (Z.of_nat r) ib) = f0).
  { intros r Hr. specialize (Rn (Z.of_nat r) ltac:(lia)). specialize (Zn (Z.of_nat r) ltac:(lia)).
    unfold node_res in *. unfold vzero in Zn. rewrite !lin_zero in Zn.
    transitivity (fsub (fsub (fadd (lin T MG (Z.of_nat r) v) (lin T MB (Z.of_nat r) ib)) (vecv T MIs (Z.of_nat r)))
                       (fsub (fadd f0 f0) (vecv T MIs (Z.of_nat r)))); [ring | rewrite Rn, Zn; ring]. }
  assert (Lb : forall q, (q < mm)%nat -> fadd (lin T MC (Z.of_nat q) v) (lin T MD (Z.of_nat q) ib) = f0).
  { intros q Hq. specialize (Rb (Z.of_nat q) ltac:(lia)). specialize (Zb (Z.of_nat q) ltac:(lia)).
    unfold br_res in *. unfold vzero in Zb. rewrite !lin_zero in Zb.
    transitivity (fsub (fsub (fadd (lin T MC (Z.of_nat q) v) (lin T MD (Z.of_nat q) ib)) (vecv T MEs (Z.of_nat q)))
                       (fsub (fadd f0 f0) (vecv T MEs (Z.of_nat q)))); [ring | rewrite Rb, Zb; ring]. }
  destruct (certificate_zero K T nn mm B v ib HC HB Ln Lb) as [Hv _].
  unfold pv, vv.
  assert (V : forall n, 0 <= n -> n < Z.of_nat nn -> v n = f0).
  { intros n H0 H1. rewrite <- (Z2Nat.id n H0). apply Hv. lia. }
  destruct (Z.leb_spec 0 p), (Z.leb_spec 0 m); rewrite ?V by assumption; ring.
Qed.

(* so, for a certified circuit, the probe readings ARE its Thevenin parameters *)
Corollary cert_port_affine (N : netlist) nn mm B p m v0 ib0 vt ibt :
  cert N nn mm B = true -> p < Z.of_nat nn -> m < Z.of_nat nn ->
  phys N v0 ib0 -> sol p m (kcl (killnet N)) (crel (killnet N)) f1 vt ibt ->
  forall i u, port_rel p m (kcl N) (crel N) i u <-> u = fadd (pv p m v0) (fmul (pv p m vt) i).
Proof. intros H Hp Hm. apply net_port_affine. apply (cert_determined N nn mm B p m H Hp Hm). Qed.
End Cert.
Print Assumptions cert_determined.
Print Assumptions cert_port_affine.
