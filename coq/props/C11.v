(* C11 — hand-written part: the facts every format proof rests on, stated for
   ALL polynomials over ANY characteristic-0 field (unbounded degree, arbitrary
   coefficients), plus facts about the executable instance used by the
   correspondence evaluation.  The per-method theorems fmt_preserves_<m>, which
   depend on how the CURRENT lcapy/ratfun.py re-attaches delay and undef, are
   generated into C11_<m>.v on every run. *)
Require Import LT.FieldSec LT.PolyQ LT.QcI LT.RatfunFmt LT.RatfunCF LT.RatfunCorr.
Local Open Scope F_scope.

Section C11.
Variable K : fld.
Add Field KFc11 : (fth K).
Notation poly := (list K).

(* Euclidean division: B = Q*A + R with deg R < deg A, for every B and every A <> 0 *)
Theorem division_identity (B A : poly) : pzerob A = false ->
  (forall x, peval B x = peval (pquo B A) x * peval A x + peval (pmod B A) x)
  /\ (psize (pmod B A) < psize A)%nat.
Proof. apply pmod_spec. Qed.

(* reported poles (zeros) are roots of the denominator (numerator) with the
   reported multiplicities; a certificate covering the full degree accounts
   for deg A roots; a partial one still divides *)
Theorem poles_are_roots (A : poly) (ps : list (K * nat)) p n :
  roots_cert A ps = true -> In (p, n) ps ->
  pdivides (plinpow p n) A /\ ((0 < n)%nat -> peval A p = 0).
Proof. intros H Hin. split; [apply (roots_cert_divides K A ps p n H Hin)|].
  intros Hn. destruct n as [|n']; [lia|]. apply (roots_cert_root K A ps p n' H Hin). Qed.
Theorem poles_full_degree (A : poly) (ps : list (K * nat)) :
  pzerob A = false -> roots_cert A ps = true -> psize A = S (mult_sum ps).
Proof. apply roots_cert_size. Qed.
Theorem poles_partial (A : poly) (ps : list (K * nat)) p n :
  roots_partial A ps = true -> In (p, n) ps -> pdivides (plinpow p n) A.
Proof. apply roots_partial_divides. Qed.

(* the reported residues reconstruct the expression *)
Theorem residues_reconstruct (B A Q : poly) (ts : list (pfterm K)) :
  pf_check B A Q ts = true -> forall x, peval A x <> 0 ->
  peval B x / peval A x = peval Q x + pf_val ts x.
Proof. apply pf_check_sound. Qed.

(* gcd cancellation used by general/standard preserves the value *)
Theorem cancel_preserves (N D : poly) x : peval D x <> 0 ->
  peval (fst (pcancel N D)) x / peval (snd (pcancel N D)) x = peval N x / peval D x.
Proof. intros H. apply (pcancel_sound K N D x H). Qed.

(* continued fraction: the expansion produced by the model of
   continued_fraction_coeffs evaluates back to N/D *)
Theorem cf_preserves fuel (N D : poly) qs : cf_coeffs fuel N D = Some qs -> req (cf_rat qs) (N, D).
Proof. apply cf_coeffs_sound. Qed.
Theorem cf_preserves_value fuel (N D : poly) qs x : cf_coeffs fuel N D = Some qs -> cf_ok K qs x ->
  peval D x <> 0 -> peval (snd (cf_rat qs)) x <> 0 -> cf_val qs x = peval N x / peval D x.
Proof. apply cf_value. Qed.

(* as_continued_fraction_inverse (trailing-term expansion) *)
Theorem cf_inverse_preserves fuel (N D : poly) qs : cfi_run fuel N D = Some qs -> req (cf_rat qs) (N, D).
Proof. apply cfi_sound. Qed.
Theorem cf_inverse_preserves_value fuel (N D : poly) qs x : cfi_run fuel N D = Some qs -> cf_ok K qs x ->
  peval D x <> 0 -> peval (snd (cf_rat qs)) x <> 0 -> cf_val qs x = peval N x / peval D x.
Proof. apply cfi_value. Qed.

(* poles / zeros that are not in the coefficient field (reported as algebraic numbers):
   with the minimal polynomials m_i of the reported numbers and the checked identity
   A = lc(A) * prod m_i^{n_i}, every root of an m_i is a root of A and m_i^{n_i} divides A *)
Theorem irrational_roots_are_roots (A : poly) (l : list (poly * nat)) m n r :
  minpoly_cert A l = true -> In (m, S n) l -> peval m r = 0 ->
  peval A r = 0 /\ pdivides (ppow m (S n)) A.
Proof. intros H Hin Hr. split; [apply (minpoly_cert_root K A l m n r H Hin Hr) | apply (minpoly_cert_divides K A l m (S n) H Hin)]. Qed.

(* multiply_top_and_bottom / divide_top_and_bottom / N over D *)
Theorem top_bottom_preserves (n dn f : K) : dn <> 0 -> f <> 0 -> fmt_scale_top_bottom n dn f = n / dn.
Proof. apply fmt_scale_top_bottom_sound. Qed.
End C11.

(* rationalize_denominator over Q(i): N*conj(D) / (re(D)^2 + im(D)^2) = N/D *)
Theorem rationalize_preserves (n dn : qci) : dn <> ci0 ->
  cidiv (cimul n (ciconj dn)) (ciofq (re dn * re dn + im dn * im dn)%Qc) = cidiv n dn.
Proof. intros H. pose proof (cinorm_nz dn H) as Hn. unfold cinorm in Hn.
  destruct n as [a b], dn as [c d]. cbn [re im] in *.
  unfold cidiv, cimul, ciinv, ciconj, ciofq, cinorm. cbn [re im].
  apply qci_eq; cbn [re im]; field; exact Hn. Qed.

(* the interpretation of exp used by the correspondence evaluation satisfies
   the hypothesis E 0 = 1 of the format theorems (non-vacuity) *)
Example E3_zero : E3 (0 : QcIF) = (1 : QcIF).
Proof. exact E3_0. Qed.
Example E3_additive_sample :
  E3 (ciadd (qi 2 1 (-3) 1) (qi (-5) 1 1 1)) = cimul (E3 (qi 2 1 (-3) 1)) (E3 (qi (-5) 1 1 1)).
Proof. apply qci_eq; vm_compute; reflexivity. Qed.
(* the checkers are not vacuous: a certificate that holds, one that fails *)
Example cert_pos : roots_cert (K:=QcIF) [qi 2 1 0 1; qi 3 1 0 1; qi 1 1 0 1] [(qi (-1) 1 0 1, 1%nat); (qi (-2) 1 0 1, 1%nat)] = true.
Proof. vm_compute. reflexivity. Qed.
Example cert_neg : roots_cert (K:=QcIF) [qi 2 1 0 1; qi 3 1 0 1; qi 1 1 0 1] [(qi (-1) 1 0 1, 1%nat); (qi (-3) 1 0 1, 1%nat)] = false.
Proof. vm_compute. reflexivity. Qed.
Example pf_pos : pf_check (K:=QcIF) [qi 1 1 0 1; qi 2 1 0 1] [qi 2 1 0 1; qi 3 1 0 1; qi 1 1 0 1] []
   [(qi (-1) 1 0 1, qi (-1) 1 0 1, 1%nat); (qi 3 1 0 1, qi (-2) 1 0 1, 1%nat)] = true.
Proof. vm_compute. reflexivity. Qed.
Example pf_neg : pf_check (K:=QcIF) [qi 1 1 0 1; qi 2 1 0 1] [qi 2 1 0 1; qi 3 1 0 1; qi 1 1 0 1] []
   [(qi 1 1 0 1, qi (-1) 1 0 1, 1%nat); (qi 3 1 0 1, qi (-2) 1 0 1, 1%nat)] = false.
Proof. vm_compute. reflexivity. Qed.

Print Assumptions division_identity.
Print Assumptions poles_are_roots.
Print Assumptions poles_full_degree.
Print Assumptions poles_partial.
Print Assumptions residues_reconstruct.
Print Assumptions cancel_preserves.
Print Assumptions cf_preserves.
Print Assumptions cf_preserves_value.
Print Assumptions irrational_roots_are_roots.
Print Assumptions cf_inverse_preserves.
Print Assumptions cf_inverse_preserves_value.
Print Assumptions top_bottom_preserves.
Print Assumptions rationalize_preserves.
Print Assumptions E3_zero.
