(* C04 executable model: the specification of "killed" ([zero_ctx], [killnet]),
   the hand model (H) of the probes of lcapy/netlistopsmixin.py, netlist.py and
   netlistmixin.py as netlist -> netlist functions on the component-list model
   of Gen.C01model, the netlists of the returned Thevenin / Norton models, and
   the boolean checkers the correspondence evaluation runs under vm_compute.
   The theorems about these definitions are in Gen.C04. *)
Require Import LT.FieldSec LT.Circuit LT.MNA LT.TheveninOnePort LT.TheveninDense Gen.StampsGen Gen.C01model.
Local Open Scope Z_scope.
Local Open Scope bool_scope.

Section C04model.
Variable K : fld.
Notation netlist := (netlist K).

(* the specification of "independent sources killed and initial conditions
   zero": the source value parameters of every component vanish *)
Definition zero_par (pr : pname -> K) : pname -> K := fun n => match n with pIsc | pVoc | pI01 | pI02 => f0 | _ => pr n end.
Definition zero_ctx (c : sctx K) : sctx K :=
  SCtx K (kind c) (typ c) (p0 c) (p1 c) (p2 c) (p3 c) (c0 c) (c1 c) (bown c) (bextra c) (bctrl c) (bL1 c) (bL2 c)
       (has_ic c) (ctrl_is_vsrc c) (has_arg1 c) (tp_has_src c) (zero_par (par c)).
Definition killnet (N : netlist) : netlist := map (fun e => (fst e, zero_ctx (snd e))) N.

Definition ctx2 (kd : akind) (a b f : Z) (voc isc y : K) : sctx K :=
  SCtx K kd TyOtherType a b (-1) (-1) (-1) (-1) f 0 0 0 0 false false false false
       (fun n => match n with pVoc => voc | pIsc => isc | pY => y | _ => f0 end).
(* I? p m {DiracDelta(t)} : a unit test current in the transform domain *)
Definition m_test_I kd p m : cname * sctx K := (cI, ctx2 kd p m 0 f0 f1 f0).
(* V? p m {DiracDelta(t)} with branch unknown f *)
Definition m_test_V kd p m f : cname * sctx K := (cV, ctx2 kd p m f f1 f0 f0).
(* Vshort_ p m 0 *)
Definition m_short kd p m f : cname * sctx K := (cV, ctx2 kd p m f f0 f0 f0).
Definition is_indep (cl : cname) : bool := match cl with cV | cI => true | _ => false end.
Definition drop_ic (c : sctx K) : sctx K :=
  SCtx K (kind c) (typ c) (p0 c) (p1 c) (p2 c) (p3 c) (c0 c) (c1 c) (bown c) (bextra c) (bctrl c) (bL1 c) (bL2 c)
       false (ctrl_is_vsrc c) (has_arg1 c) (tp_has_src c)
       (* the initial currents a mutual inductance reads from its two inductors go with their initial conditions *)
       (fun n => match n with pI01 | pI02 => f0 | _ => par c n end).
(* NetlistMixin.kill() -> _kill(independent sources + ['ICs']): V -> W (modelled
   as a 0 V source: same constraint, its current is a free unknown), I -> O,
   control sources keep their place with value 0 (_zero); with [ics] the
   initial conditions of C and L are dropped, without it they are kept (the
   behaviour when 'ICs' in the source list is never acted upon) *)
Definition m_kill1 (ics : bool) (e : cname * sctx K) : cname * sctx K :=
  if is_indep (fst e) then (fst e, zero_ctx (snd e)) else if ics then (fst e, drop_ic (snd e)) else e.
Definition m_kill (ics : bool) (N : netlist) : netlist := map (m_kill1 ics) N.
Definition m_apply_test_current ics kd (N : netlist) p m : netlist := m_kill ics N ++ [m_test_I kd p m].
Definition m_apply_test_voltage ics kd (N : netlist) p m f : netlist := m_kill ics N ++ [m_test_V kd p m f].
Definition m_Isc_net kd (N : netlist) p m f : netlist := N ++ [m_short kd p m f].

(* thevenin(): V(Voc) + Z(Zth): V from the internal node a to m, Z from p to a *)
Definition thevenin_net kd p m a f (Voc Zth : K) : netlist :=
  [(cV, ctx2 kd a m f Voc f0 f0); (cRC, ctx2 kd p a 0 f0 f0 (fdiv f1 Zth))].
(* norton(): I(Isc) | Y(Yth), both from p to m *)
Definition norton_net kd p m (Isc Yth : K) : netlist :=
  [(cI, ctx2 kd p m 0 f0 Isc f0); (cRC, ctx2 kd p m 0 f0 f0 Yth)].

(* decidable well-formedness of a netlist (Gen.C01model.wf_net) *)
Definition wf_ctxb (c : sctx K) : bool :=
  (-1 <=? p0 c) && (-1 <=? p1 c) && (-1 <=? p2 c) && (-1 <=? p3 c) && (-1 <=? c0 c) && (-1 <=? c1 c) &&
  (0 <=? bown c) && (0 <=? bextra c) && (0 <=? bctrl c) && (0 <=? bL1 c) && (0 <=? bL2 c).
Definition preb (cl : cname) (c : sctx K) : bool :=
  match cl with
  | cCCCS => ctrl_is_vsrc c
  | cCCVS => ctrl_is_vsrc c
  | cK => negb (akind_eqb (kind c) KT || akind_eqb (kind c) KTime)
  | cTL => akind_eqb (kind c) KS || akind_eqb (kind c) KDc
  | cTPA | cTPB | cTPG | cTPH | cTPY | cTPZ => negb (tp_has_src c)
  | _ => true
  end.
Definition wf_netb (N : netlist) : bool := forallb (fun e => wf_ctxb (snd e) && preb (fst e) (snd e)) N.
(* well-posedness certificate: the netlist is well-formed, the stamps of the KILLED netlist stay inside the
   nn + mm unknowns, and B is a left inverse of its system matrix.  Gen.C04cert.cert_determined: then the
   netlist is determined from every port among the first nn nodes (hypothesis of port_affine). *)
Definition cert (N : netlist) (nn mm : nat) (B : list (list K)) : bool :=
  wf_netb N &&
  match assemble (killnet N) with
  | SOk T => sys_cols_ok T nn mm && is_left_inverse T nn mm B
  | SErr => false
  end.
(* apply_test_voltage_source(Np, Nm) first REMOVES the voltage sources connected directly across the input nodes
   (either orientation; a killed one would short the test source), then kills, then adds the test source *)
Definition across (p m : Z) (c : sctx K) : bool :=
  (Z.eqb (p0 c) p && Z.eqb (p1 c) m) || (Z.eqb (p0 c) m && Z.eqb (p1 c) p).
Definition is_cV (cl : cname) : bool := match cl with cV => true | _ => false end.
Definition m_remove_vs (p m : Z) (N : netlist) : netlist :=
  filter (fun e => negb (is_cV (fst e) && across p m (snd e))) N.
Definition m_transfer_net ics kd (N : netlist) p m f : netlist := m_apply_test_voltage ics kd (m_remove_vs p m N) p m f.
End C04model.
Arguments wf_ctxb {K}. Arguments preb {K}. Arguments wf_netb {K}. Arguments cert {K}.
Arguments zero_ctx {K}. Arguments killnet {K}. Arguments m_kill {K}. Arguments m_kill1 {K}. Arguments m_apply_test_current {K}.
Arguments m_apply_test_voltage {K}. Arguments m_Isc_net {K}. Arguments m_test_I {K}. Arguments m_test_V {K}. Arguments m_short {K}.
Arguments thevenin_net {K}. Arguments norton_net {K}. Arguments ctx2 {K}. Arguments drop_ic {K}. Arguments zero_par {K}.
Arguments is_indep : clear implicits.
Arguments across {K}. Arguments m_remove_vs {K}. Arguments m_transfer_net {K}. Arguments is_cV : clear implicits.
(* ---- checkers over Qc (evaluated by vm_compute in the generated cases files) ---- *)
(* Own copies of the small dump -> model-netlist helpers (they mirror the correspondence helpers of Gen.C01model,
   which are being generalised independently); only the stable part of Gen.C01model - cname, stamp_of, netlist,
   assemble, kcl, crel, phys, wf_net, entry - is shared with the theorems. *)
Record craw := CRaw {
  cr_cl : cname; cr_info : cinfo; cr_kind : akind; cr_typ : ctype;
  cr_n0 : Z; cr_n1 : Z; cr_n2 : Z; cr_n3 : Z; cr_c0 : Z; cr_c1 : Z;
  cr_L1 : nat; cr_L2 : nat;
  cr_ic : bool; cr_cv : bool; cr_a1 : bool; cr_ts : bool;
  cr_par : pname -> Qc }.
Definition czidx (k : bkey) (us : list bkey) : Z :=
  match index_of k us with Some n => Z.of_nat n | None => 0 end.
Definition cmkctx (us : list bkey) (e : craw) : sctx QcF :=
  SCtx QcF (cr_kind e) (cr_typ e) (cr_n0 e) (cr_n1 e) (cr_n2 e) (cr_n3 e) (cr_c0 e) (cr_c1 e)
    (czidx (ci_id (cr_info e), false) us) (czidx (ci_id (cr_info e), true) us)
    (czidx (ci_ctrl (cr_info e), false) us) (czidx (cr_L1 e, false) us) (czidx (cr_L2 e, false) us)
    (cr_ic e) (cr_cv e) (cr_a1 e) (cr_ts e) (cr_par e).
Definition cmodel_net (es : list craw) : netlist QcF :=
  let us := unknowns (map cr_info es) in map (fun e => (cr_cl e, cmkctx us e)) es.
Definition c_entries (es : list craw) (l : list (mname * Z * Z * Qc)) : bool :=
  match assemble (cmodel_net es) with
  | SErr => false
  | SOk T => forallb (fun e => match e with (mm, r, c, x) => qc_eqb (entry T mm r c) x end) l
  end.
Definition cvec_of (x : list Qc) (off : nat) : Z -> Qc := fun i => nth (off + Z.to_nat i) x (0%Qc).
Fixpoint cupto (n : nat) : list Z := match n with O => [] | S n' => cupto n' ++ [Z.of_nat n'] end.
Definition qz : Qc := 0%Qc.
(* x = node potentials (nn of them) followed by branch currents: does it solve
   the MNA system assembled by the regenerated stamps from netlist N ? *)
Definition net_solves (N : netlist QcF) (nn mm : nat) (x : list Qc) : bool :=
  match assemble N with
  | SErr => false
  | SOk T =>
      forallb (fun r => qc_eqb (node_res T (cvec_of x 0) (cvec_of x nn) r) qz) (cupto nn) &&
      forallb (fun q => qc_eqb (br_res T (cvec_of x 0) (cvec_of x nn) q) qz) (cupto mm)
  end.
Definition pvx (p m : Z) (x : list Qc) : Qc := Qcminus (vv (K:=QcF) (cvec_of x 0) p) (vv (K:=QcF) (cvec_of x 0) m).
Definition ibx (nn : nat) (x : list Qc) (f : nat) : Qc := cvec_of x nn (Z.of_nat f).

(* Voc: the circuit as it is *)
Definition c_voc (es : list craw) (nn mm : nat) (p m : Z) (x : list Qc) (V : Qc) : bool :=
  net_solves (cmodel_net es) nn mm x && qc_eqb (pvx p m x) V.
(* Isc: Vshort_ added as the last element, its branch unknown is the last one *)
Definition c_isc (kd : akind) (es : list craw) (nn mm : nat) (p m : Z) (x : list Qc) (I : Qc) : bool :=
  net_solves (m_Isc_net kd (cmodel_net es) p m (Z.of_nat mm)) nn (S mm) x && qc_eqb (ibx nn x mm) I.
(* impedance: kill (ics: are initial conditions acted upon), test current, Voc *)
Definition c_zth (ics : bool) (kd : akind) (es : list craw) (nn mm : nat) (p m : Z) (x : list Qc) (Zt : Qc) : bool :=
  net_solves (m_apply_test_current ics kd (cmodel_net es) p m) nn mm x && qc_eqb (pvx p m x) Zt.
(* admittance: kill, test voltage, -I(test) *)
Definition c_yth (ics : bool) (kd : akind) (es : list craw) (nn mm : nat) (p m : Z) (x : list Qc) (Y : Qc) : bool :=
  net_solves (m_apply_test_voltage ics kd (cmodel_net es) p m (Z.of_nat mm)) nn (S mm) x && qc_eqb (Qcopp (ibx nn x mm)) Y.
(* transfer: kill, test voltage at port 1, voltage at port 2 *)
Definition c_tr (ics : bool) (kd : akind) (es : list craw) (nn mm : nat) (p m pb mb : Z) (x : list Qc) (H : Qc) : bool :=
  net_solves (m_apply_test_voltage ics kd (cmodel_net es) p m (Z.of_nat mm)) nn (S mm) x && qc_eqb (pvx pb mb x) H.
(* the returned models, attached to a load line u = E + Zl j:  the pair (u, j) Lcapy reports for
   "original + load" lies on the Thevenin line u = Voc - Zth j and on the Norton line j = Isc - Yth u *)
Definition c_line_th (Voc Zth u j : Qc) : bool := qc_eqb u (Qcminus Voc (Qcmult Zth j)).
Definition c_line_no (Isc Yth u j : Qc) : bool := qc_eqb j (Qcminus Isc (Qcmult Yth u)).
(* thevenin_norton identities on reported values *)
Definition c_ident (Voc Isc Zth Yth : Qc) : bool := qc_eqb (Qcmult Isc Zth) Voc && qc_eqb (Qcmult Zth Yth) 1%Qc.

(* well-posedness certificate for the model netlist of a dumped circuit *)
Definition c_inv (es : list craw) (nn mm : nat) (B : list (list Qc)) : bool := cert (K:=QcF) (cmodel_net es) nn mm B.

(* one-port trees *)
Definition c_th (t : tree QcF) (V Zt : Qc) : bool :=
  match th t with Some r => qc_eqb (fst r) V && qc_eqb (snd r) Zt | None => false end.
Definition c_no (t : tree QcF) (I Y : Qc) : bool :=
  match no t with Some r => qc_eqb (fst r) I && qc_eqb (snd r) Y | None => false end.
Definition c_th_fst (t : tree QcF) (V : Qc) : bool := match th t with Some r => qc_eqb (fst r) V | None => false end.
Definition c_th_snd (t : tree QcF) (Zt : Qc) : bool := match th t with Some r => qc_eqb (snd r) Zt | None => false end.
Definition c_no_fst (t : tree QcF) (I : Qc) : bool := match no t with Some r => qc_eqb (fst r) I | None => false end.
Definition c_no_snd (t : tree QcF) (Y : Qc) : bool := match no t with Some r => qc_eqb (snd r) Y | None => false end.
Definition has_th (t : tree QcF) : bool := match th t with Some _ => true | None => false end.
Definition has_no (t : tree QcF) : bool := match no t with Some _ => true | None => false end.

(* ---- the same checkers for any executable field (used at the Gaussian rationals LT.QcI.QcIF for ac analyses,
   where potentials and currents are phasors and the immittances are taken at s = j omega) ---- *)
Section Generic.
Variable K : fld.
Notation keqb := (eqbK (K:=K)).
Record graw := GRaw {
  gr_cl : cname; gr_info : cinfo; gr_kind : akind; gr_typ : ctype;
  gr_n0 : Z; gr_n1 : Z; gr_n2 : Z; gr_n3 : Z; gr_c0 : Z; gr_c1 : Z;
  gr_L1 : nat; gr_L2 : nat;
  gr_ic : bool; gr_cv : bool; gr_a1 : bool; gr_ts : bool;
  gr_par : pname -> K }.
Definition gmkctx (us : list bkey) (e : graw) : sctx K :=
  SCtx K (gr_kind e) (gr_typ e) (gr_n0 e) (gr_n1 e) (gr_n2 e) (gr_n3 e) (gr_c0 e) (gr_c1 e)
    (czidx (ci_id (gr_info e), false) us) (czidx (ci_id (gr_info e), true) us)
    (czidx (ci_ctrl (gr_info e), false) us) (czidx (gr_L1 e, false) us) (czidx (gr_L2 e, false) us)
    (gr_ic e) (gr_cv e) (gr_a1 e) (gr_ts e) (gr_par e).
Definition gmodel_net (es : list graw) : netlist K :=
  let us := unknowns (map gr_info es) in map (fun e => (gr_cl e, gmkctx us e)) es.
Definition g_entries (es : list graw) (l : list (mname * Z * Z * K)) : bool :=
  match assemble (gmodel_net es) with
  | SErr => false
  | SOk T => forallb (fun e => match e with (mm, r, c, x) => keqb (entry T mm r c) x end) l
  end.
Definition gvec_of (x : list K) (off : nat) : Z -> K := fun i => nth (off + Z.to_nat i) x (@f0 K).
Definition gnet_solves (N : netlist K) (nn mm : nat) (x : list K) : bool :=
  match assemble N with
  | SErr => false
  | SOk T =>
      forallb (fun r => keqb (node_res T (gvec_of x 0) (gvec_of x nn) r) (@f0 K)) (cupto nn) &&
      forallb (fun q => keqb (br_res T (gvec_of x 0) (gvec_of x nn) q) (@f0 K)) (cupto mm)
  end.
Definition gpvx (p m : Z) (x : list K) : K := fsub (vv (gvec_of x 0) p) (vv (gvec_of x 0) m).
Definition gibx (nn : nat) (x : list K) (f : nat) : K := gvec_of x nn (Z.of_nat f).
Definition g_voc (es : list graw) (nn mm : nat) (p m : Z) (x : list K) (V : K) : bool :=
  gnet_solves (gmodel_net es) nn mm x && keqb (gpvx p m x) V.
Definition g_isc (kd : akind) (es : list graw) (nn mm : nat) (p m : Z) (x : list K) (I : K) : bool :=
  gnet_solves (m_Isc_net kd (gmodel_net es) p m (Z.of_nat mm)) nn (S mm) x && keqb (gibx nn x mm) I.
Definition g_zth (ics : bool) (kd : akind) (es : list graw) (nn mm : nat) (p m : Z) (x : list K) (Zt : K) : bool :=
  gnet_solves (m_apply_test_current ics kd (gmodel_net es) p m) nn mm x && keqb (gpvx p m x) Zt.
Definition g_yth (ics : bool) (kd : akind) (es : list graw) (nn mm : nat) (p m : Z) (x : list K) (Y : K) : bool :=
  gnet_solves (m_apply_test_voltage ics kd (gmodel_net es) p m (Z.of_nat mm)) nn (S mm) x && keqb (fopp (gibx nn x mm)) Y.
(* transfer: voltage sources across the input removed, kill, test voltage at port 1, voltage at port 2 *)
Definition g_tr (ics : bool) (kd : akind) (es : list graw) (nn mm : nat) (p m pb mb : Z) (x : list K) (H : K) : bool :=
  gnet_solves (m_transfer_net ics kd (gmodel_net es) p m (Z.of_nat mm)) nn (S mm) x && keqb (gpvx pb mb x) H.
Definition g_inv (es : list graw) (nn mm : nat) (B : list (list K)) : bool := cert (gmodel_net es) nn mm B.
(* the certificate of the network with the voltage sources across (p, m) removed (transfer) *)
Definition g_inv_rm (es : list graw) (p m : Z) (nn mm : nat) (B : list (list K)) : bool := cert (m_remove_vs p m (gmodel_net es)) nn mm B.
(* one-port trees over any executable field (ac one-ports: leaves taken at s = j omega over LT.QcI.QcIF) *)
Definition g_th_fst (t : tree K) (V : K) : bool := match th t with Some r => keqb (fst r) V | None => false end.
Definition g_th_snd (t : tree K) (Zt : K) : bool := match th t with Some r => keqb (snd r) Zt | None => false end.
Definition g_no_fst (t : tree K) (I : K) : bool := match no t with Some r => keqb (fst r) I | None => false end.
Definition g_no_snd (t : tree K) (Y : K) : bool := match no t with Some r => keqb (snd r) Y | None => false end.
Definition g_has_th (t : tree K) : bool := match th t with Some _ => true | None => false end.
Definition g_has_no (t : tree K) : bool := match no t with Some _ => true | None => false end.
End Generic.
