(* C09 — assembly: the closed forms generated from the current source satisfy the contract [forms_ok] of the hand
   model, hence the model of LaplaceTransformer.term / UnilateralForwardTransformer.doit is sound for the
   specification relation LPair, linear, and cache-transparent.  Needs every table entry (C09_entry_*.v). *)
Require Import LT.FieldSec LT.PolyQ LT.ExpPoly LT.LaplaceSig LT.LaplaceModel Gen.LaplaceGen.
Require Import Gen.C09_entry_basic Gen.C09_entry_sincos Gen.C09_entry_guard Gen.C09_entry_rect Gen.C09_entry_tri
               Gen.C09_entry_ramp Gen.C09_entry_rstep.
Local Open Scope F_scope.

Section Sound.
Variable K : fld.
Variable V : lenv K.
Variable j : K.
Add Field KF9s : (fth K).
Notation ex := (l_ex K V). Notation sn := (l_sn K V). Notation cs := (l_cs K V). Notation fabs := (l_fabs K V).
Notation pi_ := (l_pi K V). Notation isr := (l_isr K V). Notation neg := (l_neg K V). Notation Fn := (l_Fn K V). Notation Ic := (l_Ic K V). Notation Fv := (l_Fv K V).
(* exp, sin, cos, |.|, pi *)
Hypothesis ex_add : forall a b, ex (a + b) = ex a * ex b.
Hypothesis ex_0 : ex 0 = 1.
Hypothesis jj : j * j = - (1).
Hypothesis sn_euler : forall x, sn x = (ex (j * x) - ex (- (j * x))) / ((1 + 1) * j).
Hypothesis cs_euler : forall x, cs x = (ex (j * x) + ex (- (j * x))) / (1 + 1).
Hypothesis sn_quarter : forall x, sn (x + pi_ / (1 + 1)) = cs x.
Hypothesis cs_quarter : forall x, cs (x + pi_ / (1 + 1)) = - sn x.
Hypothesis fabs_pos : forall a, pos K neg a = true -> fabs a = a.
(* the real subfield and its order *)
Hypothesis isr_0 : isr 0 = true.
Hypothesis isr_1 : isr 1 = true.
Hypothesis isr_add : forall x y, isr x = true -> isr y = true -> isr (x + y) = true.
Hypothesis isr_opp : forall x, isr x = true -> isr (- x) = true.
Hypothesis isr_mul : forall x y, isr x = true -> isr y = true -> isr (x * y) = true.
Hypothesis isr_inv : forall x, isr x = true -> isr (1 / x) = true.
Hypothesis neg_0 : neg 0 = false.
Hypothesis neg_1 : neg 1 = false.
Hypothesis neg_opp : forall x, isr x = true -> x <> 0 -> neg (- x) = negb (neg x).
Hypothesis neg_mul : forall x y, isr x = true -> isr y = true -> x <> 0 -> y <> 0 -> neg (x * y) = xorb (neg x) (neg y).
Hypothesis neg_inv : forall x, isr x = true -> x <> 0 -> neg (1 / x) = neg x.
Hypothesis neg_add : forall x y, isr x = true -> isr y = true -> neg x = false -> neg y = false -> neg (x + y) = false.

Theorem gen_forms_ok : forms_ok K ex sn cs neg Fn Ic (gen_forms K V).
Proof. apply FormsOk.
  - exact (table_entry_const K).
  - exact (table_entry_exp K).
  - exact (table_entry_sincos K V ex_add ex_0 sn_quarter cs_quarter).
  - exact (table_entry_sc_guard).
  - exact (table_entry_rect K V).
  - exact (table_entry_tri K V).
  - exact (table_entry_ramp K).
  - exact (table_entry_rstep K V).
  - exact (table_entry_func K V ex_0 fabs_pos).
  - exact (table_entry_deriv K V).
  - exact (table_entry_integ K).
  - exact (table_entry_conv K).
  - exact (table_entry_sift K V fabs_pos).
Qed.

Variable orc : nf K -> option (K -> K).
Hypothesis orc_ok : forall N X, orc N = Some X -> forall s, nf_dom K s N -> X s = nf_val K ex s N.
Notation F := (gen_forms K V).

(* term, as called by doit on a term with its Heaviside(t) factors removed, returns the LPair transform of the
   meaning of the term — whichever branch the dispatch takes *)
Theorem term_sound_gen : forall zic m X evs x,
  term K ex j isr neg Fv F orc zic (strip K m) = (Some X, evs) -> den_mono K ex j isr neg Fv m = Some x ->
  LPair K ex isr neg Fn (Icz K Ic zic) x (dom_mono K ex j isr neg m) X.
Proof. exact (term_sound K ex sn cs j isr neg Fn Ic Fv F orc ex_add ex_0 jj sn_euler cs_euler isr_0 isr_1 isr_add isr_opp isr_mul isr_inv
               neg_0 neg_1 neg_opp neg_mul neg_inv neg_add gen_forms_ok orc_ok). Qed.
(* LaplaceTransformer.integral (its whole body is pinned by the translator, its three returns are translated): the running
   integral of a named function reaches the SECOND return when written with the integration variable,
   Integral(v(tau), (tau, lo <= 0, t)), and the FIRST return when written Integral(v(t - tau), (tau, 0, oo)) (this one goes
   through self.term(v(t)) again).  Both are defined for every coefficient, give the same function of s, take the calls
   observed in the real transformer, return c V(s)/s, and that is the LPair transform of c * int_0^t v. *)
Theorem integral_returns_gen : forall zic c v,
  exists X,
    term1 K ex j isr neg Fv F orc zic c [LIntegA v] = (Some X, [EvIntegral; EvTerm; EvFunc]) /\
    term1 K ex j isr neg Fv F orc zic c [LInteg v] = (Some X, [EvIntegral; EvFunc]) /\
    (forall s, s <> 0 -> X s = c * (Fn v s / s)) /\
    LPair K ex isr neg Fn (Icz K Ic zic) (SScale c (SInteg (SFn v))) (dom1 K ex j isr neg [LIntegA v]) X /\
    LPair K ex isr neg Fn (Icz K Ic zic) (SScale c (SInteg (SFn v))) (dom1 K ex j isr neg [LInteg v]) X.
Proof. intros zic c v. eexists. split; [reflexivity|]. split; [reflexivity|]. split; [|split].
  - intros s Hs. destruct gen_forms_ok as [_ _ _ _ _ _ _ _ Hf _ Hi _ _]. cbn beta.
    rewrite (Hi 1 _ s Hs), (Hf v 1 0 s (pos_1 K neg neg_1)). unfold spec_func.
    replace (s * 0 / 1) with (0 : K) by (field; apply one_nz). rewrite ex_0.
    replace (s / 1) with s by (field; apply one_nz). field. repeat split; try assumption; apply one_nz.
  - apply (term1_sound K ex sn cs j isr neg Fn Ic Fv F orc ex_add ex_0 jj sn_euler cs_euler isr_0 isr_1 isr_add isr_opp isr_mul isr_inv
             neg_0 neg_1 neg_opp neg_mul neg_inv neg_add gen_forms_ok orc_ok zic c [LIntegA v] _ [EvIntegral; EvTerm; EvFunc]); reflexivity.
  - apply (term1_sound K ex sn cs j isr neg Fn Ic Fv F orc ex_add ex_0 jj sn_euler cs_euler isr_0 isr_1 isr_add isr_opp isr_mul isr_inv
             neg_0 neg_1 neg_opp neg_mul neg_inv neg_add gen_forms_ok orc_ok zic c [LInteg v] _ [EvIntegral; EvFunc]); reflexivity.
Qed.
(* third return of integral() with a classical factor: Integral(exp(a tau) v(t - tau), (tau, 0, t)) is the convolution of
   e^{a t} (t >= 0) with the named function; whichever of the two factors comes first in the product, the model is defined,
   returns c V(s)/(s - a), and that is the LPair transform (convolution theorem) of the denotation *)
Theorem conv_exp_named_gen : forall zic c a v b,
  exists X evs,
    term1 K ex j isr neg Fv F orc zic c [LConvE a v b] = (Some X, evs) /\
    (forall s, s - a <> 0 -> X s = c * (Fn v s / (s - a))) /\
    LPair K ex isr neg Fn (Icz K Ic zic) (SScale c (SConv (SReg 1 O a) (SFn v))) (dom1 K ex j isr neg [LConvE a v b]) X.
Proof. intros zic c a v b. destruct gen_forms_ok as [_ He _ _ _ _ _ _ Hf _ _ Hc _].
  destruct b; eexists; eexists; (split; [reflexivity|]); (split;
   [ intros s Hn; cbn beta; rewrite Hc, (He 1 a s Hn), (Hf v 1 0 s (pos_1 K neg neg_1)); unfold spec_func;
     replace (s * 0 / 1) with (0 : K) by (field; apply one_nz); rewrite ex_0;
     replace (s / 1) with s by (field; apply one_nz); field; repeat split; try assumption; apply one_nz
   | eapply (term1_sound K ex sn cs j isr neg Fn Ic Fv F orc ex_add ex_0 jj sn_euler cs_euler isr_0 isr_1 isr_add isr_opp isr_mul isr_inv
             neg_0 neg_1 neg_opp neg_mul neg_inv neg_add gen_forms_ok orc_ok zic c); reflexivity ]).
Qed.
Theorem doit_sound_gen : forall zic e X evs y,
  doit K ex j isr neg Fv F orc zic e = (Some X, evs) -> den K ex j isr neg Fv (divc K (top_const K e) e) = Some y ->
  LPair K ex isr neg Fn (Icz K Ic zic) (SScale (top_const K e) y) (dom K ex j isr neg (divc K (top_const K e) e)) X.
Proof. exact (doit_sound K ex sn cs j isr neg Fn Ic Fv F orc ex_add ex_0 jj sn_euler cs_euler isr_0 isr_1 isr_add isr_opp isr_mul isr_inv
               neg_0 neg_1 neg_opp neg_mul neg_inv neg_add gen_forms_ok orc_ok). Qed.
(* the transform is linear: sums of terms, and constant factors *)
Theorem L_linear_gen : forall zic e1 e2 X1 X2,
  fst (doit_terms K ex j isr neg Fv F orc zic e1) = Some X1 -> fst (doit_terms K ex j isr neg Fv F orc zic e2) = Some X2 ->
  exists X, fst (doit_terms K ex j isr neg Fv F orc zic (e1 ++ e2)) = Some X /\ forall s, X s = X1 s + X2 s.
Proof. exact (L_linear_add K ex j isr neg Fv F orc). Qed.
Theorem L_scale_gen : forall zic k c fs X evs, term1 K ex j isr neg Fv F orc zic c fs = (Some X, evs) ->
  exists X', term1 K ex j isr neg Fv F orc zic (k * c) fs = (Some X', evs) /\
    forall s, s <> 0 -> (forall a b, fs = [LExp a b] -> s - a <> 0) -> X' s = k * X s.
Proof. exact (term1_scale K ex sn cs j isr neg Fn Ic Fv F orc gen_forms_ok). Qed.
(* the process-wide cache keyed by (expr, zero_initial_conditions) never changes a result *)
Theorem cache_transparent_gen : forall (key_eqb : ckey K -> ckey K -> bool),
  (forall a b, key_eqb a b = true -> a = b) ->
  forall qs c, cache_ok K ex j isr neg Fv F orc c ->
  run_c K ex j isr neg Fv F orc key_eqb c qs = map (fun q => fst (doit K ex j isr neg Fv F orc (fst q) (snd q))) qs.
Proof. exact (cache_transparent_history K ex j isr neg Fv F orc). Qed.
End Sound.

Print Assumptions gen_forms_ok.
Print Assumptions term_sound_gen.
Print Assumptions integral_returns_gen.
Print Assumptions conv_exp_named_gen.
Print Assumptions doit_sound_gen.
Print Assumptions L_linear_gen.
Print Assumptions cache_transparent_gen.
