(* C07 - the netlist route, instantiated at the leaf table regenerated from
   lcapy/oneport.py and at the leaf emitters of props/C07model.v:

   C07_netlist_of_tree_sem : for every one-port tree, the netlist that
   NetlistMaker emits (model validated against net.netlist() on every run),
   seen from its two terminals 1 (+) and 0 (-) under Kirchhoff's laws, has
   exactly the terminal relation [sem] of the tree.
   Together with [oneport_sem] (theory/OnePort.v): nodal analysis of the emitted
   netlist and the network algebra determine the same Voc, Isc, Z, Y.          *)
Require Import LT.FieldSec LT.Circuit LT.OnePort LT.OnePortNet Gen.OnePortGen Gen.C07lem Gen.C07model Gen.C07.
From Coq Require Import Bool List Lia.
Import ListNotations.
Local Open Scope F_scope.

Section C07net.
Variable K : fld.
Add Field KFc07n : (fth K).
Variable s : K.
Variable spow : K -> K.
Variable omega0 : K.
Variable xf_dc : K -> K. Variable xf_step : K -> K. Variable xf_any : K -> K.
Variable xf_time : K -> K. Variable xf_noise : K -> K.
Variable xf_ac : K -> K -> K -> K.
Notation LDt := (ld s spow omega0 xf_dc xf_step xf_any xf_time xf_noise xf_ac).
Notation LD0 := (ld0 s spow omega0 xf_dc xf_step xf_any xf_time xf_noise xf_ac).

(* law of the netlist component built from leaf l: voltage drop dv from its first to its second
   node, current c through it (the current leaving the + terminal to the outside is - c) *)
Definition lrel (l : lf K) (dv c : K) : Prop := lsem (LDt l) dv (- c).
Lemma lrel_ext l dv c c' : c = c' -> lrel l dv c -> lrel l dv c'.
Proof. intros ->. tauto. Qed.

(* the component printed for a leaf (G as a resistor of 1/G) is built from the same table entry *)
Lemma nleaf_same (l : lf K) : LDt (nleaf l) = LDt l.
Proof. destruct l; reflexivity. Qed.

(* the law is the one the MNA stamps realise (C01, coq/theory/Circuit.v): for a component of the
   RC stamp class the current drawn at its first node is  Y (v+ - v-) - Isc,  for a current source - Isc *)
Definition ctx_of (a b : BinInt.Z) (y isc z voc : K) : sctx K :=
  SCtx K KIvp TyOtherType a b (-1)%Z (-1)%Z (-1)%Z (-1)%Z 0%Z 0%Z 0%Z 0%Z 0%Z true false false false
       (fun n => match n with pY => y | pIsc => isc | pZ => z | pVoc => voc | _ => f0 end).
Lemma law_is_stamp_RC (l : lf K) (dv c : K) : nort_l (LDt l) ->
  (lrel l dv c <-> c = lY (LDt l) * dv - lIsc (LDt l)).
Proof.
  intros N. unfold lrel. rewrite (leaf_norton K (LDt l) N). split; intros E.
  - transitivity (- - c); [ring | rewrite E; ring].
  - rewrite E. ring.
Qed.
Lemma stamp_RC_current (a b : BinInt.Z) (y isc : K) (v ib : BinInt.Z -> K) (r : BinInt.Z) :
  drawn_RC (ctx_of a b y isc f0 f0) v ib r = thru a b r (y * (vv v a - vv v b) - isc).
Proof. reflexivity. Qed.
Lemma law_is_stamp_L (l : lf K) (dv c : K) : thev_l (LDt l) ->
  (lrel l dv c <-> dv - lZ (LDt l) * c - lVoc (LDt l) = 0).
Proof.
  intros T. unfold lrel. rewrite (leaf_thevenin K (LDt l) T). split; intros E.
  - rewrite E. ring.
  - transitivity (dv - lZ (LDt l) * c - lVoc (LDt l) + (lVoc (LDt l) - lZ (LDt l) * - c)); [ring | rewrite E; ring].
Qed.
Lemma stamp_L_residual (a b : BinInt.Z) (z voc : K) (v ib : BinInt.Z -> K) :
  brel_L (ctx_of a b f0 f0 z voc) v ib 0%Z = ind 0%Z 0%Z * (vv v a - vv v b - z * ib 0%Z - voc).
Proof. reflexivity. Qed.

(* ---- every leaf emitter realises the leaf's terminal relation --------------- *)
Lemma leaf0_good (l : lf K) : good lrel (lsem (LDt l)) (leaf0 K l).
Proof.
  unfold leaf0. apply (good_ext K (lf K) lrel (fun V I => lrel (nleaf l) V (- I))).
  - intros V I. unfold lrel. rewrite nleaf_same. split; apply lsem_ok; ring.
  - apply good_leaf. exact lrel_ext.
Qed.
(* compound leaves: their expansion must be admissible (the divisions of the algebra defined) *)
Definition okl (l : lf K) : Prop := match nexpand l with Some t => admissible LD0 t | None => True end.
Lemma ld_eq_ld0_basic (l : lf K) : nexpand l = None -> LDt l = LD0 l.
Proof. destruct l; cbn [nexpand]; intros E; try discriminate E; reflexivity. Qed.

Lemma leaf1_good (l : lf K) : okl l -> good lrel (lsem (LDt l)) (leaf1 K l).
Proof.
  unfold okl, leaf1. destruct l; cbn [nexpand]; intros A; try apply leaf0_good.
  - (* Xtal *)
    apply (good_ext K (lf K) lrel (sem LDt (expand_Xtal a_C0 a_R1 a_L1 a_C1))).
    + intros V I. symmetry. exact (leaf_phys_Xtal K s spow omega0 xf_dc xf_step xf_any xf_time xf_noise xf_ac a_C0 a_R1 a_L1 a_C1 V I A).
    + apply (emit_good K (lf K) lrel LDt (leaf0 K) (fun _ => True)); [intros l _; apply leaf0_good | cbn; repeat split; discriminate].
  - (* FerriteBead *)
    apply (good_ext K (lf K) lrel (sem LDt (expand_FerriteBead a_Rs a_Rp a_Cp a_Lp))).
    + intros V I. symmetry. exact (leaf_phys_FerriteBead K s spow omega0 xf_dc xf_step xf_any xf_time xf_noise xf_ac a_Rs a_Rp a_Cp a_Lp V I A).
    + apply (emit_good K (lf K) lrel LDt (leaf0 K) (fun _ => True)); [intros l _; apply leaf0_good | cbn; repeat split; discriminate].
Qed.

(* C07, netlist route *)
Theorem C07_netlist_of_tree_sem (t : tree (lf K)) : wf_tree okl t ->
  forall V I, port_rel lrel (netlist_of_tree K t) V I <-> sem LDt t V I.
Proof. intros W V I. unfold netlist_of_tree. apply (netlist_of_tree_sem K (lf K) lrel LDt (leaf1 K) okl leaf1_good t W). Qed.

(* ... and therefore: what nodal analysis of the emitted netlist can observe at the terminals is
   v = Voc - Z i  with the algebra's Voc and Z *)
Corollary C07_netlist_route_is_algebra (t : tree (lf K)) : wf_tree okl t -> admissible LDt t ->
  forall V I, port_rel lrel (netlist_of_tree K t) V I <-> V = Voc LDt t - Zt LDt t * I.
Proof. intros W A V I. rewrite (C07_netlist_of_tree_sem t W). apply oneport_sem. exact A. Qed.
End C07net.
Print Assumptions C07_netlist_of_tree_sem.
Print Assumptions C07_netlist_route_is_algebra.
Print Assumptions leaf1_good.
