(* C07 - axioms of the theory-level theorems (theory/*.v is built by the setup
   command; this file is compiled on every run so that the assumptions of those
   theorems are reported with the others). *)
Require Import LT.FieldSec LT.OnePort LT.OnePortNet LT.TwoPort LT.Sections.
Print Assumptions oneport_forms.
Print Assumptions oneport_sem.
Print Assumptions oneport_sem_norton.
Print Assumptions code_eq_spec.
Print Assumptions oneport_sem_code.
Print Assumptions Voc_is_open_circuit_voltage.
Print Assumptions Isc_is_short_circuit_current.
Print Assumptions Y_is_reciprocal_of_Z.
Print Assumptions good_ser2.
Print Assumptions good_rail2.
Print Assumptions good_par3.
Print Assumptions emit_good.
Print Assumptions netlist_of_tree_sem.
Print Assumptions cascade_B.
Print Assumptions par2_sem.
Print Assumptions ser2_sem.
Print Assumptions hybrid2_sem.
Print Assumptions inverse_hybrid2_sem.
Print Assumptions ladder_sem_gen.

(* the same theorem in the phasor domain: the field of Gaussian rationals, s = j omega
   (the correspondence evaluation runs the regenerated leaf table there for ac sources) *)
Require Import LT.QcI.
Local Open Scope F_scope.
Corollary oneport_sem_phasor (L : Type) (ld : L -> ldata QcIF) (t : tree L) :
  admissible ld t -> forall v i : QcIF, sem ld t v i <-> v = Voc ld t - Zt ld t * i.
Proof. apply oneport_sem. Qed.
Print Assumptions oneport_sem_phasor.
