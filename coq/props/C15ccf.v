(* C15 - controllable canonical form.  For EVERY order and all coefficient
   lists b, a (a[0] <> 0, len b <= len a): any state vector that satisfies the
   state equations of the realisation returned by from_ba_CCF (definition
   regenerated from lcapy/statespacebase.py into Gen.FormulGen on every run)
   gives an output with  a(s) y = b(s) u;  and such a state vector exists
   whenever a(s) <> 0 (the companion chain x_k = s^k w, a(s) w = a0 u).
   No matrix is inverted.  s is the Laplace variable for StateSpace and the
   z variable for DTStateSpace. *)
Require Import LT.FieldSec LT.FormulCanon Gen.FormulGen.
From Coq Require Import Arith Lia.
Local Open Scope F_scope.

Ltac nat_cases :=
  repeat match goal with
  | |- context [(?a =? ?b)%nat] => destruct (Nat.eqb_spec a b)
  | |- context [(?a <=? ?b)%nat] => destruct (Nat.leb_spec a b)
  | |- context [(?a <? ?b)%nat] => destruct (Nat.ltb_spec a b)
  end; cbn [andb]; try lia.

Section C15ccf.
Variable K : fld.
Add Field KFccf : (fth K).

Section Fixed.
Variables (a b : list K) (pole res : nat -> K).
Hypothesis Hd : ccf_dom a b = true.
Hypothesis Ha : (2 <= length a)%nat.
Hypothesis Hb : (1 <= length b)%nat.
Hypothesis Hnz : nthK a 0 <> 0.
Let a0 := nthK a 0.
Let a' := norm_list a0 a.
Let b' := padto (length a) (norm_list a0 b).
Let N := (length a - 1)%nat.
Let r := ccf a b pole res.

Lemma ccf_Nx : rNx r = N.
Proof. unfold r, ccf. cbv zeta. cbn [rNx]. rewrite norm_list_length. reflexivity. Qed.
Lemma ccf_A_entry i j : (i < N)%nat -> (j < N)%nat ->
  rA r i j = if (i =? N - 1)%nat then - nthK a' (N - j) else if (j =? i + 1)%nat then 1 else 0.
Proof.
  intros Hi Hj. unfold r, ccf. cbv zeta. cbn [rA]. rewrite norm_list_length. fold N. fold a0. fold a'.
  unfold entry. cbn [fold_left hit]. rewrite ?Nat.sub_0_r, ?Nat.add_0_r. nat_cases; reflexivity.
Qed.
Lemma ccf_B_entry i : (i < N)%nat -> rB r i = if (i =? N - 1)%nat then 1 else 0.
Proof.
  intros Hi. unfold r, ccf. cbv zeta. cbn [rB]. rewrite norm_list_length. fold N.
  unfold entry. cbn [fold_left hit]. nat_cases; reflexivity.
Qed.
Lemma ccf_C_entry j : (j < N)%nat -> rC r j = nthK b' (N - j) - nthK a' (N - j) * nthK b' 0.
Proof.
  intros Hj. unfold r, ccf. cbv zeta. cbn [rC]. rewrite norm_list_length. fold N. fold a0. fold a'. fold b'.
  unfold entry. cbn [fold_left hit]. rewrite ?Nat.sub_0_r. nat_cases; reflexivity.
Qed.
Lemma ccf_D_entry : rD r = nthK b' 0.
Proof. unfold r, ccf. cbv zeta. cbn [rD]. unfold entry. cbn [fold_left hit]. reflexivity. Qed.

Lemma a'_0 : nthK a' 0 = 1.
Proof. unfold a'. rewrite norm_list_nth by exact Hnz. unfold a0. field. exact Hnz. Qed.
Lemma b'_len : length b' = length a.
Proof. unfold b'. apply padto_length. rewrite norm_list_length. unfold ccf_dom in Hd. apply Nat.leb_le in Hd. exact Hd. Qed.
Lemma pn_a' s : pn (nthK a') N s = pe a N s / a0.
Proof. unfold a'. rewrite <- pe_norm by exact Hnz. reflexivity. Qed.
Lemma pn_b' s : pn (nthK b') N s = pe b (length b - 1) s / a0.
Proof.
  change (pn (nthK b') N s) with (pe b' N s). unfold b', N.
  rewrite pe_padto; rewrite ?norm_list_length; try lia.
  - apply pe_norm. exact Hnz.
  - unfold ccf_dom in Hd. apply Nat.leb_le in Hd. exact Hd.
Qed.

Theorem ccf_sound (s u : K) (x : nat -> K) :
  ss_state r s u x -> pe a N s * ss_out r u x = pe b (length b - 1) s * u.
Proof.
  intros Hs. unfold ss_state in Hs. unfold ss_out. rewrite ccf_Nx in *. rewrite ccf_D_entry.
  assert (HN : (1 <= N)%nat) by (unfold N; lia).
  assert (Chain : forall i, (S i < N)%nat -> s * x i = x (S i)).
  { intros i Hi. rewrite (Hs i) by lia. rewrite ccf_B_entry by lia.
    destruct (Nat.eqb_spec i (N - 1)); [lia|].
    rewrite (sumn_single K N _ (S i)); try lia.
    - rewrite ccf_A_entry by lia. destruct (Nat.eqb_spec i (N - 1)); [lia|].
      destruct (Nat.eqb_spec (S i) (i + 1)); [ring | lia].
    - intros k Hk Hne. rewrite ccf_A_entry by lia. destruct (Nat.eqb_spec i (N - 1)); [lia|].
      destruct (Nat.eqb_spec k (i + 1)); [lia | ring]. }
  assert (Last : s * x (N - 1)%nat = sumn N (fun j => - nthK a' (N - j) * x j) + u).
  { rewrite (Hs (N - 1)%nat) by lia. rewrite ccf_B_entry by lia. rewrite Nat.eqb_refl.
    rewrite (sumn_ext K N _ (fun j => - nthK a' (N - j) * x j)); [ring|].
    intros k Hk. rewrite ccf_A_entry by lia. rewrite Nat.eqb_refl. reflexivity. }
  pose proof (ccf_core K N (nthK a') (nthK b') s u x HN a'_0 Chain Last) as Core.
  assert (EC : sumn N (fun j => rC r j * x j) = sumn N (fun j => (nthK b' (N - j) - nthK a' (N - j) * nthK b' 0) * x j)).
  { apply sumn_ext. intros k Hk. rewrite ccf_C_entry by lia. reflexivity. }
  rewrite EC.
  rewrite pn_a', pn_b' in Core.
  assert (A0 : a0 <> 0) by exact Hnz.
  transitivity (a0 * (pe a N s / a0 * (sumn N (fun j => (nthK b' (N - j) - nthK a' (N - j) * nthK b' 0) * x j) + nthK b' 0 * u))).
  - field. exact A0.
  - rewrite Core. field. exact A0.
Qed.

(* existence: the companion chain *)
Theorem ccf_exists (s u : K) : pe a N s <> 0 ->
  exists x, ss_state r s u x.
Proof.
  intros Hp.
  assert (HN : (1 <= N)%nat) by (unfold N; lia).
  assert (A0 : a0 <> 0) by exact Hnz.
  set (w := u / (pe a N s / a0)).
  assert (Hw : pn (nthK a') N s * w = u).
  { rewrite pn_a'. unfold w. field. split; assumption. }
  destruct (ccf_chain_solves K N (nthK a') s u w HN a'_0 Hw) as [Chain Last].
  exists (fun k => fpow s k * w). unfold ss_state. rewrite ccf_Nx. intros i Hi.
  rewrite ccf_B_entry by lia.
  destruct (Nat.eqb_spec i (N - 1)) as [->|Hne].
  - cbv beta in Last. rewrite Last.
    assert (E : sumn N (fun j => rA r (N - 1)%nat j * (fpow s j * w)) = sumn N (fun j => - nthK a' (N - j) * (fpow s j * w))).
    { apply sumn_ext. intros k Hk. rewrite ccf_A_entry by lia. rewrite Nat.eqb_refl. reflexivity. }
    rewrite E. ring.
  - rewrite (sumn_single K N _ (S i)); try lia.
    + rewrite ccf_A_entry by lia. destruct (Nat.eqb_spec i (N - 1)); [lia|].
      destruct (Nat.eqb_spec (S i) (i + 1)); [cbn [fpow]; ring | lia].
    + intros k Hk Hnk. rewrite ccf_A_entry by lia. destruct (Nat.eqb_spec i (N - 1)); [lia|].
      destruct (Nat.eqb_spec k (i + 1)); [lia | ring].
Qed.
End Fixed.
End C15ccf.
Print Assumptions ccf_sound.
Print Assumptions ccf_exists.
