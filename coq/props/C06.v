(* C06 — netlist text round-trips.  Grammar-independent theorems (proved in
   coq/theory/Parser*.v by induction over character / field lists, for ALL inputs and
   ANY grammar), restated here so that every run re-checks and counts them; the
   instantiation on the grammar regenerated from lcapy/grammar.py is C06_grammar.v. *)
From Coq Require Import List Ascii Bool Arith ZArith Lia.
From LT Require Import ParserStr ParserModel ParserThm ParserRoundTrip ParserValue ParserOpts ParserNamespace ParserNamer.
Import ListNotations.

(* tokenizer: splitting the joined fields gives the fields back *)
Theorem C06_split_join : forall ds fs, mem SP ds = true ->
  Forall (fun w => field_ok ds w = true) fs -> split ds (join [SP] fs) = Some fs.
Proof. exact split_join. Qed.
Theorem C06_split_join_any_delimiter : forall ds d fs, mem d ds = true ->
  Forall (fun w => field_ok ds w = true) fs -> split ds (join [d] fs) = Some fs.
Proof. exact split_join_any. Qed.
(* which words are self-contained fields *)
Theorem C06_plain_field : forall ds w, plain ds w = true -> field_ok ds w = true.
Proof. exact plain_field_ok. Qed.
Theorem C06_braced_field : forall ds v, mem LBR ds = false -> balanced v = true -> field_ok ds (LBR :: v ++ [RBR]) = true.
Proof. exact braced_field_ok. Qed.
Theorem C06_quoted_field : forall ds v, mem QUO ds = false -> quotable v = true -> field_ok ds (QUO :: v ++ [QUO]) = true.
Proof. exact quoted_field_ok. Qed.
(* value printing and reading are inverse; printed values are single fields *)
Theorem C06_strip_format : forall ds v, val_ok ds v = true -> strip_value (arg_format ds v) = v.
Proof. exact strip_format. Qed.
Theorem C06_format_field : forall ds v, mem LBR ds = false -> val_ok ds v = true -> field_ok ds (arg_format ds v) = true.
Proof. exact format_field_ok. Qed.
(* the round trip, for any grammar whose finite table passes grammar_ok *)
Theorem C06_parse_print : forall g, grammar_ok g = true ->
  forall ty rules i r c st, In (ty, rules) (g_dict g) -> nth_error rules i = Some r ->
  wf_cpt g rules i r c = true -> opts_rt (c_opts c) ->
  parse g st [] (print_cpt (g_delims g) c) = Ok (norm (g_delims g) c, st)
  /\ norm (g_delims g) (norm (g_delims g) c) = norm (g_delims g) c
  /\ print_cpt (g_delims g) (norm (g_delims g) c) = print_cpt (g_delims g) c.
Proof. exact parse_print_grammar. Qed.
(* anonymous A/O/W/P components: the same up to the freshly generated name *)
Theorem C06_parse_print_anon : forall g, grammar_ok g = true ->
  forall ty rules i r c st, In (ty, rules) (g_dict g) -> nth_error rules i = Some r ->
  wf_anon g rules i r c = true -> opts_rt (c_opts c) ->
  parse g st [] (print_cpt (g_delims g) c)
  = Ok (rename (norm (g_delims g) c) (anon_prefix (anon_pn (c_name c)) ++ fst (make_anon st (r_type r))),
        snd (make_anon st (r_type r))).
Proof. exact parse_print_anon_grammar. Qed.
(* the attribute string: Opts.add's splitter inverts the join; printed options read back *)
Theorem C06_osplit_join : forall items, Forall (fun t => item_ok t = true) items -> items <> [] ->
  osplit (join [COMMA] items) = Some items.
Proof. exact osplit_join. Qed.
Theorem C06_opts_roundtrip : forall o : opts,
  Forall (fun kv => opt_ok kv = true) o -> keys_distinct o = true ->
  str_eqb (strip (opts_format o)) (opts_format o) = true -> opts_rt o.
Proof. exact opts_roundtrip. Qed.
Theorem C06_norm_idem : forall ds c, arg_format ds ZERO = ZERO -> norm ds (norm ds c) = norm ds c.
Proof. exact norm_idem. Qed.
Theorem C06_print_idempotent : forall g st rules i r c c' st',
  mem SP (g_delims g) = true -> arg_format (g_delims g) ZERO = ZERO ->
  assoc_get (r_type r) (g_dict g) = Some rules -> nth_error rules i = Some r -> rule_ok r = true ->
  wf_cpt g rules i r c = true -> opts_rt (c_opts c) ->
  parse g st [] (print_cpt (g_delims g) c) = Ok (c', st') ->
  print_cpt (g_delims g) c' = print_cpt (g_delims g) c
  /\ parse g st [] (print_cpt (g_delims g) c') = Ok (c', st').
Proof. exact print_idempotent. Qed.
(* namespaces (.include file as name): for every line, parsing inside a namespace is parsing without it and
   prefixing the namespace to the component name and to every node *)
Theorem C06_parse_namespace : forall g st ns s, parse g st ns s = prefix_res ns (parse g st [] s).
Proof. exact parse_namespace. Qed.
(* the component namer over histories of Circuit.add / Circuit.remove (anonymous W/O/A/P, X? names, directives) *)
Theorem C06_namer_fresh : forall prefix taken, ~ In (namer_loop (length taken) 1 prefix taken) taken.
Proof. exact namer_fresh. Qed.
Theorem C06_namer_least : forall prefix taken, exists m, 1 <= m /\
  namer_loop (length taken) 1 prefix taken = prefix ++ nat_str m
  /\ (forall i, 1 <= i < m -> In (prefix ++ nat_str i) taken) /\ ~ In (prefix ++ nat_str m) taken.
Proof. exact namer_least. Qed.
Theorem C06_nat_str_injective : forall n m, nat_str n = nat_str m -> n = m.
Proof. exact nat_str_inj. Qed.
Theorem C06_make_anon_spec : forall st ty, exists m, 1 <= m /\
  fst (make_anon st ty) = (ty ++ S_anon) ++ nat_str m
  /\ (forall i, 1 <= i < m -> In ((ty ++ S_anon) ++ nat_str i) (taken_of st))
  /\ ~ In (fst (make_anon st ty)) (map fst (elements st))
  /\ ~ In (fst (make_anon st ty)) (gen_names st)
  /\ elements (snd (make_anon st ty)) = elements st
  /\ gen_names (snd (make_anon st ty)) = gen_names st ++ [fst (make_anon st ty)].
Proof. exact make_anon_spec. Qed.
(* along every history, from any state: element names pairwise distinct, no generated name handed out twice *)
Theorem C06_hist_invariant : forall g ops st st', names_inv st -> run_hist g st ops = inl st' -> names_inv st'.
Proof. exact hist_invariant. Qed.
(* the namer never forgets a name it handed out (removing the component does not free the name) *)
Theorem C06_hist_memory : forall g ops st st', run_hist g st ops = inl st' -> exists more, gen_names st' = gen_names st ++ more.
Proof. exact hist_memory. Qed.
(* a generated name without namespace never replaces a component: the new one is appended *)
Theorem C06_add_anon_appends : forall g st s c st1 ty,
  parse g st [] s = Ok (c, st1) -> st1 = snd (make_anon st ty) -> c_name c = fst (make_anon st ty) ->
  assoc_set (c_name c) c (elements st1) = elements st ++ [(c_name c, c)].
Proof. exact add_anon_appends. Qed.
(* Circuit.add(line) itself: if the namer ran, the new component has a dot in its name or was appended under a new name *)
Theorem C06_add_line_appends : forall g st l st', add_line g st l = Ok st' ->
  exists c, In (c_name c, c) (elements st')
    /\ (gen_names st' = gen_names st \/ In DOT (c_name c)
        \/ (elements st' = elements st ++ [(c_name c, c)] /\ ~ In (c_name c) (map fst (elements st)) /\ ~ In (c_name c) (gen_names st))).
Proof. exact add_line_appends. Qed.
Theorem C06_remove_spec : forall st n st', remove_elt st n = Some st' ->
  In n (map fst (elements st)) /\ ~ In n (map fst (elements st')) /\ gen_names st' = gen_names st
  /\ forall k v, k <> n -> (In (k, v) (elements st') <-> In (k, v) (elements st)).
Proof. exact remove_spec. Qed.
(* rejection *)
Theorem C06_reject_unbalanced : forall g st s,
  mem LBR (g_delims g) = false -> mem RBR (g_delims g) = false -> mem QUO (g_delims g) = false ->
  is_directive g (strip s) = false ->
  quote_free (fst (split_first SEMI (strip s))) = true ->
  count_occ ascii_dec (fst (split_first SEMI (strip s))) RBR < count_occ ascii_dec (fst (split_first SEMI (strip s))) LBR ->
  parse g st [] s = Err EUnbalanced.
Proof. exact reject_more_open. Qed.
Theorem C06_reject_empty_namespace : forall g st ns net name fields rest,
  no_empty_ns name = false -> parse_cpt g st ns net name fields rest = Err EEmptyNs.
Proof. exact reject_empty_namespace. Qed.
(* without an empty namespace segment, reader and writer reassemble the dotted name identically *)
Theorem C06_name_rejoin : forall name, no_empty_ns name = true -> printed_name name = name /\ parsed_name name = name.
Proof. exact name_rejoin. Qed.
Theorem C06_reject_unknown_type : forall g st ns net name fields rest,
  no_empty_ns name = true ->
  forallb (fun t => negb (starts_with t (last_str (split_on DOT name)))) (map fst (g_dict g)) = true ->
  parse_cpt g st ns net name fields rest = Err EUnknownCpt.
Proof. exact reject_unknown_type. Qed.
Theorem C06_reject_too_many : forall g st ns net name fields rest ty id rules,
  no_empty_ns name = true ->
  match_type g (last_str (split_on DOT name)) = Some (ty, id) ->
  assoc_get ty (g_dict g) = Some rules -> rules <> [] ->
  Forall (fun r => length (r_params r) < length fields) rules ->
  parse_cpt g st ns net name fields rest = Err ETooMany
  \/ parse_cpt g st ns net name fields rest = Err EUnknownKw.
Proof. exact reject_too_many. Qed.
Theorem C06_reject_unknown_keyword : forall g st ns net name fields rest ty id r0 rs r leak p,
  no_empty_ns name = true ->
  match_type g (last_str (split_on DOT name)) = Some (ty, id) ->
  assoc_get ty (g_dict g) = Some (r0 :: rs) ->
  select (r0 :: rs) fields r0 None = (r, [], leak) -> r_pos r = Some p -> p < length fields ->
  parse_cpt g st ns net name fields rest = Err EUnknownKw.
Proof. exact reject_unknown_keyword. Qed.
Theorem C06_reject_missing_node : forall r fields name ns dflt j p,
  length fields <= length (r_params r) ->
  nth_error (r_params r) j = Some p -> is_nodekind (p_kind p) = true -> length fields <= j ->
  process r fields name ns dflt = Err EMissingNode.
Proof. exact reject_missing_node. Qed.
Theorem C06_reject_unknown_param : forall args f r k v more,
  split_eq f = Ok (k :: v :: more) -> args_index args k 0 = None -> named args (f :: r) = Err EUnknownParam.
Proof. exact reject_unknown_param. Qed.
Theorem C06_reject_value_after_named : forall args f r ps,
  split_eq f = Ok ps -> length ps < 2 -> named args (f :: r) = Err EAfterNamed.
Proof. exact reject_after_named. Qed.
Theorem C06_reject_duplicate_param : forall args f r k v more i,
  split_eq f = Ok (k :: v :: more) -> args_index args k 0 = Some i ->
  (exists a, nth_error args i = Some a /\ a_assigned a = true) ->
  named args (f :: r) = Err EAssigned.
Proof. exact reject_duplicate_param. Qed.
(* engineering suffixes *)
Theorem C06_suffix_value : forall mc kc table m suf k,
  table_ok table = true -> find (fun kv => aeqb (fst kv) suf) table = Some (suf, k) ->
  is_float m = true -> value_parser mc kc table (m ++ [suf]) = VScaled m k.
Proof. exact suffix_value. Qed.
(* the aliases: K is k when the rewrite cuts one letter, Meg is M when it cuts three *)
Theorem C06_suffix_K : forall mc table m k,
  find (fun kv => aeqb (fst kv) ck) table = Some (ck, k) -> is_float m = true ->
  value_parser mc 1 table (m ++ [cK]) = VScaled m k.
Proof. exact suffix_K. Qed.
Theorem C06_suffix_Meg : forall kc table m k,
  find (fun kv => aeqb (fst kv) cM) table = Some (cM, k) -> is_float m = true ->
  value_parser 3 kc table (m ++ [cM; "e"%char; cg]) = VScaled m k.
Proof. exact suffix_Meg. Qed.

Print Assumptions C06_split_join.
Print Assumptions C06_strip_format.
Print Assumptions C06_format_field.
Print Assumptions C06_parse_print.
Print Assumptions C06_parse_print_anon.
Print Assumptions C06_opts_roundtrip.
Print Assumptions C06_print_idempotent.
Print Assumptions C06_parse_namespace.
Print Assumptions C06_name_rejoin.
Print Assumptions C06_reject_empty_namespace.
Print Assumptions C06_reject_unbalanced.
Print Assumptions C06_reject_unknown_type.
Print Assumptions C06_reject_too_many.
Print Assumptions C06_reject_unknown_keyword.
Print Assumptions C06_reject_missing_node.
Print Assumptions C06_reject_unknown_param.
Print Assumptions C06_reject_duplicate_param.
Print Assumptions C06_suffix_value.
Print Assumptions C06_namer_fresh.
Print Assumptions C06_namer_least.
Print Assumptions C06_make_anon_spec.
Print Assumptions C06_hist_invariant.
Print Assumptions C06_hist_memory.
Print Assumptions C06_add_anon_appends.
Print Assumptions C06_add_line_appends.
Print Assumptions C06_remove_spec.
