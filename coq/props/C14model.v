(* C14 executable model over the Gaussian rationals QcIF, evaluated by vm_compute
   in the generated cases files on what the real code returned:
   - an element of the s-domain sub-netlist, with s := j omega, stamped by the
     regenerated stamps; its ac counterpart is [ac_ctx (id_hom QcIF)] of it
     (the construction of theorem assemble_ac, h = evaluation already performed);
   - immittances of leaves computed from the regenerated table (leaf_Z / leaf_Y);
   - source phasors computed from the source description by the regenerated
     Vac/Iac and phasor.py constructions;
   - comparisons with the real matrices, solutions, reported phasors, transfer
     functions, time-domain coefficients. *)
Require Import LT.FieldSec LT.Circuit LT.MNA LT.SeqQcI LT.PhasorHom LT.PhasorTime.
Require Import Gen.StampsGen Gen.C01model Gen.ImmittanceGen Gen.C14 Gen.C14imm.
Local Open Scope Z_scope.
Local Open Scope bool_scope.

Definition qi (a b : Qc) : qci := QI a b.
Definition qi0 : qci := QI 0 0.
Definition of_cx (p : cx QcF) : qci := QI (cre p) (cim p).
(* x ** a for the exponents representable in Q(i): 1 and 0 *)
Definition pwq (x a : qci) : qci :=
  if qci_eqb a (QI 1 0) then x else if qci_eqb a qi0 then QI 1 0 else qi0.

(* ---- sources: a list of sinusoidal terms  A f(w t + k pi/2) ------------------ *)
Record term := Term { t_f : trig; t_A : Qc; t_k : Z; t_w : Qc }.
Definition cosq (k : Z) : Qc := cre (@qturn QcF k).
Definition sinq (k : Z) : Qc := cim (@qturn QcF k).
(* phasor of one term as phasor.py / acdc.py build it from the time-domain form *)
Definition term_phasor (t : term) : cx QcF := phasor_of (K:=QcF) gen_offs (t_f t) (t_A t) (cosq (t_k t)) (sinq (t_k t)).
(* phasor of an `ac A phi w` netlist source as Vac/Iac.__init__ build it *)
Definition acsrc_phasor (A : Qc) (k : Z) : cx QcF := vac_phasor (K:=QcF) A (cosq k) (sinq k).
Fixpoint sum_phasor (w : Qc) (l : list term) : cx QcF :=
  match l with
  | [] => Cx (K:=QcF) 0%Qc 0%Qc
  | t :: l' => if qc_eqb (t_w t) w then cadd (K:=QcF) (term_phasor t) (sum_phasor w l') else sum_phasor w l'
  end.
Inductive srcdesc := SAc (A : Qc) (k : Z) (w : Qc) | STerms (l : list term).
Definition src_P (w : Qc) (d : srcdesc) : qci :=
  match d with
  | SAc A k w' => if qc_eqb w w' then of_cx (acsrc_phasor A k) else qi0
  | STerms l => of_cx (sum_phasor w l)
  end.

(* ---- elements ------------------------------------------------------------------ *)
Record rawc := RawC {
  rc_cl : cname; rc_info : cinfo; rc_typ : ctype;
  rc_n0 : Z; rc_n1 : Z; rc_n2 : Z; rc_n3 : Z; rc_c0 : Z; rc_c1 : Z;
  rc_L1 : nat; rc_L2 : nat;
  rc_ic : bool; rc_cv : bool; rc_a1 : bool; rc_ts : bool;
  rc_par : pname -> qci;
  rc_leaf : option (leaf * qci * qci);      (* RLC-type: leaf class and constructor args *)
  rc_src : option (bool * srcdesc) }.       (* independent source: (is voltage source, description) *)

Definition oget (o : option qci) : qci := match o with Some x => x | None => qi0 end.
(* parameters the stamp reads, for Laplace variable value sval and source frequency w *)
Definition par_of (sval : qci) (w : Qc) (e : rawc) : pname -> qci := fun n =>
  match n with
  | pY => match rc_leaf e with Some (l, a0, a1) => oget (leaf_Y (K:=QcIF) pwq l sval a0 a1) | None => rc_par e n end
  | pZ => match rc_leaf e with Some (l, a0, a1) => oget (leaf_Z (K:=QcIF) pwq l sval a0 a1) | None => rc_par e n end
  | pVoc => match rc_src e with Some (true, d) => src_P w d | _ => rc_par e n end
  | pIsc => match rc_src e with Some (false, d) => src_P w d | _ => rc_par e n end
  | _ => rc_par e n
  end.
Definition mkctxc (k : akind) (sval : qci) (w : Qc) (us : list bkey) (e : rawc) : sctx QcIF :=
  SCtx QcIF k (rc_typ e) (rc_n0 e) (rc_n1 e) (rc_n2 e) (rc_n3 e) (rc_c0 e) (rc_c1 e)
    (zidx (ci_id (rc_info e), false) us) (zidx (ci_id (rc_info e), true) us)
    (zidx (ci_ctrl (rc_info e), false) us) (zidx (rc_L1 e, false) us) (zidx (rc_L2 e, false) us)
    (rc_ic e) (rc_cv e) (rc_a1 e) (rc_ts e) (par_of sval w e).
Definition unknowns_c (es : list rawc) : list bkey := unknowns (map rc_info es).
(* the s-domain sub-netlist (analysis kind k) at s = sval *)
Definition s_net (k : akind) (sval : qci) (w : Qc) (es : list rawc) : netlist QcIF :=
  let us := unknowns_c es in map (fun e => (rc_cl e, mkctxc k sval w us e)) es.
(* its ac counterpart, exactly as in theorem assemble_ac (h = identity: the evaluation is done) *)
Definition ac_of (N : netlist QcIF) : netlist QcIF := map (fun e => (fst e, ac_ctx (id_hom QcIF) (snd e))) N.
Definition jw (w : Qc) : qci := QI 0 w.
Definition sys_s (k : akind) (w : Qc) (es : list rawc) := assemble (s_net k (jw w) w es).
Definition sys_ac (k : akind) (w : Qc) (es : list rawc) := assemble (ac_of (s_net k (jw w) w es)).

Definition entries_ok (T : sres QcIF) (l : list (mname * Z * Z * qci)) : bool :=
  match T with
  | SErr => false
  | SOk T => forallb (fun e => match e with (mm, r, c, x) => qci_eqb (entry T mm r c) x end) l
  end.
Definition check_unknowns_c (es : list rawc) (expected : list bkey) : bool := bkeys_eqb (unknowns_c es) expected.
(* (i) the real ac matrix = ac image of the s-domain elements; the real s-domain matrix at j w = the s model *)
Definition check_entries_ac k w es l := entries_ok (sys_ac k w es) l.
Definition check_entries_s k w es l := entries_ok (sys_s k w es) l.
(* and the two assembled lists are literally equal entry-wise on a grid *)
Definition vecc (x : list qci) (off : nat) : Z -> qci := fun i => nth (off + Z.to_nat i) x qi0.
Definition residual_ok (T : sres QcIF) (nn mm : nat) (x : list qci) : bool :=
  match T with
  | SErr => false
  | SOk T =>
      forallb (fun r => qci_eqb (node_res T (vecc x 0) (vecc x nn) r) qi0) (upto nn) &&
      forallb (fun q => qci_eqb (br_res T (vecc x 0) (vecc x nn) q) qi0) (upto mm)
  end.
(* the vector the ac analysis solved for satisfies the model's ac system; the s-domain
   solution evaluated at j w satisfies it too (solution_transport) *)
Definition check_solution_ac k w es nn mm x := residual_ok (sys_ac k w es) nn mm x.
Fixpoint list_eqb (a b : list qci) : bool :=
  match a, b with
  | [], [] => true
  | x :: a', y :: b' => qci_eqb x y && list_eqb a' b'
  | _, _ => false end.
(* (ii) reported phasor = sum over the sources of  P_k * H_k(j w) *)
Fixpoint super_sum (l : list (qci * qci)) : qci :=
  match l with [] => qi0 | (P, H) :: l' => ciadd (cimul P H) (super_sum l') end.
Definition check_super (w : Qc) (l : list (srcdesc * qci)) (reported : qci) : bool :=
  qci_eqb (super_sum (map (fun p => (src_P w (fst p), snd p)) l)) reported.
(* (iii) immittance used by the ac analysis = table at j w = s-domain immittance at j w *)
Definition check_imm (w : Qc) (l : leaf) (a0 a1 : qci) (Zac Yac Zs Ys : qci) : bool :=
  match leaf_Z (K:=QcIF) pwq l (jw w) a0 a1, leaf_Y (K:=QcIF) pwq l (jw w) a0 a1 with
  | Some z, Some y => qci_eqb z Zac && qci_eqb y Yac && qci_eqb z Zs && qci_eqb y Ys
  | _, _ => false end.
(* time-domain coefficients of cos(w t), sin(w t) from a phasor: phasor.py time() *)
Definition check_time (P : qci) (cc sc : Qc) : bool :=
  qc_eqb (gen_phasor_time (K:=QcF) (re P) (im P) 1%Qc 0%Qc) cc &&
  qc_eqb (gen_phasor_time (K:=QcF) (re P) (im P) 0%Qc 1%Qc) sc.
(* phasor(expr) of a single sinusoidal term, and its time() *)
Definition check_phasor (t : term) (P : qci) (cc sc : Qc) : bool :=
  qci_eqb (of_cx (term_phasor t)) P &&
  qc_eqb (sinusoid (K:=QcF) (t_f t) (t_A t) (cosq (t_k t)) (sinq (t_k t)) 1%Qc 0%Qc) cc &&
  qc_eqb (sinusoid (K:=QcF) (t_f t) (t_A t) (cosq (t_k t)) (sinq (t_k t)) 0%Qc 1%Qc) sc &&
  check_time P cc sc.
Definition check_srcP (w : Qc) (d : srcdesc) (P : qci) : bool := qci_eqb (src_P w d) P.

(* frequency response read-out of H = transfer(..): real/imag parts, magnitude^2, magnitude e^{j phase},
   10^(dB/10) - through H(jomega) evaluated at omega = w and through the constant H(j w) *)
Definition check_fresp (H : qci) (re_ im_ mag2 : Qc) (polar : qci) (db10 : Qc) : bool :=
  qci_eqb (QI re_ im_) H && qc_eqb (gen_mag_num_sq (K:=QcF) (re H) (im H)) mag2 && qci_eqb polar H && qc_eqb db10 mag2.
