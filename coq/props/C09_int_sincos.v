(* C09 — end to end over the reals: the sin_cos closed form translated from the source IS the defining integral of
   e^{al t + be} sin|cos(w t + p) u(t - tau)  for tau >= 0 and real s > al. *)
From Coq Require Import Reals Lra.
From Coquelicot Require Import Coquelicot.
Require Import LT.FieldSec LT.PolyQ LT.ExpPoly LT.LaplaceSig LT.LaplaceModel LT.LaplaceAnalysis LT.LaplaceLink.
Require Import Gen.LaplaceGen Gen.C09_entry_sincos.
Open Scope R_scope.
Theorem sincos_closed_form_is_integral (Fn : nat -> R -> R) (Ic : nat -> nat -> R) (iscos : bool) (al be w p tau s : R) :
  0 <= tau -> al < s ->
  LT (sincos_fun iscos al be w p tau) s (gen_sincos RFld (Renv Fn Ic) iscos true al be w p (- tau) s).
Proof. intros Ht Hs.
  rewrite (table_entry_sincos RFld (Renv Fn Ic) R_ex_add R_ex_0 R_sn_quarter R_cs_quarter iscos true al be w p (- tau) s).
  - apply spec_sincos_is_integral; assumption.
  - unfold sq. cbn. nra. Qed.
Print Assumptions sincos_closed_form_is_integral.
