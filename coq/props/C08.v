(* C08 — hand-written part: facts about the specification itself and about
   cascading; the per-class obligations are generated into C08_<X>.v from the
   current lcapy/twoport.py on every run. *)
Require Import LT.FieldSec LT.TwoPort.
Local Open Scope F_scope.

Section C08.
Variable K : fld.
Add Field KFp : (fth K).

(* chain matrices multiply associatively: three cascaded two-ports *)
Theorem chain3_assoc (a b c : mat K) : mmul (mmul a b) c = mmul a (mmul b c).
Proof. destruct a, b, c. tp_unfold. apply mat_eq; ring. Qed.

(* the cascade of two A-relations is the A-relation of the product, in signal order *)
Theorem cascade_A_spec (Z0 : K) (a b : mat K) (v : port K) :
  cascade (rel_A Z0 a) (rel_A Z0 b) v -> rel_A Z0 (mmul a b) v.
Proof. destruct a, b, v. intros [Vm [Im [[E1 E2] [E3 E4]]]]. tp_unfold. split; nsatz. Qed.

(* ... and of two B-relations is the B-relation of the REVERSED product *)
Theorem cascade_B_spec (Z0 : K) (a b : mat K) (v : port K) :
  cascade (rel_B Z0 a) (rel_B Z0 b) v -> rel_B Z0 (mmul b a) v.
Proof. destruct a, b, v. intros [Vm [Im [[E1 E2] [E3 E4]]]]. tp_unfold. split; nsatz. Qed.

(* spec sanity (pins the sign conventions to circuit theory): a series
   impedance z between the ports: V1 - V2 = z I1, I1 = - I2 *)
Definition series_rel (z : K) (v : port K) := V1 v - V2 v = z * I1 v /\ I1 v = - I2 v.
Example series_is_A (Z0 z : K) v : series_rel z v <-> rel_A Z0 (Mat 1 z 0 1) v.
Proof. destruct v. unfold series_rel. tp_unfold. split; intros [E1 E2]; split; nsatz. Qed.
(* the same element by its admittance y: I1 = y (V1 - V2) = - I2 *)
Definition series_rel_y (y : K) (v : port K) := I1 v = y * (V1 v - V2 v) /\ I1 v = - I2 v.
Example series_is_Y (Z0 y : K) v : series_rel_y y v <-> rel_Y Z0 (Mat y (- y) (- y) y) v.
Proof. destruct v. unfold series_rel_y. tp_unfold. split; intros [E1 E2]; split; nsatz. Qed.
(* a shunt admittance y: V1 = V2, I1 + I2 = y V1 *)
Definition shunt_rel (y : K) (v : port K) := V1 v = V2 v /\ I1 v + I2 v = y * V1 v.
Example shunt_is_A (Z0 y : K) v : shunt_rel y v <-> rel_A Z0 (Mat 1 0 y 1) v.
Proof. destruct v. unfold shunt_rel. tp_unfold. split; intros [E1 E2]; split; nsatz. Qed.
(* a matched through connection (V1 = V2, I1 = -I2) has S = [[0,1],[1,0]] *)
Example through_is_S (Z0 : K) v : (V1 v = V2 v /\ I1 v = - I2 v) -> rel_S Z0 (Mat 0 1 1 0) v.
Proof. destruct v. tp_unfold. intros [E1 E2]; split; nsatz. Qed.
End C08.
Print Assumptions chain3_assoc.
Print Assumptions cascade_A_spec.
Print Assumptions cascade_B_spec.
