(* C08 — hand-written part: facts about the specification itself and about
   cascading; the per-class obligations are generated into C08_<X>.v from the
   current lcapy/twoport.py on every run. *)
Require Import LT.FieldSec LT.TwoPort.
Local Open Scope F_scope.

Section C08.
Variable K : fld.
Add Field KFp : (fth K).

(* chain matrices multiply associatively: three cascaded two-ports *)
Theorem chain3_assoc (a b c : mat K) : mmul (mmul a b) c = mmul a (mmul b c).
Proof. destruct a, b, c. tp_unfold. apply mat_eq; ring. Qed.

(* the cascade of two A-relations is the A-relation of the product, in signal order *)
Theorem cascade_A_spec (Z0 : K) (a b : mat K) (v : port K) :
  cascade (rel_A Z0 a) (rel_A Z0 b) v -> rel_A Z0 (mmul a b) v.
Proof. destruct a, b, v. intros [Vm [Im [[E1 E2] [E3 E4]]]]. tp_unfold. split; nsatz. Qed.

(* ... and of two B-relations is the B-relation of the REVERSED product *)
Theorem cascade_B_spec (Z0 : K) (a b : mat K) (v : port K) :
  cascade (rel_B Z0 a) (rel_B Z0 b) v -> rel_B Z0 (mmul b a) v.
Proof. destruct a, b, v. intros [Vm [Im [[E1 E2] [E3 E4]]]]. tp_unfold. split; nsatz. Qed.

(* spec sanity (pins the sign conventions to circuit theory): a series
   impedance z between the ports: V1 - V2 = z I1, I1 = - I2 *)
Definition series_rel (z : K) (v : port K) := V1 v - V2 v = z * I1 v /\ I1 v = - I2 v.
Example series_is_A (Z0 z : K) v : series_rel z v <-> rel_A Z0 (Mat 1 z 0 1) v.
Proof. destruct v. unfold series_rel. tp_unfold. split; intros [E1 E2]; split; nsatz. Qed.
(* the same element by its admittance y: I1 = y (V1 - V2) = - I2 *)
Definition series_rel_y (y : K) (v : port K) := I1 v = y * (V1 v - V2 v) /\ I1 v = - I2 v.
Example series_is_Y (Z0 y : K) v : series_rel_y y v <-> rel_Y Z0 (Mat y (- y) (- y) y) v.
Proof. destruct v. unfold series_rel_y. tp_unfold. split; intros [E1 E2]; split; nsatz. Qed.
(* a shunt admittance y: V1 = V2, I1 + I2 = y V1 *)
Definition shunt_rel (y : K) (v : port K) := V1 v = V2 v /\ I1 v + I2 v = y * V1 v.
Example shunt_is_A (Z0 y : K) v : shunt_rel y v <-> rel_A Z0 (Mat 1 0 y 1) v.
Proof. destruct v. unfold shunt_rel. tp_unfold. split; intros [E1 E2]; split; nsatz. Qed.
(* a matched through connection (V1 = V2, I1 = -I2) has S = [[0,1],[1,0]] *)
Example through_is_S (Z0 : K) v : (V1 v = V2 v /\ I1 v = - I2 v) -> rel_S Z0 (Mat 0 1 1 0) v.
Proof. destruct v. tp_unfold. intros [E1 E2]; split; nsatz. Qed.

(* ---- converse of the cascade theorems: the product matrix allows NO port
   state that the cascade does not (the intermediate port state is the one
   the second two-port determines), so cascade and product are the same
   relation, not merely an inclusion *)
Theorem cascade_A_complete (Z0 : K) (a b : mat K) (v : port K) :
  rel_A Z0 (mmul a b) v -> cascade (rel_A Z0 a) (rel_A Z0 b) v.
Proof. destruct a as [a11 a12 a21 a22], b as [b11 b12 b21 b22], v as [v1 i1 v2 i2].
  intros [E1 E2]. tp_unfold.
  exists (b11 * v2 + b12 * (- i2)), (b21 * v2 + b22 * (- i2)).
  repeat split; try reflexivity; nsatz. Qed.
Theorem cascade_A_iff (Z0 : K) (a b : mat K) (v : port K) :
  cascade (rel_A Z0 a) (rel_A Z0 b) v <-> rel_A Z0 (mmul a b) v.
Proof. split; [apply cascade_A_spec | apply cascade_A_complete]. Qed.
Theorem cascade_B_complete (Z0 : K) (a b : mat K) (v : port K) :
  rel_B Z0 (mmul b a) v -> cascade (rel_B Z0 a) (rel_B Z0 b) v.
Proof. destruct a as [a11 a12 a21 a22], b as [b11 b12 b21 b22], v as [v1 i1 v2 i2].
  intros [E1 E2]. tp_unfold.
  exists (a11 * v1 + a12 * i1), (a21 * v1 + a22 * i1).
  repeat split; try reflexivity; nsatz. Qed.

(* ---- the four port-wise interconnections (TwoPort.series / parallel /
   hybrid / inverse_hybrid build Ser2 / Par2 / Hybrid2 / InverseHybrid2 by
   ADDING the Z / Y / H / G matrices).  Spec: a port quantity that the
   connection shares is common to both two-ports, the dual quantity adds. *)
Definition conn (sV1 sI1 sV2 sI2 : bool) (R1 R2 : port K -> Prop) (v : port K) : Prop :=
  exists p q : port K, R1 p /\ R2 q /\
    (if sV1 then V1 p = V1 v /\ V1 q = V1 v else V1 p + V1 q = V1 v) /\
    (if sI1 then I1 p = I1 v /\ I1 q = I1 v else I1 p + I1 q = I1 v) /\
    (if sV2 then V2 p = V2 v /\ V2 q = V2 v else V2 p + V2 q = V2 v) /\
    (if sI2 then I2 p = I2 v /\ I2 q = I2 v else I2 p + I2 q = I2 v).
(* series-series: currents common, voltages add *)
Definition series2 := conn false true false true.
(* parallel-parallel: voltages common, currents add *)
Definition parallel2 := conn true false true false.
(* series input, parallel output *)
Definition hybrid2 := conn false true true false.
(* parallel input, series output *)
Definition inverse_hybrid2 := conn true false false true.

Ltac conn_fwd :=
  let p := fresh "p" in let q := fresh "q" in
  intros [[p1 p2 p3 p4] [[q1 q2 q3 q4] [[P1 P2] [[Q1 Q2] C]]]];
  cbv [conn series2 parallel2 hybrid2 inverse_hybrid2] in C; tp_unfold;
  repeat match goal with H : _ /\ _ |- _ => destruct H end; split; nsatz.

Theorem series_Z_spec (Z0 : K) (a b : mat K) (v : port K) :
  series2 (rel_Z Z0 a) (rel_Z Z0 b) v <-> rel_Z Z0 (madd a b) v.
Proof. destruct a as [a11 a12 a21 a22], b as [b11 b12 b21 b22], v as [v1 i1 v2 i2]. split.
  - conn_fwd.
  - intros [E1 E2]. tp_unfold.
    exists (Port (a11 * i1 + a12 * i2) i1 (a21 * i1 + a22 * i2) i2),
           (Port (b11 * i1 + b12 * i2) i1 (b21 * i1 + b22 * i2) i2).
    cbv [series2 conn]; tp_unfold. repeat split; try reflexivity; nsatz. Qed.
Theorem parallel_Y_spec (Z0 : K) (a b : mat K) (v : port K) :
  parallel2 (rel_Y Z0 a) (rel_Y Z0 b) v <-> rel_Y Z0 (madd a b) v.
Proof. destruct a as [a11 a12 a21 a22], b as [b11 b12 b21 b22], v as [v1 i1 v2 i2]. split.
  - conn_fwd.
  - intros [E1 E2]. tp_unfold.
    exists (Port v1 (a11 * v1 + a12 * v2) v2 (a21 * v1 + a22 * v2)),
           (Port v1 (b11 * v1 + b12 * v2) v2 (b21 * v1 + b22 * v2)).
    cbv [parallel2 conn]; tp_unfold. repeat split; try reflexivity; nsatz. Qed.
Theorem hybrid_H_spec (Z0 : K) (a b : mat K) (v : port K) :
  hybrid2 (rel_H Z0 a) (rel_H Z0 b) v <-> rel_H Z0 (madd a b) v.
Proof. destruct a as [a11 a12 a21 a22], b as [b11 b12 b21 b22], v as [v1 i1 v2 i2]. split.
  - conn_fwd.
  - intros [E1 E2]. tp_unfold.
    exists (Port (a11 * i1 + a12 * v2) i1 v2 (a21 * i1 + a22 * v2)),
           (Port (b11 * i1 + b12 * v2) i1 v2 (b21 * i1 + b22 * v2)).
    cbv [hybrid2 conn]; tp_unfold. repeat split; try reflexivity; nsatz. Qed.
Theorem inverse_hybrid_G_spec (Z0 : K) (a b : mat K) (v : port K) :
  inverse_hybrid2 (rel_G Z0 a) (rel_G Z0 b) v <-> rel_G Z0 (madd a b) v.
Proof. destruct a as [a11 a12 a21 a22], b as [b11 b12 b21 b22], v as [v1 i1 v2 i2]. split.
  - conn_fwd.
  - intros [E1 E2]. tp_unfold.
    exists (Port v1 (a11 * v1 + a12 * i2) (a21 * v1 + a22 * i2) i2),
           (Port v1 (b11 * v1 + b12 * i2) (b21 * v1 + b22 * i2) i2).
    cbv [inverse_hybrid2 conn]; tp_unfold. repeat split; try reflexivity; nsatz. Qed.

(* ---- reciprocity is a property of the port relation, so every
   representation must agree on it (TwoPortMixin.is_reciprocal tests
   Z12 == Z21 and its comment names Y12 == Y21 and det A = 1;
   is_bilateral tests det B = 1).  Lorentz/Tellegen form: for any two
   admissible port states the cross powers agree.  Each representation's
   matrix test is proved EQUIVALENT to it (the forward direction by
   exhibiting two port states), hence, with conv_sound_X_Y, all the tests
   agree on every two-port. *)
Definition reciprocal (R : port K -> Prop) : Prop :=
  forall v w, R v -> R w -> V1 v * I1 w + V2 v * I2 w = V1 w * I1 v + V2 w * I2 v.
Ltac rec_bwd := intros E [v1 i1 v2 i2] [w1 j1 w2 j2] [P1 P2] [Q1 Q2]; tp_unfold; nsatz.
Ltac rec_fwd H v w :=
  let X := fresh "X" in
  assert (X := H v w); tp_unfold;
  let Y := fresh "Y" in
  assert (Y := X ltac:(split; ring) ltac:(split; ring)); clear X; nsatz.
Theorem reciprocal_Z (Z0 : K) (m : mat K) : reciprocal (rel_Z Z0 m) <-> m12 m = m21 m.
Proof. destruct m as [a b c d]. unfold reciprocal. split.
  - intros H. rec_fwd H (Port a 1 c 0) (Port b 0 d 1).
  - tp_unfold. rec_bwd. Qed.
Theorem reciprocal_Y (Z0 : K) (m : mat K) : reciprocal (rel_Y Z0 m) <-> m12 m = m21 m.
Proof. destruct m as [a b c d]. unfold reciprocal. split.
  - intros H. rec_fwd H (Port 1 a 0 c) (Port 0 b 1 d).
  - tp_unfold. rec_bwd. Qed.
Theorem reciprocal_H (Z0 : K) (m : mat K) : reciprocal (rel_H Z0 m) <-> m12 m = - m21 m.
Proof. destruct m as [a b c d]. unfold reciprocal. split.
  - intros H. rec_fwd H (Port a 1 0 c) (Port b 0 1 d).
  - tp_unfold. rec_bwd. Qed.
Theorem reciprocal_G (Z0 : K) (m : mat K) : reciprocal (rel_G Z0 m) <-> m12 m = - m21 m.
Proof. destruct m as [a b c d]. unfold reciprocal. split.
  - intros H. rec_fwd H (Port 1 a c 0) (Port 0 b d 1).
  - tp_unfold. rec_bwd. Qed.
Theorem reciprocal_A (Z0 : K) (m : mat K) : reciprocal (rel_A Z0 m) <-> det m = 1.
Proof. destruct m as [a b c d]. unfold reciprocal. split.
  - intros H. rec_fwd H (Port a c 1 0) (Port b d 0 (- (1))).
  - tp_unfold. rec_bwd. Qed.
Theorem reciprocal_B (Z0 : K) (m : mat K) : reciprocal (rel_B Z0 m) <-> det m = 1.
Proof. destruct m as [a b c d]. unfold reciprocal. split.
  - intros H. rec_fwd H (Port 1 0 a (- c)) (Port 0 1 b (- d)).
  - tp_unfold. rec_bwd. Qed.

(* ---- "the same value whichever representation it is computed from", made
   explicit: two representations with the same port relation (conv_sound_X_Y)
   whose formulas both meet the port-level definition of a derived quantity
   (derived_X_q, derived_Y_q) return the same value, provided one admissible
   terminated state has a non-zero denominator (otherwise the quantity is
   undefined and nothing is claimed) *)
Theorem derived_agree (R R' : port K -> Prop) (term num den : port K -> K) (q q' : K) :
  (forall v, R v <-> R' v) ->
  is_ratio R term num den q -> is_ratio R' term num den q' ->
  (exists v, R v /\ term v = 0 /\ den v <> 0) -> q = q'.
Proof. intros Hiff Hq Hq' [v [Rv [Tv Dv]]].
  apply (is_ratio_unique K R term num den q q' v); try assumption.
  intros w Rw Tw. apply Hq'; [apply Hiff; exact Rw | exact Tw]. Qed.
(* non-vacuity: for a Z matrix the state (I1, I2) = (1, 0) is admissible,
   open-circuited at port 2 and has I1 <> 0 in any field (1 <> 0) *)
Example derived_agree_premise_Z (Z0 : K) (m : mat K) :
  exists v, rel_Z Z0 m v /\ I2 v = 0 /\ I1 v <> 0.
Proof. destruct m as [a b c d]. exists (Port a 1 c 0). tp_unfold.
  repeat split; try ring. exact (F_1_neq_0 (fth K)). Qed.
End C08.
Print Assumptions chain3_assoc.
Print Assumptions cascade_A_spec.
Print Assumptions cascade_B_spec.
Print Assumptions cascade_A_iff.
Print Assumptions cascade_B_complete.
Print Assumptions series_Z_spec.
Print Assumptions parallel_Y_spec.
Print Assumptions hybrid_H_spec.
Print Assumptions inverse_hybrid_G_spec.
Print Assumptions reciprocal_Z.
Print Assumptions reciprocal_Y.
Print Assumptions reciprocal_H.
Print Assumptions reciprocal_G.
Print Assumptions reciprocal_A.
Print Assumptions reciprocal_B.
Print Assumptions derived_agree.
