(* C01, independent sources: the value definitions regenerated from
   lcapy/oneport.py (Gen.SourcesGen) equal the specification, for every field,
   every imaginary unit jj, every default frequency and EVERY function E standing
   for exp (nothing about E is assumed, so the phase must enter exactly as
   E (jj * phi)). *)
Require Import ZArith Bool.
Require Import LT.FieldSec LT.Circuit LT.Sources Gen.SourcesGen.
Local Open Scope F_scope.

Section C01src.
Variable K : fld.
Variable jj omega0 : K.
Variable E : K -> K.
Variable keqb : K -> K -> bool.
Hypothesis keqb_refl : forall x, keqb x x = true.

(* the phasor of an ac source of amplitude a and phase phi is a e^{j phi} *)
Theorem Vac_value a phi w : gen_Vac K jj omega0 E a phi w true true true = SPhasor (a * E (jj * phi)) w.
Proof. reflexivity. Qed.
Theorem Iac_value a phi w : gen_Iac K jj omega0 E a phi w true true true = SPhasor (a * E (jj * phi)) w.
Proof. reflexivity. Qed.
(* omitted phase means phase 0, omitted frequency means the default symbol *)
Theorem Vac_defaults a x y : gen_Vac K jj omega0 E a x y true false false = SPhasor (a * E (jj * 0)) omega0.
Proof. reflexivity. Qed.
Theorem Iac_defaults a x y : gen_Iac K jj omega0 E a x y true false false = SPhasor (a * E (jj * 0)) omega0.
Proof. reflexivity. Qed.
Theorem Vdc_value a x y h1 h2 : gen_Vdc K jj omega0 E a x y true h1 h2 = SDc a.
Proof. reflexivity. Qed.
Theorem Idc_value a x y h1 h2 : gen_Idc K jj omega0 E a x y true h1 h2 = SDc a.
Proof. reflexivity. Qed.
Theorem Vstep_value a x y h1 h2 : gen_Vstep K jj omega0 E a x y true h1 h2 = SStep a.
Proof. reflexivity. Qed.
Theorem Istep_value a x y h1 h2 : gen_Istep K jj omega0 E a x y true h1 h2 = SStep a.
Proof. reflexivity. Qed.
Theorem sV_value a x y h1 h2 : gen_sV K jj omega0 E a x y true h1 h2 = SLap a.
Proof. reflexivity. Qed.
Theorem sI_value a x y h1 h2 : gen_sI K jj omega0 E a x y true h1 h2 = SLap a.
Proof. reflexivity. Qed.
Theorem V_value a x y h1 h2 : gen_V K jj omega0 E a x y true h1 h2 = SAny a.
Proof. reflexivity. Qed.
Theorem I_value a x y h1 h2 : gen_I K jj omega0 E a x y true h1 h2 = SAny a.
Proof. reflexivity. Qed.

(* consequences for the sub-analyses: an ac source drives exactly the phasor
   a e^{j phi} in the analysis at its own frequency and nothing in the others *)
Theorem ac_source_own_frequency a phi w s :
  value_at K keqb (gen_Iac K jj omega0 E a phi w true true true) KAc s w = Some (a * E (jj * phi)) /\
  value_at K keqb (gen_Vac K jj omega0 E a phi w true true true) KAc s w = Some (a * E (jj * phi)).
Proof. cbn. rewrite keqb_refl. split; reflexivity. Qed.
Theorem ac_source_other_frequency a phi w w' s :
  keqb w' w = false ->
  value_at K keqb (gen_Iac K jj omega0 E a phi w true true true) KAc s w' = Some 0 /\
  value_at K keqb (gen_Vac K jj omega0 E a phi w true true true) KAc s w' = Some 0.
Proof. intro H. cbn. rewrite H. split; reflexivity. Qed.
Theorem dc_step_sources a x y s w :
  value_at K keqb (gen_Vdc K jj omega0 E a x y true false false) KDc s w = Some a /\
  value_at K keqb (gen_Idc K jj omega0 E a x y true false false) KDc s w = Some a /\
  value_at K keqb (gen_Vstep K jj omega0 E a x y true false false) KS s w = Some (a / s) /\
  value_at K keqb (gen_Istep K jj omega0 E a x y true false false) KS s w = Some (a / s) /\
  value_at K keqb (gen_Vstep K jj omega0 E a x y true false false) KDc s w = Some 0 /\
  value_at K keqb (gen_Vdc K jj omega0 E a x y true false false) KAc s w = Some 0.
Proof. cbn. repeat split; reflexivity. Qed.
End C01src.

(* the premises are satisfiable: quarter-turn phases over the Gaussian rationals *)
Require Import LT.QcI.
Example ac_quarter_turn :
  value_at QcIF qci_eqb (gen_Iac QcIF cii ci0 Equarter (qi 2 1 0 1) (qi 1 2 0 1) (qi 3 1 0 1) true true true)
           KAc (qi 0 1 3 1) (qi 3 1 0 1) = Some (qi 0 1 2 1).
Proof. vm_compute. reflexivity. Qed.

Print Assumptions Vac_value.
Print Assumptions Iac_value.
Print Assumptions ac_source_own_frequency.
Print Assumptions ac_source_other_frequency.
Print Assumptions dc_step_sources.
