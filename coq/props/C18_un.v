(* C18 — unary operations (abs, conjugate, sign, simplify, expand, subs, limit, copy,
   differentiate, integrate, convolve, phase, magnitude of a real value, general powers):
   statements over every class exprclasses[d][q]. *)
From Coq Require Import ZArith List Bool Lia.
Import ListNotations.
Require Import LT.QuantityBase LT.QuantityModel LT.QuantityCorr.
Require Import Gen.QuantityGen Gen.C18_known.
Local Open Scope Z_scope.

Lemma forall_dq : forall P : domain -> quantity -> bool,
  forallb (fun d => negb (has_class T d) || forallb (P d) all_quantities) all_domains = true ->
  forall d q, has_class T d = true -> P d q = true.
Proof.
  intros P H d q Hd. pose proof (forallb_In _ _ _ H d (all_domains_complete d)) as K. cbv beta in K.
  rewrite Hd in K. cbn [negb orb] in K. exact (forallb_In _ _ _ K q (all_quantities_complete q)).
Qed.

(* the operations that rebuild self.__class__(value) keep the class; an operand that
   carries the default units of its class keeps its units, whichever way the method
   sets them *)
Definition all_unops : list unop := [U_abs; U_conjugate; U_sign; U_simplify; U_expand; U_copy; U_subs; U_limit; U_diff; U_integ].
Lemma all_unops_complete : forall o, In o all_unops.
Proof. destruct o; simpl; tauto. Qed.
Definition rebuild_ok (d : domain) (q : quantity) : bool :=
  forallb (fun o => res_eqb (rebuild_model T o (dop T d q VV)) (RK d q (def_units T d q))) all_unops.
Lemma res_eqb_RK' : forall r d q u, res_eqb r (RK d q u) = true -> r = RK d q u.
Proof.
  intros [x y z| | |] d0 q0 u0; simpl; try discriminate. intros E.
  apply andb_true_iff in E. destruct E as [E C]. apply andb_true_iff in E. destruct E as [A B].
  apply deqb_eq in A. apply qeqb_eq in B. apply ueqb_eq in C. subst. reflexivity.
Qed.
Theorem rebuild_keeps_class_and_units : forall o d q, has_class T d = true ->
  rebuild_model T o (dop T d q VV) = RK d q (ou (dop T d q VV)).
Proof.
  assert (H : forallb (fun d => negb (has_class T d) || forallb (rebuild_ok d) all_quantities) all_domains = true)
    by (vm_cast_no_check (eq_refl true)).
  intros o d q Hd. pose proof (forall_dq _ H d q Hd) as K. unfold rebuild_ok in K.
  apply res_eqb_RK'. exact (forallb_In _ _ _ K o (all_unops_complete o)).
Qed.
(* for ARBITRARY operand units: a method that sets ret.units = self.units returns the
   operand's units *)
Theorem rebuild_units_general : forall o a d q u,
  keeps T o = true -> rebuild_model T o a = RK d q u -> u = ou a.
Proof.
  intros o a d q u Hk. unfold rebuild_model, construct. rewrite Hk.
  destruct (dflag T F_is_undefined_domain (od a) && negb (is_undef_dom T a)); intros H; [discriminate H|].
  inversion H; reflexivity.
Qed.
Theorem diff_integ_units_general : forall a d q u,
  (keeps T U_diff = true -> diff_model T a = RK d q u -> u = usub (ou a) (var_units T (adom T a))) /\
  (keeps T U_integ = true -> integ_model T a = RK d q u -> u = uadd (ou a) (var_units T (adom T a))).
Proof.
  intros a d q u. unfold diff_model, integ_model, construct. split; intros Hk; rewrite Hk;
    destruct (dflag T F_is_undefined_domain (od a) && negb (is_undef_dom T a)); intros H; try discriminate H;
    inversion H; reflexivity.
Qed.
(* while a method rebuilds with the class default, other operand units are lost
   (findings units_reset:<op>); which operations still do: *)
Definition resets (o : unop) : bool :=
  let a := Op Dlaplace Qpower (UV 1 1 2 0) VV in
  match rebuild_model T o a with RK _ _ u => negb (ueqb u (ou a)) | _ => false end.
Eval vm_compute in (map (fun o => (o, resets o)) all_unops).

(* d/dx divides, and integration over x multiplies, the units by the units of the domain
   variable (exactly, including the rad tag), so integrating a derivative restores the
   units; the variable's units are the domain's units, omega (rad/s) for a phasor *)
Theorem var_units_are_domain_units : forall d, d <> Dphasor -> var_units T d = dom_units T d.
Proof. intros d H. destruct d; try reflexivity. contradiction. Qed.
Theorem diff_integ_units : forall d q, has_class T d = true ->
  diff_model T (dop T d q VV) = RK d q (usub (def_units T d q) (var_units T d)) /\
  integ_model T (dop T d q VV) = RK d q (uadd (def_units T d q) (var_units T d)).
Proof.
  assert (H : forallb (fun d => negb (has_class T d) || forallb (fun q =>
      res_eqb (diff_model T (dop T d q VV)) (RK d q (usub (def_units T d q) (var_units T d)))
      && res_eqb (integ_model T (dop T d q VV)) (RK d q (uadd (def_units T d q) (var_units T d)))) all_quantities) all_domains = true)
    by (vm_cast_no_check (eq_refl true)).
  intros d q Hd. pose proof (forall_dq _ H d q Hd) as K. cbv beta in K.
  apply andb_true_iff in K. destruct K as [K1 K2].
  assert (R : forall r d q u, res_eqb r (RK d q u) = true -> r = RK d q u).
  { intros [x y z| | |] d0 q0 u0; simpl; try discriminate. intros E.
    apply andb_true_iff in E. destruct E as [E C]. apply andb_true_iff in E. destruct E as [A B].
    apply deqb_eq in A. apply qeqb_eq in B. apply ueqb_eq in C. subst. reflexivity. }
  split; apply R; assumption.
Qed.

(* phase is an angle: a generic expression in rad *)
Definition phase_ok (d : domain) (q : quantity) : bool :=
  match phase_model T (dop T d q VV) with RK _ q' u => qeqb q' Qundef && ueqb u u_rad | _ => false end.
Theorem phase_is_angle : forall d q, has_class T d = true ->
  exists d', phase_model T (dop T d q VV) = RK d' Qundef u_rad.
Proof.
  assert (H : forallb (fun d => negb (has_class T d) || forallb (phase_ok d) all_quantities) all_domains = true)
    by (vm_cast_no_check (eq_refl true)).
  intros d q Hd. pose proof (forall_dq _ H d q Hd) as K. unfold phase_ok in K.
  destruct (phase_model T (dop T d q VV)) as [d' q' u| | |]; try discriminate.
  apply andb_true_iff in K. destruct K as [A B]. apply qeqb_eq in A. apply ueqb_eq in B. subst. exists d'. reflexivity.
Qed.

(* the magnitude of a real-valued expression keeps its quantity (finding
   magnitude.real_loses_quantity while Expr.magnitude returns expr(abs(...))) *)
Definition magr_ok (d : domain) (q : quantity) : bool :=
  match magnitude_real_model T (dop T d q VV) with
  | RK _ q' _ => qeqb q' q || known_mag_real
  | _ => false
  end.
Theorem magnitude_real_keeps_quantity : forall d q, has_class T d = true ->
  exists d' q' u, magnitude_real_model T (dop T d q VV) = RK d' q' u /\ (q' = q \/ known_mag_real = true).
Proof.
  assert (H : forallb (fun d => negb (has_class T d) || forallb (magr_ok d) all_quantities) all_domains = true)
    by (vm_cast_no_check (eq_refl true)).
  intros d q Hd. pose proof (forall_dq _ H d q Hd) as K. unfold magr_ok in K.
  destruct (magnitude_real_model T (dop T d q VV)) as [d' q' u| | |]; try discriminate.
  exists d', q', u. split; [reflexivity|]. apply orb_true_iff in K. destruct K as [K|K]; [left; apply qeqb_eq; exact K|right; exact K].
Qed.
Definition present_mag_real : bool :=
  existsb (fun d => has_class T d && existsb (fun q =>
    match magnitude_real_model T (dop T d q VV) with RK _ q' _ => negb (qeqb q' q) | _ => false end) all_quantities) all_domains.

(* a general power x ** k keeps the CLASS of x, so its quantity has the SI dimension
   implied by the operand only for dimensionless quantities (finding pow.general_keeps_quantity) *)
Definition powg_ok (d : domain) (q : quantity) : bool :=
  match pow_general_model T (dop T d q VV) with
  | RK _ q' _ => ueqb (qdim q') (uscale 3 (qdim q)) || known_pow_general
  | _ => false
  end.
Theorem pow_general_dim : forall d q, has_class T d = true ->
  exists d' q' u, pow_general_model T (dop T d q VV) = RK d' q' u /\
                  (qdim q' = uscale 3 (qdim q) \/ known_pow_general = true).
Proof.
  assert (H : forallb (fun d => negb (has_class T d) || forallb (powg_ok d) all_quantities) all_domains = true)
    by (vm_cast_no_check (eq_refl true)).
  intros d q Hd. pose proof (forall_dq _ H d q Hd) as K. unfold powg_ok in K.
  destruct (pow_general_model T (dop T d q VV)) as [d' q' u| | |]; try discriminate.
  exists d', q', u. split; [reflexivity|]. apply orb_true_iff in K. destruct K as [K|K]; [left; apply ueqb_eq; exact K|right; exact K].
Qed.
Definition present_pow_general : bool :=
  existsb (fun d => has_class T d && existsb (fun q =>
    match pow_general_model T (dop T d q VV) with RK _ q' _ => negb (ueqb (qdim q') (uscale 3 (qdim q))) | _ => false end) all_quantities) all_domains.

(* a convolution is an integral over the domain variable: for ARBITRARY operand units the
   result has the product of the operand units times the variable's units, and operands of
   different domains are refused *)
(* the class of a convolution: that of self, or - with conv_by_operand - that of x when
   self is a transfer function or a generic expression: then h * x and x * h agree *)
Definition conv_comm_ok (d : domain) (q : quantity) : bool :=
  match convolve_model T (dop T d Qtransfer VV) (dop T d q VV), convolve_model T (dop T d q VV) (dop T d Qtransfer VV) with
  | RK d1 q1 u1, RK d2 q2 u2 => ueqb u1 u2 && (negb (conv_by_operand T) || qeqb q Qundef || (deqb d1 d2 && qeqb q1 q2))
  | _, _ => false
  end.
Theorem convolve_with_transfer_commutes : forall d q, has_class T d = true -> conv_comm_ok d q = true.
Proof.
  assert (H : forallb (fun d => negb (has_class T d) || forallb (conv_comm_ok d) all_quantities) all_domains = true)
    by (vm_cast_no_check (eq_refl true)).
  intros d q Hd. exact (forall_dq _ H d q Hd).
Qed.

Theorem convolve_units : forall a b d q u,
  convolve_model T a b = RK d q u ->
  adom T a = adom T b /\ u = uadd (uadd (ou a) (ou b)) (dom_units T (adom T a)).
Proof.
  intros a b d q u. unfold convolve_model, same_dom.
  destruct (deqb (adom T a) (adom T b)) eqn:E; cbn [negb].
  - apply deqb_eq in E. unfold construct.
    match goal with |- context [dflag T F_is_undefined_domain ?x && ?y] => destruct (dflag T F_is_undefined_domain x && y) end.
    + intros H; discriminate H.
    + intros H; inversion H; subst. split; [exact E|reflexivity].
  - intros H; discriminate H.
Qed.

Eval vm_compute in (present_mag_real, present_pow_general).

Print Assumptions rebuild_keeps_class_and_units.
Print Assumptions rebuild_units_general.
Print Assumptions diff_integ_units_general.
Print Assumptions convolve_with_transfer_commutes.
Print Assumptions var_units_are_domain_units.
Print Assumptions diff_integ_units.
Print Assumptions phase_is_angle.
Print Assumptions magnitude_real_keeps_quantity.
Print Assumptions pow_general_dim.
Print Assumptions convolve_units.
