(* C03 - the signal-kind bookkeeping regenerated from lcapy/superposition.py and
   lcapy/netlist.py on every run (Gen.SuperposGen, tools/tr_superpos.py) agrees with
   the hand model of LT.SuperposModel, whose theorems therefore speak about the code:

   gen_kinds_sound      kinds(transform=True) sends the decomposed keys 'x' and 's' to the
                        group the model's [kcode] assigns (transient)
   gen_view_sound       select(): 'time' -> time(), 'ivp'/'laplace' -> laplace(),
                        'transient' -> transient, 'noise' -> n, 'super' -> self
   gen_transient_sound  .transient adds the 'x' entry of the decomposition and the stored 's' entry
   gen_agroup_sound     _analysis_groups: ivp merges all non-noise groups and drops noise, a
                        time-domain circuit merges them and keeps the noise groups
   analysis_groups_cover_gen  with the regenerated grouping, the values used by the analyses
                        add up to the source value in both images, in every mode *)
Require Import LT.FieldSec LT.SuperposModel Gen.SuperposGen.

Theorem gen_kinds_sound : gen_group_x = kcode KyX /\ gen_group_s = kcode KyS.
Proof. split; reflexivity. Qed.
Theorem gen_view_sound (k : selkey) : gen_view k = select_view k.
Proof. destruct k; reflexivity. Qed.
Theorem gen_agroup_sound (m : amode) (g : group) : gen_agroup_of m g = agroup_of m g.
Proof. destruct m, g; reflexivity. Qed.

Section C03sup.
Variable K : fld.
Add Field KFsg : (fth K).
Theorem gen_transient_sound (s : sig K) :
  part_transient s = fadd (tval gen_transient_dec_key (decompose s)) (tval gen_transient_stored_key s) /\
  part_transient_s s = fadd (sval gen_transient_dec_key (decompose s)) (sval gen_transient_stored_key s).
Proof. split; reflexivity. Qed.
(* every listed analysis group comes from a transform group of the signal through the REGENERATED grouping *)
Theorem agroups_spec_gen (m : amode) (s : sig K) (a : agroup) :
  In a (agroups m s) <-> exists g, In g (kinds_tr s) /\ gen_agroup_of m g = Some a.
Proof. rewrite agroups_spec. split; intros [g [H1 H2]]; exists g; split; try exact H1;
  [rewrite gen_agroup_sound | rewrite <- gen_agroup_sound]; exact H2. Qed.
Theorem analysis_groups_cover_gen (m : amode) (s : sig K) :
  time s = sum_agroups (fun a => aselect_t a s) (agroups m s) /\
  laplace s = sum_agroups (fun a => aselect_s a s) (agroups m s).
Proof. apply analysis_groups_cover. Qed.
(* the views the sub-netlists are built from: 'time' and 'ivp' take the whole signal *)
Theorem gen_view_whole (s : sig K) :
  view_t (gen_view SkTime) s = time s /\ view_s (gen_view SkIvp) s = laplace s /\ view_s (gen_view SkLaplace) s = laplace s /\
  view_t (gen_view SkTransient) s = part_transient s.
Proof. rewrite !gen_view_sound. repeat split; reflexivity. Qed.
End C03sup.

Print Assumptions gen_kinds_sound.
Print Assumptions gen_view_sound.
Print Assumptions gen_agroup_sound.
Print Assumptions gen_transient_sound.
Print Assumptions agroups_spec_gen.
Print Assumptions analysis_groups_cover_gen.
Print Assumptions gen_view_whole.
