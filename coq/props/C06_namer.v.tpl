(* C06 - the component namer on the grammar and the namer constants regenerated from the current source
   (lcapy/componentnamer.py, lcapy/netfile.py _make_anon_cpt_name, lcapy/netlist.py Netlist.remove are compared
   statement for statement by tools/tr_grammar.py; the start index is read as a number).
   (template coq/props/C06_namer.v.tpl, copied into the work directory on every run) *)
From Coq Require Import List Ascii Bool Arith ZArith Lia.
From Coq Require String.
Import String.StringSyntax.
From LT Require Import ParserStr ParserModel ParserNamer.
Require Import Gen.ParserGrammarGen.
Import ListNotations.
Local Open Scope string_scope.
Local Open Scope list_scope.
Local Open Scope nat_scope.

(* `m = 1` in ComponentNamer.name is the start index of the model's namer_loop, `cpt_type + 'anon'` its prefix *)
Theorem namer_constants_guard : namer_start = 1 /\ str_eqb anon_suffix_text S_anon = true.
Proof. vm_compute. split; reflexivity. Qed.

(* every history of add/remove on a fresh Circuit with the current grammar keeps the names distinct *)
Theorem hist_invariant_G : forall ops st, run_hist G st0 ops = inl st -> names_inv st.
Proof. intros ops st. apply hist_invariant. exact names_inv_st0. Qed.
Theorem hist_memory_G : forall ops1 ops2 st1 st2,
  run_hist G st0 ops1 = inl st1 -> run_hist G st1 ops2 = inl st2 -> exists more, gen_names st2 = gen_names st1 ++ more.
Proof. intros ops1 ops2 st1 st2 _. apply hist_memory. Qed.

Definition hist_names (ops : list hop) : option (list str * list str) :=
  match run_hist G st0 ops with inl st => Some (map fst (elements st), gen_names st) | inr _ => None end.
(* a removed anonymous name is not handed out again *)
Theorem hist_example :
  hist_names [HAdd (s2l "W 1 2"); HAdd (s2l "R1 2 3"); HAdd (s2l "W 3 4"); HRemove (s2l "Wanon1"); HAdd (s2l "W 5 6")]
  = Some ([s2l "R1"; s2l "Wanon2"; s2l "Wanon3"], [s2l "Wanon1"; s2l "Wanon2"; s2l "Wanon3"]).
Proof. vm_compute. reflexivity. Qed.
(* the side condition of add_anon_appends (no namespace in the name) cannot be dropped: the namer compares the
   RELATIVE name Wanon1 with the FULL names of the elements, so inside a namespace a generated name can coincide
   with an explicitly written one and the anonymous wire replaces that component (one element is left) *)
Theorem anon_appends_in_namespace_refuted :
  hist_names [HAdd (s2l "a.Wanon1 1 2"); HAdd (s2l "a.W 3 4")] = Some ([s2l "a.Wanon1"], [s2l "Wanon1"])
  /\ hist_names [HAdd (s2l "Wanon1 1 2"); HAdd (s2l "W 3 4")] = Some ([s2l "Wanon1"; s2l "Wanon2"], [s2l "Wanon2"]).
Proof. vm_compute. split; reflexivity. Qed.
Theorem remove_unknown_rejected :
  run_hist G st0 [HAdd (s2l "R1 1 2"); HRemove (s2l "R2")] = inr HUnknownName.
Proof. vm_compute. reflexivity. Qed.

Print Assumptions namer_constants_guard.
Print Assumptions hist_invariant_G.
Print Assumptions hist_memory_G.
Print Assumptions hist_example.
Print Assumptions anon_appends_in_namespace_refuted.
