(* C03 definitions shared by the theorems (Gen.C03, Gen.C03net) and by the
   executable correspondence helpers (Gen.C03model): a stamp context with the
   independent-source / initial-condition parameters replaced, source assignments
   of a netlist, masking ("killing") and the relations demanded of a stamp. *)
Require Import LT.FieldSec LT.Circuit LT.LinearSys Gen.StampsGen Gen.C01model.
Local Open Scope Z_scope.
Local Open Scope bool_scope.

Section C03defs.
Variable K : fld.

(* the context with the source value / initial-condition parameters replaced.
   Every component position has ONE pair (a, b): (Isc, Voc) for sources and for
   C / L with an initial condition; for a mutual inductance K the pair is the
   initial currents (i01, i02) of its two coupled inductors, which its stamp
   reads (pI01, pI02) - pIsc/pVoc are not read by the K stamp and pI01/pI02 by
   no other stamp.  Killing / scaling the initial conditions acts on the K
   position together with its inductors (K reads elements[L].cpt.i0). *)
Definition with_src (c : sctx K) (a b : K) : sctx K :=
  SCtx K (kind c) (typ c) (p0 c) (p1 c) (p2 c) (p3 c) (c0 c) (c1 c)
       (bown c) (bextra c) (bctrl c) (bL1 c) (bL2 c)
       (has_ic c) (ctrl_is_vsrc c) (has_arg1 c) (tp_has_src c)
       (fun n => match n with pIsc | pI01 => a | pVoc | pI02 => b | _ => par c n end).

Definition sres3 (R : list (upd K) -> list (upd K) -> list (upd K) -> Prop) (s1 s2 s12 : sres K) : Prop :=
  match s1, s2, s12 with
  | SOk a, SOk b, SOk c => R a b c
  | SErr, SErr, SErr => True
  | _, _, _ => False
  end.
Definition sres2 (R : list (upd K) -> list (upd K) -> Prop) (s1 s2 : sres K) : Prop :=
  match s1, s2 with
  | SOk a, SOk b => R a b
  | SErr, SErr => True
  | _, _ => False
  end.

(* what has to hold of one stamp function *)
Definition src_linear (st : sctx K -> sres K) : Prop :=
  (forall c a1 b1 a2 b2,
     sres3 (@add_rel K) (st (with_src c a1 b1)) (st (with_src c a2 b2)) (st (with_src c (fadd a1 a2) (fadd b1 b2)))) /\
  (forall c k a b,
     sres2 (scale_rel k) (st (with_src c a b)) (st (with_src c (fmul k a) (fmul k b)))).

(* the form in which the per-class lemmas are proved: the stamp with sources
   (a, b) has the matrix of the stamp with sources (0, 0) and its right-hand side
   is  a * rhs(1, 0) + b * rhs(0, 1);  success does not depend on (a, b) *)
Definition src_affine (st : sctx K -> sres K) : Prop :=
  forall c a b,
    match st (with_src c a b), st (with_src c f0 f0), st (with_src c f1 f0), st (with_src c f0 f1) with
    | SOk T, SOk T0, SOk Ta, SOk Tb =>
        mat_eq T T0 /\
        (forall mm r, is_vec mm = true -> vecv T mm r = fadd (fmul a (vecv Ta mm r)) (fmul b (vecv Tb mm r)))
    | SErr, SErr, SErr, SErr => True
    | _, _, _, _ => False
    end.

(* a source assignment gives every component position its (Isc, Voc) pair *)
Definition srcs := nat -> K * K.
Definition s_add (s1 s2 : srcs) : srcs := fun i => (fadd (fst (s1 i)) (fst (s2 i)), fadd (snd (s1 i)) (snd (s2 i))).
Definition s_scale (k : K) (s : srcs) : srcs := fun i => (fmul k (fst (s i)), fmul k (snd (s i))).
Definition s_zero : srcs := fun _ => (f0, f0).
(* keep only the sources of the positions selected by [keep] (the others are "killed") *)
Definition s_mask (keep : nat -> bool) (s : srcs) : srcs := fun i => if keep i then s i else (f0, f0).
Fixpoint set_src (N : netlist K) (i : nat) (s : srcs) : netlist K :=
  match N with
  | [] => []
  | (cl, c) :: N' => (cl, with_src c (fst (s i)) (snd (s i))) :: set_src N' (S i) s
  end.

(* group j alone: all positions that are not assigned to group j have their sources set to zero *)
Definition group_src (g : nat -> nat) (s : srcs) (j : nat) : srcs := s_mask (fun i => Nat.eqb (g i) j) s.

End C03defs.
Arguments with_src {K}. Arguments sres3 {K}. Arguments sres2 {K}. Arguments src_linear {K}. Arguments src_affine {K}.
Arguments srcs K : clear implicits.
Arguments s_add {K}. Arguments s_scale {K}. Arguments s_zero {K}. Arguments s_mask {K}.
Arguments set_src {K}. Arguments group_src {K}.
