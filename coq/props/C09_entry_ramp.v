(* C09 table entry: the closed form translated from lcapy/laplace.py (Gen.LaplaceGen) equals the specification entry.
   Compiled on every run against the regenerated LaplaceGen.v. *)
Require Import LT.FieldSec LT.PolyQ LT.ExpPoly LT.LaplaceSig LT.LaplaceModel Gen.LaplaceGen.
Local Open Scope F_scope.
Section Entry.
Variable K : fld.
Add Field KFent : (fth K).
Variable V : lenv K.
Notation ex := (l_ex K V). Notation sn := (l_sn K V). Notation cs := (l_cs K V). Notation fabs := (l_fabs K V).
Notation pi_ := (l_pi K V). Notation isr := (l_isr K V). Notation neg := (l_neg K V). Notation Fn := (l_Fn K V). Notation Ic := (l_Ic K V).
Lemma ex_eq a b : a = b -> ex a = ex b. Proof. intros ->. reflexivity. Qed.
Lemma two_nz : (1 + 1 : K) <> 0. Proof. exact (fchar0 K 2%positive). Qed.
(* ramp(a t), a > 0:  a / s^2 *)
Theorem table_entry_ramp : forall a s : K, s <> 0 -> gen_ramp K a s = spec_ramp K a s.
Proof. intros a s Hs. unfold gen_ramp, spec_ramp, sq. cbn [fpow]. field. exact Hs. Qed.
End Entry.
Print Assumptions table_entry_ramp.
