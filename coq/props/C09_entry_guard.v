(* C09 table entry: the closed form translated from lcapy/laplace.py (Gen.LaplaceGen) equals the specification entry.
   Compiled on every run against the regenerated LaplaceGen.v. *)
Require Import LT.FieldSec LT.PolyQ LT.ExpPoly LT.LaplaceSig LT.LaplaceModel Gen.LaplaceGen.
Local Open Scope F_scope.
Section Entry.
Variable K : fld.
Add Field KFent : (fth K).
Variable V : lenv K.
Notation ex := (l_ex K V). Notation sn := (l_sn K V). Notation cs := (l_cs K V). Notation fabs := (l_fabs K V).
Notation pi_ := (l_pi K V). Notation isr := (l_isr K V). Notation neg := (l_neg K V). Notation Fn := (l_Fn K V). Notation Ic := (l_Ic K V).
(* sin_cos must reject every factor it does not consume: with m = number of factors parsed as [exp] sin|cos,
   no exception may be passed when len(factors) > m + 1 *)
Theorem table_entry_sc_guard : forall n m : nat, gen_sc_guard n m = true -> (n <= S m)%nat.
Proof. intros n m H. unfold gen_sc_guard in H. repeat rewrite andb_true_iff in H.
  repeat match goal with H : _ /\ _ |- _ => destruct H end.
  repeat match goal with H : negb (Nat.ltb _ _) = true |- _ => apply negb_true_iff in H; apply Nat.ltb_ge in H end.
  lia. Qed.
End Entry.
Print Assumptions table_entry_sc_guard.
