(* C13 — discrete-time transforms match their defining sums and invert.
   Hand-written property theorems (statements restated here so that every run
   re-checks them against the compiled theory LT.Seq*; the table entries of
   ztransform.py / dft.py are tied by the generated file C13_tables.v). *)
Require Import LT.FieldSec LT.SeqFilter LT.SeqDFT LT.SeqQcI LT.SeqZ.
Local Open Scope F_scope.

Section C13.
Variable K : fld.
Add Field KFc13 : (fth K).

(* ---- filters ------------------------------------------------------------ *)
(* the statement-by-statement model of DLTIFilter.response satisfies the
   difference equation for every b, a (a0 <> 0), input, initial conditions, n *)
Theorem C13_run_satisfies_de (b a : list K) (x : Z -> K) (ic : list K) (Nn : nat) :
  length a = S (length ic) -> nth 0 a 0 <> 0 ->
  forall n : nat, (n < Nn)%nat ->
    sumn (length a) (fun k => nth k a 0 * yv b a x ic Nn (Z.of_nat n - Z.of_nat k)%Z)
    = sumn (length b) (fun l => nth l b 0 * x (Z.of_nat n - Z.of_nat l)%Z).
Proof. exact (run_satisfies_de K b a x ic Nn). Qed.
Theorem C13_run_initial_conditions (b a : list K) (x : Z -> K) (ic : list K) (Nn j : nat) :
  (j < length ic)%nat -> yv b a x ic Nn (- 1 - Z.of_nat j)%Z = nth j ic 0.
Proof. exact (run_initial_conditions K b a x ic Nn j). Qed.
Theorem C13_response_index (b a : list K) (x : Z -> K) (ic : list K) (n0 : Z) (Nn m : nat) :
  nth m (response b a x ic n0 Nn) 0 = yv b a x ic Nn (n0 + Z.of_nat m)%Z.
Proof. exact (response_index K b a x ic n0 Nn m). Qed.
(* difference equation <-> power series relation A.Y + ICy = B.X + ICx *)
Theorem C13_tf_de_equiv (a b : list K) (y x : Z -> K) (n : nat) :
  de_lhs a y n = de_lhs b x n <->
  conv (lpoly a) (nneg y) n + icy a y n = conv (lpoly b) (nneg x) n + icy b x n.
Proof. exact (tf_de_equiv K a b y x n). Qed.
Theorem C13_tf_model_spec (b a : list K) (z : K) :
  evalw a (1 / z) <> 0 -> tf_model b a z * evalw a (1 / z) = evalw b (1 / z).
Proof. exact (tf_model_spec K b a z). Qed.
Theorem C13_de_equation_equiv (a : list K) (y : Z -> K) (n : nat) (rx : K) :
  terms_val (fst (de_terms a 0 true)) y n = rx + terms_val (snd (de_terms a 0 true)) y n
  <-> de_lhs a y n = rx.
Proof. exact (de_equation_equiv K a y n rx). Qed.
Theorem C13_from_tf_sound (nn dn : list K) (nrm : bool) (z : K) : z <> 0 ->
  (nrm = true -> first_nz (snd (from_tf nn dn false)) 0 <> 0) ->
  evalw (fst (from_tf nn dn nrm)) (1 / z) * evald dn z = evalw (snd (from_tf nn dn nrm)) (1 / z) * evald nn z.
Proof. exact (from_tf_sound K nn dn nrm z). Qed.
Theorem C13_impulse_response_coeffs (b a : list K) (Nn : nat) : a <> [] -> nth 0 a 0 <> 0 ->
  forall n, (n < Nn)%nat ->
    conv (lpoly a) (nneg (yv b a deltaZ (zeros (length a - 1)) Nn)) n = lpoly b n.
Proof. exact (impulse_response_coeffs K b a Nn). Qed.
Theorem C13_response_is_conv (b a : list K) (x : Z -> K) (Nn : nat) : a <> [] -> nth 0 a 0 <> 0 ->
  (forall m : Z, (m < 0)%Z -> x m = 0) ->
  forall n, (n < Nn)%nat ->
    yv b a x (zeros (length a - 1)) Nn (Z.of_nat n)
    = conv (nneg (yv b a deltaZ (zeros (length a - 1)) Nn)) (nneg x) n.
Proof. exact (response_is_conv K b a x Nn). Qed.
Theorem C13_zic_response (b a ic xic : list K) (Nn : nat) : length a = S (length ic) -> nth 0 a 0 <> 0 ->
  forall n, (n < Nn)%nat ->
    conv (lpoly a) (nneg (yv b a (past xic) ic Nn)) n = ic_coeff a b ic xic n.
Proof. exact (zic_response K b a ic xic Nn). Qed.
Theorem C13_zic_from_first_samples (b a ic xic : list K) (Nn : nat) : length a = S (length ic) -> nth 0 a 0 <> 0 ->
  forall x : Z -> K, (forall m : Z, (m < 0)%Z -> x m = past xic m) ->
  forall n, (n < Nn)%nat ->
    conv (lpoly a) (nneg (yv b a x ic Nn)) n - conv (lpoly b) (nneg x) n = ic_coeff a b ic xic n.
Proof. exact (zic_from_first_samples K b a ic xic Nn). Qed.
(* Sequence.lfilter / convolve reference semantics *)
Theorem C13_lfilter_ref_de (b a xs : list K) (n : nat) : a <> [] -> nth 0 a 0 <> 0 -> (n < length xs)%nat ->
  de_lhs a (lfun (lfilter_ref b a xs)) n = de_lhs b (lfun xs) n.
Proof. exact (lfilter_ref_de K b a xs n). Qed.
Theorem C13_convolve_ref_fir (xs hs : list K) (j : nat) : (j < length xs + length hs - 1)%nat ->
  nth j (lfilter_ref hs [1] (xs ++ zeros (length hs - 1))) 0 = nth j (convolve_ref xs hs) 0.
Proof. exact (convolve_ref_fir K xs hs j). Qed.
(* uniqueness: the series with A.S = C is unique when a0 <> 0 *)
Theorem C13_series_unique (A S T : fps K) (M : nat) : A O <> 0 ->
  (forall n, (n < M)%nat -> conv A S n = conv A T n) -> feq_upto M S T.
Proof. exact (conv_cancel_upto K A S T M). Qed.

(* ---- DFT ---------------------------------------------------------------- *)
(* telescoping principle behind the n**p closed forms of termXq, and the q -> q a rule of "* a**n" *)
Theorem C13_tele_sum (q : K) (l : nat) (A : K) (B T : nat -> K) :
  A - q * B l = T l -> (forall u, B u - q * B (S u) = T (S u)) ->
  forall len, sumn (S len) (fun i => T (l + i)%nat * pw q (l + i)) = pw q l * A - pw q (l + len + 1) * B (l + len)%nat.
Proof. exact (tele_sum K q l A B T). Qed.
Theorem C13_sum_scale_q (a q : K) (x : nat -> K) (n : nat) :
  sumn n (fun i => pw a i * x i * pw q i) = sumn n (fun i => x i * pw (q * a) i).
Proof. exact (sum_scale_q K a q x n). Qed.
Section DFTprops.
Variable W : K.
Variable N : nat.
Hypothesis HN : (0 < N)%nat.
Hypothesis WN : pw W N = 1.
Hypothesis Wprim : forall k, (0 < k < N)%nat -> pw W k <> 1.
Theorem C13_dft_def (x : nat -> K) (k : nat) : dft W N x k = sumn N (fun n => x n * pw (pw W k) n).
Proof. exact (dft_def K W N x k). Qed.
Theorem C13_idft_dft (x : nat -> K) (n : nat) : (n < N)%nat -> idft W N (dft W N x) n = x n.
Proof. exact (idft_dft K W N HN WN Wprim x n). Qed.
Theorem C13_dft_idft (X : nat -> K) (k : nat) : (k < N)%nat -> dft W N (idft W N X) k = X k.
Proof. exact (dft_idft K W N HN WN Wprim X k). Qed.
Theorem C13_dft_impulse (n0 k : nat) : (n0 < N)%nat ->
  dft W N (fun n => if Nat.eq_dec n n0 then 1 else 0) k = pw W (n0 * k).
Proof. exact (dft_impulse K W N n0 k). Qed.
Theorem C13_dft_const (c : K) (k : nat) : (k < N)%nat ->
  dft W N (fun _ => c) k = if Nat.eq_dec k 0 then c * ofnat N else 0.
Proof. exact (dft_const K W N HN WN Wprim c k). Qed.
Theorem C13_dft_geom (a : K) (k : nat) : a * pw W k <> 1 ->
  dft W N (fun n => pw a n) k = (1 - pw a N) / (1 - a * pw W k).
Proof. exact (dft_geom K W N WN a k). Qed.
Theorem C13_dft_cexp (k0 k : nat) : (k0 < N)%nat -> (k < N)%nat ->
  dft W N (fun n => pw (1 / W) (k0 * n)) k = if Nat.eq_dec k k0 then ofnat N else 0.
Proof. exact (dft_cexp K W N HN WN Wprim k0 k). Qed.
(* on-bin sinusoid with phase = two tones: exp(+j..) lands on bin k0, exp(-j..) on bin N - k0 *)
Theorem C13_dft_two_tone (A B : K) (k0 k : nat) : (0 < k0 < N)%nat -> (k < N)%nat ->
  dft W N (fun n => A * pw (1 / W) (k0 * n) + B * pw W (k0 * n)) k
  = A * (if Nat.eq_dec k k0 then ofnat N else 0) + B * (if Nat.eq_dec k (N - k0) then ofnat N else 0).
Proof. exact (dft_two_tone K W N HN WN Wprim A B k0 k). Qed.
End DFTprops.

(* ---- z-transform -------------------------------------------------------- *)
Theorem C13_zt_term_sound (c : K) (p : nat) (geos : list (K * K)) (steps : list nat) (b : base K) : base_wf K b ->
  is_ztl (sem_term c p geos steps b) (zt_term c p geos steps b)
  /\ lpoly (snd (zt_term c p geos steps b)) O = 1.
Proof. exact (zt_term_sound K c p geos steps b). Qed.
Theorem C13_zt_unique (x y : fps K) (X : PQ K) : lpoly (snd X) O <> 0 -> is_ztl x X -> is_ztl y X -> forall n, x n = y n.
Proof. exact (zt_unique K x y X). Qed.
Theorem C13_zt_add_sound (x y : fps K) (X Y : PQ K) : is_ztl x X -> is_ztl y Y -> is_ztl (fadds K x y) (pq_add X Y).
Proof. exact (zt_add_sound K x y X Y). Qed.
Theorem C13_zt_literal (vals : list K) : is_ztl (lpoly vals) (vals, [1]).
Proof. exact (zt_literal K vals). Qed.
Theorem C13_zt_delay (x : fps K) (X : PQ K) (d : nat) : is_ztl x X ->
  is_ztl (fun n => if (n <? d)%nat then 0 else x (n - d)%nat) (pmul (pshift d) (fst X), snd X).
Proof. exact (zt_delay K x X d). Qed.
(* repeated poles of the inverse transform: z/(z-p)^(m+1) o--o C(n,m) p^(n-m) *)
Theorem C13_zt_binom (p : K) (m : nat) : is_ztl (gbin p m) (pshift m, ppow [1; - p] (S m)).
Proof. exact (zt_binom K p m). Qed.
(* what InverseZTransformer.ratfun evaluates for a pole of order m+1 (real poles and each
   member of a conjugate pair): falling factorial / m! = binomial coefficient *)
Theorem C13_ffact_binom (n m : nat) : ffact n m = (fact m * binom n m)%nat.
Proof. exact (ffact_binom n m). Qed.
Theorem C13_prefac_binom (p : K) (n m : nat) : p <> 0 ->
  ofnat (ffact n m) * zpw p (- Z.of_nat m) / ofnat (fact m) * pw p n = gbin p m n.
Proof. exact (prefac_binom K p n m). Qed.
Theorem C13_zt_pair_binom (r1 r2 p1 p2 : K) (m : nat) :
  is_ztl (fun n => r1 * gbin p1 m n + r2 * gbin p2 m n)
         (pq_add (pscal r1 (pshift m), ppow [1; - p1] (S m)) (pscal r2 (pshift m), ppow [1; - p2] (S m))).
Proof. exact (zt_pair_binom K r1 r2 p1 p2 m). Qed.
End C13.

(* ---- non-vacuity: primitive roots exist in the executable instances ------ *)
Example nv_root2 : pw (K:=QcF) (qc (-1) 1) 2 = 1%Qc /\ forall k, (0 < k < 2)%nat -> pw (K:=QcF) (qc (-1) 1) k <> 1%Qc.
Proof. split; [vm_compute; reflexivity|]. intros k Hk. assert (k = 1%nat) as -> by lia. apply qc_neq. vm_compute. reflexivity. Qed.
Example nv_root4 : pw (K:=QcIF) (QI 0 (qc (-1) 1)) 4 = ci1 /\ forall k, (0 < k < 4)%nat -> pw (K:=QcIF) (QI 0 (qc (-1) 1)) k <> ci1.
Proof. split; [apply qci_eqb_eq; vm_compute; reflexivity|]. intros k Hk.
  assert (k = 1 \/ k = 2 \/ k = 3)%nat as [-> | [-> | ->]] by lia;
    intros E; apply qci_eqb_eq in E; vm_compute in E; discriminate. Qed.
(* the 4-point inversion theorem instantiated at Q(i), W = -i *)
Example idft_dft_Qi (x : nat -> QcIF) (n : nat) : (n < 4)%nat ->
  idft (K:=QcIF) (QI 0 (qc (-1) 1)) 4 (dft (K:=QcIF) (QI 0 (qc (-1) 1)) 4 x) n = x n.
Proof. apply (idft_dft QcIF); [lia | exact (proj1 nv_root4) | exact (proj2 nv_root4)]. Qed.

Print Assumptions C13_run_satisfies_de.
Print Assumptions C13_run_initial_conditions.
Print Assumptions C13_response_index.
Print Assumptions C13_tf_de_equiv.
Print Assumptions C13_tf_model_spec.
Print Assumptions C13_de_equation_equiv.
Print Assumptions C13_from_tf_sound.
Print Assumptions C13_impulse_response_coeffs.
Print Assumptions C13_response_is_conv.
Print Assumptions C13_zic_response.
Print Assumptions C13_zic_from_first_samples.
Print Assumptions C13_lfilter_ref_de.
Print Assumptions C13_convolve_ref_fir.
Print Assumptions C13_series_unique.
Print Assumptions C13_tele_sum.
Print Assumptions C13_sum_scale_q.
Print Assumptions C13_dft_def.
Print Assumptions C13_idft_dft.
Print Assumptions C13_dft_idft.
Print Assumptions C13_dft_impulse.
Print Assumptions C13_dft_const.
Print Assumptions C13_dft_geom.
Print Assumptions C13_dft_cexp.
Print Assumptions C13_dft_two_tone.
Print Assumptions C13_zt_term_sound.
Print Assumptions C13_zt_unique.
Print Assumptions C13_zt_add_sound.
Print Assumptions C13_zt_literal.
Print Assumptions C13_zt_delay.
Print Assumptions C13_zt_binom.
Print Assumptions C13_ffact_binom.
Print Assumptions C13_prefac_binom.
Print Assumptions C13_zt_pair_binom.
Print Assumptions idft_dft_Qi.
