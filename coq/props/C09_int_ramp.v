(* C09 — end to end over the reals: the closed form for ramp(a t) translated from the source IS the defining integral. *)
From Coq Require Import Reals Lra.
From Coquelicot Require Import Coquelicot.
Require Import LT.FieldSec LT.PolyQ LT.ExpPoly LT.LaplaceSig LT.LaplaceModel LT.LaplaceAnalysis LT.LaplaceLink.
Require Import Gen.LaplaceGen Gen.C09_entry_ramp.
Open Scope R_scope.
Theorem ramp_closed_form_is_integral (a s : R) : 0 < s -> LT (fun t => a * t) s (gen_ramp RFld a s).
Proof. intros Hs. rewrite (table_entry_ramp RFld a s); [apply spec_ramp_is_integral; assumption | cbn; lra]. Qed.
Print Assumptions ramp_closed_form_is_integral.
