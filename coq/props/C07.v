(* C07 - hand-written statements over the leaf table regenerated into
   Gen.OnePortGen (they are re-checked on every run against the current table):

   leaf_phys_<Class> : the terminal relation [lsem] read off the regenerated
       table is the text-book law of the component (v = R i, I = sC V - C v0,
       V = sL I - L i0, ideal sources), so the specification [sem] of a tree is
       the physical network and not merely "whatever the table says";
   compound classes (Xtal, FerriteBead): the leaf behaves as its expansion.     *)
Require Import LT.FieldSec LT.OnePort Gen.OnePortGen Gen.C07lem.
From Coq Require Import Bool List.
Import ListNotations.
Local Open Scope F_scope.

Section C07.
Variable K : fld.
Add Field KFc07 : (fth K).
Variable s : K.
Variable spow : K -> K.
Variable omega0 : K.
Variable xf_dc : K -> K. Variable xf_step : K -> K. Variable xf_any : K -> K.
Variable xf_time : K -> K. Variable xf_noise : K -> K.
Variable xf_ac : K -> K -> K -> K.
Notation LDt := (ld s spow omega0 xf_dc xf_step xf_any xf_time xf_noise xf_ac).
Notation LD0 := (ld0 s spow omega0 xf_dc xf_step xf_any xf_time xf_noise xf_ac).

(* v : potential of + minus potential of -;  i : current OUT of the + terminal,
   so the current through the component from + to - is  - i *)
Ltac lp := cbv [ld ld0 lsem oget oZ oY oVoc oIsc odef]; intros; split; intros E; rewrite ?E; try ring; try (field; nz).

Lemma leaf_phys_R (r v i : K) : lsem (LDt (L_R r)) v i <-> v = r * (- i).
Proof. lp. Qed.
Lemma leaf_phys_NR (r v i : K) : lsem (LDt (L_NR r)) v i <-> v = r * (- i).
Proof. lp. Qed.
Lemma leaf_phys_G (g v i : K) : g <> 0 -> (lsem (LDt (L_G g)) v i <-> - i = g * v).
Proof. lp. transitivity (g * v / g); [field; nz | rewrite <- E; field; nz]. Qed.
Lemma leaf_phys_NG (g v i : K) : g <> 0 -> (lsem (LDt (L_NG g)) v i <-> - i = g * v).
Proof. lp. transitivity (g * v / g); [field; nz | rewrite <- E; field; nz]. Qed.
(* inductor with initial current i0:  V = s L I - L i0 *)
Lemma leaf_phys_L (l v i : K) (i0 : option K) : lsem (LDt (L_L l i0)) v i <-> v = s * l * (- i) - l * odef i0 0.
Proof. lp. Qed.
(* capacitor with initial voltage v0:  I = s C V - C v0 *)
Lemma leaf_phys_C (c v i : K) (v0 : option K) : s <> 0 -> c <> 0 ->
  (lsem (LDt (L_C c v0)) v i <-> - i = s * c * v - c * odef v0 0).
Proof.
  lp. transitivity ((s * c * v - c * match v0 with Some x => x | None => 0 end + c * match v0 with Some x => x | None => 0 end) / (s * c)); [field; nz | rewrite <- E; field; nz].
Qed.
Lemma leaf_phys_Y (y v i : K) : lsem (LDt (L_Y y)) v i <-> - i = y * v.
Proof. lp. transitivity (- - i); [ring | rewrite E; ring]. Qed.
Lemma leaf_phys_Z (z v i : K) : lsem (LDt (L_Z z)) v i <-> v = z * (- i).
Proof. lp. Qed.
(* constant phase element:  I = K s^alpha V *)
Lemma leaf_phys_CPE (k al v i : K) : spow al * k <> 0 -> (lsem (LDt (L_CPE k al)) v i <-> - i = spow al * k * v).
Proof.
  lp. transitivity (spow al * k * v / (spow al * k)); [field; nz | rewrite <- E; field; nz].
Qed.
(* ideal voltage sources fix the voltage, ideal current sources the current *)
Lemma leaf_phys_sV (x v i : K) : lsem (LDt (L_sV x)) v i <-> v = x. Proof. lp. Qed.
Lemma leaf_phys_V (x v i : K) : lsem (LDt (L_V x)) v i <-> v = xf_any x. Proof. lp. Qed.
Lemma leaf_phys_Vstep (x v i : K) : lsem (LDt (L_Vstep x)) v i <-> v = xf_step x. Proof. lp. Qed.
Lemma leaf_phys_Vdc (x v i : K) : lsem (LDt (L_Vdc x)) v i <-> v = xf_dc x. Proof. lp. Qed.
Lemma leaf_phys_Vac (x v i : K) ph om : lsem (LDt (L_Vac x ph om)) v i <-> v = xf_ac x (odef ph 0) (odef om omega0). Proof. lp. Qed.
Lemma leaf_phys_Vnoise (x v i : K) nid : lsem (LDt (L_Vnoise x nid)) v i <-> v = xf_noise x. Proof. lp. Qed.
Lemma leaf_phys_v (x v i : K) : lsem (LDt (L_v x)) v i <-> v = xf_time x. Proof. lp. Qed.
Lemma leaf_phys_sI (x v i : K) : lsem (LDt (L_sI x)) v i <-> i = x. Proof. lp. Qed.
Lemma leaf_phys_I (x v i : K) : lsem (LDt (L_I x)) v i <-> i = xf_any x. Proof. lp. Qed.
Lemma leaf_phys_Istep (x v i : K) : lsem (LDt (L_Istep x)) v i <-> i = xf_step x. Proof. lp. Qed.
Lemma leaf_phys_Idc (x v i : K) : lsem (LDt (L_Idc x)) v i <-> i = xf_dc x. Proof. lp. Qed.
Lemma leaf_phys_Iac (x v i : K) ph om : lsem (LDt (L_Iac x ph om)) v i <-> i = xf_ac x ph (odef om omega0). Proof. lp. Qed.
Lemma leaf_phys_Inoise (x v i : K) nid : lsem (LDt (L_Inoise x nid)) v i <-> i = xf_noise x. Proof. lp. Qed.
Lemma leaf_phys_i (x v i : K) : lsem (LDt (L_i x)) v i <-> i = xf_time x. Proof. lp. Qed.

(* compound one-ports behave as the network they expand to (Butterworth-van Dyke
   crystal model; ferrite bead as coded: Rs + Rp + Lp + Cp in series) *)
Lemma leaf_phys_Xtal (c0 r1 l1 c1 v i : K) :
  admissible LD0 (expand_Xtal c0 r1 l1 c1) ->
  (lsem (LDt (L_Xtal c0 r1 l1 c1)) v i <-> sem LD0 (expand_Xtal c0 r1 l1 c1) v i).
Proof.
  intros A. rewrite (oneport_sem K (lf K) LD0 _ A).
  assert (V0 : Voc LD0 (expand_Xtal c0 r1 l1 c1) = 0).
  { unfold Voc, expand_Xtal. cbn [src fst snd map fsum]. cbv [ld0 lVoc lIsc lY lZ oZ oY oVoc oIsc odef].
    rewrite !div0_l. ring. }
  rewrite V0. cbv [ld lsem oget oZ oY oVoc oIsc]. reflexivity.
Qed.
Lemma leaf_phys_FerriteBead (rs rp cp lp_ v i : K) :
  admissible LD0 (expand_FerriteBead rs rp cp lp_) ->
  (lsem (LDt (L_FerriteBead rs rp cp lp_)) v i <-> sem LD0 (expand_FerriteBead rs rp cp lp_) v i).
Proof.
  intros A. rewrite (oneport_sem K (lf K) LD0 _ A).
  assert (V0 : Voc LD0 (expand_FerriteBead rs rp cp lp_) = 0).
  { unfold Voc, expand_FerriteBead. cbn [src fst snd map fsum]. cbv [ld0 lVoc lIsc lY lZ oZ oY oVoc oIsc odef].
    rewrite !div0_l. ring. }
  rewrite V0. cbv [ld lsem oget oZ oY oVoc oIsc]. reflexivity.
Qed.
End C07.
Print Assumptions leaf_phys_R. Print Assumptions leaf_phys_G. Print Assumptions leaf_phys_L. Print Assumptions leaf_phys_C.
Print Assumptions leaf_phys_Y. Print Assumptions leaf_phys_Z. Print Assumptions leaf_phys_CPE.
Print Assumptions leaf_phys_Vstep. Print Assumptions leaf_phys_Idc.
Print Assumptions leaf_phys_Xtal. Print Assumptions leaf_phys_FerriteBead.
