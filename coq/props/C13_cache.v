(* C13 - the result caches of the z / DFT / DTFT transformer classes are transparent.
   Generic statements (LT.SeqCache) restated so that every run re-checks them; the key / view / valid of each
   class are generated from the source (Gen/DTKey_<class>.v: gen_key_determines_view_<class>,
   gen_cache_transparent_<class>). *)
From Coq Require Import List Bool String ZArith.
From LT Require Import SeqCache.
Import ListNotations.

(* any history of calls (with or without consulting the cache, any constant factors) returns what fresh computations
   return, for EVERY function `compute` of what the code reads - provided equal keys imply equal views *)
Theorem C13_keyed_cache_transparent (Req Key View R Cst : Type) (keq : Key -> Key -> bool)
  (keq_eq : forall a b, keq a b = true <-> a = b) (key_of : Req -> Key) (view_of : Req -> View) (valid : Req -> Prop)
  (compute : View -> R) (scale : Cst -> R -> R)
  (key_det : forall r1 r2, valid r1 -> valid r2 -> key_of r1 = key_of r2 -> view_of r1 = view_of r2)
  (qs : list (bool * Cst * Req)) : Forall (fun q => valid (snd q)) qs ->
  krun Req Key View R Cst keq key_of view_of compute scale [] qs = map (fresh Req View R Cst view_of compute scale) qs.
Proof. apply keyed_cache_history_independent; assumption. Qed.

(* ... and the condition is necessary: a key that forgets something the code reads is wrong for some `term` on a
   two-call history (the shape of seed C13-3: DFT at N = 4, then the same expression at N = 8) *)
Theorem C13_keyed_cache_needs_key (Req Key View : Type) (keq : Key -> Key -> bool)
  (keq_eq : forall a b, keq a b = true <-> a = b) (veq : View -> View -> bool) (veq_eq : forall a b, veq a b = true <-> a = b)
  (key_of : Req -> Key) (view_of : Req -> View) r1 r2 : key_of r1 = key_of r2 -> view_of r1 <> view_of r2 ->
  exists compute : View -> bool,
    krun Req Key View bool unit keq key_of view_of compute (fun _ v => v) [] [(true, tt, r1); (true, tt, r2)]
    <> map (fresh Req View bool unit view_of compute (fun _ v => v)) [(true, tt, r1); (true, tt, r2)].
Proof. apply (keyed_cache_needs_key Req Key View keq keq_eq veq veq_eq). Qed.

(* keyword arguments: the key may store kwargs.get(n, d1) while the code tests the truth value of kwargs.get(n, d2)
   (DFTTransformer: piecewise, False in the key, None in term) as long as d1 and d2 have the same truth value *)
Theorem C13_kwget_truthy_default (A : Type) (tr : A -> bool) n d1 d2 (a b : kwargs A) : truthy tr d1 = truthy tr d2 ->
  kwget n d1 a = kwget n d1 b -> truthy tr (kwget n d2 a) = truthy tr (kwget n d2 b).
Proof. apply kwget_truthy_default. Qed.
Theorem C13_kwget_required (A : Type) n d (a b : kwargs A) : kwfind n a <> None -> kwfind n b <> None ->
  kwget n d a = kwget n d b -> kwfind n a = kwfind n b.
Proof. apply kwget_required. Qed.

Print Assumptions C13_keyed_cache_transparent.
Print Assumptions C13_keyed_cache_needs_key.
Print Assumptions C13_kwget_truthy_default.
Print Assumptions C13_kwget_required.
