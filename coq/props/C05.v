(* C05 - behaviour-preserving netlist rewrites.
   The general theorems live in the theory files (built by ./check --setup):
     LT.RewriteEquiv   port_sim / port_equiv, replace_preserves_phys(_o), gphys_perm
     LT.RewriteBranch  chain_sim(_o) (series), par_norton_equiv, par_bz_sim (parallel)
     LT.RewriteMore    loop_current, loop_esum_necessary, par_norton_necessary (converses),
                       dangling_equiv, renumber_branches
     LT.RewriteSem     combine_series_equiv(_unchanged), combine_parallel_equiv(_unchanged),
                       perm_invariant, s_model_equiv, noisy_killed_equiv, dangling_removal_sound,
                       renumber_iso, rewrite_preserves_phys, series_combine_sound, parallel_combine_sound,
                       combine_series_refuted, perm_invariant_refuted, combine_parallel_refuted
   This file (compiled on every run) re-checks their axiom base, runs the
   executable model on the reproducers of DESIGN section 6 (F3, F4), proves
   the switch-replacement statements over the rationals, and the closed-chain statements
   (closed_chain_exact, closed_chain_combine_sound: a chain whose two ends coincide, e.g. an
   isolated two-element loop that is both in series and in parallel). *)
Require Import LT.FieldSec LT.Circuit LT.QcI LT.RewriteEquiv LT.RewriteBranch LT.RewriteMore LT.RewriteModel LT.RewriteKeyed LT.RewriteSem LT.RewriteCorr LT.RewriteCorrI LT.RewriteRenum.
From Coq Require Import Arith.
Local Open Scope nat_scope.

(* ---- the executable model on the DESIGN reproducers -------------------------- *)
(* F3: V1 1 0 5; V2 1 2 3; R1 2 0 2  (nodes: '0' -> 0, '1' -> 1, '2' -> 2) *)
Definition f3_net : list elemQ :=
  [ElemQ (NOrig 0) TV [1; 0] KwNone (qc 5 1) None; ElemQ (NOrig 1) TV [1; 2] KwNone (qc 3 1) None;
   ElemQ (NOrig 2) TR [2; 0] KwNone (qc 2 1) None].
Definition f3_args := SArgs None None [0] 1 true false false false.
Definition f3_trace (order : list name) : list stage :=
  [Stage true [ASet [NOrig 2; NOrig 0; NOrig 1] 0 [NOrig 0; NOrig 1; NOrig 2] 0 [NOrig 0; NOrig 1; NOrig 2]
                 [Sub TV [NOrig 0; NOrig 1] (Some order) None]]].
Definition names_vals (r : res (sstate QcF)) : list (name * list nat * Qc) :=
  match r with Ok x => map (fun e => (ename e, enodes e, eval e)) (x_net x) | Err => [] end.
(* unchanged tree: the sources are ADDED although V2 points the other way round
   the loop; and the sign of the result depends on the enumeration order *)
Example F3_model_order_V1_V2 :
  names_vals (simplifyQ unchanged_tree f3_args f3_net (f3_trace [NOrig 0; NOrig 1])) =
  [(NOrig 2, [2; 0], qc 2 1); (NNew TV 1, [1; 0], qc 8 1); (NWire 0, [1; 2], 0%Qc)].
Proof. vm_compute. reflexivity. Qed.
Example F3_model_order_V2_V1 :
  names_vals (simplifyQ unchanged_tree f3_args f3_net (f3_trace [NOrig 1; NOrig 0])) =
  [(NOrig 2, [2; 0], qc 2 1); (NNew TV 1, [1; 2], qc 8 1); (NWire 0, [1; 0], 0%Qc)].
Proof. vm_compute. reflexivity. Qed.
(* repaired: 5 - 3 = 2 seen from V1, 3 - 5 = -2 seen from V2: the same circuit *)
Example F3_repaired_order_V1_V2 :
  names_vals (simplifyQ repaired f3_args f3_net (f3_trace [NOrig 0; NOrig 1])) =
  [(NOrig 2, [2; 0], qc 2 1); (NNew TV 1, [1; 0], qc 2 1); (NWire 0, [1; 2], 0%Qc)].
Proof. vm_compute. reflexivity. Qed.
Example F3_repaired_order_V2_V1 :
  names_vals (simplifyQ repaired f3_args f3_net (f3_trace [NOrig 1; NOrig 0])) =
  [(NOrig 2, [2; 0], qc 2 1); (NNew TV 1, [1; 2], qc (-2) 1); (NWire 0, [1; 0], 0%Qc)].
Proof. vm_compute. reflexivity. Qed.

(* F4: C1 2 0 3 4; C2 2 0 5 4 *)
Definition f4_net : list elemQ :=
  [ElemQ (NOrig 0) TC [2; 0] KwNone (qc 3 1) (Some (qc 4 1)); ElemQ (NOrig 1) TC [2; 0] KwNone (qc 5 1) (Some (qc 4 1))].
Definition f4_args := SArgs None None [0] 1 false true false false.
Definition f4_trace : list stage :=
  [Stage false [ASet [NOrig 0; NOrig 1] 0 [NOrig 0; NOrig 1] 0 [NOrig 0; NOrig 1]
                  [Sub TC [NOrig 0; NOrig 1] (Some [NOrig 0; NOrig 1]) (Some (NOrig 0))]]].
Definition names_ics (r : res (sstate QcF)) : list (name * Qc * option Qc) :=
  match r with Ok x => map (fun e => (ename e, eval e, eic e)) (x_net x) | Err => [] end.
Example F4_model : names_ics (simplifyQ unchanged_tree f4_args f4_net f4_trace) = [(NNew TC 1, qc 8 1, Some (qc 8 1))].
Proof. vm_compute. reflexivity. Qed.
Example F4_repaired : names_ics (simplifyQ repaired f4_args f4_net f4_trace) = [(NNew TC 1, qc 8 1, Some (qc 4 1))].
Proof. vm_compute. reflexivity. Qed.

(* ---- ac_model(omega) = s_model(j omega) over the Gaussian rationals ------------------ *)
(* C1 2 3 3 4 at omega = 3/2: Z = 1/(j omega C) = -2j/9 through a dummy node, source v0/(j omega) = -8j/3 *)
Example ac_model_C_with_ic :
  map (fun e => (ename e, enodes e, eval e))
      (@s_model QcIF qci_eqb (qi 0 1 3 2) (qi 5 3 0 1) KwS [ElemI (NOrig 0) TC [2; 3] KwNone (qi 3 1 0 1) (Some (qi 4 1 0 1))] 9) =
  [(NVar 0 0, [2; 9], qi 0 1 (-2) 9); (NVar 1 0, [9; 3], qi 0 1 (-8) 3)].
Proof. vm_compute. reflexivity. Qed.
(* the model of augment_node_map on the lead's example: a -> 2 leaves 1 and 3 for b and c *)
Example augment_partial_small :
  augment [(NdNum 0, [NdNum 0]); (NdSym 0, [NdSym 0]); (NdSym 1, [NdSym 1]); (NdSym 2, [NdSym 2])]
          (fun x => index_of_n x [NdNum 0; NdSym 0; NdSym 1; NdSym 2]) [(NdSym 0, NdNum 2)] =
  Ok [(NdSym 0, NdNum 2); (NdNum 0, NdNum 0); (NdSym 1, NdNum 1); (NdSym 2, NdNum 3)].
Proof. vm_compute. reflexivity. Qed.

(* ---- switch replacement ------------------------------------------------------- *)
Lemma qlt_spec (a b : Qc) : qlt a b = true <-> (a < b)%Qc.
Proof. unfold qlt, Qclt, Qccompare. rewrite Qlt_alt. destruct (this a ?= this b)%Q; split; intros H; congruence. Qed.
Lemma qlt_false (a b : Qc) : qlt a b = false <-> (b <= a)%Qc.
Proof. split; intros H.
  - apply Qcnot_lt_le. intros L. apply qlt_spec in L. congruence.
  - destruct (qlt a b) eqn:E; [|reflexivity]. apply qlt_spec in E. exfalso. exact (Qcle_not_lt _ _ H E). Qed.

(* replace_switches(t) is what the switches really do at time t *)
Theorem switch_at_is_spec nc t T : switch_closedQ nc false t T = switch_closed_specQ nc false t T.
Proof. reflexivity. Qed.
(* no switching event in (t, t']: the replaced circuit is the same at t and t' *)
Theorem switch_replace_noevent nc (t t' T : Qc) :
  (t <= t')%Qc -> ~ ((t < T)%Qc /\ (T <= t')%Qc) -> switch_closedQ nc false t T = switch_closedQ nc false t' T.
Proof.
  intros Htt Hno. unfold switch_closedQ, switch_closed, switch_active.
  assert (E : qlt t T = qlt t' T).
  { destruct (qlt t T) eqn:E1; destruct (qlt t' T) eqn:E2; try reflexivity; exfalso.
    - apply qlt_spec in E1. apply qlt_false in E2. apply Hno. split; assumption.
    - apply qlt_false in E1. apply qlt_spec in E2. exact (Qcle_not_lt _ _ (Qcle_trans _ _ _ E1 Htt) E2). }
  rewrite E. reflexivity.
Qed.
(* SPEC: when no switch is activated exactly at t, the circuit just before t is the circuit at t *)
Theorem switch_spec_before_noevent nc (t T : Qc) : t <> T -> switch_closed_specQ nc true t T = switch_closed_specQ nc false t T.
Proof.
  intros Hne. unfold switch_closed_specQ, switch_closed_spec.
  assert (E : qlt T t = negb (qlt t T)).
  { destruct (qlt T t) eqn:E1; destruct (qlt t T) eqn:E2; try reflexivity; exfalso.
    - apply qlt_spec in E1, E2. exact (Qclt_not_le _ _ E1 (Qclt_le_weak _ _ E2)).
    - apply qlt_false in E1, E2. apply Hne. apply Qcle_antisym; assumption. }
  rewrite E. reflexivity.
Qed.
(* replace_switches_before is right for the switches that are activated AT t ... *)
Theorem switch_before_at_event nc (T : Qc) : switch_closedQ nc true T T = switch_closed_specQ nc true T T.
Proof. unfold switch_closedQ, switch_closed_specQ, switch_closed, switch_closed_spec, switch_active.
  assert (E : qlt T T = false) by (apply qlt_false; apply Qcle_refl). rewrite E. reflexivity. Qed.
(* ... and WRONG for every other switch (finding: `expr(t) < active_time` is inverted):
   SW1 no 5 at t = 3 is reported closed just before t = 3 *)
Theorem switch_before_refuted : exists nc t T, t <> T /\ switch_closedQ nc true t T <> switch_closed_specQ nc true t T /\
                                               switch_closedQ nc true t T <> switch_closedQ nc false t T.
Proof. exists false, (qc 3 1), (qc 5 1). split; [intros H; inversion H|]. split; vm_compute; discriminate. Qed.

(* ---- closed chains: a chain whose two ends are the same node ---------------------- *)
(* The degenerate case is an isolated two-element loop (`C1 2 0 c1 v1; C2 2 0 c2 v2`, node 2
   otherwise unconnected): the pair is at once in parallel and - seen from node 0 through the
   private node 2 and back - a series chain 0 -> 2 -> 0.  simplify() series-combines it
   (`Ct1 2 0 c1 c2/(c1+c2) v; W 2 0`), which shorts node 2.  The rest of the circuit sees a
   one-terminal fragment, so the only observable of the rewrite is the loop current.
   closed_chain_exact: for closed chains with the same (non-zero) impedance sum the
   current-preserving port simulation holds IF AND ONLY IF the Thevenin source sums agree
   (chain_sim_o + its converse loop_esum_necessary; solvability from loop_solvable). *)
Theorem closed_chain_exact (K : fld) (a : Z) (l1 l2 : list (step K)) (IN IV IR : Z -> bool) :
  chain_wf a l1 -> chain_wf a l2 -> lastn a l1 = a -> lastn a l2 = a -> l1 <> [] -> l2 <> [] ->
  zsum l1 = zsum l2 -> zsum l1 <> f0 ->
  (forall n, IN n = true <-> In n (interior l1 ++ interior l2)) ->
  (forall o, IR o = true <-> In o (owns l1 ++ owns l2)) ->
  kept_dir IV l1 l2 ->
  (port_sim_o (same_current a l1 l2) IN IV IR (chain_sems a l1) (chain_sems a l2) <-> esum l1 = esum l2).
Proof.
  intros W1 W2 C1 C2 N1 N2 EZ Hz HIN HIR HK. split.
  - intros S. apply (loop_esum_necessary K a l1 l2 IN IV IR); try assumption.
    + intros n Hn. apply HIN. exact Hn.
    + intros o Ho. apply HIR. exact Ho.
    + exact (loop_solvable K a l1 IN IR (fun _ => f0) (fun _ => f0) W1 C1 Hz).
  - intros EE. apply chain_sim_o; try assumption. rewrite C1, C2. reflexivity.
Qed.

(* series_combine_sound on a whole netlist when the recorded walk closes on itself
   (last_of start w = start): the condition "the far end is not a private joint" is then the
   condition on the start node, nothing else is needed - in particular NOT that the two ends
   differ.  Every retained node (all but the private joints, which the rewrite shorts to the
   attachment node) keeps its potential, every other component its current, and the loop current
   is the same before and after. *)
Theorem closed_chain_combine_sound (K : fld) (s : K) (s_nz : s <> f0) (kwf : skw -> K) (xsem : elem K -> sem K) (zname : name -> Z)
    (zname_inj : forall a b : name, zname a = zname b -> a = b) (zname_pos : forall a : name, (0 <= zname a)%Z)
    (S0 : netlist K) (path : list name) (start : nat) (els : list (elem K)) (w : list (elem K * bool * nat)) (ms : list (mem_t K))
    (m0 : mem_t K) (ms' : list (mem_t K)) (new : elem K) (k : nat) :
  NoDup (names S0) -> lookup_all S0 path = Ok els -> NoDup path -> walk start els = Some w ->
  nodup_nat (inner_nodes w) = true -> natmem start (inner_nodes w) = false ->
  last_of start w = start ->
  natmem 0 (inner_nodes w) = false ->
  (forall n : nat, In n (inner_nodes w) -> terminals_raw S0 n = 2%nat) ->
  (forall x : trip K, In x w -> chain_el_ok (t_e x)) ->
  ms = m0 :: ms' -> NoDup (map (fun m : elem K * bool => ename (fst m)) ms) ->
  Permutation.Permutation
    (map (fun x : trip K => (t_e x, t_fw x)) (filter (fun x : trip K => nmem (ename (t_e x)) (map (fun m : elem K * bool => ename (fst m)) ms)) w)) ms ->
  chain_el_ok new -> enodes new = enodes (fst m0) -> tz s new = tzsum s ms -> sgn (snd m0) (te s kwf new) = tesum s kwf ms ->
  ~ In (ename new) (names S0) -> (forall j : nat, ename new <> NWire j) -> (forall j : nat, ~ In (NWire (k + j)) (names S0)) ->
  let rest := filter (fun e : elem K => negb (nmem (ename e) path)) S0 in
  let wn := wn_of k (map (fun m : elem K * bool => ename (fst m)) ms') in
  let r := rep (ename (fst m0)) (fun x : name => nmem x (map (fun m : elem K * bool => ename (fst m)) ms')) new wn in
  let w2 := map (trep r) w in
  let IN := mem (map zn (inner_nodes w)) in
  let IR := mem (owns (tsteps s kwf zname w) ++ owns (tsteps s kwf zname w2)) in
  let IV := mem (map zname (map (fun m : elem K * bool => ename (fst m)) ms ++ ename new :: map (fun m : elem K * bool => wn (ename (fst m))) ms')) in
  (forall e : elem K, In e rest -> match branch_of s kwf zname e with
                                   | Some _ => length (enodes e) = 2%nat
                                   | None => ext_of IN IV IR (esem s kwf xsem zname e)
                                   end) ->
  gsim_o (same_current (zn start) (tsteps s kwf zname w) (tsteps s kwf zname w2)) IN IV (nsem s kwf xsem zname S0)
    (nsem s kwf xsem zname
       (filter (fun e : elem K => negb (nmem (ename e) (map (fun m : elem K * bool => ename (fst m)) ms))) S0 ++ new :: mk_wires k (map fst ms'))).
Proof.
  intros H1 H2 H3 H4 C1 C2 Hc.
  exact (series_combine_sound K s s_nz kwf xsem zname zname_inj zname_pos S0 path start els w ms m0 ms' new k H1 H2 H3 H4 C1 C2
           (eq_ind_r (fun x => natmem x (inner_nodes w) = false) C2 Hc)).
Qed.

(* the executable model on the reproducer `V1 1 0 step 5; R1 1 0 2; C1 2 0 3 1; C2 2 0 5 1`
   (enumeration order C2, C1): series combination at C2's place, C1 becomes the wire that
   shorts node 2; the initial voltages cancel along the loop (1 - 1 = 0); every contract flag
   holds, the last one (f_raw) being the boolean form of the hypotheses of closed_chain_combine_sound *)
Definition loop_net : list elemQ :=
  [ElemQ (NOrig 0) TV [1; 0] KwStep (qc 5 1) None; ElemQ (NOrig 1) TR [1; 0] KwNone (qc 2 1) None;
   ElemQ (NOrig 2) TC [2; 0] KwNone (qc 3 1) (Some (qc 1 1)); ElemQ (NOrig 3) TC [2; 0] KwNone (qc 5 1) (Some (qc 1 1))].
Definition loop_args := SArgs None None [0] 1 true false false false.
Definition loop_trace (order : list name) : list stage :=
  [Stage true [ASet [NOrig 1; NOrig 0] 0 [NOrig 1; NOrig 0] 0 [NOrig 1; NOrig 0] [];
               ASet [NOrig 2; NOrig 3] 0 [NOrig 2; NOrig 3] 0 [NOrig 2; NOrig 3] [Sub TC [NOrig 2; NOrig 3] (Some order) None]]].
Definition names_nodes_ics (r : res (sstate QcF)) : list (name * list nat * Qc * option Qc) :=
  match r with Ok x => map (fun e => (ename e, enodes e, eval e, eic e)) (x_net x) | Err => [] end.
Example closed_loop_model_C2_C1 :
  names_nodes_ics (simplifyQ repaired loop_args loop_net (loop_trace [NOrig 3; NOrig 2])) =
  [(NOrig 0, [1; 0], qc 5 1, None); (NOrig 1, [1; 0], qc 2 1, None); (NNew TC 1, [2; 0], qc 15 8, Some 0%Qc); (NWire 0, [2; 0], 0%Qc, None)] /\
  simplify_flags repaired loop_args loop_net (loop_trace [NOrig 3; NOrig 2]) = (true, true, true, true, []).
Proof. split; vm_compute; reflexivity. Qed.
(* the walk the contract check follows is closed: it starts and ends at node 0 with node 2 inside *)
Example closed_loop_walk :
  option_map (fun w => (last_of 0 w, inner_nodes w)) (walk 0 [ElemQ (NOrig 2) TC [2; 0] KwNone (qc 3 1) (Some (qc 1 1)); ElemQ (NOrig 3) TC [2; 0] KwNone (qc 5 1) (Some (qc 1 1))]) =
  Some (0, [2]).
Proof. vm_compute. reflexivity. Qed.
Print Assumptions closed_chain_exact.
Print Assumptions closed_chain_combine_sound.
Print Assumptions closed_loop_model_C2_C1.
Print Assumptions closed_loop_walk.

(* ---- axiom base of the general theorems (recorded in the evidence on every run) -- *)
Print Assumptions replace_preserves_phys.
Print Assumptions replace_preserves_phys_o.
Print Assumptions gphys_perm.
Print Assumptions chain_sim_o.
Print Assumptions par_norton_equiv.
Print Assumptions par_bz_sim.
Print Assumptions loop_esum_necessary.
Print Assumptions par_norton_necessary.
Print Assumptions combine_series_equiv.
Print Assumptions combine_series_equiv_unchanged.
Print Assumptions combine_parallel_equiv.
Print Assumptions combine_parallel_equiv_unchanged.
Print Assumptions perm_invariant.
Print Assumptions combine_series_refuted.
Print Assumptions perm_invariant_refuted.
Print Assumptions combine_parallel_refuted.
Print Assumptions s_model_equiv.
Print Assumptions noisy_killed_equiv.
Print Assumptions dangling_removal_sound.
Print Assumptions renumber_iso.
Print Assumptions rewrite_preserves_phys.
Print Assumptions series_combine_sound.
Print Assumptions parallel_combine_sound.
Print Assumptions do_combine_shape.
Print Assumptions s_model_L_source_refuted.
Print Assumptions series_raw_nodes.
Print Assumptions walk_wwalk.
Print Assumptions series_rule_repaired.
Print Assumptions parallel_rule_repaired.
Print Assumptions series_rule_unchanged.
Print Assumptions parallel_rule_unchanged.
Print Assumptions series_rule_violated.
Print Assumptions parallel_rule_violated.
Print Assumptions terminals_at_In.
Print Assumptions ac_model_C_with_ic.
Print Assumptions augment_partial_small.
Print Assumptions switch_replace_noevent.
Print Assumptions switch_before_refuted.
Print Assumptions F3_model_order_V1_V2.
Print Assumptions F4_model.
