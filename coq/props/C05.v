(* C05 - behaviour-preserving netlist rewrites.
   The general theorems live in the theory files (built by ./check --setup):
     LT.RewriteEquiv   port_sim / port_equiv, replace_preserves_phys(_o), gphys_perm
     LT.RewriteBranch  chain_sim(_o) (series), par_norton_equiv, par_bz_sim (parallel)
     LT.RewriteMore    loop_current, loop_esum_necessary, par_norton_necessary (converses),
                       dangling_equiv, renumber_branches
     LT.RewriteSem     combine_series_equiv(_unchanged), combine_parallel_equiv(_unchanged),
                       perm_invariant, s_model_equiv, noisy_killed_equiv, dangling_removal_sound,
                       renumber_iso, rewrite_preserves_phys, series_combine_sound, parallel_combine_sound,
                       combine_series_refuted, perm_invariant_refuted, combine_parallel_refuted
   This file (compiled on every run) re-checks their axiom base, runs the
   executable model on the reproducers of DESIGN section 6 (F3, F4), and proves
   the switch-replacement statements over the rationals. *)
Require Import LT.FieldSec LT.Circuit LT.QcI LT.RewriteEquiv LT.RewriteBranch LT.RewriteMore LT.RewriteModel LT.RewriteKeyed LT.RewriteSem LT.RewriteCorr LT.RewriteCorrI LT.RewriteRenum.
From Coq Require Import Arith.
Local Open Scope nat_scope.

(* ---- the executable model on the DESIGN reproducers -------------------------- *)
(* F3: V1 1 0 5; V2 1 2 3; R1 2 0 2  (nodes: '0' -> 0, '1' -> 1, '2' -> 2) *)
Definition f3_net : list elemQ :=
  [ElemQ (NOrig 0) TV [1; 0] KwNone (qc 5 1) None; ElemQ (NOrig 1) TV [1; 2] KwNone (qc 3 1) None;
   ElemQ (NOrig 2) TR [2; 0] KwNone (qc 2 1) None].
Definition f3_args := SArgs None None [0] 1 true false false false.
Definition f3_trace (order : list name) : list stage :=
  [Stage true [ASet [NOrig 2; NOrig 0; NOrig 1] 0 [NOrig 0; NOrig 1; NOrig 2] 0 [NOrig 0; NOrig 1; NOrig 2]
                 [Sub TV [NOrig 0; NOrig 1] (Some order) None]]].
Definition names_vals (r : res (sstate QcF)) : list (name * list nat * Qc) :=
  match r with Ok x => map (fun e => (ename e, enodes e, eval e)) (x_net x) | Err => [] end.
(* unchanged tree: the sources are ADDED although V2 points the other way round
   the loop; and the sign of the result depends on the enumeration order *)
Example F3_model_order_V1_V2 :
  names_vals (simplifyQ unchanged_tree f3_args f3_net (f3_trace [NOrig 0; NOrig 1])) =
  [(NOrig 2, [2; 0], qc 2 1); (NNew TV 1, [1; 0], qc 8 1); (NWire 0, [1; 2], 0%Qc)].
Proof. vm_compute. reflexivity. Qed.
Example F3_model_order_V2_V1 :
  names_vals (simplifyQ unchanged_tree f3_args f3_net (f3_trace [NOrig 1; NOrig 0])) =
  [(NOrig 2, [2; 0], qc 2 1); (NNew TV 1, [1; 2], qc 8 1); (NWire 0, [1; 0], 0%Qc)].
Proof. vm_compute. reflexivity. Qed.
(* repaired: 5 - 3 = 2 seen from V1, 3 - 5 = -2 seen from V2: the same circuit *)
Example F3_repaired_order_V1_V2 :
  names_vals (simplifyQ repaired f3_args f3_net (f3_trace [NOrig 0; NOrig 1])) =
  [(NOrig 2, [2; 0], qc 2 1); (NNew TV 1, [1; 0], qc 2 1); (NWire 0, [1; 2], 0%Qc)].
Proof. vm_compute. reflexivity. Qed.
Example F3_repaired_order_V2_V1 :
  names_vals (simplifyQ repaired f3_args f3_net (f3_trace [NOrig 1; NOrig 0])) =
  [(NOrig 2, [2; 0], qc 2 1); (NNew TV 1, [1; 2], qc (-2) 1); (NWire 0, [1; 0], 0%Qc)].
Proof. vm_compute. reflexivity. Qed.

(* F4: C1 2 0 3 4; C2 2 0 5 4 *)
Definition f4_net : list elemQ :=
  [ElemQ (NOrig 0) TC [2; 0] KwNone (qc 3 1) (Some (qc 4 1)); ElemQ (NOrig 1) TC [2; 0] KwNone (qc 5 1) (Some (qc 4 1))].
Definition f4_args := SArgs None None [0] 1 false true false false.
Definition f4_trace : list stage :=
  [Stage false [ASet [NOrig 0; NOrig 1] 0 [NOrig 0; NOrig 1] 0 [NOrig 0; NOrig 1]
                  [Sub TC [NOrig 0; NOrig 1] (Some [NOrig 0; NOrig 1]) (Some (NOrig 0))]]].
Definition names_ics (r : res (sstate QcF)) : list (name * Qc * option Qc) :=
  match r with Ok x => map (fun e => (ename e, eval e, eic e)) (x_net x) | Err => [] end.
Example F4_model : names_ics (simplifyQ unchanged_tree f4_args f4_net f4_trace) = [(NNew TC 1, qc 8 1, Some (qc 8 1))].
Proof. vm_compute. reflexivity. Qed.
Example F4_repaired : names_ics (simplifyQ repaired f4_args f4_net f4_trace) = [(NNew TC 1, qc 8 1, Some (qc 4 1))].
Proof. vm_compute. reflexivity. Qed.

(* ---- ac_model(omega) = s_model(j omega) over the Gaussian rationals ------------------ *)
(* C1 2 3 3 4 at omega = 3/2: Z = 1/(j omega C) = -2j/9 through a dummy node, source v0/(j omega) = -8j/3 *)
Example ac_model_C_with_ic :
  map (fun e => (ename e, enodes e, eval e))
      (@s_model QcIF qci_eqb (qi 0 1 3 2) (qi 5 3 0 1) KwS [ElemI (NOrig 0) TC [2; 3] KwNone (qi 3 1 0 1) (Some (qi 4 1 0 1))] 9) =
  [(NVar 0 0, [2; 9], qi 0 1 (-2) 9); (NVar 1 0, [9; 3], qi 0 1 (-8) 3)].
Proof. vm_compute. reflexivity. Qed.
(* the model of augment_node_map on the lead's example: a -> 2 leaves 1 and 3 for b and c *)
Example augment_partial_small :
  augment [(NdNum 0, [NdNum 0]); (NdSym 0, [NdSym 0]); (NdSym 1, [NdSym 1]); (NdSym 2, [NdSym 2])]
          (fun x => index_of_n x [NdNum 0; NdSym 0; NdSym 1; NdSym 2]) [(NdSym 0, NdNum 2)] =
  Ok [(NdSym 0, NdNum 2); (NdNum 0, NdNum 0); (NdSym 1, NdNum 1); (NdSym 2, NdNum 3)].
Proof. vm_compute. reflexivity. Qed.

(* ---- switch replacement ------------------------------------------------------- *)
Lemma qlt_spec (a b : Qc) : qlt a b = true <-> (a < b)%Qc.
Proof. unfold qlt, Qclt, Qccompare. rewrite Qlt_alt. destruct (this a ?= this b)%Q; split; intros H; congruence. Qed.
Lemma qlt_false (a b : Qc) : qlt a b = false <-> (b <= a)%Qc.
Proof. split; intros H.
  - apply Qcnot_lt_le. intros L. apply qlt_spec in L. congruence.
  - destruct (qlt a b) eqn:E; [|reflexivity]. apply qlt_spec in E. exfalso. exact (Qcle_not_lt _ _ H E). Qed.

(* replace_switches(t) is what the switches really do at time t *)
Theorem switch_at_is_spec nc t T : switch_closedQ nc false t T = switch_closed_specQ nc false t T.
Proof. reflexivity. Qed.
(* no switching event in (t, t']: the replaced circuit is the same at t and t' *)
Theorem switch_replace_noevent nc (t t' T : Qc) :
  (t <= t')%Qc -> ~ ((t < T)%Qc /\ (T <= t')%Qc) -> switch_closedQ nc false t T = switch_closedQ nc false t' T.
Proof.
  intros Htt Hno. unfold switch_closedQ, switch_closed, switch_active.
  assert (E : qlt t T = qlt t' T).
  { destruct (qlt t T) eqn:E1; destruct (qlt t' T) eqn:E2; try reflexivity; exfalso.
    - apply qlt_spec in E1. apply qlt_false in E2. apply Hno. split; assumption.
    - apply qlt_false in E1. apply qlt_spec in E2. exact (Qcle_not_lt _ _ (Qcle_trans _ _ _ E1 Htt) E2). }
  rewrite E. reflexivity.
Qed.
(* SPEC: when no switch is activated exactly at t, the circuit just before t is the circuit at t *)
Theorem switch_spec_before_noevent nc (t T : Qc) : t <> T -> switch_closed_specQ nc true t T = switch_closed_specQ nc false t T.
Proof.
  intros Hne. unfold switch_closed_specQ, switch_closed_spec.
  assert (E : qlt T t = negb (qlt t T)).
  { destruct (qlt T t) eqn:E1; destruct (qlt t T) eqn:E2; try reflexivity; exfalso.
    - apply qlt_spec in E1, E2. exact (Qclt_not_le _ _ E1 (Qclt_le_weak _ _ E2)).
    - apply qlt_false in E1, E2. apply Hne. apply Qcle_antisym; assumption. }
  rewrite E. reflexivity.
Qed.
(* replace_switches_before is right for the switches that are activated AT t ... *)
Theorem switch_before_at_event nc (T : Qc) : switch_closedQ nc true T T = switch_closed_specQ nc true T T.
Proof. unfold switch_closedQ, switch_closed_specQ, switch_closed, switch_closed_spec, switch_active.
  assert (E : qlt T T = false) by (apply qlt_false; apply Qcle_refl). rewrite E. reflexivity. Qed.
(* ... and WRONG for every other switch (finding: `expr(t) < active_time` is inverted):
   SW1 no 5 at t = 3 is reported closed just before t = 3 *)
Theorem switch_before_refuted : exists nc t T, t <> T /\ switch_closedQ nc true t T <> switch_closed_specQ nc true t T /\
                                               switch_closedQ nc true t T <> switch_closedQ nc false t T.
Proof. exists false, (qc 3 1), (qc 5 1). split; [intros H; inversion H|]. split; vm_compute; discriminate. Qed.

(* ---- axiom base of the general theorems (recorded in the evidence on every run) -- *)
Print Assumptions replace_preserves_phys.
Print Assumptions replace_preserves_phys_o.
Print Assumptions gphys_perm.
Print Assumptions chain_sim_o.
Print Assumptions par_norton_equiv.
Print Assumptions par_bz_sim.
Print Assumptions loop_esum_necessary.
Print Assumptions par_norton_necessary.
Print Assumptions combine_series_equiv.
Print Assumptions combine_series_equiv_unchanged.
Print Assumptions combine_parallel_equiv.
Print Assumptions combine_parallel_equiv_unchanged.
Print Assumptions perm_invariant.
Print Assumptions combine_series_refuted.
Print Assumptions perm_invariant_refuted.
Print Assumptions combine_parallel_refuted.
Print Assumptions s_model_equiv.
Print Assumptions noisy_killed_equiv.
Print Assumptions dangling_removal_sound.
Print Assumptions renumber_iso.
Print Assumptions rewrite_preserves_phys.
Print Assumptions series_combine_sound.
Print Assumptions parallel_combine_sound.
Print Assumptions do_combine_shape.
Print Assumptions s_model_L_source_refuted.
Print Assumptions series_raw_nodes.
Print Assumptions walk_wwalk.
Print Assumptions series_rule_repaired.
Print Assumptions parallel_rule_repaired.
Print Assumptions series_rule_unchanged.
Print Assumptions parallel_rule_unchanged.
Print Assumptions series_rule_violated.
Print Assumptions parallel_rule_violated.
Print Assumptions terminals_at_In.
Print Assumptions ac_model_C_with_ic.
Print Assumptions augment_partial_small.
Print Assumptions switch_replace_noevent.
Print Assumptions switch_before_refuted.
Print Assumptions F3_model_order_V1_V2.
Print Assumptions F4_model.
