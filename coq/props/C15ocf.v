(* C15 - observable canonical form (from_ba_OCF regenerated into Gen.FormulGen).
   For EVERY order and all coefficient lists: any state vector satisfying the
   state equations gives  a(s) y = b(s) u  (downward induction over the rows,
   FormulCanon.ocf_core); no matrix inverse. *)
Require Import LT.FieldSec LT.FormulCanon Gen.FormulGen.
From Coq Require Import Arith Lia.
Local Open Scope F_scope.

Ltac nat_cases :=
  repeat match goal with
  | |- context [(?a =? ?b)%nat] => destruct (Nat.eqb_spec a b)
  | |- context [(?a <=? ?b)%nat] => destruct (Nat.leb_spec a b)
  | |- context [(?a <? ?b)%nat] => destruct (Nat.ltb_spec a b)
  end; cbn [andb]; try lia.

Section C15ocf.
Variable K : fld.
Add Field KFocf : (fth K).

Section Fixed.
Variables (a b : list K) (pole res : nat -> K).
Hypothesis Hd : ocf_dom a b = true.
Hypothesis Ha : (2 <= length a)%nat.
Hypothesis Hb : (1 <= length b)%nat.
Hypothesis Hnz : nthK a 0 <> 0.
Let a0 := nthK a 0.
Let a' := norm_list a0 a.
Let b' := padto (length a) (norm_list a0 b).
Let N := (length a - 1)%nat.
Let r := ocf a b pole res.

Lemma ocf_Nx : rNx r = N.
Proof. unfold r, ocf. cbv zeta. cbn [rNx]. rewrite norm_list_length. reflexivity. Qed.
Lemma ocf_A_entry i j : (i < N)%nat -> (j < N)%nat ->
  rA r i j = (if (j =? 0)%nat then - nthK a' (S i) else 0) + (if (j =? S i)%nat then 1 else 0).
Proof.
  intros Hi Hj. unfold r, ocf. cbv zeta. cbn [rA]. rewrite norm_list_length. fold N. fold a0. fold a'.
  unfold entry. cbn [fold_left hit]. rewrite ?Nat.sub_0_r, ?Nat.add_0_r, ?Nat.add_1_r. nat_cases; ring.
Qed.
Lemma ocf_B_entry i : (i < N)%nat -> rB r i = nthK b' (S i) - nthK a' (S i) * nthK b' 0.
Proof.
  intros Hi. unfold r, ocf. cbv zeta. cbn [rB]. rewrite norm_list_length. fold N. fold a0. fold a'. fold b'.
  unfold entry. cbn [fold_left hit]. rewrite ?Nat.sub_0_r, ?Nat.add_1_r. nat_cases; reflexivity.
Qed.
Lemma ocf_C_entry j : (j < N)%nat -> rC r j = if (j =? 0)%nat then 1 else 0.
Proof.
  intros Hj. unfold r, ocf. cbv zeta. cbn [rC].
  unfold entry. cbn [fold_left hit]. nat_cases; reflexivity.
Qed.
Lemma ocf_D_entry : rD r = nthK b' 0.
Proof. unfold r, ocf. cbv zeta. cbn [rD]. unfold entry. cbn [fold_left hit]. reflexivity. Qed.

Lemma oa'_0 : nthK a' 0 = 1.
Proof. unfold a'. rewrite norm_list_nth by exact Hnz. unfold a0. field. exact Hnz. Qed.
Lemma opn_a' s : pn (nthK a') N s = pe a N s / a0.
Proof. unfold a'. rewrite <- pe_norm by exact Hnz. reflexivity. Qed.
Lemma opn_b' s : pn (nthK b') N s = pe b (length b - 1) s / a0.
Proof.
  change (pn (nthK b') N s) with (pe b' N s). unfold b', N.
  rewrite pe_padto; rewrite ?norm_list_length; try lia.
  - apply pe_norm. exact Hnz.
  - unfold ocf_dom in Hd. apply Nat.leb_le in Hd. exact Hd.
Qed.
Lemma tail_sum_lin k (f g : nat -> K) c s :
  tail_sum N k (fun i => f i - g i * c) s = tail_sum N k f s - c * tail_sum N k g s.
Proof. unfold tail_sum. rewrite <- sumn_scale, <- sumn_sub. apply sumn_ext. intros m _. ring. Qed.

(* the row sums of the companion matrix *)
Lemma ocf_row i (x : nat -> K) : (i < N)%nat ->
  sumn N (fun j => rA r i j * x j) = - nthK a' (S i) * x O + (if (S i <? N)%nat then x (S i) else 0).
Proof.
  intros Hi.
  rewrite (sumn_ext K N _ (fun j => (if (j =? 0)%nat then - nthK a' (S i) else 0) * x j + (if (j =? S i)%nat then 1 else 0) * x j)).
  2:{ intros k Hk. rewrite ocf_A_entry by lia. ring. }
  rewrite sumn_add. f_equal.
  - rewrite (sumn_single K N _ O); [reflexivity | lia |].
    intros k Hk Hne. destruct (Nat.eqb_spec k 0); [lia | ring].
  - destruct (Nat.ltb_spec (S i) N) as [H|H].
    + rewrite (sumn_single K N _ (S i)); [rewrite Nat.eqb_refl; ring | lia |].
      intros k Hk Hne. destruct (Nat.eqb_spec k (S i)); [lia | ring].
    + apply sumn_zero. intros k Hk. destruct (Nat.eqb_spec k (S i)); [lia | ring].
Qed.

Theorem ocf_sound (s u : K) (x : nat -> K) :
  ss_state r s u x -> pe a N s * ss_out r u x = pe b (length b - 1) s * u.
Proof.
  intros Hs. unfold ss_state in Hs. unfold ss_out. rewrite ocf_Nx in *. rewrite ocf_D_entry.
  assert (HN : (1 <= N)%nat) by (unfold N; lia).
  set (al := nthK a'). set (bt := fun i => nthK b' (S i) - nthK a' (S i) * nthK b' 0).
  assert (Rows : forall i, (S i < N)%nat -> s * x i = - al (S i) * x O + x (S i) + bt i * u).
  { intros i Hi. rewrite (Hs i) by lia. rewrite ocf_row by lia. rewrite ocf_B_entry by lia.
    destruct (Nat.ltb_spec (S i) N); [reflexivity | lia]. }
  assert (Last : s * x (N - 1)%nat = - al N * x O + bt (N - 1)%nat * u).
  { rewrite (Hs (N - 1)%nat) by lia. rewrite ocf_row by lia. rewrite ocf_B_entry by lia.
    replace (S (N - 1)) with N by lia. destruct (Nat.ltb_spec N N); [lia|]. unfold al, bt.
    replace (S (N - 1)) with N by lia. ring. }
  pose proof (ocf_core K N al bt s u x HN Rows Last) as Core.
  assert (EC : sumn N (fun j => rC r j * x j) = x O).
  { rewrite (sumn_single K N _ O); [rewrite ocf_C_entry by lia; cbn; ring | lia |].
    intros k Hk Hne. rewrite ocf_C_entry by lia. destruct (Nat.eqb_spec k 0); [lia | ring]. }
  rewrite EC.
  pose proof (tail_sum_pn K N (nthK a') s HN) as Pa. rewrite oa'_0 in Pa.
  pose proof (tail_sum_pn K N (nthK b') s HN) as Pb.
  assert (Tb : tail_sum N 0 bt s = tail_sum N 0 (fun i => nthK b' (S i)) s - nthK b' 0 * tail_sum N 0 (fun i => nthK a' (S i)) s).
  { unfold bt. apply tail_sum_lin. }
  rewrite opn_a' in Pa. rewrite opn_b' in Pb.
  assert (A0 : a0 <> 0) by exact Hnz.
  transitivity (a0 * ((pe a N s / a0) * x O + (pe a N s / a0) * nthK b' 0 * u)); [field; exact A0|].
  rewrite Pa at 1.
  transitivity (a0 * ((fpow s N + tail_sum N 0 (fun i => al (S i)) s) * x O + pe a N s / a0 * nthK b' 0 * u)); [unfold al; ring|].
  rewrite Core, Tb, Pa.
  transitivity (a0 * (pe b (length b - 1) s / a0) * u); [rewrite Pb; unfold al; ring | field; exact A0].
Qed.
End Fixed.
End C15ocf.
Print Assumptions ocf_sound.
