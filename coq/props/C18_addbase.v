(* C18 — sums, differences and comparisons: common definitions for C18_add.v and
   C18_add2.v.  The finite space is  flag settings x (class x {zero, non-zero}) x
   (class x {zero, non-zero}) x {operand units equal, operand units different}; by
   C18.compat_add_units_only_by_equality this covers every pair of unit vectors and
   every value (Expr.__compat_add__ looks at units only through their equality and at
   values only through "is it zero"). *)
From Coq Require Import ZArith List Bool Lia.
Import ListNotations.
Require Import LT.QuantityBase LT.QuantityModel LT.QuantityCorr.
Require Import Gen.QuantityGen Gen.C18_known.
Require Import Gen.C18.
Local Open Scope Z_scope.

Definition vk2 : list valkind := [VZ; VC].
Definition lspace : list operand := ops_uv T vk2 uzero.
Definition rspace : list operand := ops_uv T vk2 uzero ++ ops_uv T vk2 u_volt.
(* canonical_units is not an input of the model (C18.canonical_units_irrelevant) *)
Definition flags4 : list flags := [Fl true true false; Fl true false false; Fl false true false; Fl false false false].

Definition defined (a : operand) : bool := negb (qeqb (aq T a) Qundef).
Definition nonconst (a : operand) : bool := negb (cdflag T F_is_constant_domain (od a) (oq a)).
Definition expr_ops (a : operand) : bool :=
  oeqb (meth_owner T M_add (od a) (oq a)) O_Expr && oeqb (meth_owner T M_compat_add (od a) (oq a)) O_Expr
  && oeqb (meth_owner T M_eq (od a) (oq a)) O_Expr.
Definition refused (fl : flags) (a b : operand) : bool :=
  match compat_add T fl a b with inl _ => true | inr _ => false end.

(* the four domain pairs for which Expr.__compat_add__ converts one operand
   ("For phasor comparisons..."): phasor ratio <-> angular Fourier and angular
   frequency response <-> angular Fourier, all functions of omega *)
Definition pr_pair (a b : operand) : bool :=
  (cdflag T F_is_phasor_ratio_domain (od a) (oq a) && cdflag T F_is_angular_fourier_domain (od b) (oq b))
  || (cdflag T F_is_angular_fourier_domain (od a) (oq a) && cdflag T F_is_phasor_ratio_domain (od b) (oq b)).
Definition jw_pair (a b : operand) : bool :=
  (cdflag T F_is_angular_frequency_response_domain (od a) (oq a) && cdflag T F_is_angular_fourier_domain (od b) (oq b))
  || (cdflag T F_is_angular_fourier_domain (od a) (oq a) && cdflag T F_is_angular_frequency_response_domain (od b) (oq b)).

Definition mixed (a b : operand) : bool := defined a && defined b && negb (qeqb (aq T a) (aq T b)).

Lemma zkind_in : forall v, In (zkind v) vk2.
Proof. destruct v; simpl; tauto. Qed.
Lemma in_lspace : forall d q v, has_class T d = true -> In (Op d q uzero (zkind v)) lspace.
Proof. intros. apply ops_uv_complete; [assumption|apply zkind_in]. Qed.
Lemma in_rspace : forall d q v (e : bool), has_class T d = true -> In (Op d q (if e then uzero else u_volt) (zkind v)) rspace.
Proof. intros d q v e H. unfold rspace. apply in_or_app. destruct e; [left|right]; (apply ops_uv_complete; [assumption|apply zkind_in]). Qed.
Lemma in_flags4 : forall l c, In (Fl l c false) flags4.
Proof. intros [|] [|]; simpl; tauto. Qed.
Lemma in_lspace_wu : forall a, has_class T (od a) = true -> In (with_units a uzero) lspace.
Proof. intros [d q u v] H. apply in_lspace. exact H. Qed.
Lemma in_rspace_wu : forall b (e : bool), has_class T (od b) = true -> In (with_units b (if e then uzero else u_volt)) rspace.
Proof. intros [d q u v] e H. apply in_rspace. exact H. Qed.

Lemma compat_add_canon : forall l c k a b, compat_add T (Fl l c k) a b = compat_add T (Fl l c false) a b.
Proof. reflexivity. Qed.

(* the side conditions only look at the classes of the operands *)
Lemma expr_ops_wu : forall a u, expr_ops (with_units a u) = expr_ops a.
Proof. intros []; reflexivity. Qed.
Lemma mixed_wu : forall a b u w, mixed (with_units a u) (with_units b w) = mixed a b.
Proof. intros [] []; reflexivity. Qed.
Lemma pr_pair_wu : forall a b u w, pr_pair (with_units a u) (with_units b w) = pr_pair a b.
Proof. intros [] []; reflexivity. Qed.
Lemma jw_pair_wu : forall a b u w, jw_pair (with_units a u) (with_units b w) = jw_pair a b.
Proof. intros [] []; reflexivity. Qed.
Lemma nonconst_wu : forall a u, nonconst (with_units a u) = nonconst a.
Proof. intros []; reflexivity. Qed.
Lemma adom_wu : forall a u, adom T (with_units a u) = adom T a.
Proof. intros []; reflexivity. Qed.

Lemma defined_wu : forall a u, defined (with_units a u) = defined a.
Proof. intros []; reflexivity. Qed.
Lemma od_wu : forall a u, od (with_units a u) = od a.
Proof. intros []; reflexivity. Qed.
Lemma oq_wu : forall a u, oq (with_units a u) = oq a.
Proof. intros []; reflexivity. Qed.

Lemma refused_conclusion : forall fl a b,
  expr_ops a = true -> refused fl a b = true ->
  (exists e, add_model T fl a b = RE e) /\ (forall same, eq_model T fl a b same = RB false).
Proof.
  intros fl a b Ho R. unfold refused in R.
  destruct (compat_add T fl a b) as [e|s] eqn:E; [|discriminate].
  unfold expr_ops in Ho. apply andb_true_iff in Ho. destruct Ho as [Ho Ho3].
  apply andb_true_iff in Ho. destruct Ho as [Ho1 Ho2]. apply oeqb_eq in Ho1, Ho2, Ho3.
  split.
  - exists e. apply add_refused_iff_compat; assumption.
  - intros same. apply (eq_false_when_refused T _ _ _ same e); assumption.
Qed.

