(* C07 - small lemmas and tactics shared by the generated per-class obligations *)
Require Import LT.FieldSec LT.OnePort Gen.OnePortGen.
From Coq Require Import Bool.
Local Open Scope F_scope.

Section Lem.
Variable K : fld.
Add Field KFlem : (fth K).
Lemma div0_l (x : K) : 0 / x = 0.
Proof. rewrite (Fdiv_def (fth K)). ring. Qed.
Lemma eq0_true (x : K) : eq0 x = true -> x = 0.
Proof. unfold eq0. destruct (fdec K x 0); [trivial | discriminate]. Qed.
Lemma eq0_false (x : K) : eq0 x = false -> x <> 0.
Proof. unfold eq0. destruct (fdec K x 0); [discriminate | trivial]. Qed.
End Lem.

(* gl l = false  ->  the leaf has neither an open-circuit voltage nor a short-circuit current *)
Ltac guard_tac :=
  cbv [gl has_src zeroic]; intros H; try discriminate H;
  repeat match goal with H0 : orb _ _ = false |- _ => apply orb_false_iff in H0; destruct H0 end;
  repeat match goal with H0 : negb _ = false |- _ => apply negb_false_iff in H0; apply eq0_true in H0 end;
  cbv [ld ld0 lVoc lIsc lY lZ oZ oY oVoc oIsc];
  repeat match goal with H0 : @eq (car _) _ _ |- _ => rewrite ?H0; clear H0 end;
  split; rewrite ?div0_l; ring.
