(* C15 - theorem ccf_ocf_dcf: every canonical realisation built by
   StateSpace / DTStateSpace .from_transfer_function_coeffs(b, a, form)
   reproduces b/a, for every order and every coefficient lists with a[0] <> 0
   and len b <= len a:  whenever a state vector X satisfies
   (s I - A) X = B U, the output Y = C X + D U satisfies a(s) Y = b(s) U
   (s = Laplace variable, or z for DTStateSpace). *)
Require Import LT.FieldSec LT.FormulCanon Gen.FormulGen Gen.C15ccf Gen.C15ocf Gen.C15dcf.
From Coq Require Import Arith Lia.
Local Open Scope F_scope.
Theorem ccf_ocf_dcf (K : fld) (a b : list K) (pole res : nat -> K) (s u : K) (x : nat -> K) :
  (2 <= length a)%nat -> (1 <= length b)%nat -> (length b <= length a)%nat -> nthK a 0 <> 0 ->
  let N := (length a - 1)%nat in
  (ss_state (ccf a b pole res) s u x -> pe a N s * ss_out (ccf a b pole res) u x = pe b (length b - 1) s * u) /\
  (ss_state (ocf a b pole res) s u x -> pe a N s * ss_out (ocf a b pole res) u x = pe b (length b - 1) s * u) /\
  ((forall n, (n < N)%nat -> s - pole n <> 0) ->
   pe a N s * sumn N (fun n => res n / (s - pole n)) = pe b (length b - 1) s - dterm a b * pe a N s ->
   ss_state (dcf a b pole res) s u x -> pe a N s * ss_out (dcf a b pole res) u x = pe b (length b - 1) s * u).
Proof.
  intros Ha Hb Hle Hnz N.
  assert (D : (length b <=? length a)%nat = true) by (apply Nat.leb_le; exact Hle).
  split; [|split].
  - apply ccf_sound; assumption.
  - apply ocf_sound; assumption.
  - apply dcf_sound; assumption.
Qed.
Print Assumptions ccf_ocf_dcf.
