(* C14, netlist level.  For a netlist N of s-domain contexts (kind 's', 'laplace' or 'transient'), the ac
   sub-netlist (same components, kind = the frequency, parameters = images under
   the homomorphism h, "s := j omega") assembles to the entry-wise image of the
   s-domain system; hence
     - the image of the s-domain solution solves the ac system and satisfies KCL
       and every constitutive relation of the ac circuit (C01 mna_iff_phys);
     - phasor_eq_transfer: if the ac system is non-singular (its determinant does
       not vanish at j omega), the solution the ac analysis reports IS the image of
       the s-domain solution;
     - phasor_eq_transfer_sum: with several sources of that frequency it is the sum
       over the sources of  source phasor * (transfer function at j omega). *)
Require Import LT.FieldSec LT.Circuit LT.MNA LT.PhasorHom.
Require Import Gen.StampsGen Gen.C01model Gen.C01 Gen.C01net Gen.C14 Gen.C14reg Gen.ImmittanceGen Gen.C14imm.
Local Open Scope Z_scope.
Local Open Scope bool_scope.

Section C14net.
Variables K K' : fld.
Variable h : phom K K'.
Add Field KFn' : (fth K').

(* what is required of an s-domain element for its ac counterpart to be its image *)
Definition okelem (e : cname * sctx K) : Prop :=
  lapk (kind (snd e)) = true /\ Dctx h (snd e) /\ fst e <> cTL /\
  (fst e = cRV -> h (fmul (par (snd e) pArg0) (fsub f1 (par (snd e) pArg1))) <> f0 /\
                  h (fmul (par (snd e) pArg0) (par (snd e) pArg1)) <> f0).
Definition ac_net (N : netlist K) : netlist K' := map (fun e => (fst e, ac_ctx h (snd e))) N.

Theorem stamp_of_ac cl c : okelem (cl, c) -> stamp_of cl (ac_ctx h c) = sres_map h (stamp_of cl c).
Proof.
  intros [Hk [D [Ht Hr]]]. cbn [fst snd] in *.
  destruct cl; cbn [stamp_of];
  first [ congruence
        | apply stamp_ac_RC | apply stamp_ac_L | apply stamp_ac_V | apply stamp_ac_AM | apply stamp_ac_I
        | apply stamp_ac_VCVS | apply stamp_ac_VCCS | apply stamp_ac_CCCS | apply stamp_ac_CCVS
        | apply stamp_ac_K | apply stamp_ac_TF | apply stamp_ac_GY
        | apply stamp_ac_TPA | apply stamp_ac_TPB | apply stamp_ac_TPG | apply stamp_ac_TPH
        | apply stamp_ac_TPY | apply stamp_ac_TPZ | apply stamp_ac_TR
        | apply stamp_ac_SPpp | apply stamp_ac_SPpm | apply stamp_ac_SPppp | apply stamp_ac_SPpmm
        | apply stamp_ac_SPppm | (apply stamp_ac_RV; try apply (Hr eq_refl)) | apply stamp_ac_Dummy ]; assumption.
Qed.
Theorem stamp_of_reg cl c : okelem (cl, c) -> Dres h (stamp_of cl c).
Proof.
  intros [Hk [D [Ht Hr]]]. cbn [fst snd] in *.
  destruct cl; cbn [stamp_of];
  first [ apply stamp_reg_RC | apply stamp_reg_L | apply stamp_reg_V | apply stamp_reg_AM | apply stamp_reg_I
        | apply stamp_reg_VCVS | apply stamp_reg_VCCS | apply stamp_reg_CCCS | apply stamp_reg_CCVS
        | apply stamp_reg_K | apply stamp_reg_TF | apply stamp_reg_GY | apply stamp_reg_TL
        | apply stamp_reg_TPA | apply stamp_reg_TPB | apply stamp_reg_TPG | apply stamp_reg_TPH
        | apply stamp_reg_TPY | apply stamp_reg_TPZ | apply stamp_reg_TR
        | apply stamp_reg_SPpp | apply stamp_reg_SPpm | apply stamp_reg_SPppp | apply stamp_reg_SPpmm
        | apply stamp_reg_SPppm | (apply stamp_reg_RV; try apply (Hr eq_refl)) | apply stamp_reg_Dummy ]; assumption.
Qed.

(* the ac sub-netlist assembles to the image of the s-domain system *)
Theorem assemble_ac (N : netlist K) : Forall okelem N ->
  assemble (ac_net N) = sres_map h (assemble N) /\ Dres h (assemble N).
Proof.
  induction N as [|[cl c] N IH]; intros HN.
  - split; [reflexivity | exact (Forall_nil _)].
  - inversion HN as [|? ? He HN']; subst. destruct (IH HN') as [E1 R1].
    cbn [ac_net map assemble fst snd]. fold (ac_net N). rewrite E1, (stamp_of_ac cl c He).
    pose proof (stamp_of_reg cl c He) as R0.
    destruct (stamp_of cl c) as [a|]; [|split; [reflexivity | exact I]].
    destruct (assemble N) as [b|]; [|split; [reflexivity | exact I]].
    cbn [sres_map]. rewrite map_app. split; [reflexivity|]. cbn [Dres] in *. apply Dupd_app; assumption.
Qed.

(* well-formedness carries over (same indices and flags; K is fine for the ac kind) *)
Lemma wf_ac_net (N : netlist K) : wf_net N -> Forall okelem N -> wf_net (ac_net N).
Proof.
  intros W HN. induction N as [|[cl c] N IH]; [constructor|].
  inversion W as [|? ? [Wc Pc] W']; inversion HN as [|? ? He HN']; subst.
  constructor; [|apply IH; assumption]. cbn [fst snd] in *. split.
  - exact Wc.
  - destruct He as [Hk [_ [Ht _]]]. cbn [fst snd] in *.
    destruct cl; cbn [pre ac_ctx kind ctrl_is_vsrc tp_has_src akind_eqb orb] in *; try exact Pc; try reflexivity; congruence.
Qed.

Definition hv (x : Z -> K) : Z -> K' := fun i => h (x i).

(* phasor = transfer function at j omega (single system) *)
Theorem phasor_eq_transfer (N : netlist K) (Ts : list (upd K)) (nn mm : Z) (vs ibs : Z -> K) (vac ibac : Z -> K') :
  Forall okelem N -> assemble N = SOk Ts -> Dvec h vs -> Dvec h ibs -> sol Ts vs ibs ->
  exists Tac, assemble (ac_net N) = SOk Tac /\ Tac = map (upd_map h) Ts /\
    sol Tac (hv vs) (hv ibs) /\
    (nonsingular Tac nn mm -> sol Tac vac ibac ->
       (forall i, 0 <= i < nn -> vac i = h (vs i)) /\ (forall i, 0 <= i < mm -> ibac i = h (ibs i))).
Proof.
  intros HN E Dv Di S. destruct (assemble_ac N HN) as [Eac R]. rewrite E in Eac, R. cbn [sres_map Dres] in *.
  exists (map (upd_map h) Ts). split; [exact Eac|]. split; [reflexivity|].
  split; [apply solution_transport; assumption|].
  intros NS Sac. apply (transported_solution_unique K K' h Ts nn mm vs ibs vac ibac); assumption.
Qed.

(* the image of the s-domain solution obeys KCL and all constitutive relations of the ac circuit *)
Theorem transported_is_physical (N : netlist K) (Ts : list (upd K)) (vs ibs : Z -> K) :
  wf_net N -> Forall okelem N -> assemble N = SOk Ts -> Dvec h vs -> Dvec h ibs -> sol Ts vs ibs ->
  phys (ac_net N) (hv vs) (hv ibs).
Proof.
  intros W HN E Dv Di S.
  destruct (phasor_eq_transfer N Ts 0 0 vs ibs (hv vs) (hv ibs) HN E Dv Di S) as [Tac [Eac [_ [Sac _]]]].
  apply (mna_iff_phys K' (ac_net N) Tac); [apply wf_ac_net; assumption | exact Eac | exact Sac].
Qed.

(* several sources of the same frequency: P = source phasor, (T, v, ib) = the s-domain
   system with only that source present at unit value and its solution (the transfer
   functions from the source to every unknown) *)
Record ssrc := SSrc { ss_P : K'; ss_T : list (upd K); ss_v : Z -> K; ss_ib : Z -> K }.
Definition to_src (e : ssrc) : src K' := Src K' (ss_P e) (map (upd_map h) (ss_T e)) (hv (ss_v e)) (hv (ss_ib e)).
Theorem phasor_eq_transfer_sum (Tac : list (upd K')) (nn mm : Z) (l : list ssrc) (vac ibac : Z -> K') :
  (forall e, In e l -> Dupd h (ss_T e) /\ Dvec h (ss_v e) /\ Dvec h (ss_ib e) /\ sol (ss_T e) (ss_v e) (ss_ib e) /\
                       same_matrix Tac (map (upd_map h) (ss_T e))) ->
  (forall m r, is_vec m = true -> vecv Tac m r = wvec (map to_src l) m r) ->
  nonsingular Tac nn mm -> sol Tac vac ibac ->
  (forall i, 0 <= i < nn -> vac i = wsum s_v (map to_src l) i) /\
  (forall i, 0 <= i < mm -> ibac i = wsum s_ib (map to_src l) i).
Proof.
  intros Hl Hv NS Sac.
  apply (sol_unique K' Tac nn mm); [exact NS | exact Sac|].
  apply superposition_sum; [|exact Hv].
  intros e He. apply in_map_iff in He. destruct He as [e0 [<- He0]].
  destruct (Hl e0 He0) as [DT [Dv [Di [S M]]]]. cbn [to_src s_T s_v s_ib]. split; [exact M|].
  apply solution_transport; assumption.
Qed.
(* the sum spelled out: sum_k P_k * h(H_k) *)
Lemma wsum_to_src_v (l : list ssrc) i :
  wsum s_v (map to_src l) i = fold_right (fun e acc => fadd (fmul (ss_P e) (h (ss_v e i))) acc) f0 l.
Proof. induction l as [|e l IH]; cbn [map wsum fold_right]; [reflexivity|].
  unfold vplus, vscale at 1. rewrite IH. reflexivity. Qed.

(* link between the immittance table and the stamp parameters: if the s-domain context of an
   R/L/C/Y/Z/CPE component carries the table's admittance and impedance (what cpt.Y / cpt.Z
   return for a Laplace kind), then the parameters of its ac context [ac_ctx] are exactly what
   cpt.Y / cpt.Z return in the ac sub-netlist (select -> substitute j omega = h s) *)
Theorem rlc_ac_par (pw : K -> K -> K) (pw' : K' -> K' -> K') (l : leaf) (c : sctx K) (s a0 a1 jw0 : K) (s' : K') (k : akind) :
  pD h s -> pD h a0 -> pD h a1 -> pD h (pw s a1) -> h (pw s a1) = pw' (h s) (h a1) ->
  h s <> f0 -> h a0 <> f0 -> h (pw s a1) <> f0 ->
  cpt_Y pw true KS l s jw0 a0 a1 = Some (par c pY) -> cpt_Z pw true KS l s jw0 a0 a1 = Some (par c pZ) ->
  cpt_Y pw' false k l s' (h s) (h a0) (h a1) = Some (par (ac_ctx h c) pY) /\
  cpt_Z pw' false k l s' (h s) (h a0) (h a1) = Some (par (ac_ctx h c) pZ).
Proof.
  intros Ds D0 D1 Dp Hp Ns N0 Np EY EZ. split.
  - rewrite (ac_is_s_at_jw_Y K K' h pw pw' s a0 a1 Ds D0 Dp Hp Ns N0 Np l k s' f0 jw0), EY. reflexivity.
  - rewrite (ac_is_s_at_jw_Z K K' h pw pw' s a0 a1 Ds D0 Dp Hp Ns N0 Np l k s' f0 jw0), EZ. reflexivity.
Qed.

End C14net.

Print Assumptions assemble_ac.
Print Assumptions phasor_eq_transfer.
Print Assumptions transported_is_physical.
Print Assumptions phasor_eq_transfer_sum.
Print Assumptions rlc_ac_par.
