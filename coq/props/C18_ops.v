(* C18 — products, quotients and powers: statements over the WHOLE finite space
   (every class exprclasses[d][q] x value kind, as left and as right operand),
   decided by vm_compute of a boolean check and lifted with forallb_forall.
   Operands carry the default units of their class (the generic statements for
   arbitrary unit vectors are in C18.v). *)
From Coq Require Import ZArith List Bool Lia.
Import ListNotations.
Require Import LT.QuantityBase LT.QuantityModel LT.QuantityCorr.
Require Import Gen.QuantityGen Gen.C18_known.
Local Open Scope Z_scope.

Notation space := (ops_default T).

Lemma in_space : forall d q v, has_class T d = true -> In (dop T d q v) space.
Proof. intros. apply ops_default_complete. assumption. Qed.

(* ---- products --------------------------------------------------------------- *)
(* a product that is not refused has the quantity whose SI dimension is the sum of
   the operands' dimensions, and the product of their units *)
Definition mul_ok (a b : operand) : bool :=
  match mul_model T a b with
  | RK d q u => ueqb (qdim q) (uadd (qdim (oq a)) (qdim (oq b))) && ueqb u (uadd (ou a) (ou b))
                && ueqb (qdim (class_quantity T d q)) (qdim q)
  | _ => true
  end.
Lemma mul_ok_all : forallb (fun a => forallb (mul_ok a) space) space = true.
Proof. vm_cast_no_check (eq_refl true). Qed.
Theorem mul_result_dim : forall d q v d' q' v' rd rq ru,
  has_class T d = true -> has_class T d' = true ->
  mul_model T (dop T d q v) (dop T d' q' v') = RK rd rq ru ->
  qdim rq = uadd (qdim q) (qdim q') /\ ru = uadd (def_units T d q) (def_units T d' q').
Proof.
  intros d q v d' q' v' rd rq ru H1 H2 E.
  pose proof (forallb2_In _ _ mul_ok _ _ mul_ok_all _ _ (in_space d q v H1) (in_space d' q' v' H2)) as K.
  unfold mul_ok in K. rewrite E in K. apply andb_true_iff in K. destruct K as [K _].
  apply andb_true_iff in K. destruct K as [K1 K2].
  split; apply ueqb_eq; assumption.
Qed.

(* a * b and b * a agree in quantity and units whenever both are defined *)
Definition mul_comm_ok (a b : operand) : bool :=
  match mul_model T a b, mul_model T b a with
  | RK _ q u, RK _ q' u' => qeqb q q' && ueqb u u'
  | _, _ => true
  end.
Lemma mul_comm_all : forallb (fun a => forallb (mul_comm_ok a) space) space = true.
Proof. vm_cast_no_check (eq_refl true). Qed.
Theorem mul_commutes : forall d q v d' q' v' r1 q1 u1 r2 q2 u2,
  has_class T d = true -> has_class T d' = true ->
  mul_model T (dop T d q v) (dop T d' q' v') = RK r1 q1 u1 ->
  mul_model T (dop T d' q' v') (dop T d q v) = RK r2 q2 u2 -> q1 = q2 /\ u1 = u2.
Proof.
  intros d q v d' q' v' r1 q1 u1 r2 q2 u2 H1 H2 E1 E2.
  pose proof (forallb2_In _ _ mul_comm_ok _ _ mul_comm_all _ _ (in_space d q v H1) (in_space d' q' v' H2)) as K.
  unfold mul_comm_ok in K. rewrite E1, E2 in K. apply andb_true_iff in K. destruct K as [K1 K2].
  split; [apply qeqb_eq|apply ueqb_eq]; assumption.
Qed.

(* supported products are not refused: same domain (or a constant-domain right
   operand) and an entry in the table give a value *)
Definition mul_supported_ok (a b : operand) : bool :=
  implb (oeqb (meth_owner T M_mul (od a) (oq a)) O_Expr
         && (deqb (od a) (od b) || cdflag T F_is_constant_domain (od b) (oq b))
         && match mul_lookup T (oq a) (oq b) with Some _ => true | None => false end)
        (match mul_model T a b with RK _ _ _ => true | _ => false end).
Lemma mul_supported_all : forallb (fun a => forallb (mul_supported_ok a) space) space = true.
Proof. vm_cast_no_check (eq_refl true). Qed.
Theorem mul_supported_not_refused : forall d q v d' q' v' p,
  has_class T d = true -> has_class T d' = true ->
  meth_owner T M_mul d q = O_Expr ->
  (d = d' \/ cdflag T F_is_constant_domain d' q' = true) ->
  mul_lookup T q q' = Some p ->
  exists rd rq ru, mul_model T (dop T d q v) (dop T d' q' v') = RK rd rq ru.
Proof.
  intros d q v d' q' v' p H1 H2 Ho Hd Hl.
  pose proof (forallb2_In _ _ mul_supported_ok _ _ mul_supported_all _ _ (in_space d q v H1) (in_space d' q' v' H2)) as K.
  unfold mul_supported_ok in K. simpl od in K. simpl oq in K. rewrite Ho, Hl in K.
  assert (E : (deqb d d' || cdflag T F_is_constant_domain d' q') = true).
  { destruct Hd as [->|Hc]; [|rewrite Hc; apply orb_true_r].
    assert (deqb d' d' = true) as -> by (apply deqb_eq; reflexivity). reflexivity. }
  rewrite E in K. simpl in K.
  destruct (mul_model T (dop T d q v) (dop T d' q' v')) as [rd rq ru| | |]; try discriminate.
  exists rd, rq, ru. reflexivity.
Qed.

Print Assumptions mul_result_dim.
Print Assumptions mul_commutes.
Print Assumptions mul_supported_not_refused.
