(* C16 -- expression-level history: the process-wide result caches of the transformer
   classes (lcapy/transformer.py: the three doit() entry points; key() of each class).

   A call is (h, kw, evaluate, cache): the positional triple (expr, var, conjvar), the keyword
   options actually passed, and the two flags of doit().  The term computation reads an option
   only as kwargs.get(name, default) (or through a named parameter with a default), so what it
   sees of kw is [kget kw (name, default)] for the (name, default) pairs in [used]; key() lists
   its own (name, default) pairs [keyl].  If every consulted pair occurs in key() WITH THE SAME
   DEFAULT, the computation factors through the key and, after any history of calls, doit
   returns exactly what an empty cache returns (doit_transparent).  If a consulted option is in
   key() with another default, a two-call history returns the result of the other call
   (default_mismatch_refuted).  The lists and the shape of doit are regenerated from the source
   on every run (tools/tr_caches.py) and the premises are discharged by vm_compute. *)
Require Import LT.History.
From Coq Require Import List Bool Arith Lia.
Import ListNotations.

Section Xform.
Variables Hd V R O : Type.
Definition kwargs := nat -> option V.
Definition kget (kw : kwargs) (ud : nat * V) : V :=
  match kw (fst ud) with Some v => v | None => snd ud end.

Variables used keyl : list (nat * V).
Variable f : Hd -> kwargs -> R.                 (* rewrite + sum of term(...) : what gets stored *)
Variable post : Hd * kwargs -> R -> O.          (* const * cached, or make(conjvar, const, *cached, **kwargs) *)
Variable noeval : Hd * kwargs -> O.             (* evaluate=False: never looks at the cache *)
Hypothesis f_reads_used : forall h k1 k2,
  (forall ud, In ud used -> kget k1 ud = kget k2 ud) -> f h k1 = f h k2.

Definition xkey (x : Hd * kwargs) : Hd * list V := (fst x, map (kget (snd x)) keyl).
Definition fx (x : Hd * kwargs) : R := f (fst x) (snd x).

Lemma map_eq_in (A B : Type) (g h : A -> B) (l : list A) :
  map g l = map h l -> forall a, In a l -> g a = h a.
Proof.
  induction l as [|b l IH]; cbn; intros E a Ha; [contradiction|].
  inversion E. destruct Ha as [->|Ha]; auto.
Qed.

Lemma xform_factors : incl used keyl -> forall x y, xkey x = xkey y -> fx x = fx y.
Proof.
  intros Hi [h1 k1] [h2 k2] E. unfold xkey in E. cbn in E. inversion E; subst. unfold fx. cbn.
  apply f_reads_used. intros ud Hu. eapply map_eq_in; eauto.
Qed.

Variable keqb : Hd * list V -> Hd * list V -> bool.
Hypothesis keqb_eq : forall a b, keqb a b = true -> a = b.
Hypothesis keqb_refl : forall a, keqb a a = true.

Definition table := list ((Hd * list V) * R).
Definition xcall := ((Hd * kwargs) * (bool * bool))%type.     (* evaluate, cache *)

(* the shape every translated doit() must have; has_bypass: `if not evaluate: return noevaluate`
   precedes the look-up; has_flag: the look-up is guarded by the `cache` parameter *)
Definition doit (has_bypass has_flag : bool) (c : xcall) (t : table) : O * table :=
  let x := fst c in
  if has_bypass && negb (fst (snd c)) then (noeval x, t)
  else match (if has_flag && negb (snd (snd c)) then None else tfind _ _ keqb t (xkey x)) with
       | Some v => (post x v, t)
       | None => (post x (fx x), (xkey x, fx x) :: t)
       end.

Definition uncached (has_bypass : bool) (c : xcall) : O :=
  if has_bypass && negb (fst (snd c)) then noeval (fst c) else post (fst c) (fx (fst c)).

Lemma doit_spec hb hf c t : incl used keyl -> tinv _ _ _ xkey keqb fx t ->
  fst (doit hb hf c t) = uncached hb c /\ tinv _ _ _ xkey keqb fx (snd (doit hb hf c t)).
Proof.
  intros Hi Ht. unfold doit, uncached. destruct (hb && negb (fst (snd c))); cbn; [split; auto|].
  assert (Hst : tinv _ _ _ xkey keqb fx ((xkey (fst c), fx (fst c)) :: t)).
  { intros k v. cbn. destruct (keqb (xkey (fst c)) k) eqn:Ek.
    - intros Hv y Hy. inversion Hv; subst. apply keqb_eq in Ek. apply xform_factors; [auto | congruence].
    - apply Ht. }
  destruct (hf && negb (snd (snd c))); cbn; [split; auto|].
  destruct (tfind _ _ keqb t (xkey (fst c))) as [v|] eqn:E; cbn; split; auto.
  f_equal. eapply Ht; eauto.
Qed.

(* after ANY finite history of calls (any expressions, any options, any flags) a call returns
   what it returns on an empty cache *)
Theorem doit_transparent : incl used keyl -> forall hb hf (cs : list xcall) (c : xcall),
  fst (doit hb hf c (fold_left (fun t y => snd (doit hb hf y t)) cs [])) = uncached hb c.
Proof.
  intros Hi hb hf cs c. apply doit_spec; auto.
  assert (G : forall t, tinv _ _ _ xkey keqb fx t ->
                        tinv _ _ _ xkey keqb fx (fold_left (fun t y => snd (doit hb hf y t)) cs t)).
  { induction cs as [|y cs IH]; intros t Ht; cbn; auto. apply IH. apply doit_spec; auto. }
  apply G. intros k v H. discriminate.
Qed.

(* a hit returns the result stored by the EARLIER call *)
Lemma doit_hit_returns_first hb hf x1 x2 : xkey x1 = xkey x2 ->
  fst (doit hb hf (x2, (true, true)) (snd (doit hb hf (x1, (true, true)) []))) = post x2 (fx x1).
Proof.
  intros E. unfold doit. cbn. rewrite !andb_false_r. cbn. rewrite E, keqb_refl. reflexivity.
Qed.

(* an option that key() lists with default dk but the computation consults with default du:
   the call that omits the option and the call that passes dk explicitly have the same key,
   yet the computation sees du in the first and dk in the second *)
Definition kw_set (kw : kwargs) (u : nat) (v : option V) : kwargs := fun n => if Nat.eqb n u then v else kw n.

Theorem default_mismatch_refuted : forall (u : nat) (dk du : V) (h : Hd) (kw : kwargs) hb hf,
  (forall ud, In ud keyl -> fst ud = u -> snd ud = dk) ->
  let x1 := (h, kw_set kw u (Some dk)) in let x0 := (h, kw_set kw u None) in
  xkey x1 = xkey x0 /\ kget (snd x1) (u, du) = dk /\ kget (snd x0) (u, du) = du /\
  fst (doit hb hf (x0, (true, true)) (snd (doit hb hf (x1, (true, true)) []))) = post x0 (fx x1).
Proof.
  intros u dk du h kw hb hf Hk x1 x0.
  assert (E : xkey x1 = xkey x0).
  { unfold xkey, x1, x0. cbn. f_equal. apply map_ext_in. intros [n d] Hin. unfold kget, kw_set. cbn.
    destruct (Nat.eqb n u) eqn:En; auto. apply Nat.eqb_eq in En. symmetry. apply (Hk (n, d)); auto. }
  split; [exact E|]. split; [|split].
  - unfold x1, kget. cbn [fst snd]. unfold kw_set. rewrite Nat.eqb_refl. reflexivity.
  - unfold x0, kget. cbn [fst snd]. unfold kw_set. rewrite Nat.eqb_refl. reflexivity.
  - apply doit_hit_returns_first. exact E.
Qed.
End Xform.

(* decidable side conditions on the regenerated lists (options and defaults interned as nat) *)
Definition pair_mem (p : nat * nat) (l : list (nat * nat)) : bool :=
  existsb (fun q => Nat.eqb (fst p) (fst q) && Nat.eqb (snd p) (snd q)) l.
Definition incl_pairs (a b : list (nat * nat)) : bool := forallb (fun p => pair_mem p b) a.
Lemma incl_pairs_sound a b : incl_pairs a b = true -> incl a b.
Proof.
  unfold incl_pairs. rewrite forallb_forall. intros H p Hp. specialize (H p Hp). unfold pair_mem in H.
  apply existsb_exists in H. destruct H as [q [Hq E]]. apply andb_true_iff in E. destruct E as [E1 E2].
  apply Nat.eqb_eq in E1. apply Nat.eqb_eq in E2. destruct p, q. cbn in *. subst. exact Hq.
Qed.
Definition key_default_is (keyl : list (nat * nat)) (u dk : nat) : bool :=
  forallb (fun q => negb (Nat.eqb (fst q) u) || Nat.eqb (snd q) dk) keyl.
Lemma key_default_is_sound keyl u dk : key_default_is keyl u dk = true ->
  forall ud, In ud keyl -> fst ud = u -> snd ud = dk.
Proof.
  unfold key_default_is. rewrite forallb_forall. intros H ud Hin Hu. specialize (H ud Hin).
  apply orb_true_iff in H. destruct H as [H|H].
  - apply negb_true_iff in H. apply Nat.eqb_neq in H. contradiction.
  - apply Nat.eqb_eq in H. exact H.
Qed.

(* the doit shapes found in lcapy/transformer.py, on a two-option toy instance: options 0 (default 7)
   and 1 (default 8); the stored value is the list of consulted values *)
Fixpoint lnat_eqb (a b : list nat) : bool :=
  match a, b with [], [] => true | x :: a', y :: b' => Nat.eqb x y && lnat_eqb a' b' | _, _ => false end.
Definition toy_keqb (a b : nat * list nat) : bool := Nat.eqb (fst a) (fst b) && lnat_eqb (snd a) (snd b).
Definition toy_doit (used keyl : list (nat * nat)) :=
  doit nat nat (list nat) (nat * list nat) keyl (fun h kw => h :: map (kget nat kw) used) (fun x r => (fst x, r)) (fun x => (fst x, [])) toy_keqb.
Definition kw0 : kwargs nat := fun _ => None.
Example toy_good : fst (toy_doit [(0, 7)] [(0, 7); (1, 8)] false false ((5, kw0), (true, true))
                          (snd (toy_doit [(0, 7)] [(0, 7); (1, 8)] false false ((5, kw_set nat kw0 0 (Some 7)), (true, true)) [])))
                   = (5, [5; 7]).
Proof. vm_compute. reflexivity. Qed.
(* key() says default 9 for option 0, the code consults it with default 7: the second call is served the first one's result *)
Example toy_bad : fst (toy_doit [(0, 7)] [(0, 9)] false false ((5, kw0), (true, true))
                         (snd (toy_doit [(0, 7)] [(0, 9)] false false ((5, kw_set nat kw0 0 (Some 9)), (true, true)) [])))
                  = (5, [5; 9]).
Proof. vm_compute. reflexivity. Qed.

Print Assumptions doit_transparent.
Print Assumptions default_mismatch_refuted.
Print Assumptions xform_factors.
