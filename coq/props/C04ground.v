(* C04 - the reference node.  Netlist._add_ground(node) adds "W node 0": the node
   is merged with ground, i.e. its index becomes -1.  Model: [ground_at x N]
   renames node index x to -1 in every component.

   ground_at_sol     : solving the grounded netlist = solving N with v x = 0,
                       without the current balance at x;
   kcl_sum_zero      : in a floating netlist (no ground index, no
                       ground-referenced class) the current balances of all
                       nodes add up to 0, so the balance at x is implied;
   ground_wire_equiv : for a floating netlist and ANY node x, the terminal
                       relation of the grounded netlist seen from (p, m) is the
                       terminal relation of N - whichever node is wired to 0,
                       Voc, Zth, Isc, Yth and every transfer function are the same. *)
Require Import LT.FieldSec LT.Circuit LT.MNA LT.Thevenin LT.TheveninDense Gen.StampsGen Gen.C01model Gen.C04model Gen.C04.
From Coq Require Import Arith.
Local Open Scope Z_scope.
Local Open Scope bool_scope.

Section Ground.
Variable K : fld.
Add Field KFgr : (fth K).
Notation netlist := (netlist K).
Notation vec := (Z -> K).

(* ---- every non ground-referenced class draws its currents THROUGH node pairs ---- *)
Definition flow := (Z * Z * K)%type.
Definition sumthru (fl : list flow) (r : Z) : K :=
  fold_right (fun f acc => fadd (thru (fst (fst f)) (snd (fst f)) r (snd f)) acc) f0 fl.
Definition flows (cl : cname) (c : sctx K) (v ib : vec) : list flow :=
  match cl with
  | cRC => [(p0 c, p1 c, fsub (fmul (Yeff c) (dV01 c v)) (if akind_eqb (kind c) KIvp && has_ic c then par c pIsc else f0))]
  | cL | cV | cAM | cVCVS => [(p0 c, p1 c, ib (bown c))]
  | cI => [(p0 c, p1 c, fopp (par c pIsc))]
  | cVCCS => [(p0 c, p1 c, fopp (fmul (par c pArg0) (dV23 c v)))]
  | cCCCS => [(p0 c, p1 c, fmul (par c pArg1) (ib (bctrl c)))]
  | cCCVS => [(p0 c, p1 c, ib (bown c))]
  | cTF => [(p0 c, p1 c, ib (bown c)); (p2 c, p3 c, fopp (fmul (par c pAlpha) (ib (bown c))))]
  | cGY => [(p0 c, p1 c, ib (bown c)); (p2 c, p3 c, ib (bextra c))]
  | cTL => [(p0 c, p1 c, ib (bown c));
            (p2 c, p3 c, fsub (fmul (if akind_eqb (kind c) KDc then tpA pA21 else par c pA21) (dV01 c v))
                              (fmul (if akind_eqb (kind c) KDc then tpA pA22 else par c pA22) (ib (bown c))))]
  | cTPA | cTPB | cTPG | cTPH => [(p0 c, p1 c, ib (bown c)); (p2 c, p3 c, fsub (fmul (par c pA21) (dV01 c v)) (fmul (par c pA22) (ib (bown c))))]
  | cTPY | cTPZ => [(p2 c, p3 c, fadd (fmul (par c pY11) (dV23 c v)) (fmul (par c pY12) (dV01 c v)));
                    (p0 c, p1 c, fadd (fmul (par c pY21) (dV23 c v)) (fmul (par c pY22) (dV01 c v)))]
  | cRV => [(p0 c, p2 c, fmul (fdiv f1 (fmul (par c pArg0) (fsub f1 (par c pArg1)))) (fsub (vv v (p0 c)) (vv v (p2 c))));
            (p2 c, p1 c, fmul (fdiv f1 (fmul (par c pArg0) (par c pArg1))) (fsub (vv v (p2 c)) (vv v (p1 c))))]
  | _ => []
  end.
Definition thru_class (cl : cname) : bool :=
  match cl with cTR | cSPpp | cSPpm | cSPppp | cSPpmm | cSPppm => false | _ => true end.
Lemma drawn_flows cl (c : sctx K) v ib r : thru_class cl = true -> drawn_of cl c v ib r = sumthru (flows cl c v ib) r.
Proof.
  intros H. destruct cl; try discriminate H; cbn [flows drawn_of];
  cbv [drawn_RC drawn_L drawn_V drawn_AM drawn_I drawn_VCVS drawn_VCCS drawn_CCCS drawn_CCVS drawn_K drawn_TF drawn_GY
       drawn_TPA drawn_TPY drawn_RV sumthru fold_right fst snd andb];
  try (destruct (ctrl_is_vsrc c); cbn [fold_right fst snd]); unfold thru; ring.
Qed.
Definition cnodes (c : sctx K) : list Z := [p0 c; p1 c; p2 c; p3 c; c0 c; c1 c].
Lemma flows_nodes cl (c : sctx K) v ib f : In f (flows cl c v ib) -> In (fst (fst f)) (cnodes c) /\ In (snd (fst f)) (cnodes c).
Proof.
  unfold cnodes. destruct cl; cbn [flows]; try (destruct (ctrl_is_vsrc c)); cbn [In];
  intros H; repeat (destruct H as [H|H]; [subst f; cbn [fst snd]; tauto|]); try contradiction.
Qed.

(* generic facts about sums of through-currents *)
Lemma sumthru_zero_row fl r : (forall f, In f fl -> @ind K (fst (fst f)) r = f0 /\ @ind K (snd (fst f)) r = f0) -> sumthru fl r = f0.
Proof. induction fl as [|f fl IH]; intros H; cbn [sumthru fold_right]; [reflexivity|]. fold (sumthru fl r).
  rewrite IH by (intros g Hg; apply H; right; exact Hg). destruct (H f (or_introl eq_refl)) as [A B].
  unfold thru. rewrite A, B. ring. Qed.
Lemma sum_ind (nn : nat) (a : Z) : 0 <= a < Z.of_nat nn -> sumn nn (fun r => @ind K a (Z.of_nat r)) = f1.
Proof.
  intros H. rewrite (sumn_ext K nn _ (fun r => fmul (delta (Z.to_nat a) r) f1)).
  - apply (sumn_delta K nn (Z.to_nat a) (fun _ => f1)). lia.
  - intros r Hr. unfold ind, delta. destruct (Z.eqb_spec a (Z.of_nat r)), (Nat.eqb_spec (Z.to_nat a) r); try lia; ring.
Qed.
Lemma sumthru_sum_zero fl nn : (forall f, In f fl -> 0 <= fst (fst f) < Z.of_nat nn /\ 0 <= snd (fst f) < Z.of_nat nn) ->
  sumn nn (fun r => sumthru fl (Z.of_nat r)) = f0.
Proof.
  induction fl as [|f fl IH]; intros H.
  - apply sumn_zero. reflexivity.
  - destruct (H f (or_introl eq_refl)) as [A B].
    rewrite (sumn_ext K nn _ (fun r => fadd (fadd (fmul (snd f) (ind (fst (fst f)) (Z.of_nat r))) (fmul (fopp (snd f)) (ind (snd (fst f)) (Z.of_nat r))))
                                            (sumthru fl (Z.of_nat r))))
      by (intros r _; unfold sumthru; cbn [fold_right]; unfold thru; ring).
    rewrite sumn_add, IH by (intros g Hg; apply H; right; exact Hg).
    rewrite sumn_add, !sumn_scal, !sum_ind by assumption. ring.
Qed.

(* ---- floating netlists with node indices 0 .. nn-1 ---------------------------- *)
Definition nodes_in (nn : nat) (c : sctx K) : Prop := forall n, In n (cnodes c) -> 0 <= n < Z.of_nat nn.
Definition floating_in (nn : nat) (N : netlist) : Prop := Forall (fun e => thru_class (fst e) = true /\ nodes_in nn (snd e)) N.

Lemma kcl_sum_zero nn (N : netlist) v ib : floating_in nn N -> sumn nn (fun r => kcl N v ib (Z.of_nat r)) = f0.
Proof.
  induction N as [|e N IH]; intros H.
  - apply sumn_zero. reflexivity.
  - inversion H as [|? ? [Hc Hn] HN]; subst.
    rewrite (sumn_ext K nn _ (fun r => fadd (sumthru (flows (fst e) (snd e) v ib) (Z.of_nat r)) (kcl N v ib (Z.of_nat r))))
      by (intros r _; rewrite kcl_cons, drawn_flows by exact Hc; reflexivity).
    rewrite sumn_add, (IH HN), sumthru_sum_zero; [ring|].
    intros f Hf. destruct (flows_nodes _ _ _ _ f Hf) as [A B]. split; apply Hn; assumption.
Qed.
Lemma kcl_out_of_range nn (N : netlist) v ib r : floating_in nn N -> Z.of_nat nn <= r -> kcl N v ib r = f0.
Proof.
  induction N as [|e N IH]; intros H Hr; [reflexivity|].
  inversion H as [|? ? [Hc Hn] HN]; subst. rewrite kcl_cons, (IH HN Hr), drawn_flows by exact Hc.
  rewrite sumthru_zero_row; [ring|]. intros f Hf. destruct (flows_nodes _ _ _ _ f Hf) as [A B].
  split; apply ind_ne; [pose proof (Hn _ A) | pose proof (Hn _ B)]; lia.
Qed.

(* ---- W x 0 : node x becomes the reference ---------------------------------------- *)
Definition ren (x n : Z) : Z := if Z.eqb n x then -1 else n.
Definition ren_ctx (x : Z) (c : sctx K) : sctx K :=
  SCtx K (kind c) (typ c) (ren x (p0 c)) (ren x (p1 c)) (ren x (p2 c)) (ren x (p3 c)) (ren x (c0 c)) (ren x (c1 c))
       (bown c) (bextra c) (bctrl c) (bL1 c) (bL2 c) (has_ic c) (ctrl_is_vsrc c) (has_arg1 c) (tp_has_src c) (par c).
Definition ground_at (x : Z) (N : netlist) : netlist := map (fun e => (fst e, ren_ctx x (snd e))) N.
Definition upd0 (x : Z) (v : vec) : vec := fun k => if Z.eqb k x then f0 else v k.

Lemma vv_ren x v n : 0 <= x -> vv v (ren x n) = vv (upd0 x v) n.
Proof. intros Hx. unfold vv, ren, upd0. destruct (Z.eqb_spec n x) as [->|Hn].
  - cbn. destruct (0 <=? x); reflexivity.
  - reflexivity. Qed.
Lemma ind_ren x a r : 0 <= r -> r <> x -> @ind K (ren x a) r = ind a r.
Proof. intros Hr Hx. unfold ren, ind. destruct (Z.eqb_spec a x) as [->|Ha]; [|reflexivity].
  destruct (Z.eqb_spec (-1) r); [lia|]. destruct (Z.eqb_spec x r); [congruence | reflexivity]. Qed.
Lemma ind_ren_x x a : 0 <= x -> @ind K (ren x a) x = f0.
Proof. intros Hx. unfold ren, ind. destruct (Z.eqb_spec a x) as [->|Ha].
  - destruct (Z.eqb_spec (-1) x); [lia | reflexivity].
  - destruct (Z.eqb_spec a x); [contradiction | reflexivity]. Qed.

Ltac unfold_phys :=
  cbv [drawn_of brel_of drawn_RC brel_RC Yeff drawn_L brel_L drawn_V brel_V drawn_AM brel_AM drawn_I brel_I
       drawn_VCVS brel_VCVS Ac drawn_VCCS brel_VCCS drawn_CCCS brel_CCCS drawn_CCVS brel_CCVS
       drawn_K brel_K ZM drawn_TF brel_TF drawn_GY brel_GY drawn_TPA brel_TPA tpA
       drawn_TPY brel_TPY drawn_TR brel_TR drawn_SP brel_SP drawn_RV brel_RV dV01 dV23 thru].
Ltac proj_ctx := cbn [ren_ctx kind typ p0 p1 p2 p3 c0 c1 bown bextra bctrl bL1 bL2 has_ic ctrl_is_vsrc has_arg1 tp_has_src par].
Lemma drawn_ren x cl (c : sctx K) v ib r : 0 <= x -> 0 <= r -> r <> x ->
  drawn_of cl (ren_ctx x c) v ib r = drawn_of cl c (upd0 x v) ib r.
Proof. intros Hx Hr Hne. destruct c as [kd ty n0 n1 n2 n3 m0 m1 bo be bc b1 b2 hic cv ha ts pr].
  destruct cl; unfold_phys; proj_ctx; rewrite ?(vv_ren x) by assumption; rewrite ?(ind_ren x) by assumption; reflexivity. Qed.
Lemma brel_ren x cl (c : sctx K) v ib q : 0 <= x -> brel_of cl (ren_ctx x c) v ib q = brel_of cl c (upd0 x v) ib q.
Proof. intros Hx. destruct c as [kd ty n0 n1 n2 n3 m0 m1 bo be bc b1 b2 hic cv ha ts pr].
  destruct cl; unfold_phys; proj_ctx; rewrite ?(vv_ren x) by assumption; reflexivity. Qed.
Lemma drawn_ren_x x cl (c : sctx K) v ib : 0 <= x -> drawn_of cl (ren_ctx x c) v ib x = f0.
Proof. intros Hx. destruct c as [kd ty n0 n1 n2 n3 m0 m1 bo be bc b1 b2 hic cv ha ts pr].
  destruct cl; unfold_phys; proj_ctx; rewrite ?(ind_ren_x x) by assumption;
  repeat match goal with |- context [if ?b then _ else _] => destruct b end; rewrite ?(Fdiv_def (fth K)); ring. Qed.

Lemma kcl_ground (N : netlist) x v ib r : 0 <= x -> 0 <= r -> r <> x -> kcl (ground_at x N) v ib r = kcl N (upd0 x v) ib r.
Proof. intros Hx Hr Hne. induction N as [|e N IH]; [reflexivity|]. cbn [ground_at map]. fold (ground_at x N).
  rewrite !kcl_cons. cbn [fst snd]. rewrite IH, drawn_ren by assumption. reflexivity. Qed.
Lemma crel_ground (N : netlist) x v ib q : 0 <= x -> crel (ground_at x N) v ib q = crel N (upd0 x v) ib q.
Proof. intros Hx. induction N as [|e N IH]; [reflexivity|]. cbn [ground_at map]. fold (ground_at x N).
  rewrite !crel_cons. cbn [fst snd]. rewrite IH, brel_ren by assumption. reflexivity. Qed.
Lemma kcl_ground_x (N : netlist) x v ib : 0 <= x -> kcl (ground_at x N) v ib x = f0.
Proof. intros Hx. induction N as [|e N IH]; [reflexivity|]. cbn [ground_at map]. fold (ground_at x N).
  rewrite kcl_cons. cbn [fst snd]. rewrite IH, drawn_ren_x by assumption. ring. Qed.
Lemma thru_ren x p m r (i : K) : 0 <= r -> r <> x -> thru (ren x p) (ren x m) r i = thru p m r i.
Proof. intros Hr Hne. unfold thru. rewrite !ind_ren by assumption. reflexivity. Qed.
Lemma thru_ren_x x p m (i : K) : 0 <= x -> thru (ren x p) (ren x m) x i = f0.
Proof. intros Hx. unfold thru. rewrite !ind_ren_x by assumption. ring. Qed.
Lemma pv_ren x p m v : 0 <= x -> pv (ren x p) (ren x m) v = pv p m (upd0 x v).
Proof. intros Hx. unfold pv. rewrite !vv_ren by assumption. reflexivity. Qed.

(* the residuals read the potentials only through [vv]: pointwise equal potentials give equal residuals *)
Lemma vv_ext (w v : vec) n : (forall k, w k = v k) -> vv w n = vv v n.
Proof. intros H. unfold vv. rewrite H. reflexivity. Qed.
Lemma drawn_ext cl (c : sctx K) (w v : vec) ib r : (forall k, w k = v k) -> drawn_of cl c w ib r = drawn_of cl c v ib r.
Proof. intros H. destruct cl; unfold_phys; rewrite ?(vv_ext w v _ H); reflexivity. Qed.
Lemma brel_ext cl (c : sctx K) (w v : vec) ib q : (forall k, w k = v k) -> brel_of cl c w ib q = brel_of cl c v ib q.
Proof. intros H. destruct cl; unfold_phys; rewrite ?(vv_ext w v _ H); reflexivity. Qed.
Lemma kcl_ext (N : netlist) (w v : vec) ib r : (forall k, w k = v k) -> kcl N w ib r = kcl N v ib r.
Proof. intros H. induction N as [|e N IH]; [reflexivity|]. rewrite !kcl_cons, IH, (drawn_ext _ _ w v ib r H). reflexivity. Qed.
Lemma crel_ext (N : netlist) (w v : vec) ib q : (forall k, w k = v k) -> crel N w ib q = crel N v ib q.
Proof. intros H. induction N as [|e N IH]; [reflexivity|]. rewrite !crel_cons, IH, (brel_ext _ _ w v ib q H). reflexivity. Qed.
Lemma pv_ext p m (w v : vec) : (forall k, w k = v k) -> pv p m w = pv p m v.
Proof. intros H. unfold pv. rewrite !(vv_ext w v _ H). reflexivity. Qed.

(* the grounded netlist = N with v x = 0, minus the current balance at x *)
Theorem ground_at_sol (N : netlist) x p m i v ib : 0 <= x ->
  sol (ren x p) (ren x m) (kcl (ground_at x N)) (crel (ground_at x N)) i v ib <->
  ((forall r, 0 <= r -> r <> x -> kcl N (upd0 x v) ib r = thru p m r i) /\ (forall q, 0 <= q -> crel N (upd0 x v) ib q = f0)).
Proof.
  intros Hx. unfold sol. split; intros [A B]; split.
  - intros r Hr Hne. rewrite <- (kcl_ground N x v ib r Hx Hr Hne), (A r Hr). apply thru_ren; assumption.
  - intros q Hq. rewrite <- (crel_ground N x v ib q Hx). apply B. exact Hq.
  - intros r Hr. destruct (Z.eq_dec r x) as [->|Hne].
    + rewrite kcl_ground_x, thru_ren_x by assumption. reflexivity.
    + rewrite kcl_ground, thru_ren by assumption. apply A; assumption.
  - intros q Hq. rewrite crel_ground by assumption. apply B. exact Hq.
Qed.

Lemma sumn_single (n : nat) (h : nat -> K) (k : nat) : (k < n)%nat -> sumn n h = f0 ->
  (forall r, (r < n)%nat -> r <> k -> h r = f0) -> h k = f0.
Proof.
  intros Hk S Hz. rewrite <- S. symmetry.
  rewrite (sumn_ext K n h (fun r => fmul (delta k r) (h k))).
  - apply (sumn_delta K n k (fun _ => h k) Hk).
  - intros r Hr. unfold delta. destruct (Nat.eqb_spec k r) as [->|Hne]; [ring|]. rewrite Hz by auto. ring.
Qed.
Lemma thru_sum_zero nn p m (i : K) : 0 <= p < Z.of_nat nn -> 0 <= m < Z.of_nat nn -> sumn nn (fun r => thru p m (Z.of_nat r) i) = f0.
Proof. intros Hp Hm. pose proof (sumthru_sum_zero [(p, m, i)] nn) as H. cbn [sumthru fold_right fst snd] in H.
  rewrite (sumn_ext K nn _ (fun r => fadd (thru p m (Z.of_nat r) i) f0)) by (intros; ring). apply H.
  intros f [<-|[]]. cbn [fst snd]. split; assumption. Qed.

(* ground_wire_equiv: wiring ANY node x of a floating netlist to ground leaves the terminal relation unchanged *)
Theorem ground_wire_equiv nn (N : netlist) x p m :
  floating_in nn N -> shift_inv (kcl N) -> shift_inv (crel N) ->
  0 <= x < Z.of_nat nn -> 0 <= p < Z.of_nat nn -> 0 <= m < Z.of_nat nn ->
  forall i u, port_rel (ren x p) (ren x m) (kcl (ground_at x N)) (crel (ground_at x N)) i u <-> port_rel p m (kcl N) (crel N) i u.
Proof.
  intros HF S1 S2 Hx Hp Hm i u.
  rewrite <- (ground_indep K p m (proj1 Hp) (proj1 Hm) (kcl N) (crel N) x S1 S2 i u).
  unfold port_rel, port_rel_ref. split.
  - intros [v [ib [S E]]]. apply (ground_at_sol N x p m i v ib (proj1 Hx)) in S. destruct S as [A B].
    exists (upd0 x v), ib. split; [split|split].
    + intros r Hr. destruct (Z_lt_ge_dec r (Z.of_nat nn)) as [Hlt|Hge].
      * destruct (Z.eq_dec r x) as [->|Hne]; [|apply A; assumption].
        (* the balance at x follows from all the others *)
        pose proof (sumn_single nn (fun r => fsub (kcl N (upd0 x v) ib (Z.of_nat r)) (thru p m (Z.of_nat r) i)) (Z.to_nat x)) as SS.
        cbv beta in SS. rewrite Z2Nat.id in SS by lia.
        assert (G : fsub (kcl N (upd0 x v) ib x) (thru p m x i) = f0).
        { apply SS; [lia | |].
          - rewrite (sumn_ext K nn _ (fun r => fadd (kcl N (upd0 x v) ib (Z.of_nat r)) (fmul (fopp f1) (thru p m (Z.of_nat r) i))))
              by (intros; ring).
            rewrite sumn_add, sumn_scal, (kcl_sum_zero nn N _ _ HF), thru_sum_zero by assumption. ring.
          - intros r Hr' Hne. rewrite A by lia. ring. }
        transitivity (fadd (fsub (kcl N (upd0 x v) ib x) (thru p m x i)) (thru p m x i)); [ring | rewrite G; ring].
      * rewrite (kcl_out_of_range nn N _ _ r HF) by lia. unfold thru. rewrite !ind_ne by lia. ring.
    + exact B.
    + unfold upd0. rewrite Z.eqb_refl. reflexivity.
    + rewrite <- pv_ren by lia. exact E.
  - intros [v [ib [[A B] [Vx E]]]]. exists v, ib.
    assert (EQ : forall k, upd0 x v k = v k).
    { intros k. unfold upd0. destruct (Z.eqb_spec k x) as [->|]; [symmetry; exact Vx | reflexivity]. }
    split.
    + apply (ground_at_sol N x p m i v ib (proj1 Hx)). split.
      * intros r Hr Hne. rewrite (kcl_ext N _ _ ib r EQ). apply A. exact Hr.
      * intros q Hq. rewrite (crel_ext N _ _ ib q EQ). apply B. exact Hq.
    + rewrite pv_ren by lia. rewrite (pv_ext p m _ _ EQ). exact E.
Qed.
(* with the syntactic criterion of Gen.C04 for shift invariance *)
Corollary ground_wire_equiv_floating nn (N : netlist) x p m :
  floating K N -> floating_in nn N ->
  0 <= x < Z.of_nat nn -> 0 <= p < Z.of_nat nn -> 0 <= m < Z.of_nat nn ->
  forall i u, port_rel (ren x p) (ren x m) (kcl (ground_at x N)) (crel (ground_at x N)) i u <-> port_rel p m (kcl N) (crel N) i u.
Proof. intros F FI. destruct (floating_shift_inv K N F) as [S1 S2]. apply ground_wire_equiv; assumption. Qed.
End Ground.
Arguments ground_at {K}. Arguments ren_ctx {K}. Arguments floating_in {K}.
Print Assumptions kcl_sum_zero.
Print Assumptions ground_at_sol.
Print Assumptions ground_wire_equiv.
Print Assumptions ground_wire_equiv_floating.
