(* C18 — quotients and powers (continuation of C18_ops.v): statements over the WHOLE finite space
   (every class exprclasses[d][q] x value kind, as left and as right operand),
   decided by vm_compute of a boolean check and lifted with forallb_forall.
   Operands carry the default units of their class (the generic statements for
   arbitrary unit vectors are in C18.v). *)
From Coq Require Import ZArith List Bool Lia.
Import ListNotations.
Require Import LT.QuantityBase LT.QuantityModel LT.QuantityCorr.
Require Import Gen.QuantityGen Gen.C18_known.
Local Open Scope Z_scope.

Notation space := (ops_default T).

Lemma in_space : forall d q v, has_class T d = true -> In (dop T d q v) space.
Proof. intros. apply ops_default_complete. assumption. Qed.

(* ---- quotients ----------------------------------------------------------------- *)
(* the divisor was replaced by its constant-domain equivalent whose default units
   differ from the divisor's units (Expr.__truediv__ does not restore them) *)
Definition exc_div_asconst (b : operand) : bool :=
  cqflag T G_is_immittance (od b) (oq b) && unchanging T b
  && negb (ueqb (ou (as_constant T b (div_keeps_units T))) (ou b)).
(* generic / immittance of the same domain with a symbol-free numerator goes through
   ImpedanceMixin/AdmittanceMixin.__rtruediv__, which builds a new object with the
   default units of its class *)
Definition via_mixin (a b : operand) : bool :=
  has_mixin_rtruediv T b && subclass T (od b) (oq b) (od a) (oq a) && no_symbols a.

Definition div_ok (a b : operand) : bool :=
  match truediv_model T a b with
  | RK d q u => ueqb (qdim q) (usub (qdim (oq a)) (qdim (oq b)))
                && (ueqb u (usub (ou a) (ou b))
                    || (known_div_asconst && exc_div_asconst b && negb (via_mixin a b))
                    || (known_rdiv_mixin && via_mixin a b))
  | _ => true
  end.
Lemma div_ok_all : forallb (fun a => forallb (div_ok a) space) space = true.
Proof. vm_cast_no_check (eq_refl true). Qed.
Theorem div_result_dim : forall d q v d' q' v' rd rq ru,
  has_class T d = true -> has_class T d' = true ->
  truediv_model T (dop T d q v) (dop T d' q' v') = RK rd rq ru ->
  qdim rq = usub (qdim q) (qdim q') /\
  (ru = usub (def_units T d q) (def_units T d' q')
   \/ (known_div_asconst = true /\ exc_div_asconst (dop T d' q' v') = true)
   \/ (known_rdiv_mixin = true /\ via_mixin (dop T d q v) (dop T d' q' v') = true)).
Proof.
  intros d q v d' q' v' rd rq ru H1 H2 E.
  pose proof (forallb2_In _ _ div_ok _ _ div_ok_all _ _ (in_space d q v H1) (in_space d' q' v' H2)) as K.
  unfold div_ok in K. rewrite E in K. apply andb_true_iff in K. destruct K as [K1 K2].
  split; [apply ueqb_eq; exact K1|].
  apply orb_true_iff in K2. destruct K2 as [K2|K2].
  - apply orb_true_iff in K2. destruct K2 as [K2|K2].
    + left. apply ueqb_eq. exact K2.
    + right. left. apply andb_true_iff in K2. destruct K2 as [K2 _]. apply andb_true_iff in K2. tauto.
  - right. right. apply andb_true_iff in K2. tauto.
Qed.

(* ---- powers ------------------------------------------------------------------------ *)
Definition pow2_ok (a : operand) : bool :=
  match pow_model T a 2 with
  | RK d q u => ueqb (qdim q) (uscale 2 (qdim (oq a))) && ueqb u (uscale 2 (ou a))
  | _ => true
  end.
Lemma pow2_all : forallb pow2_ok space = true.
Proof. vm_cast_no_check (eq_refl true). Qed.
Theorem pow2_is_square : forall d q v rd rq ru,
  has_class T d = true -> pow_model T (dop T d q v) 2 = RK rd rq ru ->
  qdim rq = uscale 2 (qdim q) /\ ru = uscale 2 (def_units T d q).
Proof.
  intros d q v rd rq ru H E. pose proof (forallb_In _ pow2_ok _ pow2_all _ (in_space d q v H)) as K.
  unfold pow2_ok in K. rewrite E in K. apply andb_true_iff in K. destruct K. split; apply ueqb_eq; assumption.
Qed.

Definition powm1_ok (a : operand) : bool :=
  match pow_model T a (-1) with
  | RK d q u => ueqb (qdim q) (uneg (qdim (oq a)))
                && (ueqb u (uneg (ou a)) || (known_rdiv_mixin && has_mixin_rtruediv T a))
  | _ => true
  end.
Lemma powm1_all : forallb powm1_ok space = true.
Proof. vm_cast_no_check (eq_refl true). Qed.
Theorem powm1_is_reciprocal : forall d q v rd rq ru,
  has_class T d = true -> pow_model T (dop T d q v) (-1) = RK rd rq ru ->
  qdim rq = uneg (qdim q) /\
  (ru = uneg (def_units T d q) \/ (known_rdiv_mixin = true /\ has_mixin_rtruediv T (dop T d q v) = true)).
Proof.
  intros d q v rd rq ru H E. pose proof (forallb_In _ powm1_ok _ powm1_all _ (in_space d q v H)) as K.
  unfold powm1_ok in K. rewrite E in K. apply andb_true_iff in K. destruct K as [K1 K2].
  split; [apply ueqb_eq; exact K1|].
  apply orb_true_iff in K2. destruct K2 as [K2|K2]; [left; apply ueqb_eq; exact K2|right; apply andb_true_iff in K2; tauto].
Qed.

(* which exceptions are actually needed (printed for the harness): a finding is
   present iff the strict statement fails somewhere on an exception point *)
Definition strict_div_fail (a b : operand) : bool :=
  match truediv_model T a b with RK d q u => negb (ueqb u (usub (ou a) (ou b))) | _ => false end.
Definition present_div_asconst : bool :=
  existsb (fun a => existsb (fun b => strict_div_fail a b && exc_div_asconst b && negb (via_mixin a b)) space) space.
Definition present_rdiv_mixin : bool :=
  existsb (fun a => existsb (fun b => strict_div_fail a b && via_mixin a b) space) space
  || existsb (fun a => match pow_model T a (-1) with RK _ _ u => negb (ueqb u (uneg (ou a))) && has_mixin_rtruediv T a | _ => false end) space.
Eval vm_compute in (present_div_asconst, present_rdiv_mixin).

Print Assumptions div_result_dim.
Print Assumptions pow2_is_square.
Print Assumptions powm1_is_reciprocal.
