(* C15 - mesh equations.  The loops are whatever NetworkX handed back (oracle);
   its contract - every loop is a closed walk whose consecutive nodes are joined
   by an existing component or by an equipotential (dummy) wire - and the
   premise that the mesh currents reproduce the branch currents (crediting)
   are hypotheses, checked on every generated case.  Under them the equation
   the model of LoopAnalysis._process_loop writes for a mesh is the sum of the
   potential rises around a closed walk, hence 0 (telescoping).  Planarity is
   not modelled (partial). *)
Require Import LT.FieldSec LT.Circuit LT.MNA LT.FormulLeaf Gen.StampsGen Gen.C01model Gen.FormulLeafGen Gen.C15model Gen.C15nodal.
Local Open Scope Z_scope.
Local Open Scope bool_scope.

Section C15mesh.
Variable K : fld.
Add Field KFmesh : (fth K).

Definition rise (phi : Z -> K) (ab : Z * Z) : K := fsub (phi (snd ab)) (phi (fst ab)).

Lemma pairs_telescope (phi : Z -> K) (first : Z) (l : list Z) : l <> [] ->
  sumL (map (rise phi) (pairs_from first l)) = fsub (phi first) (phi (hd first l)).
Proof.
  induction l as [|a l IH]; intros Hn; [congruence|].
  destruct l as [|b l'].
  - cbn [pairs_from map sumL hd]. unfold rise; cbn [fst snd]. ring.
  - change (pairs_from first (a :: b :: l')) with ((a, b) :: pairs_from first (b :: l')).
    cbn [map sumL]. rewrite IH by congruence. unfold rise; cbn [fst snd hd]. ring.
Qed.
(* the potential rises around a closed walk sum to zero *)
Theorem steps_telescope (phi : Z -> K) (loop : list Z) : sumL (map (rise phi) (steps loop)) = f0.
Proof.
  destruct loop as [|a l]; [reflexivity|]. unfold steps.
  rewrite pairs_telescope by congruence. cbn [hd]. ring.
Qed.

Lemma sumL_ext {A} (f g : A -> K) (l : list A) : (forall x, In x l -> f x = g x) -> sumL (map f l) = sumL (map g l).
Proof. induction l as [|a l IH]; intros H; cbn [map sumL]; [reflexivity|].
  rewrite (H a (or_introl eq_refl)), IH; [reflexivity|]. intros x Hx. apply H. right. exact Hx. Qed.

(* mesh equation m = 0 as soon as every step of the walk contributes the potential rise across it *)
Theorem mesh_sat (k : lkind) (s : K) (N : list (lelt K)) (edges : list (Z * Z * nat)) (loops : list (list Z))
    (Im Im0 : nat -> K) (m : nat) (phi : Z -> K) :
  (forall ab, In ab (steps (nth m loops [])) -> mesh_step k s N edges loops Im Im0 m ab = rise phi ab) ->
  mesh_residual k s N edges loops Im Im0 m = f0.
Proof.
  intros H. unfold mesh_residual. rewrite (sumL_ext _ (rise phi) _ H). apply steps_telescope.
Qed.

(* when does one step contribute the potential rise?  [phi] is the node potential
   extended to the dummy nodes of the circuit graph (a dummy node is wired to the
   second node of the parallel component it belongs to, so it carries that potential) *)
Definition step_sound (k : lkind) (s : K) (N : list (lelt K)) (edges : list (Z * Z * nat)) (loops : list (list Z))
    (Im Im0 : nat -> K) (m : nat) (phi : Z -> K) (v ib : Z -> K) (ab : Z * Z) : Prop :=
  match edge_lookup edges (fst ab) (snd ab) with
  | None => phi (fst ab) = phi (snd ab)                       (* dummy wire: equipotential *)
  | Some i =>
    exists (l : lelt K) (cl : cname) (c : sctx K),
      nth_error N i = Some l /\ le_n1 l = p0 c /\ le_n2 l = p1 c /\
      (* the walk runs along this element: forward (as the model decides it) with a rise of -(v(n1) - v(n2)),
         or backward with a rise of v(n1) - v(n2) *)
      ((step_fwd l ab = true /\ rise phi ab = fopp (dV01 c v)) \/ (step_fwd l ab = false /\ rise phi ab = dV01 c v)) /\
      (if is_V l then
         (* voltage source: printed value = the value the solver imposes, and the source relation holds *)
         mesh_term true true (veq_of LV k (le_par l) s (Im m) (Im0 m)) = fopp (dV01 c v) /\
         mesh_term true false (veq_of LV k (le_par l) s (Im m) (Im0 m)) = dV01 c v
       else
         (* passive element: soundness of its printed relation at the credited current *)
         let cur := mesh_current edges i (le_n1 l) (le_n2 l) loops Im 0 in
         let cur0 := mesh_current edges i (le_n1 l) (le_n2 l) loops Im0 0 in
         mesh_term false true (veq_of (le_cls l) k (le_par l) s cur cur0) = fopp (dV01 c v) /\
         mesh_term false false (veq_of (le_cls l) k (le_par l) s cur cur0) = dV01 c v)
  end.
Theorem mesh_step_sound k s N edges loops Im Im0 m phi v ib ab :
  step_sound k s N edges loops Im Im0 m phi v ib ab ->
  mesh_step k s N edges loops Im Im0 m ab = rise phi ab.
Proof.
  unfold step_sound, mesh_step. destruct (edge_lookup edges (fst ab) (snd ab)) as [i|].
  - intros [l [cl [c [En [E1 [E2 [Hdir Hrel]]]]]]]. rewrite En.
    destruct Hdir as [[F R]|[F R]]; rewrite F, R; destruct (is_V l); destruct Hrel as [R1 R2]; assumption.
  - intros E. unfold rise. rewrite E. ring.
Qed.
(* the direction premise for a step between the element's own two nodes, and for the step between the first
   node of a parallel element and its dummy node (either way round) *)
Lemma dir_plain (l : lelt K) (c : sctx K) (phi : Z -> K) (v : Z -> K) (ab : Z * Z) :
  le_n1 l = p0 c -> le_n2 l = p1 c -> p0 c <> p1 c -> fsub (phi (p0 c)) (phi (p1 c)) = dV01 c v ->
  ((fst ab = p0 c /\ snd ab = p1 c) \/ (fst ab = p1 c /\ snd ab = p0 c)) ->
  (step_fwd l ab = true /\ rise phi ab = fopp (dV01 c v)) \/ (step_fwd l ab = false /\ rise phi ab = dV01 c v).
Proof.
  intros E1 E2 Hne Hphi [[A B]|[A B]]; unfold step_fwd, rise; rewrite E1, E2, A, B.
  - left. rewrite !Z.eqb_refl. destruct mesh_fwd_first_only; cbn [andb]; split; try reflexivity; rewrite <- Hphi; ring.
  - right. destruct (Z.eqb_spec (p0 c) (p1 c)) as [E|_]; [contradiction|].
    destruct mesh_fwd_first_only; cbn [andb]; split; try reflexivity; rewrite <- Hphi; ring.
Qed.
Lemma dir_dummy (l : lelt K) (c : sctx K) (phi : Z -> K) (v : Z -> K) (ab : Z * Z) (d : Z) :
  mesh_fwd_first_only = true ->
  le_n1 l = p0 c -> d <> p0 c -> phi d = phi (p1 c) -> fsub (phi (p0 c)) (phi (p1 c)) = dV01 c v ->
  ((fst ab = p0 c /\ snd ab = d) \/ (fst ab = d /\ snd ab = p0 c)) ->
  (step_fwd l ab = true /\ rise phi ab = fopp (dV01 c v)) \/ (step_fwd l ab = false /\ rise phi ab = dV01 c v).
Proof.
  intros Hf E1 Hd Hpd Hphi [[A B]|[A B]]; unfold step_fwd, rise; rewrite Hf, E1, A, B.
  - left. rewrite Z.eqb_refl. split; [reflexivity|]. rewrite Hpd, <- Hphi. ring.
  - right. destruct (Z.eqb_spec (p0 c) d) as [E|_]; [symmetry in E; contradiction|].
    split; [reflexivity|]. rewrite Hpd, <- Hphi. ring.
Qed.
Corollary mesh_sat_steps k s N edges loops Im Im0 m phi v ib :
  (forall ab, In ab (steps (nth m loops [])) -> step_sound k s N edges loops Im Im0 m phi v ib ab) ->
  mesh_residual k s N edges loops Im Im0 m = f0.
Proof. intros H. apply (mesh_sat k s N edges loops Im Im0 m phi). intros ab Hab. apply (mesh_step_sound _ _ _ _ _ _ _ _ _ v ib). apply H. exact Hab. Qed.

(* crediting: when a mesh runs along the element at most once, the scan of
   _add_mesh_currents returns the signed count of traversals *)
Fixpoint count_pair (a b : Z) (st : list (Z * Z)) : nat :=
  match st with [] => O | (x, y) :: st' => ((if Z.eqb a x && Z.eqb b y then 1 else 0) + count_pair a b st')%nat end.
Lemma scan_count (n1 n2 : Z) (st : list (Z * Z)) :
  (count_pair n1 n2 st + count_pair n2 n1 st <= 1)%nat ->
  @scan K n1 n2 st = fadd (if Nat.eqb (count_pair n1 n2 st) 1 then mesh_credit_fwd else f0)
                          (if Nat.eqb (count_pair n2 n1 st) 1 then mesh_credit_bwd else f0).
Proof.
  induction st as [|[x y] st IH]; intros H; cbn [scan count_pair] in *; [cbn; ring|].
  destruct (Z.eqb n1 x && Z.eqb n2 y) eqn:F; destruct (Z.eqb n2 x && Z.eqb n1 y) eqn:B; cbn [Nat.add] in *.
  - lia.
  - assert (count_pair n1 n2 st = 0%nat) by lia. assert (count_pair n2 n1 st = 0%nat) by lia.
    rewrite H0, H1. cbn. ring.
  - assert (count_pair n1 n2 st = 0%nat) by lia. assert (count_pair n2 n1 st = 0%nat) by lia.
    rewrite H0, H1. cbn. ring.
  - apply IH. lia.
Qed.
(* crediting by the component itself: when a mesh runs along component i at most once, the scan
   returns the signed traversal (no premise about node names: parallel components are covered) *)
Fixpoint count_e (edges : list (Z * Z * nat)) (i : nat) (n1 : Z) (want_fwd : bool) (st : list (Z * Z)) : nat :=
  match st with
  | [] => O
  | (a, b) :: st' =>
      ((match edge_lookup edges a b with
        | Some j => if Nat.eqb j i && Bool.eqb (Z.eqb n1 a) want_fwd then 1 else 0
        | None => 0 end) + count_e edges i n1 want_fwd st')%nat
  end.
Lemma scan_e_count (edges : list (Z * Z * nat)) (i : nat) (n1 : Z) (st : list (Z * Z)) :
  (count_e edges i n1 true st + count_e edges i n1 false st <= 1)%nat ->
  @scan_e K edges i n1 st = fadd (if Nat.eqb (count_e edges i n1 true st) 1 then mesh_credit_fwd else f0)
                                 (if Nat.eqb (count_e edges i n1 false st) 1 then mesh_credit_bwd else f0).
Proof.
  induction st as [|[a b] st IH]; intros H; cbn [scan_e count_e] in *; [cbn; ring|].
  destruct (edge_lookup edges a b) as [j|]; [|apply IH; exact H].
  destruct (Nat.eqb j i); cbn [andb] in *; [|apply IH; exact H].
  destruct (Z.eqb n1 a); cbn [Bool.eqb Nat.add] in *.
  - assert (count_e edges i n1 true st = 0%nat) by lia. assert (count_e edges i n1 false st = 0%nat) by lia.
    rewrite H0, H1. cbn. ring.
  - assert (count_e edges i n1 true st = 0%nat) by lia. assert (count_e edges i n1 false st = 0%nat) by lia.
    rewrite H0, H1. cbn. ring.
Qed.
End C15mesh.
Print Assumptions steps_telescope.
Print Assumptions mesh_sat.
Print Assumptions mesh_step_sound.
Print Assumptions mesh_sat_steps.
Print Assumptions scan_count.
Print Assumptions scan_e_count.
Print Assumptions dir_plain.
Print Assumptions dir_dummy.
