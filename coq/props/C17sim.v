(* C17 - one-step facts about the companion models of lcapy/simulator.py and the
   generalized bilinear substitution of lcapy/sexpr.py, stated about the
   definitions regenerated from the source (Gen.NumSimGen).

   What is proved (all field elements arbitrary, characteristic 0):
   * the trapezoidal companions are EXACT on every solution whose driving
     quantity is affine in t, and their one-step defect on a quadratic drive
     is  -r h^3/(6 X)  (vanishes like h^3);
   * the backward-Euler companions are exact on constant drives and their
     defect on an affine drive is  -q h^2/(2 X)  (vanishes like h^2);
   * applied to the RC relaxation i = -v/R the trapezoidal step is the (1,1)
     Pade map, which agrees with 1 + z + z^2/2 up to z^3/4;
   * the Thevenin companion emitted by C._r_model / L._r_model realises
     v1 - v2 = Req i + Veq, and `stamp` is the conductance stamp between the
     first node and the dummy node;
   * the generalized bilinear substitution turns 1/s into the quadrature rule
     y_n - y_(n-1) = dt (alpha x_n + (1 - alpha) x_(n-1)), whose defect on an
     affine input is q h^2 (1/2 - alpha): zero exactly for alpha = 1/2.
   NOT proved (named gap): convergence of Simulator.__call__ / response() for
   arbitrary circuits as h -> 0 (needs stability of the assembled MNA
   recursion, numpy.linalg.inv and scipy.signal.lfilter in floating point). *)
From Coq Require Import ZArith List Bool.
Import ListNotations.
Require Import LT.FieldSec LT.NumEval LT.NumEvalSim Gen.NumSimGen.

Section Props.
Variable K : fld.
Add Field KFp : (fth K).
Local Open Scope F_scope.
Notation two := (1 + 1 : K).
Notation three := (1 + (1 + 1) : K).
Ltac sim_field := sim_unfold; pose proof two_nz K; pose proof three_nz K; field; nz.

(* ---- capacitor, i = C dv/dt ------------------------------------------------ *)
(* drive i(t) = p + q t + r t^2; solution v(t) = v0 + (p t + q t^2/2 + r t^3/3)/C;
   w is the (arbitrary) potential of the second node *)
Definition cap_i (p q r t : K) : K := p + q * t + r * t * t.
Definition cap_v (C v0 p q r t : K) : K := v0 + (p * t + q * t * t / two + r * t * t * t / three) / C.

Theorem cap_trap_exact_affine : forall C h v0 p q t w, C <> 0 -> h <> 0 ->
  cap_v C v0 p q 0 (t + h) =
  cap_i p q 0 (t + h) / geq_CT C h + veq_CT C h (cap_v C v0 p q 0 t + w) w (cap_i p q 0 t).
Proof. intros. unfold cap_v, cap_i. sim_field. Qed.

Theorem cap_trap_local_error : forall C h v0 p q r t w, C <> 0 -> h <> 0 ->
  cap_v C v0 p q r (t + h) -
  (cap_i p q r (t + h) / geq_CT C h + veq_CT C h (cap_v C v0 p q r t + w) w (cap_i p q r t)) =
  - (r * h * h * h / (two * three * C)).
Proof. intros. unfold cap_v, cap_i. sim_field. Qed.

Theorem cap_be_local_error : forall C h v0 p q t w, C <> 0 -> h <> 0 ->
  cap_v C v0 p q 0 (t + h) -
  (cap_i p q 0 (t + h) / geq_CB C h + veq_CB C h (cap_v C v0 p q 0 t + w) w (cap_i p q 0 t)) =
  - (q * h * h / (two * C)).
Proof. intros. unfold cap_v, cap_i. sim_field. Qed.

(* ---- inductor, v = L di/dt -------------------------------------------------- *)
Definition ind_v (p q r t : K) : K := p + q * t + r * t * t.
Definition ind_i (L i0 p q r t : K) : K := i0 + (p * t + q * t * t / two + r * t * t * t / three) / L.

(* companion relation solved for the new current: i_n = geq (v_n - veq) *)
Theorem ind_trap_exact_affine : forall L h i0 p q t w, L <> 0 -> h <> 0 ->
  ind_i L i0 p q 0 (t + h) =
  geq_LT L h * (ind_v p q 0 (t + h) - veq_LT L h (ind_v p q 0 t + w) w (ind_i L i0 p q 0 t)).
Proof. intros. unfold ind_v, ind_i. sim_field. Qed.

Theorem ind_trap_local_error : forall L h i0 p q r t w, L <> 0 -> h <> 0 ->
  ind_i L i0 p q r (t + h) -
  geq_LT L h * (ind_v p q r (t + h) - veq_LT L h (ind_v p q r t + w) w (ind_i L i0 p q r t)) =
  - (r * h * h * h / (two * three * L)).
Proof. intros. unfold ind_v, ind_i. sim_field. Qed.

Theorem ind_be_local_error : forall L h i0 p q t w, L <> 0 -> h <> 0 ->
  ind_i L i0 p q 0 (t + h) -
  geq_LB L h * (ind_v p q 0 (t + h) - veq_LB L h (ind_v p q 0 t + w) w (ind_i L i0 p q 0 t)) =
  - (q * h * h / (two * L)).
Proof. intros. unfold ind_v, ind_i. sim_field. Qed.

(* ---- the one-step map on the relaxation i = -v/R ----------------------------- *)
Theorem cap_trap_rc_step : forall R C h vold vnew, R <> 0 -> C <> 0 -> h <> 0 ->
  vnew = (- (vnew / R)) / geq_CT C h + veq_CT C h vold 0 (- (vold / R)) ->
  vnew * (1 + h / (two * R * C)) = vold * (1 - h / (two * R * C)).
Proof.
  intros R C h vold vnew HR HC Hh E.
  assert (HF : (- (vnew / R)) / geq_CT C h + veq_CT C h vold 0 (- (vold / R)) =
               - (vnew * h / (two * R * C)) + vold - vold * h / (two * R * C)) by sim_field.
  rewrite HF in E. clear HF. pose proof (two_nz K).
  assert (E3 : vnew + vnew * h / (two * R * C) = vold - vold * h / (two * R * C)).
  { rewrite E at 1. field. nz. }
  transitivity (vnew + vnew * h / (two * R * C)); [field; nz|]. rewrite E3. field. nz.
Qed.
Theorem pade11_consistent : forall z : K,
  (1 + z / two) - (1 - z / two) * (1 + z + z * z / two) = z * z * z / (two * two).
Proof. intros. pose proof (two_nz K). field. nz. Qed.

(* ---- orientation of the companion and the stamp ------------------------------ *)
Theorem rmodel_C_oriented : companion_ok rmodel_C = true.
Proof. reflexivity. Qed.
Theorem rmodel_L_oriented : companion_ok rmodel_L = true.
Proof. reflexivity. Qed.
Theorem rmodel_C_relation : forall (v : cnode -> K) i Req Veq,
  v (r_from rmodel_C) - v (r_to rmodel_C) = Req * i -> v (v_plus rmodel_C) - v (v_minus rmodel_C) = Veq ->
  v N1 - v N2 = Req * i + Veq.
Proof. apply companion_relation. exact rmodel_C_oriented. Qed.
Theorem rmodel_L_relation : forall (v : cnode -> K) i Req Veq,
  v (r_from rmodel_L) - v (r_to rmodel_L) = Req * i -> v (v_plus rmodel_L) - v (v_minus rmodel_L) = Veq ->
  v N1 - v N2 = Req * i + Veq.
Proof. apply companion_relation. exact rmodel_L_oriented. Qed.
Theorem stamp_is_conductance : forall (g : K) (v : cnode -> K),
  row_sum stamp_A g v N1 = g * (v N1 - v N3) /\
  row_sum stamp_A g v N3 = g * (v N3 - v N1) /\
  row_sum stamp_A g v N2 = 0.
Proof. intros. cbn. repeat split; ring. Qed.

(* ---- the matrix path of Simulator._step (any circuit) -------------------------------------------- *)
(* the entry list regenerated from SimulatedComponent.stamp is the conductance stamp, so in the system
   assembled at step k every reactive component adds exactly the current g_k (x(i1) - x(i3)) to the rows of
   its first node and of its dummy node, with g_k = geq(dt_k) of THAT step *)
Theorem stamp_A_is_std : stamp_A = std_stamp.
Proof. reflexivity. Qed.
Theorem sim_stamped_row : forall (idx : list Z) (A : Z -> Z -> K) (c : rcomp K) (x : Z -> K) (r : Z),
  NoDup idx -> In (rc_i1 K c) idx -> In (rc_i3 K c) idx -> (0 <= rc_i1 K c)%Z -> (0 <= rc_i3 K c)%Z -> rc_i1 K c <> rc_i3 K c ->
  rowdot idx (stamped A stamp_A [c]) x r =
  rowdot idx A x r + (if Z.eqb r (rc_i1 K c) then rc_g K c * (x (rc_i1 K c) - x (rc_i3 K c))
                      else if Z.eqb r (rc_i3 K c) then rc_g K c * (x (rc_i3 K c) - x (rc_i1 K c)) else 0).
Proof. rewrite stamp_A_is_std. apply stamped_row. Qed.

(* ---- generalized bilinear substitution ---------------------------------------- *)
Theorem gbt_integrator : forall alpha dt zi : K, dt <> 0 -> 1 - zi <> 0 -> alpha + (1 - alpha) * zi <> 0 ->
  1 / gbt_s alpha dt zi = dt * (alpha + (1 - alpha) * zi) / (1 - zi).
Proof. intros. sim_unfold. field. nz. Qed.
Theorem gbt_bilinear : forall dt zi : K, dt <> 0 -> 1 + zi <> 0 ->
  gbt_s (1 / two) dt zi = two / dt * (1 - zi) / (1 + zi).
Proof. intros dt zi Hd Hz. pose proof (two_nz K). sim_unfold. field. nz. Qed.
(* the rule y_n = y_(n-1) + h (alpha x_n + (1 - alpha) x_(n-1)) on x = p + q t *)
Theorem gbt_rule_affine_defect : forall alpha h p q t : K,
  (p * (t + h) + q * (t + h) * (t + h) / two) - (p * t + q * t * t / two)
  - h * (alpha * (p + q * (t + h)) + (1 - alpha) * (p + q * t)) = q * h * h * (1 / two - alpha).
Proof. intros. pose proof (two_nz K). field. nz. Qed.
End Props.

Print Assumptions cap_trap_exact_affine.
Print Assumptions cap_trap_local_error.
Print Assumptions cap_be_local_error.
Print Assumptions ind_trap_exact_affine.
Print Assumptions ind_trap_local_error.
Print Assumptions ind_be_local_error.
Print Assumptions cap_trap_rc_step.
Print Assumptions pade11_consistent.
Print Assumptions rmodel_C_relation.
Print Assumptions rmodel_L_relation.
Print Assumptions stamp_is_conductance.
Print Assumptions stamp_A_is_std.
Print Assumptions sim_stamped_row.
Print Assumptions gbt_integrator.
Print Assumptions gbt_bilinear.
Print Assumptions gbt_rule_affine_defect.
