(* C10 — analytic grounding of the Laplace table entries used by the signal
   algebra (coq/theory/ExpPolyAnalysis.v, Coquelicot).  Real p < s only; the
   axioms printed below are the classical real numbers of the standard library. *)
From Coq Require Import Reals.
From Coquelicot Require Import Coquelicot.
Require Import LT.ExpPolyAnalysis.
Open Scope R_scope.

(* int_0^oo (c t^n/n! e^{pt}) e^{-st} dt = c/(s-p)^{n+1} : the image ExpPoly.Lterm assigns to (c, n, p) *)
Theorem C10_laplace_regular_term : forall (c : R) (n : nat) (p s : R), p < s ->
  is_RInt_gen (fun t => (c * (t ^ n / INR (fact n)) * exp (p * t)) * exp (- s * t))
              (at_point 0) (Rbar_locally p_infty) (c / (s - p) ^ (S n)).
Proof. exact laplace_regular_term. Qed.
(* final value: regular terms in the open left half plane vanish at infinity *)
Theorem C10_regular_term_vanishes : forall (c : R) (n : nat) (p : R), p < 0 ->
  is_lim (fun t => c * (t ^ n / INR (fact n)) * exp (p * t)) p_infty 0.
Proof. exact regular_term_vanishes. Qed.
(* initial value: only the n = 0 terms contribute at t = 0 *)
Theorem C10_regular_term_at_0 : forall (c : R) (n : nat) (p : R),
  c * (0 ^ n / INR (fact n)) * exp (p * 0) = match n with O => c | S _ => 0 end.
Proof. exact regular_term_at_0. Qed.
Print Assumptions C10_laplace_regular_term. Print Assumptions C10_regular_term_vanishes. Print Assumptions C10_regular_term_at_0.
