(* C19 — network synthesis realises the requested immittance.
   Property theorems that do not depend on generated code: they quantify over
   ALL tables / specs accepted by the decidable well-formedness tests; the
   tables regenerated from lcapy/synthesis.py are plugged in by Gen/C19_gen.v. *)
Require Import LT.FieldSec LT.PolyQ LT.RatfunCF LT.SynthNet LT.SynthCF LT.SynthPat LT.SynthLadder LT.SynthTerm.
From Coq Require Import String.
Local Open Scope F_scope.

(* evaluating the continued fraction built from the Euclid coefficients gives back N/D
   (exhausted fuel = None is excluded by the premise) *)
Theorem C19_cf_eval_coeffs : forall (K : fld) fuel (N D : list K) qs x,
  cf_coeffs fuel N D = Some qs -> cf_dok qs x -> peval D x <> 0 -> cf_val qs x = peval N x / peval D x.
Proof. exact cf_eval_coeffs. Qed.
Theorem C19_icf_eval_coeffs : forall (K : fld) fuel (N D : list K) qs x,
  icf_run fuel N D = Some qs -> cf_dok qs x -> peval D x <> 0 -> cf_val qs x = peval N x / peval D x.
Proof. exact icf_eval_coeffs. Qed.
(* as identities of rational functions (cross-multiplied, no side condition) *)
Theorem C19_cf_coeffs_ratfun : forall (K : fld) fuel (N D : list K) qs,
  cf_coeffs fuel N D = Some qs -> req (cf_rat qs) (N, D).
Proof. exact cf_coeffs_sound. Qed.
Theorem C19_icf_coeffs_ratfun : forall (K : fld) fuel (N D : list K) qs,
  icf_run fuel N D = Some qs -> req (cf_rat qs) (N, D).
Proof. exact icf_run_sound. Qed.

(* Laurent test used by every pattern realiser *)
Theorem C19_laurent3_sound : forall (K : fld) (a b : list K) c, pzerob b = false -> laurent3 a b = Some c ->
  forall x, x * peval a x = lval c x * peval b x.
Proof. exact laurent3_sound. Qed.

(* any pattern table that is sound on coefficient triples realises n/d, and never anything else *)
Section PatSound.
Variable K : fld.
Add Field KFp : (fth K).
Theorem C19_pattern_sound : forall (p : pat), coeff_sound (K:=K) p ->
  forall (n d : list K) nt x, pattern_run p (n, d) = Ok (Some nt) -> x <> 0 -> peval d x <> 0 -> Zwf nt x ->
  Zev nt x = peval n x / peval d x.
Proof. intros p Hp n d nt x H Hx Hd Hw. pose proof (pattern_sound K p Hp n d (Some nt) x H Hx) as R. cbn [realises] in R.
  rewrite <- (R Hw). field. exact Hd. Qed.
End PatSound.

(* ladder (Cauer) fold: network impedance = continued-fraction value, for any well-formed spec *)
Theorem C19_cauer_realises : forall (K : fld) (sp : ladder), ladder_wfb sp = true ->
  coeff_sound (K:=K) (ls_pat (l_even sp)) -> coeff_sound (K:=K) (ls_pat (l_odd sp)) ->
  forall (N D : list K) nt x, synth_cauer sp N D = Ok (Some nt) -> x <> 0 -> peval D x <> 0 -> Zwf nt x ->
  Zev nt x = peval N x / peval D x.
Proof. exact cauer_sound. Qed.

(* Foster forms, given a partial-fraction certificate that the model re-checks exactly *)
Theorem C19_foster_realises : forall (K : fld) (fs : foster), foster_wfb fs = true -> coeff_sound (K:=K) (f_pat fs) ->
  forall (N D : list K) ts nt x, synth_foster fs N D ts = Ok (Some nt) -> x <> 0 -> peval D x <> 0 ->
  Forall (fun f => peval (snd f) x <> 0) ts -> Zwf nt x -> Zev nt x = peval N x / peval D x.
Proof. exact foster_sound. Qed.

Theorem C19_network_realises : forall (K : fld) dflt tbl, Forall (fun e => method_wf (K:=K) (snd e)) tbl ->
  forall form (N D : list K) ts nt x, network_model dflt tbl form N D ts = Ok (Some nt) -> x <> 0 -> peval D x <> 0 ->
  Forall (fun f => peval (snd f) x <> 0) ts -> Zwf nt x -> Zev nt x = peval N x / peval D x.
Proof. exact network_sound. Qed.

Theorem C19_transform_preserves_Z : forall (K : fld) dflt tbl, Forall (fun e => method_wf (K:=K) (snd e)) tbl ->
  forall (n0 : net K) form ts nt x, transform_model dflt tbl n0 form ts = Ok (Some nt) -> x <> 0 -> Zwf n0 x ->
  Forall (fun f => peval (snd f) x <> 0) ts -> Zwf nt x -> Zev nt x = Zev n0 x.
Proof. exact transform_preserves_Z. Qed.

(* chains of transforms (network -> immittance -> network -> immittance -> ...), of any length and through any
   forms: every link that returns a network preserves the impedance, hence so does the whole chain *)
Inductive tchain (K : fld) (dflt : string) (tbl : list (string * method)) (x : K) : net K -> net K -> Prop :=
| tc_nil : forall n, tchain K dflt tbl x n n
| tc_step : forall n0 form ts n1 n2, transform_model dflt tbl n0 form ts = Ok (Some n1) ->
    Zwf n0 x -> Zwf n1 x -> Forall (fun f => peval (snd f) x <> 0) ts ->
    tchain K dflt tbl x n1 n2 -> tchain K dflt tbl x n0 n2.
Theorem C19_transform_chain_preserves_Z : forall (K : fld) dflt tbl, Forall (fun e => method_wf (K:=K) (snd e)) tbl ->
  forall x (n0 n2 : net K), x <> 0 -> tchain K dflt tbl x n0 n2 -> Zev n2 x = Zev n0 x.
Proof. intros K dflt tbl Ht x n0 n2 Hx H. induction H as [n|n0 form ts n1 n2 H1 W0 W1 Hts _ IH]; [reflexivity|].
  rewrite IH. exact (transform_preserves_Z K dflt tbl Ht n0 form ts n1 x H1 Hx W0 Hts W1). Qed.

(* the impedance expression of a network tree *)
Theorem C19_Zrat_eval : forall (K : fld) (n : net K) x, Zwf n x ->
  peval (snd (Zrat n)) x <> 0 /\ Zev n x = rat_eval (Zrat n) x.
Proof. exact Zrat_eval. Qed.

(* the executable non-degeneracy test used by the correspondence evaluation is sound *)
Theorem C19_Zwfb_sound : forall (K : fld) (n : net K) x, Zwfb n x = true -> Zwf n x.
Proof. exact Zwfb_sound. Qed.

(* ---- termination of the Euclid loops: no refusal of the Cauer models is due to the fuel ---- *)
(* continued_fraction_coeffs: above the degree-sum measure the result does not depend on the fuel
   (a None is then a genuine PolynomialError step, not exhaustion) *)
Theorem C19_cf_coeffs_fuel_irrelevant : forall (K : fld) f1 f2 (N D : list K), pzerob N = false -> pzerob D = false ->
  (psize N + psize D < f1)%nat -> (psize N + psize D < f2)%nat -> cf_coeffs f1 N D = cf_coeffs f2 N D.
Proof. exact cf_coeffs_fuel_irrelevant. Qed.
(* continued_fraction_inverse_coeffs always terminates with a coefficient list *)
Theorem C19_icf_run_terminates : forall (K : fld) f (N D : list K), pzerob N = false -> pzerob D = false ->
  (4 * Nat.max (psize N) (psize D) + 1 < f)%nat -> exists qs, icf_run f N D = Some qs.
Proof. exact icf_run_terminates. Qed.
Theorem C19_icf_run_fuel_irrelevant : forall (K : fld) f1 f2 (N D : list K), pzerob N = false -> pzerob D = false ->
  (4 * Nat.max (psize N) (psize D) + 1 < f1)%nat -> (4 * Nat.max (psize N) (psize D) + 1 < f2)%nat ->
  icf_run f1 N D = icf_run f2 N D.
Proof. exact icf_run_fuel_irrelevant. Qed.
(* the Cauer model run with any larger fuel gives the same network / the same refusal *)
Theorem C19_synth_cauer_fuel_independent : forall (K : fld) (sp : ladder) (N D : list K) fuel, (cf_fuel N D <= fuel)%nat ->
  synth_cauer_fuel fuel sp N D = synth_cauer sp N D.
Proof. exact synth_cauer_fuel_independent. Qed.
Theorem C19_synth_cauer_icf_total : forall (K : fld) (sp : ladder) (N D : list K), pzerob N = false -> pzerob D = false ->
  exists qs, icf_run (cf_fuel N D) (if l_src_inv sp then D else N) (if l_src_inv sp then N else D) = Some qs.
Proof. exact synth_cauer_icf_total. Qed.

Print Assumptions C19_cf_coeffs_fuel_irrelevant.
Print Assumptions C19_icf_run_terminates.
Print Assumptions C19_icf_run_fuel_irrelevant.
Print Assumptions C19_synth_cauer_fuel_independent.
Print Assumptions C19_synth_cauer_icf_total.
Print Assumptions C19_cf_eval_coeffs.
Print Assumptions C19_icf_eval_coeffs.
Print Assumptions C19_cf_coeffs_ratfun.
Print Assumptions C19_icf_coeffs_ratfun.
Print Assumptions C19_laurent3_sound.
Print Assumptions C19_pattern_sound.
Print Assumptions C19_cauer_realises.
Print Assumptions C19_foster_realises.
Print Assumptions C19_network_realises.
Print Assumptions C19_transform_preserves_Z.
Print Assumptions C19_transform_chain_preserves_Z.
Print Assumptions C19_Zrat_eval.
Print Assumptions C19_Zwfb_sound.
