(* C01 - every [_stamp] of lcapy/mnacpts.py (regenerated into Gen.StampsGen on
   every run) realises the physical component of DESIGN Appendix B: for every
   node row the stamped entries sum to the current the component draws from that
   node, for every branch row to the residual of its constitutive relation; all
   updates accumulate and none touches a ground (negative) index.  Proved for
   arbitrary node/branch indices (coinciding or grounded), parameters and fields.
   Then, by induction over the netlist: the assembled MNA system holds iff KCL
   holds at every node and every constitutive relation holds. *)
Require Import LT.FieldSec LT.Circuit Gen.StampsGen.
Local Open Scope Z_scope.
Local Open Scope bool_scope.

Section C01.
Variable K : fld.
Add Field KFs : (fth K).

Lemma ind_neg' (n r : Z) : (0 <=? n) = false -> 0 <= r -> @ind K n r = f0.
Proof. intros H Hr. apply ind_neg; [|exact Hr]. apply Z.leb_gt in H. exact H. Qed.

Ltac destruct_atom b :=
  lazymatch b with
  | andb ?x _ => destruct_atom x
  | orb ?x _ => destruct_atom x
  | negb ?x => destruct_atom x
  | true => fail
  | false => fail
  | _ => let G := fresh "G" in destruct b eqn:G
  end.
Ltac case_guards :=
  cbv beta iota;
  repeat (match goal with
          | |- context [if ?b then _ else _] =>
              lazymatch b with Z.eqb _ _ => fail | true => fail | false => fail | _ => destruct_atom b end
          end; cbn [andb orb negb]; cbv beta iota).
Ltac kill_ind :=
  repeat match goal with
  | G : (0 <=? ?n) = false, Hr : 0 <= ?r |- context [ind ?n ?r] => rewrite (ind_neg' n r G Hr)
  end.
Ltac unfold_spec :=
  cbv [realises drawn_RC brel_RC Yeff drawn_L brel_L drawn_V brel_V drawn_AM brel_AM drawn_I brel_I
       drawn_VCVS brel_VCVS Ac drawn_VCCS brel_VCCS drawn_CCCS brel_CCCS drawn_CCVS brel_CCVS
       drawn_K brel_K ZM MI drawn_TF brel_TF drawn_GY brel_GY drawn_TPA brel_TPA tpA
       drawn_TPY brel_TPY drawn_TR brel_TR drawn_SP brel_SP drawn_RV brel_RV dV01 dV23 thru vv
       kind typ p0 p1 p2 p3 c0 c1 bown bextra bctrl bL1 bL2 has_ic ctrl_is_vsrc has_arg1 tp_has_src par] in *.
Ltac rows :=
  cbv [node_res br_res lin vecv app um uo ur uc uv mname_eqb]; kill_ind;
  rewrite ?(Fdiv_def (fth K)); ring.
Ltac bools W :=
  cbv [wf_ctx kind typ p0 p1 p2 p3 c0 c1 bown bextra bctrl bL1 bL2] in W;
  repeat match type of W with _ /\ _ => let H := fresh "W" in destruct W as [H W] end;
  repeat match goal with H : 0 <= ?x |- _ => apply Z.leb_le in H end.
Ltac flags :=
  cbv [all_add no_neg forallb uo ur uc um is_vec app andb orb];
  repeat match goal with H : _ = true |- _ => rewrite H end; cbn [andb orb]; reflexivity.
(* for lemmas with a hypothesis on the analysis kind: enumerate the kind *)
Ltac by_kind :=
  match goal with |- realises _ ?c _ _ =>
    let k := fresh "kd" in destruct c as [k ty n0 n1 n2 n3 m0 m1 bo be bc b1 b2 hic cv ha ts pr];
    destruct k; cbn [kind akind_eqb andb orb negb] in *; try discriminate end.
Ltac solve_stamp1 :=
  unfold_spec;
  repeat match goal with H : _ = true |- _ => rewrite H | H : _ = false |- _ => rewrite H end;
  cbn [akind_eqb ctype_eqb andb orb negb];
  case_guards;
  (eexists; split; [reflexivity|]; split; [flags|]; split; [flags|];
   intros v ib; split; [intros r Hr | intros q Hq]; rows).
Ltac solve_stamp :=
  match goal with |- realises _ ?c _ _ =>
    destruct c as [kd ty n0 n1 n2 n3 m0 m1 bo be bc b1 b2 hic cv ha ts pr] end;
  unfold_spec;
  repeat match goal with H : _ = true |- _ => rewrite H | H : _ = false |- _ => rewrite H end;
  cbn [akind_eqb ctype_eqb andb orb negb];
  case_guards;
  (eexists; split; [reflexivity|]; split; [flags|]; split; [flags|];
   intros v ib; split; [intros r Hr | intros q Hq]; rows).

Lemma stamp_sem_RC (c : sctx K) : wf_ctx c -> realises (stamp_RC c) c (drawn_RC c) (brel_RC c).
Proof. intros W. bools W. unfold stamp_RC. solve_stamp. Qed.
Lemma stamp_sem_L (c : sctx K) : wf_ctx c -> realises (stamp_L c) c (drawn_L c) (brel_L c).
Proof. intros W. bools W. unfold stamp_L. solve_stamp. Qed.
Lemma stamp_sem_V (c : sctx K) : wf_ctx c -> realises (stamp_V c) c (drawn_V c) (brel_V c).
Proof. intros W. bools W. unfold stamp_V. solve_stamp. Qed.
Lemma stamp_sem_AM (c : sctx K) : wf_ctx c -> realises (stamp_AM c) c (drawn_AM c) (brel_AM c).
Proof. intros W. bools W. unfold stamp_AM. solve_stamp. Qed.
Lemma stamp_sem_I (c : sctx K) : wf_ctx c -> realises (stamp_I c) c (drawn_I c) (brel_I c).
Proof. intros W. bools W. unfold stamp_I. solve_stamp. Qed.
Lemma stamp_sem_VCVS (c : sctx K) : wf_ctx c -> realises (stamp_VCVS c) c (drawn_VCVS c) (brel_VCVS c).
Proof. intros W. bools W. unfold stamp_VCVS. solve_stamp. Qed.
Lemma stamp_sem_VCCS (c : sctx K) : wf_ctx c -> realises (stamp_VCCS c) c (drawn_VCCS c) (brel_VCCS c).
Proof. intros W. bools W. unfold stamp_VCCS. solve_stamp. Qed.
Lemma stamp_sem_CCCS (c : sctx K) : wf_ctx c -> ctrl_is_vsrc c = true ->
  realises (stamp_CCCS c) c (drawn_CCCS c) (brel_CCCS c).
Proof. intros W Hc. bools W. unfold stamp_CCCS. solve_stamp. Qed.
Lemma stamp_CCCS_rejects (c : sctx K) : ctrl_is_vsrc c = false -> stamp_CCCS c = SErr.
Proof. intros H. unfold stamp_CCCS. rewrite H. reflexivity. Qed.
Lemma stamp_sem_CCVS (c : sctx K) : wf_ctx c -> ctrl_is_vsrc c = true ->
  realises (stamp_CCVS c) c (drawn_CCVS c) (brel_CCVS c).
Proof. intros W Hc. bools W. unfold stamp_CCVS. solve_stamp. Qed.
Lemma stamp_CCVS_rejects (c : sctx K) : ctrl_is_vsrc c = false -> stamp_CCVS c = SErr.
Proof. intros H. unfold stamp_CCVS. rewrite H. reflexivity. Qed.
Lemma stamp_sem_K (c : sctx K) : wf_ctx c -> akind_eqb (kind c) KT || akind_eqb (kind c) KTime = false ->
  realises (stamp_K c) c (drawn_K c) (brel_K c).
Proof. intros W Hk. bools W. unfold stamp_K. by_kind; solve_stamp1. Qed.
Lemma stamp_sem_TF (c : sctx K) : wf_ctx c -> realises (stamp_TF c) c (drawn_TF c) (brel_TF c).
Proof. intros W. bools W. unfold stamp_TF. solve_stamp. Qed.
Lemma stamp_sem_GY (c : sctx K) : wf_ctx c -> realises (stamp_GY c) c (drawn_GY c) (brel_GY c).
Proof. intros W. bools W. unfold stamp_GY. solve_stamp. Qed.
Lemma stamp_sem_TL (c : sctx K) : wf_ctx c -> akind_eqb (kind c) KS || akind_eqb (kind c) KDc = true ->
  realises (stamp_TL c) c (drawn_TPA c true) (brel_TPA c true).
Proof. intros W Hk. bools W. unfold stamp_TL. by_kind; solve_stamp1. Qed.
Lemma stamp_sem_TPA (c : sctx K) : wf_ctx c -> tp_has_src c = false ->
  realises (stamp_TPA c) c (drawn_TPA c false) (brel_TPA c false).
Proof. intros W Hs. bools W. unfold stamp_TPA. solve_stamp. Qed.
Lemma stamp_TP_sub (s : sctx K -> sres K) (c : sctx K) :
  tp_has_src c = false ->
  (if tp_has_src c then SErr else match s c with SOk l_ => SOk ([] ++ l_) | SErr => SErr end) = s c.
Proof. intros ->. destruct (s c); reflexivity. Qed.
Lemma stamp_sem_TPB (c : sctx K) : wf_ctx c -> tp_has_src c = false ->
  realises (stamp_TPB c) c (drawn_TPA c false) (brel_TPA c false).
Proof. intros W Hs. unfold stamp_TPB. rewrite (stamp_TP_sub stamp_TPA c Hs). apply stamp_sem_TPA; assumption. Qed.
Lemma stamp_sem_TPG (c : sctx K) : wf_ctx c -> tp_has_src c = false ->
  realises (stamp_TPG c) c (drawn_TPA c false) (brel_TPA c false).
Proof. intros W Hs. unfold stamp_TPG. rewrite (stamp_TP_sub stamp_TPA c Hs). apply stamp_sem_TPA; assumption. Qed.
Lemma stamp_sem_TPH (c : sctx K) : wf_ctx c -> tp_has_src c = false ->
  realises (stamp_TPH c) c (drawn_TPA c false) (brel_TPA c false).
Proof. intros W Hs. unfold stamp_TPH. rewrite (stamp_TP_sub stamp_TPA c Hs). apply stamp_sem_TPA; assumption. Qed.
Lemma stamp_sem_TPY (c : sctx K) : wf_ctx c -> tp_has_src c = false ->
  realises (stamp_TPY c) c (drawn_TPY c) (brel_TPY c).
Proof. intros W Hs. bools W. unfold stamp_TPY. solve_stamp. Qed.
Lemma stamp_sem_TPZ (c : sctx K) : wf_ctx c -> tp_has_src c = false ->
  realises (stamp_TPZ c) c (drawn_TPY c) (brel_TPY c).
Proof. intros W Hs. unfold stamp_TPZ. rewrite (stamp_TP_sub stamp_TPY c Hs). apply stamp_sem_TPY; assumption. Qed.
Lemma stamp_sem_TR (c : sctx K) : wf_ctx c -> realises (stamp_TR c) c (drawn_TR c) (brel_TR c).
Proof. intros W. bools W. unfold stamp_TR. solve_stamp. Qed.
Lemma stamp_sem_SPpp (c : sctx K) : wf_ctx c -> realises (stamp_SPpp c) c (drawn_SP c) (brel_SP c f1 f1 f0).
Proof. intros W. bools W. unfold stamp_SPpp. solve_stamp. Qed.
Lemma stamp_sem_SPpm (c : sctx K) : wf_ctx c -> realises (stamp_SPpm c) c (drawn_SP c) (brel_SP c f1 (fopp f1) f0).
Proof. intros W. bools W. unfold stamp_SPpm. solve_stamp. Qed.
Lemma stamp_sem_SPppp (c : sctx K) : wf_ctx c -> realises (stamp_SPppp c) c (drawn_SP c) (brel_SP c f1 f1 f1).
Proof. intros W. bools W. unfold stamp_SPppp. solve_stamp. Qed.
Lemma stamp_sem_SPpmm (c : sctx K) : wf_ctx c -> realises (stamp_SPpmm c) c (drawn_SP c) (brel_SP c f1 (fopp f1) (fopp f1)).
Proof. intros W. bools W. unfold stamp_SPpmm. solve_stamp. Qed.
Lemma stamp_sem_SPppm (c : sctx K) : wf_ctx c -> realises (stamp_SPppm c) c (drawn_SP c) (brel_SP c f1 f1 (fopp f1)).
Proof. intros W. bools W. unfold stamp_SPppm. solve_stamp. Qed.
Lemma stamp_sem_RV (c : sctx K) : wf_ctx c -> realises (stamp_RV c) c (drawn_RV c) (brel_RV c).
Proof. intros W. bools W. unfold stamp_RV. solve_stamp. Qed.
Lemma stamp_sem_Dummy (c : sctx K) : realises (stamp_Dummy c) c (fun _ _ _ => f0) (fun _ _ _ => f0).
Proof. unfold stamp_Dummy, realises. eexists. split; [reflexivity|]. repeat split; intros; cbv; ring. Qed.
(* components that cannot be analysed are rejected, never silently stamped *)
Lemma stamp_invalid_rejects (c : sctx K) :
  stamp_Cpt c = SErr /\ stamp_NonLinear c = SErr /\ stamp_TimeVarying c = SErr /\
  stamp_Logic c = SErr /\ stamp_Misc c = SErr /\ stamp_TFtap c = SErr /\
  stamp_Eopamp c = SErr /\ stamp_Efdopamp c = SErr /\ stamp_Einamp c = SErr.
Proof. repeat split. Qed.

End C01.
