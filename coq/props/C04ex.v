(* C04 - refutation of the un-patched impedance() probe (DESIGN 6-F2): a concrete
   netlist on which the probe model WITHOUT killing of initial conditions reads
   a value different from the driving-point impedance of the killed network. *)
Require Import LT.FieldSec LT.Circuit LT.MNA LT.Thevenin Gen.StampsGen Gen.C01model Gen.C04model Gen.C04.
Local Open Scope Z_scope.
Ltac qc_dec := apply (proj1 (qc_eqb_eq _ _)); vm_compute; reflexivity.

(* ---- 7. without killing the initial conditions the probe is wrong -------------- *)
(* V1 1 0 step 5; R1 1 2 2; C1 2 0 3 4  seen from (2, 0), at s = 1 (nodes 1, 2 -> rows 0, 1):
   with the initial condition of C1 kept, "impedance" reads 26/7 = 13/(3(s+1/6)),
   the driving-point impedance of the killed network is 2/7 = 1/(3(s+1/6)) *)
Definition f2_net : netlist QcF :=
  [(cV, @ctx2 QcF KIvp 0 (-1) 0 (qc 5 1) 0%Qc 0%Qc);
   (cRC, SCtx QcF KIvp TyOtherType 0 1 (-1) (-1) (-1) (-1) 0 0 0 0 0 false false false false
           (fun n => match n with pY => qc 1 2 | _ => 0%Qc end));
   (cRC, SCtx QcF KIvp TyC 1 (-1) (-1) (-1) (-1) (-1) 0 0 0 0 0 true false true false
           (fun n => match n with pY => qc 3 1 | pIsc => qc 12 1 | _ => 0%Qc end))].
Definition f2_v (x : Qc) : Z -> Qc := fun n => if Z.eqb n 1 then x else 0%Qc.
Definition f2_ib (x : Qc) : Z -> Qc := fun n => if Z.eqb n 0 then x else 0%Qc.

Add Field QcFld : (fth QcF).
Lemma indq_ne (a b : Z) : a <> b -> @ind QcF a b = @f0 QcF.
Proof. intros H. unfold ind. destruct (Z.eqb_spec a b); [contradiction | reflexivity]. Qed.
Ltac f2_unfold :=
  cbv [kcl crel m_apply_test_current m_kill m_kill1 f2_net map app is_indep fst snd sumK drawn_of brel_of
       drawn_V drawn_RC drawn_I brel_V brel_RC brel_I Yeff dV01 thru vv zero_ctx drop_ic ctx2 m_test_I
       kind typ p0 p1 bown has_ic par zero_par akind_eqb ctype_eqb andb f2_v f2_ib
       Z.leb Z.compare Z.eqb Pos.eqb Pos.compare Pos.compare_cont].
Lemma f2_phys (ics : bool) (x : Qc) :
  x = (if ics then qc 2 7 else qc 26 7) ->
  phys (m_apply_test_current ics KIvp f2_net 1 (-1)) (f2_v x) (f2_ib (Qcdiv x (qc 2 1))).
Proof.
  intros ->. split; intros r Hr.
  - destruct (Z.eq_dec r 0) as [->|N0]; [destruct ics; qc_dec|].
    destruct (Z.eq_dec r 1) as [->|N1]; [destruct ics; qc_dec|].
    destruct ics; f2_unfold; rewrite !(indq_ne 0 r), !(indq_ne 1 r), !(indq_ne (-1) r) by lia; ring.
  - destruct (Z.eq_dec r 0) as [->|N0]; [destruct ics; qc_dec|].
    destruct ics; f2_unfold; rewrite !(indq_ne 0 r) by lia; ring.
Qed.
Theorem impedance_kills_ics_refuted :
  exists (N : netlist QcF) (p m : Z) v ib v' ib',
    phys (m_apply_test_current false KIvp N p m) v ib /\      (* what the probe solves when ICs are kept *)
    phys (m_apply_test_current true KIvp N p m) v' ib' /\     (* the killed network with the test current *)
    pv p m v <> pv p m v'.
Proof.
  exists f2_net, 1, (-1), (f2_v (qc 26 7)), (f2_ib (Qcdiv (qc 26 7) (qc 2 1))), (f2_v (qc 2 7)), (f2_ib (Qcdiv (qc 2 7) (qc 2 1))).
  split; [apply (f2_phys false); reflexivity|]. split; [apply (f2_phys true); reflexivity|].
  apply qc_neq. vm_compute. reflexivity.
Qed.

Print Assumptions impedance_kills_ics_refuted.
