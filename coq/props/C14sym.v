(* C14 - a SYMBOLIC angular frequency (omega_0, w1, ...) kept as an indeterminate.
   The quantities of an ac sub-netlist whose frequency is a symbol are rational functions of the
   symbol; the correspondence compares them with the model at rational sample points.
   theory/PhasorSym.v: a rational-function identity is decided by more distinct points than the
   cross-multiplied degree (poly_vanishes_from_points, rat_points_determine, sympoints_decide).
   Here: the immittance the regenerated table gives at s = j w IS such a rational function of w, of
   degree at most one over one (leafZ_rat_spec), so that agreement with the rational function the real
   code reports at the guarded sample points is agreement for every w (leaf_Z_sampling). *)
Require Import LT.FieldSec LT.PolyQ LT.PhasorSym LT.Circuit LT.PhasorHom LT.PhasorTime.
Require Import Gen.ImmittanceGen Gen.C14imm.
From Coq Require Import List Lia.
Import ListNotations.
Local Open Scope F_scope.

Section SymImm.
Variable K : fld.
Add Field KFsy : (fth K).
Variable pw : K -> K -> K.

(* impedance of a leaf at s = j w as (numerator, denominator) coefficient lists in w, lowest power first *)
Definition leafZ_rat (l : leaf) (j a0 : K) : @rat K :=
  match l with
  | lfR | lfZ => ([a0], [1])
  | lfG | lfY => ([1], [a0])
  | lfL => ([0; j * a0], [1])
  | lfC => ([1], [0; j * a0])
  | lfCPE => ([0], [1])
  end.
Lemma leafZ_rat_len l j a0 : (length (fst (leafZ_rat l j a0)) <= 2 /\ length (snd (leafZ_rat l j a0)) <= 2)%nat.
Proof. destruct l; cbn; lia. Qed.

Theorem leafZ_rat_spec l j w a0 a1 : l <> lfCPE -> peval (snd (leafZ_rat l j a0)) w <> 0 ->
  leaf_Z pw l (j * w) a0 a1 = Some (rat_eval (leafZ_rat l j a0) w).
Proof. intros Hl Hd. rewrite leaf_Z_textbook. f_equal. unfold rat_eval.
  pose proof (one_nz K) as H1.
  destruct l; cbn [leafZ_rat fst snd peval spec_Z] in *; try congruence.
  - field; repeat split; auto.
  - assert (a0 <> 0). { intros E. apply Hd. rewrite E. ring. } field; repeat split; auto.
  - field; repeat split; auto.
  - assert (j * w * a0 <> 0). { intros E. apply Hd. transitivity (j * w * a0); [ring | exact E]. }
    assert (j <> 0) by (intros E; apply H; rewrite E; ring).
    assert (w <> 0) by (intros E; apply H; rewrite E; ring).
    assert (a0 <> 0) by (intros E; apply H; rewrite E; ring).
    field; repeat split; auto.
  - assert (a0 <> 0). { intros E. apply Hd. rewrite E. ring. } field; repeat split; auto.
  - field; repeat split; auto.
Qed.

(* agreement at the guarded sample points with the rational function g reported by the real code is
   agreement at every w (where both denominators are non-zero) *)
Theorem leaf_Z_sampling l j a0 a1 (g : @rat K) bound xs :
  l <> lfCPE -> sympoints_ok bound xs = true ->
  (2 + Nat.max (length (fst g)) (length (snd g)) <= S bound)%nat ->
  (forall r, In r xs -> peval (snd (leafZ_rat l j a0)) r <> 0 /\ peval (snd g) r <> 0 /\
                        leaf_Z pw l (j * r) a0 a1 = Some (rat_eval g r)) ->
  forall w, peval (snd (leafZ_rat l j a0)) w <> 0 -> peval (snd g) w <> 0 ->
            leaf_Z pw l (j * w) a0 a1 = Some (rat_eval g w).
Proof. intros Hl G Hb Hr w Hf Hg. rewrite (leafZ_rat_spec l j w a0 a1 Hl Hf). f_equal.
  apply (sympoints_decide K (leafZ_rat l j a0) g bound xs G); [| | exact Hf | exact Hg].
  - pose proof (leafZ_rat_len l j a0). lia.
  - intros r Hin. destruct (Hr r Hin) as (H1 & H2 & H3). split; [exact H1|]. split; [exact H2|].
    rewrite (leafZ_rat_spec l j r a0 a1 Hl H1) in H3. congruence.
Qed.
End SymImm.

Print Assumptions squot_spec.
Print Assumptions poly_vanishes_from_points.
Print Assumptions poly_eq_from_points.
Print Assumptions rat_points_determine.
Print Assumptions rat_points_determine_eval.
Print Assumptions cross_len_le.
Print Assumptions sympoints_sound.
Print Assumptions sympoints_decide.
Print Assumptions leafZ_rat_spec.
Print Assumptions leaf_Z_sampling.
