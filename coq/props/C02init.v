(* C02init - model of the hand-over of the reactive state performed by
     NetlistMixin._initialize_from_circuit (lcapy/netlistmixin.py)  and
     Cpt._initialize / C._initialize / L._initialize (lcapy/mnacpts.py)
   which Netlist.convert_IVP calls once per switching instant:  cct.initialize(before, T).

   The translator tools/tr_initialize.py reads the CURRENT source into an [initdef] (which waveform of which
   circuit is read for which component type, at which time, and what _initialize writes); this file is pasted
   in front of the generated definition [init_gen] (Gen/C02_init.v), followed by the generated theorems
     init_gen_ok                          init_gen = init_ok_def
     initialize_gen_hands_over_state      [initialize_hands_over_state] for init_gen.

   SPECIFICATION: the state variable of a capacitor is its voltage, of an inductor its current; every reactive
   component of the new netlist that is a reactance of `before` gets as initial condition the state variable of the
   SAME-NAMED component of `before`, evaluated at T; its value, name, kind and position are unchanged; every other
   reactive component gets a zero initial condition; non-reactive components are copied.  Axiom-free. *)
From Coq Require Import List Bool Qcanon.
Import ListNotations.

Inductive ckind := KC | KL | KOther.            (* capacitor, inductor, anything else *)
Inductive wave := WV | WI.                      (* voltage across / current through *)
Inductive circ := FromBefore | FromSelf.        (* whose solution is read: the circuit handed in (`cct`) or the netlist being initialised (`self`) *)
Inductive evalpt := AtT | AtZero.
Inductive icarg := IcGiven | IcZero | IcKeep.   (* what `_initialize(ic)` writes into the initial-condition slot *)

Record initdef := InitDef {
  id_wave_C : wave;               (* waveform read when cpt.type == 'C' *)
  id_wave_other : wave;           (* waveform read for the other reactances *)
  id_source : circ;               (* cct[cpt.name] or self[cpt.name] *)
  id_point : evalpt;              (* .subs(T) *)
  id_strip_condition : bool;      (* .remove_condition() before the substitution *)
  id_C_init : icarg * bool;       (* C._initialize: (initial-condition slot, keeps args[0]) *)
  id_L_init : icarg * bool;
  id_base_copies : bool           (* Cpt._initialize returns self._copy() *)
}.
Definition init_ok_def : initdef := InitDef WV WI FromBefore AtT true (IcGiven, true) (IcGiven, true) true.

Section Init.
Variable name : Type.
Variable X : Type.
Variable zero : X.
(* the solved waveform of a component of either circuit as a function of time (condition t >= 0 stripped) *)
Variable sol : circ -> name -> wave -> Qc -> X.
Variable reactance_of_before : name -> bool.
Record cpt := Cpt { c_kind : ckind; c_name : name; c_val : X; c_ic : option X }.

Definition pt (d : initdef) (T : Qc) : Qc := match id_point d with AtT => T | AtZero => 0%Qc end.
Definition ic_of (d : initdef) (c : cpt) (T : Qc) : X :=
  if reactance_of_before (c_name c)
  then sol (id_source d) (c_name c) (match c_kind c with KC => id_wave_C d | _ => id_wave_other d end) (pt d T)
  else zero.
Definition write (a : icarg * bool) (c : cpt) (ic : X) : cpt :=
  Cpt (c_kind c) (c_name c) (if snd a then c_val c else ic)
      (match fst a with IcGiven => Some ic | IcZero => Some zero | IcKeep => c_ic c end).
Definition init_cpt (d : initdef) (c : cpt) (T : Qc) : cpt :=
  match c_kind c with
  | KC => write (id_C_init d) c (ic_of d c T)
  | KL => write (id_L_init d) c (ic_of d c T)
  | KOther => if id_base_copies d then c else write (IcGiven, true) c (ic_of d c T)
  end.
Definition initialize (d : initdef) (net : list cpt) (T : Qc) : list cpt := map (fun c => init_cpt d c T) net.

Definition state_wave (k : ckind) : wave := match k with KC => WV | _ => WI end.
Definition spec_cpt (c : cpt) (T : Qc) : cpt :=
  match c_kind c with
  | KOther => c
  | _ => Cpt (c_kind c) (c_name c) (c_val c)
             (Some (if reactance_of_before (c_name c) then sol FromBefore (c_name c) (state_wave (c_kind c)) T else zero))
  end.

Theorem initialize_ok_spec net T : initialize init_ok_def net T = map (fun c => spec_cpt c T) net.
Proof. unfold initialize. apply map_ext. intros [k n v i]. unfold init_cpt, spec_cpt, write, ic_of, pt. cbn. destruct k; reflexivity. Qed.
Theorem initialize_keeps_structure net T :
  map (fun c => (c_kind c, c_name c, c_val c)) (initialize init_ok_def net T) = map (fun c => (c_kind c, c_name c, c_val c)) net.
Proof. rewrite initialize_ok_spec, map_map. apply map_ext. intros [k n v i]. unfold spec_cpt. cbn. destruct k; reflexivity. Qed.
(* the initial condition handed to every reactive component is the previous interval's state variable at T *)
Theorem initialize_hands_over_state net T c : In c net -> c_kind c <> KOther -> reactance_of_before (c_name c) = true ->
  In (Cpt (c_kind c) (c_name c) (c_val c) (Some (sol FromBefore (c_name c) (state_wave (c_kind c)) T))) (initialize init_ok_def net T).
Proof. intros Hin Hk Hr. rewrite initialize_ok_spec. apply in_map_iff. exists c. split; [|exact Hin].
  unfold spec_cpt. rewrite Hr. destruct (c_kind c); [reflexivity | reflexivity | congruence]. Qed.
Theorem initialize_zero_for_new_reactances net T c : In c net -> c_kind c <> KOther -> reactance_of_before (c_name c) = false ->
  In (Cpt (c_kind c) (c_name c) (c_val c) (Some zero)) (initialize init_ok_def net T).
Proof. intros Hin Hk Hr. rewrite initialize_ok_spec. apply in_map_iff. exists c. split; [|exact Hin].
  unfold spec_cpt. rewrite Hr. destruct (c_kind c); [reflexivity | reflexivity | congruence]. Qed.
(* negative controls: reading the wrong waveform, the wrong circuit or the wrong instant is NOT the specification *)
Theorem wrong_wave_refuted : init_ok_def <> InitDef WI WI FromBefore AtT true (IcGiven, true) (IcGiven, true) true.
Proof. discriminate. Qed.
End Init.
