(* C18 — statements about the tables regenerated from the Lcapy sources
   (Gen.QuantityGen.T): each is decided for the WHOLE finite table / type by
   vm_compute of a boolean check and lifted to the quantified statement. *)
From Coq Require Import ZArith List Bool Lia.
Import ListNotations.
Require Import LT.QuantityBase LT.QuantityModel.
Require Import Gen.QuantityGen.
Local Open Scope Z_scope.

Definition opt_q_eqb (a b : option quantity) : bool :=
  match a, b with Some x, Some y => qeqb x y | None, None => true | _, _ => false end.
Lemma opt_q_eqb_eq : forall a b, opt_q_eqb a b = true -> a = b.
Proof. intros [x|] [y|]; simpl; try discriminate; auto. intros H; apply qeqb_eq in H; congruence. Qed.

Lemma forall_q : forall P : quantity -> bool, forallb P all_quantities = true -> forall q, P q = true.
Proof. intros P H q. exact (forallb_In _ P _ H q (all_quantities_complete q)). Qed.
Lemma forall_d : forall P : domain -> bool, forallb P all_domains = true -> forall d, P d = true.
Proof. intros P H d. exact (forallb_In _ P _ H d (all_domains_complete d)). Qed.

(* ---- every entry of the multiplication / division table has the SI dimension
        implied by its operands -------------------------------------------------- *)
Definition mul_entry_ok (e : tq * tq * tq) : bool :=
  let '(a, b, c) := e in ueqb (tqdim c) (uadd (tqdim a) (tqdim b)).
Definition div_entry_ok (e : tq * tq * tq) : bool :=
  let '(a, b, c) := e in ueqb (tqdim c) (usub (tqdim a) (tqdim b)).

Theorem mul_table_dim : forall a b c, In (a, b, c) (mul_tab T) -> tqdim c = uadd (tqdim a) (tqdim b).
Proof.
  assert (H : forallb mul_entry_ok (mul_tab T) = true) by (vm_cast_no_check (eq_refl true)).
  intros a b c Hin. apply ueqb_eq. exact (forallb_In _ mul_entry_ok _ H (a, b, c) Hin).
Qed.

Theorem div_table_dim : forall a b c, In (a, b, c) (div_tab T) -> tqdim c = usub (tqdim a) (tqdim b).
Proof.
  assert (H : forallb div_entry_ok (div_tab T) = true) by (vm_cast_no_check (eq_refl true)).
  intros a b c Hin. apply ueqb_eq. exact (forallb_In _ div_entry_ok _ H (a, b, c) Hin).
Qed.

(* the dict literals have no repeated key (so source order is irrelevant) *)
Definition key_unique (tab : list (tq * tq * tq)) (e : tq * tq * tq) : bool :=
  let '(a, b, c) := e in
  forallb (fun e' => let '(a', b', c') := e' in implb (tqeqb a a' && tqeqb b b') (tqeqb c c')) tab
  && Nat.eqb (length (filter (fun e' => let '(a', b', _) := e' in tqeqb a a' && tqeqb b b') tab)) 1.
Theorem mul_table_functional : forall a b c c', In (a, b, c) (mul_tab T) -> In (a, b, c') (mul_tab T) -> c = c'.
Proof.
  assert (H : forallb (key_unique (mul_tab T)) (mul_tab T) = true) by (vm_cast_no_check (eq_refl true)).
  intros a b c c' H1 H2. pose proof (forallb_In _ _ _ H (a, b, c) H1) as K. unfold key_unique in K.
  apply andb_true_iff in K. destruct K as [K _].
  pose proof (forallb_In _ _ _ K (a, b, c') H2) as K2. simpl in K2.
  assert (E1 : tqeqb a a = true) by (apply tqeqb_eq; reflexivity).
  assert (E2 : tqeqb b b = true) by (apply tqeqb_eq; reflexivity).
  rewrite E1, E2 in K2. simpl in K2. apply tqeqb_eq in K2. exact K2.
Qed.
Theorem div_table_functional : forall a b c c', In (a, b, c) (div_tab T) -> In (a, b, c') (div_tab T) -> c = c'.
Proof.
  assert (H : forallb (key_unique (div_tab T)) (div_tab T) = true) by (vm_cast_no_check (eq_refl true)).
  intros a b c c' H1 H2. pose proof (forallb_In _ _ _ H (a, b, c) H1) as K. unfold key_unique in K.
  apply andb_true_iff in K. destruct K as [K _].
  pose proof (forallb_In _ _ _ K (a, b, c') H2) as K2. simpl in K2.
  assert (E1 : tqeqb a a = true) by (apply tqeqb_eq; reflexivity).
  assert (E2 : tqeqb b b = true) by (apply tqeqb_eq; reflexivity).
  rewrite E1, E2 in K2. simpl in K2. apply tqeqb_eq in K2. exact K2.
Qed.

(* ---- the lookups as the operators perform them ------------------------------- *)
(* __mul__ tries (self, x) and then (x, self): the lookup is symmetric, so a * b and
   b * a have the same quantity *)
Theorem mul_lookup_symmetric : forall x y, mul_lookup T x y = mul_lookup T y x.
Proof.
  assert (H : forallb (fun x => forallb (fun y => opt_q_eqb (mul_lookup T x y) (mul_lookup T y x)) all_quantities)
                all_quantities = true) by (vm_cast_no_check (eq_refl true)).
  intros x y. apply opt_q_eqb_eq.
  exact (forall_q _ (forall_q (fun x => forallb (fun y => opt_q_eqb (mul_lookup T x y) (mul_lookup T y x)) all_quantities) H x) y).
Qed.

Definition lookup_dim_ok (f : quantity -> quantity -> option quantity) (comb : uvec -> uvec -> uvec) (x y : quantity) : bool :=
  match f x y with Some q => ueqb (qdim q) (comb (qdim x) (qdim y)) | None => true end.
Theorem mul_lookup_dim : forall x y q, mul_lookup T x y = Some q -> qdim q = uadd (qdim x) (qdim y).
Proof.
  assert (H : forallb (fun x => forallb (lookup_dim_ok (mul_lookup T) uadd x) all_quantities) all_quantities = true)
    by (vm_cast_no_check (eq_refl true)).
  intros x y q E.
  pose proof (forall_q _ (forall_q (fun x => forallb (lookup_dim_ok (mul_lookup T) uadd x) all_quantities) H x) y) as K.
  unfold lookup_dim_ok in K. rewrite E in K. apply ueqb_eq. exact K.
Qed.
Theorem div_lookup_dim : forall x y q, div_lookup T x y = Some q -> qdim q = usub (qdim x) (qdim y).
Proof.
  assert (H : forallb (fun x => forallb (lookup_dim_ok (div_lookup T) usub x) all_quantities) all_quantities = true)
    by (vm_cast_no_check (eq_refl true)).
  intros x y q E.
  pose proof (forall_q _ (forall_q (fun x => forallb (lookup_dim_ok (div_lookup T) usub x) all_quantities) H x) y) as K.
  unfold lookup_dim_ok in K. rewrite E in K. apply ueqb_eq. exact K.
Qed.

(* a supported product is never ambiguous: whenever the product of two quantities
   is supported, the quotient of the result by either factor, if supported, gives
   back a quantity of the other factor's dimension *)
Definition muldiv_ok (x y : quantity) : bool :=
  match mul_lookup T x y with
  | Some p => lookup_dim_ok (div_lookup T) usub p y && lookup_dim_ok (div_lookup T) usub p x
  | None => true
  end.
Theorem mul_div_consistent : forall x y p r, mul_lookup T x y = Some p -> div_lookup T p y = Some r -> qdim r = qdim x.
Proof.
  intros x y p r H1 H2. rewrite (div_lookup_dim _ _ _ H2), (mul_lookup_dim _ _ _ H1). apply uadd_sub.
Qed.

(* ---- totality on the pairs every use relies on ----------------------------------- *)
(* scaling by a constant (an expression of undefined quantity) keeps any quantity *)
Theorem tables_total_const : forall q,
  mul_lookup T q Qundef = Some q /\ mul_lookup T Qundef q = Some q /\ div_lookup T q Qundef = Some q.
Proof.
  assert (H : forallb (fun q => opt_q_eqb (mul_lookup T q Qundef) (Some q) && opt_q_eqb (mul_lookup T Qundef q) (Some q)
                               && opt_q_eqb (div_lookup T q Qundef) (Some q)) all_quantities = true)
    by (vm_cast_no_check (eq_refl true)).
  intros q. pose proof (forall_q _ H q) as K. cbv beta in K. apply andb_true_iff in K. destruct K as [K K3].
  apply andb_true_iff in K. destruct K as [K1 K2].
  repeat split; apply opt_q_eqb_eq; assumption.
Qed.
(* the ratio of two expressions of the same defined quantity is a transfer function *)
Theorem div_self_transfer : forall q, q <> Qundef -> div_lookup T q q = Some Qtransfer.
Proof.
  assert (H : forallb (fun q => qeqb q Qundef || opt_q_eqb (div_lookup T q q) (Some Qtransfer)) all_quantities = true)
    by (vm_cast_no_check (eq_refl true)).
  intros q Hq. pose proof (forall_q _ H q) as K. cbv beta in K. apply orb_true_iff in K. destruct K as [K|K].
  - apply qeqb_eq in K. contradiction.
  - apply opt_q_eqb_eq. exact K.
Qed.
(* Ohm's law and power in every form (the examples named in the property) *)
Theorem ohms_law_entries :
  div_lookup T Qvoltage Qcurrent = Some Qimpedance /\ div_lookup T Qcurrent Qvoltage = Some Qadmittance /\
  mul_lookup T Qvoltage Qadmittance = Some Qcurrent /\ mul_lookup T Qcurrent Qimpedance = Some Qvoltage /\
  div_lookup T Qvoltage Qimpedance = Some Qcurrent /\ div_lookup T Qcurrent Qadmittance = Some Qvoltage /\
  mul_lookup T Qvoltage Qcurrent = Some Qpower /\ mul_lookup T Qadmittance Qimpedance = Some Qtransfer /\
  mul_lookup T Qvoltage Qtransfer = Some Qvoltage /\ mul_lookup T Qcurrent Qtransfer = Some Qcurrent /\
  div_lookup T Qundef Qimpedance = Some Qadmittance /\ div_lookup T Qundef Qadmittance = Some Qimpedance.
Proof. vm_compute. repeat split. Qed.

(* ---- classes ----------------------------------------------------------------------- *)
(* exprclasses[d][q] really is a class of quantity q and domain d *)
Theorem classmap_consistent : forall d q, has_class T d = true -> class_quantity T d q = q /\ class_domain T d q = d.
Proof.
  assert (H : forallb (fun d => negb (has_class T d) ||
              forallb (fun q => qeqb (class_quantity T d q) q && deqb (class_domain T d q) d) all_quantities) all_domains = true)
    by (vm_cast_no_check (eq_refl true)).
  intros d q Hd. pose proof (forall_d _ H d) as K. cbv beta in K. rewrite Hd in K. cbn [negb orb] in K.
  pose proof (forall_q _ K q) as K2. apply andb_true_iff in K2. destruct K2 as [A B].
  split; [apply qeqb_eq|apply deqb_eq]; assumption.
Qed.
(* every domain except 'superposition' has expression classes *)
Theorem classes_exist : forall d, d <> Dsuperposition -> has_class T d = true.
Proof.
  assert (H : forallb (fun d => deqb d Dsuperposition || has_class T d) all_domains = true) by (vm_cast_no_check (eq_refl true)).
  intros d Hd. pose proof (forall_d _ H d) as K. cbv beta in K. apply orb_true_iff in K. destruct K as [K|K]; [|exact K].
  apply deqb_eq in K. contradiction.
Qed.

(* default units = SI dimension of the quantity times the domain's unit factor:
   signals (V, A and their squares) are spectral densities in the Laplace, Fourier
   and angular Fourier domains (V/Hz: divided by the transform variable's units, the
   rad tag is not written), ratios (ohm, S, transfer and their squares) are per
   second in the time domain (an impulse response), power keeps W everywhere. *)
Definition is_density_domain (d : domain) : bool :=
  match d with Dlaplace | Dfourier | Dangular_fourier => true | _ => false end.
Definition spec_units (d : domain) (q : quantity) : uvec :=
  uadd (qdim q)
       (uadd (if is_density_domain d then uscale (sig_order q) (uneg (dim (dom_units T d))) else uzero)
             (match d with Dtime => uscale (ratio_order q) (uneg (dim (dom_units T Dtime))) | _ => uzero end)).
Theorem default_units_dim : forall d q, has_class T d = true -> def_units T d q = spec_units d q.
Proof.
  assert (H : forallb (fun d => negb (has_class T d) ||
              forallb (fun q => ueqb (def_units T d q) (spec_units d q)) all_quantities) all_domains = true)
    by (vm_cast_no_check (eq_refl true)).
  intros d q Hd. pose proof (forall_d _ H d) as K. cbv beta in K. rewrite Hd in K. cbn [negb orb] in K.
  apply ueqb_eq. exact (forall_q _ K q).
Qed.
(* in particular: volt, ampere, ohm, siemens, 1 in every constant, phasor and
   frequency-response domain; V/Hz in the s and f domains *)
Theorem default_units_examples :
  def_units T Dtime Qvoltage = u_volt /\ def_units T Dlaplace Qvoltage = uadd u_volt u_second /\
  def_units T Dfourier Qcurrent = uadd u_ampere u_second /\ def_units T Dlaplace Qimpedance = usub u_volt u_ampere /\
  def_units T Dlaplace Qtransfer = uzero /\ def_units T Dtime Qimpedance = usub (usub u_volt u_ampere) u_second /\
  def_units T Dphasor Qvoltage = u_volt /\ def_units T Dconstant_time Qcurrent = u_ampere.
Proof. vm_compute. repeat split. Qed.

(* the attribute flags that the operator model consumes agree with the specification
   of the quantities: ratios are impedance, admittance, transfer and their squares;
   immittances are impedance and admittance; only 'undefined' has quantity 'undefined' *)
Definition qflags_ok (d : domain) (q : quantity) : bool :=
  Bool.eqb (cqflag T G_is_ratio d q) (negb (Z.eqb (ratio_order q) 0))
  && Bool.eqb (qratio T q) (negb (Z.eqb (ratio_order q) 0))
  && Bool.eqb (cqflag T G_is_immittance d q) (qeqb q Qimpedance || qeqb q Qadmittance)
  && Bool.eqb (cqflag T G_is_transfer d q) (qeqb q Qtransfer)
  && Bool.eqb (cqflag T G_is_signal d q) (Z.eqb (sig_order q) 1)
  && implb (cqflag T G_is_undefined d q) (Z.eqb (sig_order q) 0 && negb (qeqb q Qpower)).
Theorem quantity_flags_match_spec : forall d q, has_class T d = true -> qflags_ok d q = true.
Proof.
  assert (H : forallb (fun d => negb (has_class T d) || forallb (qflags_ok d) all_quantities) all_domains = true)
    by (vm_cast_no_check (eq_refl true)).
  intros d q Hd. pose proof (forall_d _ H d) as K. cbv beta in K. rewrite Hd in K. cbn [negb orb] in K. exact (forall_q _ K q).
Qed.
(* the three constant domains, and only they, are constant domains; time / Laplace /
   ... flags single out exactly their own domain *)
Definition dflags_ok (d : domain) (q : quantity) : bool :=
  Bool.eqb (cdflag T F_is_constant_domain d q) (match d with Dconstant | Dconstant_time | Dconstant_fr => true | _ => false end)
  && Bool.eqb (dflag T F_is_constant_domain d) (match d with Dconstant | Dconstant_time | Dconstant_fr => true | _ => false end)
  && Bool.eqb (cdflag T F_is_undefined_domain d q) (deqb d Dundefined)
  && Bool.eqb (cdflag T F_is_time_domain d q) (deqb d Dtime)
  && Bool.eqb (cdflag T F_is_fourier_domain d q) (deqb d Dfourier)
  && Bool.eqb (cdflag T F_is_angular_fourier_domain d q) (deqb d Dangular_fourier)
  && Bool.eqb (cdflag T F_is_phasor_domain d q) (deqb d Dphasor)
  && Bool.eqb (cdflag T F_is_phasor_ratio_domain d q) (deqb d Dphasor_ratio)
  && Bool.eqb (cdflag T F_is_angular_frequency_response_domain d q) (deqb d Dang_freq_resp).
Theorem domain_flags_match_spec : forall d q, has_class T d = true -> dflags_ok d q = true.
Proof.
  assert (H : forallb (fun d => negb (has_class T d) || forallb (dflags_ok d) all_quantities) all_domains = true)
    by (vm_cast_no_check (eq_refl true)).
  intros d q Hd. pose proof (forall_d _ H d) as K. cbv beta in K. rewrite Hd in K. cbn [negb orb] in K. exact (forall_q _ K q).
Qed.

(* Expr.__mul__ keeps the units of an immittance factor that it replaces by its
   constant-domain equivalent (hypothesis of C18.mul_units_implied) *)
Theorem mul_restores_units : mul_keeps_units T = true.
Proof. vm_compute. reflexivity. Qed.

(* ---- ExprDomain.as_quantity ----------------------------------------------------------- *)
(* each quantity name is dispatched to the as_<x>() that builds THAT quantity, and
   'undefined' returns the expression itself *)
Theorem as_quantity_dispatch_ok :
  asq T Qundef = AsSelf /\
  forall q, In q [Qvoltage; Qcurrent; Qadmittance; Qimpedance; Qtransfer; Qpower] -> asq T q = AsQ q.
Proof.
  split; [vm_compute; reflexivity|].
  intros q H. simpl in H.
  repeat (destruct H as [<-|H]; [vm_compute; reflexivity|]). contradiction.
Qed.
(* no name is dispatched to a different quantity (the squared quantities are refused) *)
Definition asq_ok (q : quantity) : bool :=
  match asq T q with AsQ q' => qeqb q' q | AsSelf => qeqb q Qundef | AsError => true end.
Theorem as_quantity_never_changes_quantity : forall q, asq_ok q = true.
Proof.
  assert (H : forallb asq_ok all_quantities = true) by (vm_cast_no_check (eq_refl true)).
  exact (forall_q _ H).
Qed.
(* hence re-applying a quantity gives, for every class, an expression of that quantity in
   the same kind of domain with the default (SI) units of its class; likewise the
   magnitude, the Hilbert transforms, phasor-ratio -> Laplace and phasor -> time *)
Definition asq_model_ok (d : domain) (q0 q : quantity) : bool :=
  let a := Op d q0 (def_units T d q0) VV in
  let good r want := match r with
                     | RK d' q' u => qeqb q' want && ueqb u (def_units T d' q')
                     | RE _ => true | _ => false end in
  (match asq T q with AsQ _ => good (as_quantity_model T a q) q | _ => true end)
  && good (magnitude_model T a) q0 && good (pr_laplace_model T a) q0
  && good (phasor_time_model T a) q0 && good (hilbert_model T a) q0.
Theorem as_quantity_paths_keep_quantity : forall d q0 q, has_class T d = true -> asq_model_ok d q0 q = true.
Proof.
  assert (H : forallb (fun d => negb (has_class T d) ||
              forallb (fun q0 => forallb (asq_model_ok d q0) all_quantities) all_quantities) all_domains = true)
    by (vm_cast_no_check (eq_refl true)).
  intros d q0 q Hd. pose proof (forall_d _ H d) as K. cbv beta in K. rewrite Hd in K. cbn [negb orb] in K.
  exact (forall_q _ (forall_q _ K q0) q).
Qed.

(* ---- where the unit flags are read ------------------------------------------------- *)
(* loose_units / check_units are consulted only by Expr.__compat_add__, canonical_units
   only by the printing code: products, quotients, powers and transforms cannot
   depend on the flags *)
Definition read_ok (r : uflag * readsite) : bool :=
  match r with
  | (U_canonical_units, RS_printing) | (U_canonical_units, RS_config) => true
  | (U_loose_units, RS_compat_add) | (U_loose_units, RS_config) => true
  | (U_check_units, RS_compat_add) | (U_check_units, RS_config) => true
  | _ => false
  end.
Theorem flags_read_only_by_compat_add : forall r, In r (flag_reads T) -> read_ok r = true.
Proof.
  assert (H : forallb read_ok (flag_reads T) = true) by (vm_cast_no_check (eq_refl true)).
  intros r Hr. exact (forallb_In _ _ _ H r Hr).
Qed.

(* ---- which classes the operator model covers ------------------------------------------ *)
(* all arithmetic operators of every class outside the two noise domains are the
   ones defined by Expr (the mixins only add __rtruediv__ for impedance/admittance) *)
Definition is_noise (d : domain) : bool := match d with Dfourier_noise | Dang_fourier_noise => true | _ => false end.
Definition ops_ok (d : domain) (q : quantity) : bool :=
  is_noise d ||
  (forallb (fun m => oeqb (meth_owner T m d q) O_Expr)
     [M_mul; M_rmul; M_truediv; M_add; M_radd; M_sub; M_rsub; M_eq; M_ne; M_pow; M_neg; M_compat_add]
   && (oeqb (meth_owner T M_rtruediv d q) O_Expr
       || (qeqb q Qimpedance && oeqb (meth_owner T M_rtruediv d q) O_ImpedanceMixin)
       || (qeqb q Qadmittance && oeqb (meth_owner T M_rtruediv d q) O_AdmittanceMixin))).
Theorem operators_are_Exprs : forall d q, has_class T d = true -> ops_ok d q = true.
Proof.
  assert (H : forallb (fun d => negb (has_class T d) || forallb (ops_ok d) all_quantities) all_domains = true)
    by (vm_cast_no_check (eq_refl true)).
  intros d q Hd. pose proof (forall_d _ H d) as K. cbv beta in K. rewrite Hd in K. cbn [negb orb] in K. exact (forall_q _ K q).
Qed.

Print Assumptions mul_table_dim.
Print Assumptions div_table_dim.
Print Assumptions mul_table_functional.
Print Assumptions div_table_functional.
Print Assumptions mul_lookup_symmetric.
Print Assumptions mul_lookup_dim.
Print Assumptions div_lookup_dim.
Print Assumptions mul_div_consistent.
Print Assumptions tables_total_const.
Print Assumptions div_self_transfer.
Print Assumptions ohms_law_entries.
Print Assumptions classmap_consistent.
Print Assumptions classes_exist.
Print Assumptions default_units_dim.
Print Assumptions default_units_examples.
Print Assumptions as_quantity_dispatch_ok.
Print Assumptions as_quantity_never_changes_quantity.
Print Assumptions as_quantity_paths_keep_quantity.
Print Assumptions mul_restores_units.
Print Assumptions quantity_flags_match_spec.
Print Assumptions domain_flags_match_spec.
Print Assumptions flags_read_only_by_compat_add.
Print Assumptions operators_are_Exprs.
