(* C01 executable model: dispatch from stamp-defining class to the regenerated
   stamp, assembly of a netlist, dense entries, and the helpers the
   correspondence evaluation uses (all computable; evaluated by vm_compute). *)
Require Import LT.FieldSec LT.Circuit LT.MNA Gen.StampsGen.
Local Open Scope Z_scope.
Local Open Scope bool_scope.

Section C01model.
Variable K : fld.

(* ---- netlist level ----------------------------------------------------- *)
Inductive cname := cRC | cL | cV | cAM | cI | cVCVS | cVCCS | cCCCS | cCCVS | cK | cTF | cGY | cTL
  | cTPA | cTPB | cTPG | cTPH | cTPY | cTPZ | cTR | cSPpp | cSPpm | cSPppp | cSPpmm | cSPppm | cRV | cDummy.
Definition stamp_of (cl : cname) : sctx K -> sres K :=
  match cl with
  | cRC => stamp_RC | cL => stamp_L | cV => stamp_V | cAM => stamp_AM | cI => stamp_I
  | cVCVS => stamp_VCVS | cVCCS => stamp_VCCS | cCCCS => stamp_CCCS | cCCVS => stamp_CCVS
  | cK => stamp_K | cTF => stamp_TF | cGY => stamp_GY | cTL => stamp_TL
  | cTPA => stamp_TPA | cTPB => stamp_TPB | cTPG => stamp_TPG | cTPH => stamp_TPH
  | cTPY => stamp_TPY | cTPZ => stamp_TPZ | cTR => stamp_TR
  | cSPpp => stamp_SPpp | cSPpm => stamp_SPpm | cSPppp => stamp_SPppp | cSPpmm => stamp_SPpmm
  | cSPppm => stamp_SPppm | cRV => stamp_RV | cDummy => stamp_Dummy
  end.
Definition drawn_of (cl : cname) (c : sctx K) : (Z -> K) -> (Z -> K) -> Z -> K :=
  match cl with
  | cRC => drawn_RC c | cL => drawn_L c | cV => drawn_V c | cAM => drawn_AM c | cI => drawn_I c
  | cVCVS => drawn_VCVS c | cVCCS => drawn_VCCS c | cCCCS => drawn_CCCS c | cCCVS => drawn_CCVS c
  | cK => drawn_K c | cTF => drawn_TF c | cGY => drawn_GY c | cTL => drawn_TPA c true
  | cTPA | cTPB | cTPG | cTPH => drawn_TPA c false
  | cTPY | cTPZ => drawn_TPY c | cTR => drawn_TR c
  | cSPpp | cSPpm | cSPppp | cSPpmm | cSPppm => drawn_SP c | cRV => drawn_RV c
  | cDummy => fun _ _ _ => f0
  end.
Definition brel_of (cl : cname) (c : sctx K) : (Z -> K) -> (Z -> K) -> Z -> K :=
  match cl with
  | cRC => brel_RC c | cL => brel_L c | cV => brel_V c | cAM => brel_AM c | cI => brel_I c
  | cVCVS => brel_VCVS c | cVCCS => brel_VCCS c | cCCCS => brel_CCCS c | cCCVS => brel_CCVS c
  | cK => brel_K c | cTF => brel_TF c | cGY => brel_GY c | cTL => brel_TPA c true
  | cTPA | cTPB | cTPG | cTPH => brel_TPA c false
  | cTPY | cTPZ => brel_TPY c | cTR => brel_TR c
  | cSPpp => brel_SP c f1 f1 f0 | cSPpm => brel_SP c f1 (fopp f1) f0 | cSPppp => brel_SP c f1 f1 f1
  | cSPpmm => brel_SP c f1 (fopp f1) (fopp f1) | cSPppm => brel_SP c f1 f1 (fopp f1)
  | cRV => brel_RV c | cDummy => fun _ _ _ => f0
  end.
(* what the documentation requires of the netlist for the component to be analysable *)
Definition pre (cl : cname) (c : sctx K) : Prop :=
  match cl with
  | cCCCS => ctrl_is_vsrc c = true
  | cCCVS => ctrl_is_vsrc c = true
  | cK => akind_eqb (kind c) KT || akind_eqb (kind c) KTime = false
  | cTL => akind_eqb (kind c) KS || akind_eqb (kind c) KDc = true
  | cTPA | cTPB | cTPG | cTPH | cTPY | cTPZ => tp_has_src c = false
  | _ => True
  end.
Definition netlist := list (cname * sctx K).
Fixpoint assemble (N : netlist) : sres K :=
  match N with
  | [] => SOk []
  | (cl, c) :: N' => match stamp_of cl c, assemble N' with
                     | SOk a, SOk b => SOk (a ++ b) | _, _ => SErr end
  end.
Fixpoint sumK (l : list K) : K := match l with [] => f0 | x :: l' => fadd x (sumK l') end.
(* KCL at node r: the currents drawn by all components sum to zero;
   branch row q: the constitutive residuals placed there sum to zero *)
Definition kcl (N : netlist) (v ib : Z -> K) (r : Z) : K := sumK (map (fun e => drawn_of (fst e) (snd e) v ib r) N).
Definition crel (N : netlist) (v ib : Z -> K) (q : Z) : K := sumK (map (fun e => brel_of (fst e) (snd e) v ib q) N).
Definition phys (N : netlist) (v ib : Z -> K) : Prop :=
  (forall r, 0 <= r -> kcl N v ib r = f0) /\ (forall q, 0 <= q -> crel N v ib q = f0).
Definition wf_net (N : netlist) : Prop := Forall (fun e => wf_ctx (snd e) /\ pre (fst e) (snd e)) N.

(* dense view used by the correspondence evaluation: entry (r,c) of a block *)
Fixpoint entry (T : list (upd K)) (mm : mname) (r cc : Z) : K :=
  match T with
  | [] => f0
  | u :: T' => fadd (if mname_eqb (um u) mm && Z.eqb (ur u) r && Z.eqb (uc u) cc then uv u else f0) (entry T' mm r cc)
  end.
End C01model.
Arguments stamp_of {K}. Arguments drawn_of {K}. Arguments brel_of {K}. Arguments pre {K}.
Arguments assemble {K}. Arguments sumK {K}. Arguments kcl {K}. Arguments crel {K}. Arguments phys {K}.
Arguments wf_net {K}. Arguments entry {K}. Arguments netlist K : clear implicits.

(* ---- correspondence helpers, generic in the field (instantiated at Qc for the
   dc / Laplace kinds and at the Gaussian rationals Q(i) for the ac kinds) ----- *)
Section Corr.
Variable K : fld.
Variable keqb : K -> K -> bool.
Record raw := Raw {
  r_cl : cname; r_info : cinfo; r_kind : akind; r_typ : ctype;
  r_n0 : Z; r_n1 : Z; r_n2 : Z; r_n3 : Z; r_c0 : Z; r_c1 : Z;
  r_L1 : nat; r_L2 : nat;
  r_ic : bool; r_cv : bool; r_a1 : bool; r_ts : bool;
  r_par : pname -> K }.
Definition zidx (k : bkey) (us : list bkey) : Z :=
  match index_of k us with Some n => Z.of_nat n | None => 0 end.
Definition mkctx (us : list bkey) (e : raw) : sctx K :=
  SCtx K (r_kind e) (r_typ e) (r_n0 e) (r_n1 e) (r_n2 e) (r_n3 e) (r_c0 e) (r_c1 e)
    (zidx (ci_id (r_info e), false) us) (zidx (ci_id (r_info e), true) us)
    (zidx (ci_ctrl (r_info e), false) us) (zidx (r_L1 e, false) us) (zidx (r_L2 e, false) us)
    (r_ic e) (r_cv e) (r_a1 e) (r_ts e) (r_par e).
Definition model_unknowns (es : list raw) : list bkey := unknowns (map r_info es).
Definition model_net (es : list raw) : netlist K :=
  let us := model_unknowns es in map (fun e => (r_cl e, mkctx us e)) es.
Definition model_T (es : list raw) : option (list (upd K)) :=
  match assemble (model_net es) with SOk T => Some T | SErr => None end.
Fixpoint bkeys_eqb (a b : list bkey) : bool :=
  match a, b with
  | [], [] => true
  | x :: a', y :: b' => bkey_eqb x y && bkeys_eqb a' b'
  | _, _ => false end.
Definition check_unknowns (es : list raw) (expected : list bkey) : bool := bkeys_eqb (model_unknowns es) expected.
Definition check_entries (es : list raw) (l : list (mname * Z * Z * K)) : bool :=
  match model_T es with
  | None => false
  | Some T => forallb (fun e => match e with (mm, r, c, x) => keqb (entry T mm r c) x end) l
  end.
Definition vec_of (x : list K) (off : nat) : Z -> K := fun i => nth (off + Z.to_nat i) x (@f0 K).
Fixpoint upto (n : nat) : list Z := match n with O => [] | S n' => upto n' ++ [Z.of_nat n'] end.
(* the solution vector x (node voltages then branch currents) satisfies the model system *)
Definition check_solution (es : list raw) (nn mm : nat) (x : list K) : bool :=
  match model_T es with
  | None => false
  | Some T =>
      forallb (fun r => keqb (node_res T (vec_of x 0) (vec_of x nn) r) (@f0 K)) (upto nn) &&
      forallb (fun q => keqb (br_res T (vec_of x 0) (vec_of x nn) q) (@f0 K)) (upto mm)
  end.
(* reported current of one element *)
Definition check_report (es : list raw) (i : nat) (cv : conv) (rk : rkind) (V0 Zr : K) (nn : nat) (x : list K) (expected : K) : bool :=
  match nth_error es i with
  | None => false
  | Some e => keqb (report cv rk (mkctx (model_unknowns es) e) V0 Zr (vec_of x 0) (vec_of x nn)) expected
  end.
End Corr.
