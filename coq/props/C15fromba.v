(* C15 - StateSpaceBase.from_ba forwards exactly its own parameters (b, a, form)
   to the classmethod from_transfer_function_coeffs (whose `cls` is bound by the
   attribute access, so it must not be passed again). *)
Require Import Gen.FormulGen.
From Coq Require Import List String.
Import ListNotations.
Local Open Scope string_scope.
Lemma from_ba_forwards : from_ba_args = tfc_params /\ from_ba_params = tfc_params.
Proof. split; reflexivity. Qed.
Print Assumptions from_ba_forwards.
