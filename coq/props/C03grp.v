(* C03 - netlist level of the grouping of sources into analyses:
   NetlistMixin.independent_source_groups, Netlist._analysis_groups, Netlist._subcircuits_make,
   SubNetlist.__new__ / Netlist.select / V._select / I._select, Netlist.get_I / _get_Vd.

   Model.  A netlist's independent sources are a list of (element name, value) where the value is the
   Superposition the code takes the kinds AND the selected value from (Voc for a voltage source, Isc for a
   current source - regenerated: gen_isg_attr / gen_sel_attr).  [isg] is the insertion-ordered dictionary
   kind -> names built by independent_source_groups(True) ([gput] = "if kind not in groups: groups[kind] = [];
   groups[kind].append(name)").  [gen_akeys] (generated from _analysis_groups) gives the keys of the analysis
   groups; _subcircuits_make builds ONE sub-netlist per key, from the WHOLE circuit, in which EVERY source
   carries the value selected for that key ([aselect_t]/[aselect_s]) - a source that has no part of that
   kind carries 0.

   Theorems.
   regroup_cover          for ANY duplicate-free key list that covers the keys of the terms, the per-key sums
                          add up to the whole: every term lands in exactly one group (sum_groups_cons)
   isg_keys_nodup, isg_keys_cover, isg_member_spec
                          the dictionary has one entry per kind, an entry for every kind of every source, and
                          lists a name under a kind iff a source of that name has that kind
   net_groups_partition   for every source of the netlist, the values it carries in the sub-netlists of ANY
                          duplicate-free key list covering the netlist's kinds add up to its value (both images)
   subcircuits_partition  ... in particular for the keys _subcircuits_make uses, in every mode (ivp / time
                          domain / per kind), with the REGENERATED key function
   gen_grouping_sound     the regenerated pieces equal the model: same attribute for kinds and value, one
                          sub-netlist per group key selecting that key's kind for every component, results
                          accumulated with add over every sub-netlist *)
Require Import LT.FieldSec LT.QcI LT.SuperposModel Gen.SuperposGen.
From Coq Require Import List Bool Arith.
Import ListNotations.

Definition is_noise_group (g : group) : bool := match g with GN _ => true | _ => false end.
(* keys of the analysis groups, hand model (cf. agroup_of) *)
Definition akeys (m : amode) (ks : list group) : list agroup :=
  match m with
  | AIvp => [AgIvp]
  | ATime => AgTime :: map AgKind (filter is_noise_group ks)
  | AGeneral => map AgKind ks
  end.

Theorem gen_akeys_sound (m : amode) (ks : list group) : gen_akeys m ks = akeys m ks.
Proof. destruct m; reflexivity. Qed.
Theorem gen_grouping_sound :
  (forall isv : bool, gen_isg_attr isv = isv) /\ (forall isv : bool, gen_sel_attr isv = gen_isg_attr isv) /\
  gen_isg_transform = true /\ gen_sub_per_group_key = true /\ gen_sub_whole_circuit = true /\
  gen_select_every_cpt = true /\ gen_accumulate_all_subs = true.
Proof. repeat split; try reflexivity; intros []; reflexivity. Qed.

Section Grp.
Variable K : fld.
Add Field KFgrp : (fth K).
Notation sig := (sig K).
Notation term := (term K).

(* ---- every term lands in exactly one group of a duplicate-free covering key list ---------------- *)
Section Cover.
Context {A : Type} (eqb : A -> A -> bool) (eqb_eq : forall a b, eqb a b = true <-> a = b).
Lemma sum_groups_nil (w : term -> K) (f : term -> A) gs : sum_groups K eqb w f gs [] = f0.
Proof. induction gs as [|g gs IH]; cbn [sum_groups filter sumw]; [reflexivity | rewrite IH; ring]. Qed.
Lemma sum_groups_cons (w : term -> K) (f : term -> A) gs t s : NoDup gs ->
  sum_groups K eqb w f gs (t :: s) = fadd (if existsb (eqb (f t)) gs then w t else f0) (sum_groups K eqb w f gs s).
Proof.
  induction gs as [|g gs IH]; intros ND; cbn [sum_groups existsb]; [ring|].
  inversion ND as [|? ? Hn ND']; subst. rewrite (IH ND'). cbn [filter].
  destruct (eqb (f t) g) eqn:E; cbn [orb sumw].
  - apply eqb_eq in E. subst g.
    destruct (existsb (eqb (f t)) gs) eqn:E2; [|ring].
    apply existsb_exists in E2. destruct E2 as [x [Hx Ex]]. apply eqb_eq in Ex. subst x. contradiction.
  - ring.
Qed.
Theorem regroup_cover (w : term -> K) (f : term -> A) gs (s : sig) : NoDup gs -> (forall t, In t s -> In (f t) gs) ->
  sumw w s = sum_groups K eqb w f gs s.
Proof.
  intros ND. induction s as [|t s IH]; intros Hc; [rewrite sum_groups_nil; reflexivity|].
  rewrite (sum_groups_cons w f gs t s ND). cbn [sumw]. rewrite <- IH by (intros u Hu; apply Hc; right; exact Hu).
  assert (E : existsb (eqb (f t)) gs = true).
  { apply existsb_exists. exists (f t). split; [apply Hc; left; reflexivity | apply eqb_eq; reflexivity]. }
  rewrite E. reflexivity.
Qed.
End Cover.

(* ---- independent_source_groups(True) -------------------------------------------------------------- *)
Definition source := (nat * sig)%type.
Definition noise_groups (s : sig) : list group :=
  dedup group_eqb (map (@gof K) (filter (fun t => is_noise_key (tkey t)) s)).
(* Superposition.kinds(transform=True) of the value: the transform groups of the signal part and the noise identifiers *)
Definition kinds_all (s : sig) : list group := kinds_tr s ++ noise_groups s.
Definition gdict := list (group * list nat).
Fixpoint gput (g : group) (n : nat) (d : gdict) : gdict :=
  match d with
  | [] => [(g, [n])]
  | (h, l) :: d' => if group_eqb g h then (h, l ++ [n]) :: d' else (h, l) :: gput g n d'
  end.
Definition isg_step (d : gdict) (x : source) : gdict := fold_left (fun d g => gput g (fst x) d) (kinds_all (snd x)) d.
Definition isg (srcs : list source) : gdict := fold_left isg_step srcs [].
Definition gkeys (d : gdict) : list group := map fst d.
Definition members (g : group) (d : gdict) : list nat :=
  flat_map (fun p => if group_eqb g (fst p) then snd p else []) d.

Lemma gkeys_gput g n d h : In h (gkeys (gput g n d)) <-> h = g \/ In h (gkeys d).
Proof. unfold gkeys. induction d as [|[k l] d IH]; cbn [gput map fst In].
  - split; [intros [E|[]]; left; symmetry; exact E | intros [E|[]]; left; symmetry; exact E].
  - destruct (group_eqb g k) eqn:E; cbn [map fst In].
    + apply group_eqb_eq in E. subst k. split; [intros [H|H]; [left; symmetry; exact H | right; right; exact H]
                                               | intros [H|[H|H]]; [left; symmetry; exact H | left; exact H | right; exact H]].
    + rewrite IH. tauto.
Qed.
Lemma gput_nodup g n d : NoDup (gkeys d) -> NoDup (gkeys (gput g n d)).
Proof. unfold gkeys. induction d as [|[k l] d IH]; intros ND; cbn [gput map fst].
  - constructor; [intros [] | constructor].
  - inversion ND as [|? ? Hn ND']; subst. destruct (group_eqb g k) eqn:E; cbn [map fst].
    + constructor; assumption.
    + constructor; [|apply IH; exact ND'].
      intros Hi. apply (gkeys_gput g n d k) in Hi. destruct Hi as [Hi|Hi]; [|exact (Hn Hi)].
      subst k. rewrite (proj2 (group_eqb_eq g g) eq_refl) in E. discriminate.
Qed.
Lemma members_gput g n d h : NoDup (gkeys d) ->
  forall x, In x (members h (gput g n d)) <-> In x (members h d) \/ (h = g /\ x = n).
Proof. unfold gkeys, members. induction d as [|[k l] d IH]; intros ND x; cbn [gput flat_map fst snd].
  - rewrite app_nil_r. destruct (group_eqb h g) eqn:E.
    + apply group_eqb_eq in E. subst. cbn [In]. split; [intros [H|[]]; right; split; [reflexivity | symmetry; exact H] | intros [[]|[_ H]]; left; symmetry; exact H].
    + cbn [In]. split; [intros [] | intros [[]|[H _]]]. subst. rewrite (proj2 (group_eqb_eq g g) eq_refl) in E. discriminate.
  - inversion ND as [|? ? Hn ND']; subst. destruct (group_eqb g k) eqn:E; cbn [flat_map fst snd].
    + apply group_eqb_eq in E. subst k. rewrite !in_app_iff. destruct (group_eqb h g) eqn:E2.
      * apply group_eqb_eq in E2. subst h. rewrite in_app_iff. cbn [In]. split.
        -- intros [[H|[H|[]]]|H]; [left; left; exact H | right; split; [reflexivity | symmetry; exact H] | left; right; exact H].
        -- intros [[H|H]|[_ H]]; [left; left; exact H | right; exact H | left; right; left; symmetry; exact H].
      * split; [intros [[]|H]; left; right; exact H | intros [[[]|H]|[H _]]; [right; exact H|]].
        subst h. rewrite (proj2 (group_eqb_eq g g) eq_refl) in E2. discriminate.
    + rewrite !in_app_iff. rewrite (IH ND' x). tauto.
Qed.

Lemma fold_gput_keys n ks d h : In h (gkeys (fold_left (fun d g => gput g n d) ks d)) <-> In h ks \/ In h (gkeys d).
Proof. revert d. induction ks as [|g ks IH]; intros d; cbn [fold_left In]; [tauto|].
  rewrite IH, gkeys_gput. split; [intros [H|[H|H]] | intros [[H|H]|H]]; auto. Qed.
Lemma fold_gput_nodup n ks d : NoDup (gkeys d) -> NoDup (gkeys (fold_left (fun d g => gput g n d) ks d)).
Proof. revert d. induction ks as [|g ks IH]; intros d ND; cbn [fold_left]; [exact ND|]. apply IH. apply gput_nodup. exact ND. Qed.
Lemma fold_gput_members n ks d h : NoDup (gkeys d) ->
  forall x, In x (members h (fold_left (fun d g => gput g n d) ks d)) <-> In x (members h d) \/ (In h ks /\ x = n).
Proof. revert d. induction ks as [|g ks IH]; intros d ND x; cbn [fold_left In]; [tauto|].
  rewrite (IH _ (gput_nodup g n d ND)), (members_gput g n d h ND).
  split; [intros [[H|[H1 H2]]|[H1 H2]] | intros [H|[[H1|H1] H2]]]; subst; auto. Qed.

Lemma isg_fold_keys srcs d h : In h (gkeys (fold_left isg_step srcs d)) <-> (exists x, In x srcs /\ In h (kinds_all (snd x))) \/ In h (gkeys d).
Proof. revert d. induction srcs as [|y srcs IH]; intros d; cbn [fold_left].
  - split; [intros H; right; exact H | intros [[x [[] _]]|H]; exact H].
  - rewrite IH. unfold isg_step. rewrite fold_gput_keys. split.
    + intros [[x [H1 H2]]|[H|H]]; [left; exists x; split; [right; exact H1 | exact H2] | left; exists y; split; [left; reflexivity | exact H] | right; exact H].
    + intros [[x [[->|H1] H2]]|H]; [right; left; exact H2 | left; exists x; split; assumption | right; right; exact H].
Qed.
Lemma isg_fold_nodup srcs d : NoDup (gkeys d) -> NoDup (gkeys (fold_left isg_step srcs d)).
Proof. revert d. induction srcs as [|y srcs IH]; intros d ND; cbn [fold_left]; [exact ND|]. apply IH. apply fold_gput_nodup. exact ND. Qed.
Lemma isg_fold_members srcs d h : NoDup (gkeys d) ->
  forall n, In n (members h (fold_left isg_step srcs d)) <-> In n (members h d) \/ (exists x, In x srcs /\ fst x = n /\ In h (kinds_all (snd x))).
Proof. revert d. induction srcs as [|y srcs IH]; intros d ND n; cbn [fold_left].
  - split; [intros H; left; exact H | intros [H|[x [[] _]]]; exact H].
  - rewrite (IH _ (fold_gput_nodup (fst y) (kinds_all (snd y)) d ND)). unfold isg_step.
    rewrite (fold_gput_members (fst y) (kinds_all (snd y)) d h ND). split.
    + intros [[H|[H1 H2]]|[x [H1 H2]]]; [left; exact H | right; exists y; split; [left; reflexivity | split; [symmetry; exact H2 | exact H1]]
                                        | right; exists x; split; [right; exact H1 | exact H2]].
    + intros [H|[x [[->|H1] [H2 H3]]]]; [left; left; exact H | left; right; split; [exact H3 | symmetry; exact H2] | right; exists x; split; [exact H1 | split; assumption]].
Qed.

(* one entry per kind *)
Theorem isg_keys_nodup srcs : NoDup (gkeys (isg srcs)).
Proof. apply isg_fold_nodup. constructor. Qed.
(* an entry for every kind of every source, and no other *)
Theorem isg_keys_cover srcs g : In g (gkeys (isg srcs)) <-> exists x, In x srcs /\ In g (kinds_all (snd x)).
Proof. unfold isg. rewrite isg_fold_keys. cbn. split; [intros [H|[]]; exact H | intros H; left; exact H]. Qed.
(* a name is listed under a kind iff a source of that name has a part of that kind: a source with value
   3 + cos(2t) + u(t) is listed three times, a source is never listed under a kind it has no part of *)
Theorem isg_member_spec srcs g n : In n (members g (isg srcs)) <-> exists x, In x srcs /\ fst x = n /\ In g (kinds_all (snd x)).
Proof. unfold isg. rewrite (isg_fold_members srcs [] g (NoDup_nil _) n). cbn. split; [intros [[]|H]; exact H | intros H; right; exact H]. Qed.

(* ---- the sub-netlists: every source carries the value selected for the key ---------------------------- *)
Lemma sum_over_groups (w : term -> K) gs (s : sig) :
  sum_over K (fun g => sumw w (filter (fun t => group_eqb (gof t) g) (signal s))) gs = sum_groups K group_eqb w (@gof K) gs (signal s).
Proof. induction gs as [|g gs IH]; cbn [sum_over sum_groups]; [reflexivity | rewrite IH; reflexivity]. Qed.
Theorem net_groups_partition (srcs : list source) (gs : list group) : NoDup gs ->
  (forall x g, In x srcs -> In g (kinds_tr (snd x)) -> In g gs) ->
  forall x, In x srcs ->
    time (snd x) = sum_over K (fun g => select_t g (snd x)) gs /\ laplace (snd x) = sum_over K (fun g => select_s g (snd x)) gs.
Proof.
  intros ND Hc x Hx.
  assert (C : forall t, In t (signal (snd x)) -> In (gof t) gs).
  { intros t Ht. apply (Hc x (gof t) Hx). apply kinds_tr_In. exists t. split; [exact Ht | reflexivity]. }
  unfold select_t, select_s. rewrite !sum_over_groups. unfold time, laplace.
  split; apply (regroup_cover group_eqb (group_eqb_eq)); assumption.
Qed.
Lemma select_noise_zero i (s : sig) : select_t (GN i) s = f0 /\ select_s (GN i) s = f0.
Proof. apply select_unlisted. intros Hi. apply in_map_iff in Hi. destruct Hi as [t [E Ht]].
  assert (H : In (GN i) (kinds_tr s)) by (apply kinds_tr_In; exists t; split; assumption).
  exact (kinds_tr_no_noise K _ _ H). Qed.
Lemma sum_agroups_kind (h : agroup -> K) gs : sum_agroups h (map AgKind gs) = sum_over K (fun g => h (AgKind g)) gs.
Proof. induction gs as [|g gs IH]; cbn [map sum_agroups sum_over]; [reflexivity | rewrite IH; reflexivity]. Qed.
Lemma sum_over_zero (h : group -> K) gs : (forall g, In g gs -> h g = f0) -> sum_over K h gs = f0.
Proof. induction gs as [|g gs IH]; intros H; cbn [sum_over]; [reflexivity|].
  rewrite H by (left; reflexivity). rewrite IH by (intros k Hk; apply H; right; exact Hk). ring. Qed.

(* _subcircuits_make: one sub-netlist per key of the analysis groups of the netlist (regenerated key function),
   each holding every source with the value selected for that key: for every source the values add up to its
   value, in both images, in every mode - so, the response being linear in the source values (mna_kill_sum /
   mna_response_additive of Gen.C03net), the sub-netlist responses accumulated by get_I/_get_Vd are the whole *)
Theorem subcircuits_partition (m : amode) (srcs : list source) (x : source) : In x srcs ->
  time (snd x) = sum_agroups (fun a => aselect_t a (snd x)) (gen_akeys m (gkeys (isg srcs))) /\
  laplace (snd x) = sum_agroups (fun a => aselect_s a (snd x)) (gen_akeys m (gkeys (isg srcs))).
Proof.
  intros Hx. rewrite gen_akeys_sound. destruct m; cbn [akeys sum_agroups aselect_t aselect_s].
  - split; ring.
  - rewrite !sum_agroups_kind. cbn [aselect_t aselect_s].
    rewrite !sum_over_zero; [split; ring | |].
    + intros g Hg. apply filter_In in Hg. destruct g; cbn in Hg; try (destruct Hg; discriminate). apply select_noise_zero.
    + intros g Hg. apply filter_In in Hg. destruct g; cbn in Hg; try (destruct Hg; discriminate). apply select_noise_zero.
  - rewrite !sum_agroups_kind. cbn [aselect_t aselect_s].
    apply (net_groups_partition srcs (gkeys (isg srcs)) (isg_keys_nodup srcs)); [|exact Hx].
    intros y g Hy Hg. apply isg_keys_cover. exists y. split; [exact Hy|]. unfold kinds_all. apply in_or_app. left. exact Hg.
Qed.
(* a source that is not listed under a (non-noise) key carries 0 in that key's sub-netlist *)
Theorem unlisted_source_is_zero (x : source) (g : group) :
  ~ In g (kinds_all (snd x)) -> select_t g (snd x) = f0 /\ select_s g (snd x) = f0.
Proof. intros Hn. apply select_unlisted. intros Hi. apply Hn. unfold kinds_all. apply in_or_app. left.
  apply in_map_iff in Hi. destruct Hi as [t [E Ht]]. apply kinds_tr_In. exists t. split; assumption. Qed.
End Grp.

(* ---- executable checkers for the correspondence evaluation (Gaussian rationals) -------------------------
   check_isg      Lcapy's independent_source_groups(True) of a generated circuit against [isg] of the source
                  values Lcapy stored: every non-noise entry lists the model's members in the model's order (a
                  member whose selected value is zero may be missing), every model key with a non-zero member is
                  an entry
   check_subkeys  the keys of Netlist.sub (one sub-netlist per key) against the REGENERATED gen_akeys applied to
                  the keys of independent_source_groups(True), in order *)
Definition nat_in (n : nat) (l : list nat) : bool := existsb (Nat.eqb n) l.
Fixpoint list_nat_eqb (a b : list nat) : bool :=
  match a, b with [], [] => true | x :: a', y :: b' => Nat.eqb x y && list_nat_eqb a' b' | _, _ => false end.
Fixpoint agroups_eqb (a b : list agroup) : bool :=
  match a, b with [], [] => true | x :: a', y :: b' => agroup_eqb x y && agroups_eqb a' b' | _, _ => false end.
Definition src_zero (srcs : list (nat * sig QcIF)) (g : group) (n : nat) : bool :=
  forallb (fun x : nat * sig QcIF => negb (Nat.eqb (fst x) n) || (qci_eqb (select_t (K:=QcIF) g (snd x)) ci0 && qci_eqb (select_s (K:=QcIF) g (snd x)) ci0)) srcs.
Definition check_isg (srcs : list (nat * sig QcIF)) (impl : list (group * list nat)) : bool :=
  let d := isg QcIF srcs in
  forallb (fun p => match fst p with
                    | GN _ => true
                    | g => let M := members g d in
                           list_nat_eqb (snd p) (filter (fun n => nat_in n (snd p)) M) &&
                           forallb (fun n => nat_in n (snd p) || src_zero srcs g n) M
                    end) impl &&
  forallb (fun g => match g with
                    | GN _ => true
                    | _ => existsb (fun p => group_eqb g (fst p)) impl || forallb (src_zero srcs g) (members g d)
                    end) (gkeys d).
Definition drop_noise_a (l : list agroup) : list agroup :=
  filter (fun a => match a with AgKind (GN _) => false | _ => true end) l.
Definition check_subkeys (m : amode) (strict : bool) (ks : list group) (impl : list agroup) : bool :=
  if strict then agroups_eqb (gen_akeys m ks) impl else agroups_eqb (drop_noise_a (gen_akeys m ks)) (drop_noise_a impl).

Print Assumptions gen_akeys_sound.
Print Assumptions gen_grouping_sound.
Print Assumptions regroup_cover.
Print Assumptions isg_keys_nodup.
Print Assumptions isg_keys_cover.
Print Assumptions isg_member_spec.
Print Assumptions net_groups_partition.
Print Assumptions subcircuits_partition.
Print Assumptions unlisted_source_is_zero.
