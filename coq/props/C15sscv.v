(* C15 - the state derivative does not depend on the current sign convention.
   StateSpaceMaker.from_circuit differentiates  dv_C/dt = i_C / C  where i_C is read from the voltage source V_C that
   replaces the capacitor in the substituted circuit.  Lcapy reports the current of a SOURCE through
   current_sign(i, True) (LT.MNA.csign, model of lcapy.current.current_sign validated by C01), and from_circuit applies
   current_sign(., flag) once more with the flag regenerated from the source (Gen.FormulLeafGen.ss_C_dot_is_source).
   For every convention (passive, hybrid, active) the result must be the physical current i through the capacitor
   from its first to its second node: then A, B (and the characteristic polynomial) are convention independent. *)
Require Import LT.FieldSec LT.Circuit LT.MNA Gen.FormulLeafGen.
Section C15sscv.
Variable K : fld.
Add Field KFsscv : (fth K).
Theorem ss_dot_convention_independent (cv : conv) (i : K) :
  csign cv ss_C_dot_is_source (csign cv true i) = i.
Proof. destruct cv; unfold ss_C_dot_is_source; cbn [csign]; ring. Qed.
End C15sscv.
Print Assumptions ss_dot_convention_independent.
