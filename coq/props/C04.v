(* C04 - Thevenin and Norton equivalents reproduce the terminal behaviour.

   Part 1 (this file, netlist level; all for an arbitrary characteristic-0
   field, netlists of any length, arbitrary node / branch indices):
     * [kcl N] and [crel N] - the physical residuals of Circuit.v summed over a
       component list - are AFFINE in the unknowns (v, ib); zeroing the
       parameters pVoc / pIsc (independent source values and the C v0 / L i0
       initial-condition terms) gives exactly their linear parts;
     * hence LT.Thevenin applies to every netlist: net_port_affine,
       net_isc_zth, net_zth_yth, net_load_invariance (Gen.C04mna: the same for the MNA
       system assembled from the regenerated stamps);
     * hand model (H) of the probes of lcapy/netlistopsmixin.py / netlist.py
       (kill / _kill, apply_test_current_source, apply_test_voltage_source,
       Voc, Isc + Vshort_, impedance, admittance, transfer, thevenin, norton)
       as netlist -> netlist functions, and [probe_*]: with initial conditions
       killed they compute the quantities of net_port_affine; WITHOUT
       (flag ics = false, the behaviour of an un-patched tree, DESIGN 6-F2)
       [impedance_kills_ics_refuted];
     * the Thevenin netlist V(Voc) + Z(Zth) and the Norton netlist
       I(Isc) | Y(Yth) have the Thevenin / Norton line as terminal relation;
     * netlists that touch no ground index (and contain no ground-referenced
       class) have shift-invariant residuals: LT.Thevenin.ground_indep applies. *)
Require Import LT.FieldSec LT.Circuit LT.MNA LT.Thevenin Gen.StampsGen Gen.C01model Gen.C04model.
Local Open Scope Z_scope.
Local Open Scope bool_scope.

Section C04.
Variable K : fld.
Add Field KFc4 : (fth K).
Notation netlist := (netlist K).
Notation vec := (Z -> K).

(* ---- 1. affinity ---------------------------------------------------------- *)
Ltac unfold_phys :=
  cbv [drawn_of brel_of drawn_RC brel_RC Yeff drawn_L brel_L drawn_V brel_V drawn_AM brel_AM drawn_I brel_I
       drawn_VCVS brel_VCVS Ac drawn_VCCS brel_VCCS drawn_CCCS brel_CCCS drawn_CCVS brel_CCVS
       drawn_K brel_K ZM MI drawn_TF brel_TF drawn_GY brel_GY drawn_TPA brel_TPA tpA
       drawn_TPY brel_TPY drawn_TR brel_TR drawn_SP brel_SP drawn_RV brel_RV dV01 dV23 thru linpart].
Lemma vv_zero n : vv (@vzero K) n = f0.
Proof. unfold vv, vzero. destruct (0 <=? n); reflexivity. Qed.
(* potentials are read through [vv], which is additive: no case analysis on which nodes are grounded *)
Ltac vec_norm := rewrite ?(vv_add K), ?(vv_scal K), ?vv_zero; unfold vadd, vscal, vzero.
Ltac split_ifs :=
  repeat match goal with |- context [if ?b then _ else _] => destruct b end.
Ltac aff_solve := unfold_phys; vec_norm; split_ifs; rewrite ?(Fdiv_def (fth K)); ring.

Lemma drawn_affine cl (c : sctx K) : affine (drawn_of cl c).
Proof. intros v1 ib1 v2 ib2 a r. destruct cl; aff_solve. Qed.
Lemma brel_affine cl (c : sctx K) : affine (brel_of cl c).
Proof. intros v1 ib1 v2 ib2 a r. destruct cl; aff_solve. Qed.

Lemma kcl_cons e (N : netlist) v ib r : kcl (e :: N) v ib r = fadd (drawn_of (fst e) (snd e) v ib r) (kcl N v ib r).
Proof. reflexivity. Qed.
Lemma crel_cons e (N : netlist) v ib q : crel (e :: N) v ib q = fadd (brel_of (fst e) (snd e) v ib q) (crel N v ib q).
Proof. reflexivity. Qed.
Lemma kcl_app (N1 N2 : netlist) v ib r : kcl (N1 ++ N2) v ib r = fadd (kcl N1 v ib r) (kcl N2 v ib r).
Proof. induction N1 as [|e N1 IH]; [unfold kcl; cbn [app map sumK]; ring|].
  cbn [app]. rewrite !kcl_cons, IH. ring. Qed.
Lemma crel_app (N1 N2 : netlist) v ib q : crel (N1 ++ N2) v ib q = fadd (crel N1 v ib q) (crel N2 v ib q).
Proof. induction N1 as [|e N1 IH]; [unfold crel; cbn [app map sumK]; ring|].
  cbn [app]. rewrite !crel_cons, IH. ring. Qed.

Theorem kcl_affine (N : netlist) : affine (kcl N).
Proof. induction N as [|e N IH]; intros v1 ib1 v2 ib2 a r.
  - unfold kcl; cbn [map sumK]. ring.
  - rewrite !kcl_cons, IH, (drawn_affine (fst e) (snd e)). ring. Qed.
Theorem crel_affine (N : netlist) : affine (crel N).
Proof. induction N as [|e N IH]; intros v1 ib1 v2 ib2 a r.
  - unfold crel; cbn [map sumK]. ring.
  - rewrite !crel_cons, IH, (brel_affine (fst e) (snd e)). ring. Qed.

(* ---- 2. killing = taking the linear part ------------------------------------ *)
Lemma drawn_zero cl (c : sctx K) v ib r : drawn_of cl (zero_ctx c) v ib r = linpart (drawn_of cl c) v ib r.
Proof. destruct cl; unfold zero_ctx, zero_par; cbn [kind typ p0 p1 p2 p3 c0 c1 bown bextra bctrl bL1 bL2 has_ic ctrl_is_vsrc has_arg1 tp_has_src par];
  unfold_phys; cbn [kind typ p0 p1 p2 p3 c0 c1 bown bextra bctrl bL1 bL2 has_ic ctrl_is_vsrc has_arg1 tp_has_src par];
  vec_norm; split_ifs; rewrite ?(Fdiv_def (fth K)); ring. Qed.
Lemma brel_zero cl (c : sctx K) v ib q : brel_of cl (zero_ctx c) v ib q = linpart (brel_of cl c) v ib q.
Proof. destruct cl; unfold zero_ctx, zero_par; cbn [kind typ p0 p1 p2 p3 c0 c1 bown bextra bctrl bL1 bL2 has_ic ctrl_is_vsrc has_arg1 tp_has_src par];
  unfold_phys; cbn [kind typ p0 p1 p2 p3 c0 c1 bown bextra bctrl bL1 bL2 has_ic ctrl_is_vsrc has_arg1 tp_has_src par];
  vec_norm; split_ifs; rewrite ?(Fdiv_def (fth K)); ring. Qed.
Theorem kcl_killnet (N : netlist) v ib r : kcl (killnet N) v ib r = linpart (kcl N) v ib r.
Proof. induction N as [|e N IH].
  - unfold linpart, kcl; cbn [killnet map sumK]. ring.
  - cbn [killnet map]. fold (killnet N). rewrite kcl_cons. cbn [fst snd]. rewrite drawn_zero, IH.
    unfold linpart. rewrite !kcl_cons. ring. Qed.
Theorem crel_killnet (N : netlist) v ib q : crel (killnet N) v ib q = linpart (crel N) v ib q.
Proof. induction N as [|e N IH].
  - unfold linpart, crel; cbn [killnet map sumK]. ring.
  - cbn [killnet map]. fold (killnet N). rewrite crel_cons. cbn [fst snd]. rewrite brel_zero, IH.
    unfold linpart. rewrite !crel_cons. ring. Qed.

(* ---- 3. Thevenin / Norton for netlists --------------------------------------- *)
Section Port.
Variables p m : Z.
Notation psol N := (sol p m (kcl N) (crel N)).
Notation prel N := (port_rel p m (kcl N) (crel N)).
Notation pvv := (pv p m).

Lemma phys_sol (N : netlist) v ib : phys N v ib <-> psol N f0 v ib.
Proof. unfold phys, sol. split; intros [A B]; (split; [|exact B]); intros r Hr; rewrite (A r Hr); unfold thru; ring. Qed.
Lemma kill_sol (N : netlist) i v ib : psol (killnet N) i v ib <-> sol p m (linpart (kcl N)) (linpart (crel N)) i v ib.
Proof. unfold sol. split; intros [A B]; split; intros x Hx;
  [rewrite <- kcl_killnet | rewrite <- crel_killnet | rewrite kcl_killnet | rewrite crel_killnet]; auto. Qed.
Lemma kill_rel (N : netlist) i u : prel (killnet N) i u <-> port_rel p m (linpart (kcl N)) (linpart (crel N)) i u.
Proof. unfold port_rel. split; intros [v [ib [S E]]]; exists v, ib; (split; [apply kill_sol; exact S | exact E]). Qed.

(* well-posed seen from the port: with sources and initial conditions zero and
   the port open, the port voltage is forced to 0 *)
Definition net_determined (N : netlist) : Prop := forall v ib, phys (killnet N) v ib -> pvv v = f0.
Lemma net_determined_port N : net_determined N -> port_determined p m (kcl N) (crel N).
Proof. intros H v ib S. apply (H v ib). apply phys_sol. apply kill_sol. exact S. Qed.

(* port_affine: Voc from an open-circuit solution of N, Zth from the response
   of the killed netlist to a unit test current *)
Theorem net_port_affine (N : netlist) v0 ib0 vt ibt :
  net_determined N -> phys N v0 ib0 -> psol (killnet N) f1 vt ibt ->
  forall i u, prel N i u <-> u = fadd (pvv v0) (fmul (pvv vt) i).
Proof.
  intros W S0 St. apply (port_affine K p m (kcl N) (crel N) (kcl_affine N) (crel_affine N) v0 ib0 vt ibt).
  - apply net_determined_port. exact W.
  - apply phys_sol. exact S0.
  - apply kill_sol. exact St.
Qed.
(* thevenin_norton *)
Theorem net_isc_zth (N : netlist) v0 ib0 vt ibt Isc :
  net_determined N -> phys N v0 ib0 -> psol (killnet N) f1 vt ibt ->
  prel N (fopp Isc) f0 -> fmul Isc (pvv vt) = pvv v0.
Proof.
  intros W S0 St. apply (isc_zth K p m (kcl N) (crel N) v0 ib0 vt ibt Isc (kcl_affine N) (crel_affine N)).
  - apply net_determined_port. exact W. - apply phys_sol. exact S0. - apply kill_sol. exact St.
Qed.
Theorem net_zth_yth (N : netlist) vt ibt Yth :
  net_determined N -> psol (killnet N) f1 vt ibt -> prel (killnet N) Yth f1 -> fmul (pvv vt) Yth = f1.
Proof.
  intros W St H. apply (zth_yth K p m (kcl N) (crel N) vt ibt Yth (kcl_affine N) (crel_affine N)).
  - apply net_determined_port. exact W. - apply kill_sol. exact St. - apply kill_rel. exact H.
Qed.
(* load_invariance: M is any other netlist (in particular the Thevenin or the
   Norton netlist below) with the same open-circuit voltage and test response *)
Theorem net_load_invariance (N M : netlist) v0 ib0 vt ibt v0' ib0' vt' ibt' :
  net_determined N -> phys N v0 ib0 -> psol (killnet N) f1 vt ibt ->
  net_determined M -> phys M v0' ib0' -> psol (killnet M) f1 vt' ibt' ->
  pvv v0' = pvv v0 -> pvv vt' = pvv vt ->
  forall (Load : K -> K -> Prop) u j,
    delivers p m (kcl N) (crel N) Load u j <-> delivers p m (kcl M) (crel M) Load u j.
Proof.
  intros W S0 St W' S0' St' E0 Et.
  apply (load_invariance K p m (kcl N) (crel N) (kcl M) (crel M) v0 ib0 vt ibt v0' ib0' vt' ibt');
    try apply kcl_affine; try apply crel_affine; try (apply net_determined_port; assumption);
    try (apply phys_sol; assumption); try (apply kill_sol; assumption); assumption.
Qed.

End Port.

(* ---- 4. hand model of the probes --------------------------------------------- *)
Lemma drawn_kill1 (e : cname * sctx K) v ib r : drawn_of (fst (m_kill1 true e)) (snd (m_kill1 true e)) v ib r = drawn_of (fst e) (zero_ctx (snd e)) v ib r.
Proof. destruct e as [cl c]. unfold m_kill1. cbn [fst snd]. destruct (is_indep cl) eqn:E; [reflexivity|]. cbn [fst snd].
  destruct cl; try discriminate; unfold drop_ic, zero_ctx, zero_par; unfold_phys;
  cbn [kind typ p0 p1 p2 p3 c0 c1 bown bextra bctrl bL1 bL2 has_ic ctrl_is_vsrc has_arg1 tp_has_src par];
  rewrite ?andb_false_r; split_ifs; rewrite ?(Fdiv_def (fth K)); ring. Qed.
Lemma brel_kill1 (e : cname * sctx K) v ib q : brel_of (fst (m_kill1 true e)) (snd (m_kill1 true e)) v ib q = brel_of (fst e) (zero_ctx (snd e)) v ib q.
Proof. destruct e as [cl c]. unfold m_kill1. cbn [fst snd]. destruct (is_indep cl) eqn:E; [reflexivity|]. cbn [fst snd].
  destruct cl; try discriminate; unfold drop_ic, zero_ctx, zero_par; unfold_phys;
  cbn [kind typ p0 p1 p2 p3 c0 c1 bown bextra bctrl bL1 bL2 has_ic ctrl_is_vsrc has_arg1 tp_has_src par];
  rewrite ?andb_false_r; split_ifs; rewrite ?(Fdiv_def (fth K)); ring. Qed.
(* kill() with initial conditions acted upon realises the specification [killnet] *)
Theorem m_kill_spec (N : netlist) v ib x : kcl (m_kill true N) v ib x = kcl (killnet N) v ib x /\ crel (m_kill true N) v ib x = crel (killnet N) v ib x.
Proof. induction N as [|e N [IH1 IH2]]; [split; reflexivity|]. cbn [m_kill killnet map]. fold (m_kill true N). fold (killnet N).
  rewrite !kcl_cons, !crel_cons, IH1, IH2, drawn_kill1, brel_kill1. split; reflexivity. Qed.

Lemma kcl_test_I kd p m (v ib : vec) r : kcl [m_test_I kd p m] v ib r = fopp (thru p m r f1).
Proof. unfold kcl, m_test_I, ctx2. cbn [map sumK fst snd drawn_of]. unfold drawn_I, thru. cbn [p0 p1 par]. ring. Qed.
Lemma crel_test_I kd p m (v ib : vec) q : crel [m_test_I kd p m] v ib q = f0.
Proof. unfold crel, m_test_I. cbn [map sumK fst snd brel_of]. unfold brel_I. ring. Qed.
Lemma kcl_V kd p m f (voc : K) (v ib : vec) r : kcl [(cV, ctx2 kd p m f voc f0 f0)] v ib r = thru p m r (ib f).
Proof. unfold kcl, ctx2. cbn [map sumK fst snd drawn_of]. unfold drawn_V. cbn [p0 p1 bown]. ring. Qed.
Lemma crel_V kd p m f (voc : K) (v ib : vec) q : crel [(cV, ctx2 kd p m f voc f0 f0)] v ib q = fmul (ind f q) (fsub (pv p m v) voc).
Proof. unfold crel, ctx2. cbn [map sumK fst snd brel_of]. unfold brel_V, dV01, pv. cbn [p0 p1 bown par]. ring. Qed.

(* branch row f carries no relation of N (a fresh unknown) *)
Definition row_unused (N : netlist) (f : Z) : Prop := forall v ib, crel N v ib f = f0.

Section Probes.
Variables p m : Z.
Notation psol N := (sol p m (kcl N) (crel N)).
Notation prel N := (port_rel p m (kcl N) (crel N)).
Notation pvv := (pv p m).

(* impedance(): kill, add the test current source, read Voc *)
Theorem probe_test_current kd (N : netlist) v ib :
  phys (m_apply_test_current true kd N p m) v ib <-> psol (killnet N) f1 v ib.
Proof.
  unfold m_apply_test_current, phys, sol. split; intros [A B]; split; intros x Hx.
  - specialize (A x Hx). rewrite kcl_app, kcl_test_I, (proj1 (m_kill_spec N v ib x)) in A.
    transitivity (fsub (fadd (kcl (killnet N) v ib x) (fopp (thru p m x f1))) (fopp (thru p m x f1))); [ring | rewrite A; ring].
  - specialize (B x Hx). rewrite crel_app, crel_test_I, (proj2 (m_kill_spec N v ib x)) in B. rewrite <- B. ring.
  - rewrite kcl_app, kcl_test_I, (proj1 (m_kill_spec N v ib x)), (A x Hx). ring.
  - rewrite crel_app, crel_test_I, (proj2 (m_kill_spec N v ib x)), (B x Hx). ring.
Qed.
Theorem probe_impedance kd (N : netlist) v0 ib0 v ib :
  net_determined p m N -> phys N v0 ib0 ->
  phys (m_apply_test_current true kd N p m) v ib ->
  forall i u, prel N i u <-> u = fadd (pvv v0) (fmul (pvv v) i).
Proof. intros W S0 S. apply (net_port_affine p m N v0 ib0 v ib W S0). apply (probe_test_current kd). exact S. Qed.

(* Isc(): add Vshort_, read its current (the sign conventions of
   current_sign cancel: twice for a source) *)
Theorem probe_short kd (N : netlist) f v ib : 0 <= f -> row_unused N f ->
  phys (m_Isc_net kd N p m f) v ib -> psol N (fopp (ib f)) v ib /\ pvv v = f0.
Proof.
  intros Hf U [A B]. unfold m_Isc_net, m_short in *.
  assert (PV : pvv v = f0).
  { specialize (B f Hf). rewrite crel_app, crel_V, U, ind_refl in B. rewrite <- B. ring. }
  split; [|exact PV]. split; intros x Hx.
  - specialize (A x Hx). rewrite kcl_app, kcl_V in A.
    transitivity (fsub (fadd (kcl N v ib x) (thru p m x (ib f))) (thru p m x (ib f))); [ring | rewrite A; unfold thru; ring].
  - specialize (B x Hx). rewrite crel_app, crel_V, PV in B. rewrite <- B. ring.
Qed.
Theorem probe_Isc kd (N : netlist) f v0 ib0 vt ibt v ib : 0 <= f -> row_unused N f ->
  net_determined p m N -> phys N v0 ib0 -> psol (killnet N) f1 vt ibt ->
  phys (m_Isc_net kd N p m f) v ib -> fmul (ib f) (pvv vt) = pvv v0.
Proof.
  intros Hf U W S0 St S. destruct (probe_short kd N f v ib Hf U S) as [S1 PV].
  apply (net_isc_zth p m N v0 ib0 vt ibt (ib f) W S0 St). exists v, ib. split; assumption.
Qed.

(* admittance(): kill, add the test voltage source, read  - I(test) *)
Theorem probe_test_voltage kd (N : netlist) f v ib : 0 <= f -> row_unused (killnet N) f ->
  phys (m_apply_test_voltage true kd N p m f) v ib -> psol (killnet N) (fopp (ib f)) v ib /\ pvv v = f1.
Proof.
  intros Hf U [A B]. unfold m_apply_test_voltage, m_test_V in *.
  assert (PV : pvv v = f1).
  { specialize (B f Hf). rewrite crel_app, crel_V, (proj2 (m_kill_spec N v ib f)), U, ind_refl in B.
    transitivity (fadd (fadd f0 (fmul f1 (fsub (pvv v) f1))) f1); [ring | rewrite B; ring]. }
  split; [|exact PV]. split; intros x Hx.
  - specialize (A x Hx). rewrite kcl_app, kcl_V, (proj1 (m_kill_spec N v ib x)) in A.
    transitivity (fsub (fadd (kcl (killnet N) v ib x) (thru p m x (ib f))) (thru p m x (ib f))); [ring | rewrite A; unfold thru; ring].
  - specialize (B x Hx). rewrite crel_app, crel_V, (proj2 (m_kill_spec N v ib x)), PV in B. rewrite <- B. ring.
Qed.
Theorem probe_admittance kd (N : netlist) f vt ibt v ib : 0 <= f -> row_unused (killnet N) f ->
  net_determined p m N -> psol (killnet N) f1 vt ibt ->
  phys (m_apply_test_voltage true kd N p m f) v ib -> fmul (pvv vt) (fopp (ib f)) = f1.
Proof.
  intros Hf U W St S. destruct (probe_test_voltage kd N f v ib Hf U S) as [S1 PV].
  apply (net_zth_yth p m N vt ibt (fopp (ib f)) W St). exists v, ib. split; assumption.
Qed.
End Probes.

(* transfer(N1p, N1m, N2p, N2m): the killed network driven by a test VOLTAGE at
   port 1; the voltage at port 2 is proportional to the applied voltage, the
   factor being what the probe reads with the unit source *)
Theorem probe_transfer kd (N : netlist) pa ma pb mb f vt ibt :
  (* determined: with the test source at 0 V, port 2 sees 0 V *)
  (forall v ib, phys (killnet N ++ [m_short kd pa ma f]) v ib -> pv pb mb v = f0) ->
  phys (m_apply_test_voltage true kd N pa ma f) vt ibt ->
  forall a v ib, phys (killnet N ++ [(cV, ctx2 kd pa ma f a f0 f0)]) v ib -> pv pb mb v = fmul (pv pb mb vt) a.
Proof.
  intros D St a v ib S.
  assert (H : phys (killnet N ++ [m_short kd pa ma f]) (vadd v (vscal (fopp a) vt)) (vadd ib (vscal (fopp a) ibt))).
  { destruct St as [At Bt]. destruct S as [A B]. unfold m_apply_test_voltage, m_test_V, m_short in *. split; intros x Hx.
    - specialize (At x Hx). specialize (A x Hx). rewrite kcl_app, kcl_V in *. rewrite (proj1 (m_kill_spec N vt ibt x)) in At.
      rewrite kcl_killnet in *. rewrite (linpart_lin K (kcl N) (kcl_affine N)).
      unfold vadd, vscal. unfold thru in *.
      transitivity (fadd (fadd (linpart (kcl N) v ib x) (fmul (fsub (ind pa x) (ind ma x)) (ib f)))
                         (fmul (fopp a) (fadd (linpart (kcl N) vt ibt x) (fmul (fsub (ind pa x) (ind ma x)) (ibt f))))); [ring|].
      rewrite A, At. ring.
    - specialize (Bt x Hx). specialize (B x Hx). rewrite crel_app, crel_V in *. rewrite (proj2 (m_kill_spec N vt ibt x)) in Bt.
      rewrite crel_killnet in *. rewrite (linpart_lin K (crel N) (crel_affine N)). rewrite pv_comb.
      transitivity (fadd (fadd (linpart (crel N) v ib x) (fmul (ind f x) (fsub (pv pa ma v) a)))
                         (fmul (fopp a) (fadd (linpart (crel N) vt ibt x) (fmul (ind f x) (fsub (pv pa ma vt) f1))))); [ring|].
      rewrite B, Bt. ring. }
  apply D in H. rewrite pv_comb in H.
  transitivity (fsub (fadd (pv pb mb v) (fmul (fopp a) (pv pb mb vt))) (fmul (fopp a) (pv pb mb vt))); [ring | rewrite H; ring].
Qed.

(* transfer() as coded: apply_test_voltage_source first removes the voltage sources that sit directly across the input
   nodes (a killed one would short the test source), then proceeds as above on the remaining network *)
Lemma remove_vs_incl (N : netlist) p m e : In e (m_remove_vs p m N) -> In e N.
Proof. unfold m_remove_vs. rewrite filter_In. tauto. Qed.
Lemma remove_vs_none (N : netlist) p m e : In e (m_remove_vs p m N) -> is_cV (fst e) && across p m (snd e) = false.
Proof. unfold m_remove_vs. rewrite filter_In. intros [_ H]. apply negb_true_iff in H. exact H. Qed.
Lemma remove_vs_wf (N : netlist) p m : wf_net N -> wf_net (m_remove_vs p m N).
Proof. unfold wf_net. rewrite !Forall_forall. intros H e He. apply H. apply (remove_vs_incl N p m e He). Qed.
Lemma remove_vs_id (N : netlist) p m :
  (forall e, In e N -> is_cV (fst e) && across p m (snd e) = false) -> m_remove_vs p m N = N.
Proof. induction N as [|e N IH]; intros H; [reflexivity|]. cbn [m_remove_vs filter]. rewrite (H e (or_introl eq_refl)). cbn [negb].
  f_equal. apply IH. intros e' He'. apply H. right. exact He'. Qed.
Theorem probe_transfer_removed kd (N : netlist) pa ma pb mb f vt ibt :
  (forall v ib, phys (killnet (m_remove_vs pa ma N) ++ [m_short kd pa ma f]) v ib -> pv pb mb v = f0) ->
  phys (m_transfer_net true kd N pa ma f) vt ibt ->
  forall a v ib, phys (killnet (m_remove_vs pa ma N) ++ [(cV, ctx2 kd pa ma f a f0 f0)]) v ib -> pv pb mb v = fmul (pv pb mb vt) a.
Proof. unfold m_transfer_net. apply probe_transfer. Qed.

(* ---- 5. the returned models as netlists ---------------------------------------- *)
Lemma ind_sym (a b : Z) : @ind K a b = ind b a.
Proof. unfold ind. rewrite Z.eqb_sym. reflexivity. Qed.
Lemma ind_ne (a b : Z) : a <> b -> @ind K a b = f0.
Proof. intros H. unfold ind. destruct (Z.eqb_spec a b); [contradiction | reflexivity]. Qed.
Lemma Yeff_ctx2 kd a b f (voc isc y : K) : Yeff (ctx2 kd a b f voc isc y) = y.
Proof. unfold Yeff, ctx2. cbn [typ kind par ctype_eqb andb]. reflexivity. Qed.

Theorem norton_net_rel kd p m (Isc Yth i u : K) : p <> m -> (0 <= p \/ 0 <= m) ->
  port_rel p m (kcl (norton_net kd p m Isc Yth)) (crel (norton_net kd p m Isc Yth)) i u <-> i = fsub (fmul Yth u) Isc.
Proof.
  intros Hpm Hg.
  assert (KCL : forall v ib r, kcl (norton_net kd p m Isc Yth) v ib r = thru p m r (fsub (fmul Yth (pv p m v)) Isc)).
  { intros v ib r. unfold kcl, norton_net. cbn [map sumK fst snd drawn_of]. unfold drawn_I, drawn_RC. rewrite Yeff_ctx2.
    unfold ctx2, dV01, pv, thru. cbn [p0 p1 par kind has_ic andb]. rewrite andb_false_r. ring. }
  assert (CR : forall v ib q, crel (norton_net kd p m Isc Yth) v ib q = f0).
  { intros v ib q. unfold crel, norton_net. cbn [map sumK fst snd brel_of]. unfold brel_I, brel_RC. ring. }
  split.
  - intros [v [ib [[A B] E]]]. subst u.
    destruct Hg as [Hg|Hg].
    + specialize (A p Hg). rewrite KCL in A. unfold thru in A. rewrite ind_refl, (ind_ne m p) in A by auto.
      transitivity (fmul (fsub f1 f0) i); [ring | rewrite <- A; ring].
    + specialize (A m Hg). rewrite KCL in A. unfold thru in A. rewrite ind_refl, (ind_ne p m) in A by auto.
      transitivity (fopp (fmul (fsub f0 f1) i)); [ring | rewrite <- A; ring].
  - intros ->. set (w := fun n : Z => if Z.eqb n p then (if 0 <=? p then u else f0) else f0 : K).
    (* potentials: p at u (or m at -u when p is ground) *)
    destruct (Z.leb_spec 0 p) as [Hp|Hp].
    + exists (fun n => if Z.eqb n p then u else f0), (fun _ => f0).
      assert (PV : pv p m (fun n => if Z.eqb n p then u else f0) = u).
      { unfold pv, vv. rewrite Z.eqb_refl. destruct (Z.eqb_spec m p); [congruence|].
        destruct (0 <=? p) eqn:E1; [|apply Z.leb_gt in E1; lia]. destruct (0 <=? m); ring. }
      split; [split|exact PV]; intros x Hx; [rewrite KCL, PV; reflexivity | apply CR].
    + assert (Hm : 0 <= m) by (destruct Hg; lia).
      exists (fun n => if Z.eqb n m then fopp u else f0), (fun _ => f0).
      assert (PV : pv p m (fun n => if Z.eqb n m then fopp u else f0) = u).
      { unfold pv, vv. rewrite Z.eqb_refl. destruct (0 <=? p) eqn:E1; [apply Z.leb_le in E1; lia|].
        destruct (0 <=? m) eqn:E2; [ring | apply Z.leb_gt in E2; lia]. }
      split; [split|exact PV]; intros x Hx; [rewrite KCL, PV; reflexivity | apply CR].
Qed.

Theorem thevenin_net_rel kd p m a f (Voc Zth i u : K) :
  Zth <> f0 -> 0 <= a -> 0 <= f -> a <> p -> a <> m -> p <> m -> (0 <= p \/ 0 <= m) ->
  port_rel p m (kcl (thevenin_net kd p m a f Voc Zth)) (crel (thevenin_net kd p m a f Voc Zth)) i u <-> u = fadd Voc (fmul Zth i).
Proof.
  intros HZ Ha Hf Hap Ham Hpm Hg.
  assert (KCL : forall v ib r, kcl (thevenin_net kd p m a f Voc Zth) v ib r =
            fadd (thru a m r (ib f)) (thru p a r (fmul (fdiv f1 Zth) (fsub (vv v p) (vv v a))))).
  { intros v ib r. unfold kcl, thevenin_net. cbn [map sumK fst snd drawn_of]. unfold drawn_V, drawn_RC. rewrite Yeff_ctx2.
    unfold ctx2, dV01, thru. cbn [p0 p1 par kind has_ic bown andb]. rewrite andb_false_r. ring. }
  assert (CR : forall v ib q, crel (thevenin_net kd p m a f Voc Zth) v ib q = fmul (ind f q) (fsub (fsub (vv v a) (vv v m)) Voc)).
  { intros v ib q. unfold crel, thevenin_net. cbn [map sumK fst snd brel_of]. unfold brel_V, brel_RC, dV01, ctx2. cbn [p0 p1 par bown]. ring. }
  split.
  - intros [v [ib [[A B] E]]]. subst u.
    pose proof (B f Hf) as Bf0. rewrite CR, ind_refl in Bf0.
    assert (Bf : fsub (fsub (vv v a) (vv v m)) Voc = f0) by (rewrite <- Bf0; ring).
    pose proof (A a Ha) as Aa. rewrite KCL in Aa. unfold thru in Aa.
    rewrite ind_refl, (ind_ne m a), (ind_ne p a) in Aa by auto.
    (* current through Z equals the source current; one terminal row gives it as i *)
    assert (I1 : fmul (fdiv f1 Zth) (fsub (vv v p) (vv v a)) = ib f).
    { transitivity (fsub (ib f) (fadd (fmul (fsub f1 f0) (ib f)) (fmul (fsub f0 f1) (fmul (fdiv f1 Zth) (fsub (vv v p) (vv v a)))))); [ring|].
      rewrite Aa. ring. }
    assert (I2 : ib f = i).
    { destruct Hg as [Hg|Hg].
      - pose proof (A p Hg) as Ap. rewrite KCL in Ap. unfold thru in Ap.
        rewrite ind_refl, (ind_ne a p), (ind_ne m p) in Ap by auto. rewrite I1 in Ap.
        transitivity (fadd (fmul (fsub f0 f0) (ib f)) (fmul (fsub f1 f0) (ib f))); [ring | rewrite Ap; ring].
      - pose proof (A m Hg) as Am. rewrite KCL in Am. unfold thru in Am.
        rewrite ind_refl, (ind_ne a m), (ind_ne p m) in Am by auto.
        transitivity (fopp (fadd (fmul (fsub f0 f1) (ib f)) (fmul (fsub f0 f0) (fmul (fdiv f1 Zth) (fsub (vv v p) (vv v a)))))); [ring | rewrite Am; ring]. }
    unfold pv. rewrite <- I2, <- I1.
    transitivity (fadd (fadd (fsub (fsub (vv v a) (vv v m)) Voc) Voc) (fsub (vv v p) (vv v a))); [ring | rewrite Bf; field; exact HZ].
  - intros ->.
    (* witness: m at potential 0 when it is a node (or ground), a at Voc, p at Voc + Zth i;
       when p is ground, shift everything by -(Voc + Zth i) *)
    set (sh := if 0 <=? p then f0 else fopp (fadd Voc (fmul Zth i)) : K).
    set (w := fun n : Z => if Z.eqb n p then fadd (fadd Voc (fmul Zth i)) sh
                           else if Z.eqb n a then fadd Voc sh else if Z.eqb n m then sh else f0).
    exists w, (fun _ => i).
    assert (Wp : vv w p = fadd (fadd Voc (fmul Zth i)) sh).
    { unfold vv, w, sh. rewrite Z.eqb_refl. destruct (0 <=? p); ring. }
    assert (Wa : vv w a = fadd Voc sh).
    { unfold vv, w. destruct (Z.leb_spec 0 a); [|lia]. destruct (Z.eqb_spec a p); [congruence|]. rewrite Z.eqb_refl. reflexivity. }
    assert (Wm : vv w m = sh).
    { unfold vv, w. destruct (Z.eqb_spec m p); [congruence|]. destruct (Z.eqb_spec m a); [congruence|]. rewrite Z.eqb_refl.
      destruct (Z.leb_spec 0 m) as [Hm|Hm]; [reflexivity|]. unfold sh. destruct (Z.leb_spec 0 p); [reflexivity | destruct Hg; lia]. }
    split; [split|].
    + intros x Hx. rewrite KCL, Wp, Wa. unfold thru. field. exact HZ.
    + intros q Hq. rewrite CR, Wa, Wm. ring.
    + unfold pv. rewrite Wp, Wm. ring.
Qed.

(* ---- 6. floating netlists: shift invariance ------------------------------------ *)
(* classes whose relations use potential differences only *)
Definition diff_class (cl : cname) : bool :=
  match cl with cTR | cSPpp | cSPpm | cSPppp | cSPpmm | cSPppm | cVCVS => false | _ => true end.
Definition nodes_nonneg (c : sctx K) : Prop := 0 <= p0 c /\ 0 <= p1 c /\ 0 <= p2 c /\ 0 <= p3 c /\ 0 <= c0 c /\ 0 <= c1 c.
(* VCVS is shift-invariant when it has no common-mode gain *)
Definition floating1 (e : cname * sctx K) : Prop :=
  nodes_nonneg (snd e) /\ (diff_class (fst e) = true \/ (fst e = cVCVS /\ has_arg1 (snd e) = false)).
Definition floating (N : netlist) : Prop := Forall floating1 N.
Lemma vv_shift (c : K) v n : 0 <= n -> vv (vshift c v) n = fadd (vv v n) c.
Proof. intros H. unfold vv, vshift. destruct (Z.leb_spec 0 n); [reflexivity | lia]. Qed.
Ltac shift_solve :=
  unfold_phys; cbn [kind typ p0 p1 p2 p3 c0 c1 bown bextra bctrl bL1 bL2 has_ic ctrl_is_vsrc has_arg1 tp_has_src par];
  rewrite ?vv_shift by assumption;
  split_ifs; rewrite ?(Fdiv_def (fth K)); ring.
Lemma drawn_shift e : floating1 e -> forall v ib (c : K) r, drawn_of (fst e) (snd e) (vshift c v) ib r = drawn_of (fst e) (snd e) v ib r.
Proof.
  destruct e as [cl cx]. intros [[H0 [H1 [H2 [H3 [H4 H5]]]]] Hc] v ib c r. cbn [fst snd] in *.
  destruct cx as [kd ty n0 n1 n2 n3 m0 m1 bo be bc b1 b2 hic cv ha ts pr]. cbn [p0 p1 p2 p3 c0 c1 has_arg1] in *.
  destruct Hc as [Hc|[Hc Ha]]; [destruct cl; try discriminate Hc; shift_solve | subst cl ha; shift_solve].
Qed.
Lemma brel_shift e : floating1 e -> forall v ib (c : K) q, brel_of (fst e) (snd e) (vshift c v) ib q = brel_of (fst e) (snd e) v ib q.
Proof.
  destruct e as [cl cx]. intros [[H0 [H1 [H2 [H3 [H4 H5]]]]] Hc] v ib c q. cbn [fst snd] in *.
  destruct cx as [kd ty n0 n1 n2 n3 m0 m1 bo be bc b1 b2 hic cv ha ts pr]. cbn [p0 p1 p2 p3 c0 c1 has_arg1] in *.
  destruct Hc as [Hc|[Hc Ha]]; [destruct cl; try discriminate Hc; shift_solve | subst cl ha; shift_solve].
Qed.
Theorem floating_shift_inv (N : netlist) : floating N -> shift_inv (kcl N) /\ shift_inv (crel N).
Proof.
  induction N as [|e N IH]; intros H.
  - split; intros v ib c r; reflexivity.
  - inversion H as [|? ? He HN]; subst. destruct (IH HN) as [I1 I2]. split; intros v ib c r.
    + rewrite !kcl_cons, I1, (drawn_shift e He). reflexivity.
    + rewrite !crel_cons, I2, (brel_shift e He). reflexivity.
Qed.
(* ground_indep for netlists: whichever node x of a floating netlist is taken
   as the reference (in particular either terminal), the terminal relation -
   hence Voc, Zth, Isc, Yth - is the same *)
Theorem net_ground_indep (N : netlist) p m x : 0 <= p -> 0 <= m -> floating N ->
  forall i u, port_rel_ref p m (kcl N) (crel N) x i u <-> port_rel p m (kcl N) (crel N) i u.
Proof. intros Hp Hm H. destruct (floating_shift_inv N H) as [S1 S2]. apply (ground_indep K p m Hp Hm); assumption. Qed.
Lemma floating_killnet (N : netlist) : floating N -> floating (killnet N).
Proof. unfold floating, killnet. intros H. apply Forall_map. revert H. apply Forall_impl.
  intros [cl c] [Hn Hc]. split; [exact Hn | exact Hc]. Qed.
End C04.

Arguments net_determined {K}.

Print Assumptions kcl_affine.
Print Assumptions crel_affine.
Print Assumptions kcl_killnet.
Print Assumptions net_port_affine.
Print Assumptions net_isc_zth.
Print Assumptions net_zth_yth.
Print Assumptions net_load_invariance.
Print Assumptions m_kill_spec.
Print Assumptions probe_impedance.
Print Assumptions probe_Isc.
Print Assumptions probe_admittance.
Print Assumptions probe_transfer.
Print Assumptions probe_transfer_removed.
Print Assumptions remove_vs_wf.
Print Assumptions thevenin_net_rel.
Print Assumptions norton_net_rel.
Print Assumptions net_ground_indep.
