(* C16 -- hand-written part: the generic theorems are in LT.History; here they
   are listed with their assumptions, and the executable instance used for the
   correspondence with the real code is exercised on a tiny example so that a
   broken session evaluator cannot go unnoticed.  The obligations about the
   CURRENT source are generated into C16_*.v on every run. *)
Require Import LT.History.
From Coq Require Import List Bool Arith Lia.
Import ListNotations.

(* keys: 0 memoised, read from data, NOT cleared; 1 memoised, cleared, reads key 0 and data;
   views: 2 reads key 0; 3 reads key 1.  Data ids 10 -> 11 by one mutation. *)
Definition ex_fresh := [((10, 2), 100); ((11, 2), 101); ((10, 3), 200); ((11, 3), 201)].
Definition ex_bad := session [0; 1] [1] [0; 1] [(1, [0]); (2, [0]); (3, [1])] ex_fresh.
Definition ex_good := session [0; 1] [0; 1] [0; 1] [(1, [0]); (2, [0]); (3, [1])] ex_fresh.

(* the uncleared key makes the model predict exactly the stale answer 100 after the mutation
   (verdict 2 = "stale, as predicted"), a hybrid provenance for the dependent view (3), and it
   flags (1) an observation that no version explains and a slot it does not believe filled *)
Example session_predicts_stale :
  ex_bad [PNew 10; PQuery 0 2 100; PText 0 10; PMut 0 99 11; PText 0 11; PQuery 0 2 100; PQuery 0 3 201;
          PQuery 0 2 555; PFilled 0 [0; 1]; PFilled 0 [7]]
  = [(5, 2); (6, 3); (7, 1); (9, 1)].
Proof. vm_compute. reflexivity. Qed.

(* with the key cleared the model insists on the fresh answer: a stale observation is a disagreement *)
Example session_insists_on_fresh :
  ex_good [PNew 10; PQuery 0 2 100; PMut 0 99 11; PQuery 0 2 100; PQuery 0 2 101] = [(3, 1)].
Proof. vm_compute. reflexivity. Qed.

(* operations on a copy do not reach the original: its text is still 10 *)
Example session_touch_fills : ex_bad [PNew 10; PTouch 0 2; PMut 0 99 11; PQuery 0 2 100] = [(3, 2)].
Proof. vm_compute. reflexivity. Qed.

Example session_copy_isolated :
  ex_good [PNew 10; PDerive 0 99 10; PMut 1 99 11; PText 0 10; PText 1 11; PQuery 0 2 100; PQuery 1 2 101] = [].
Proof. vm_compute. reflexivity. Qed.

(* the flag automaton on the two invalidation orders found in the source *)
Example add_shape : accepted nat [EWrite (fun d => S d); EInval]. Proof. reflexivity. Qed.
Example remove_shape : accepted nat [EInval; EWrite (fun d => S d)]. Proof. reflexivity. Qed.
Example query_between_is_rejected : ~ accepted nat [EInval; EQuery 0; EWrite (fun d => S d)].
Proof. unfold accepted, accepted_from. cbn. discriminate. Qed.
Example write_alone_is_rejected : ~ accepted nat [EWrite (fun d => S d)].
Proof. unfold accepted, accepted_from. cbn. discriminate. Qed.

(* the abstract interpreter on a recursive remove-like program: f0 = if c then return else
   (loop (call f0); inval; write).  Summary (t,f) -> (t,f): accepted. *)
Definition ex_progs := [(0, SSeq (SIf SReturn SSkip) (SSeq (SLoop (SCall 0)) (SSeq (SEv AInval) (SEv AWrite))))].
Definition ex_sigma := [(0, [Some (false, false); Some (false, true); Some (true, false); Some (true, true)])].
Example ex_consistent : consistent_b ex_progs ex_sigma = true. Proof. vm_compute. reflexivity. Qed.
Example ex_accepted : summary_ok ex_sigma 0 (true, false) = true. Proof. vm_compute. reflexivity. Qed.
(* a summary that is too optimistic is rejected by the consistency check *)
Definition ex_progs2 := [(0, SSeq (SEv AQuery) (SEv AWrite))].
Example ex_inconsistent : consistent_b ex_progs2 [(0, [Some (false, false); Some (false, false); Some (false, false); Some (false, false)])] = false.
Proof. vm_compute. reflexivity. Qed.

Print Assumptions history_independent.
Print Assumptions public_history_independent.
Print Assumptions world_history_independent.
Print Assumptions copy_isolated.
Print Assumptions history_refuted_stale.
Print Assumptions exec_sound.
Print Assumptions checked_accepted.
Print Assumptions cached_equals_uncached.

(* ---- node bookkeeping: attach once per terminal, detach as often ------------------------------
   A component is attached to node n once per occurrence of n in its terminal list l (Cpt.__init__);
   [attach]/[detach] are the counters kept by Node.append / Node.remove.  Detaching over the very
   same list restores every counter; detaching over the list without repetitions (set(cpt.nodes))
   leaves a residue as soon as a node occurs twice. *)
Definition bump (f : nat -> nat) (c : nat -> nat) (n : nat) : nat -> nat := fun m => if Nat.eqb m n then f (c m) else c m.
Definition attach (l : list nat) (c : nat -> nat) := fold_left (bump S) l c.
Definition detach (l : list nat) (c : nat -> nat) := fold_left (bump pred) l c.

Lemma attach_count l : forall c n, attach l c n = c n + count_occ Nat.eq_dec l n.
Proof.
  induction l as [|a l IH]; intros c n; cbn; [lia|].
  rewrite IH. unfold bump. destruct (Nat.eq_dec a n) as [->|Hne].
  - rewrite Nat.eqb_refl. lia.
  - destruct (Nat.eqb n a) eqn:E; [apply Nat.eqb_eq in E; congruence | lia].
Qed.
Lemma detach_count l : forall c n, detach l c n = c n - count_occ Nat.eq_dec l n.
Proof.
  induction l as [|a l IH]; intros c n; cbn; [lia|].
  rewrite IH. unfold bump. destruct (Nat.eq_dec a n) as [->|Hne].
  - rewrite Nat.eqb_refl. lia.
  - destruct (Nat.eqb n a) eqn:E; [apply Nat.eqb_eq in E; congruence | lia].
Qed.
Theorem detach_as_attached : forall l c n, detach l (attach l c) n = c n.
Proof. intros. rewrite detach_count, attach_count. lia. Qed.
Theorem detach_without_repetitions_leaves_residue : forall l c n,
  count_occ Nat.eq_dec l n >= 2 -> detach (nodup Nat.eq_dec l) (attach l c) n > c n.
Proof.
  intros l c n H. rewrite detach_count, attach_count.
  assert (count_occ Nat.eq_dec (nodup Nat.eq_dec l) n <= 1).
  { pose proof (NoDup_nodup Nat.eq_dec l) as ND. rewrite (NoDup_count_occ Nat.eq_dec) in ND. apply ND. }
  lia.
Qed.
(* E1 3 0 2 3 3: terminals [3; 0; 2; 3] *)
Example vcvs_shared_node : detach (nodup Nat.eq_dec [3; 0; 2; 3]) (attach [3; 0; 2; 3] (fun _ => 0)) 3 = 1.
Proof. vm_compute. reflexivity. Qed.
Print Assumptions detach_as_attached.
Print Assumptions detach_without_repetitions_leaves_residue.
