(* C17 - response(): the time base of the delayed output of the impulse-invariance path, stated about
   the definitions regenerated from lcapy/sexpr.py (Gen.NumSimGen: resp_ii_h_base, resp_ii_interp_base,
   resp_ii_query_base).

   The convolved output y_k of _response_impulse_invariance belongs to the k-th instant of the CALLER's time
   vector (t0 + k dt, any start t0 of the window); a delay exp(-s T) is applied by interpolating (abscissae, y)
   and reading the interpolant at  <query instants> - T.
   * response_delay_time_base: for every interpolation operator that reproduces its nodes, every window start
     t0, step dt, sequence y and delay of m whole steps, sample k + m of the result is y_k: the delayed output is
     sampled on the caller's grid.  (With the abscissae rebuilt from zero this is false for every t0 <> 0:
     LT.NumEvalResp.zero_base_is_callers_only_from_origin.)
   * response_h_sampled_from_zero: the impulse response entering the convolution is sampled at k dt.
   NOT proved (named gap): the size of the interpolation error for delays that are not whole steps, and the
   convergence of the rectangle-rule convolution (exercised by the search oracle on windows before/after 0). *)
From Coq Require Import ZArith List Bool.
Require Import LT.FieldSec LT.NumEval LT.NumEvalSim LT.NumEvalResp Gen.NumSimGen.

Section RespProps.
Variable K : fld.
Add Field KFrp : (fth K).
Local Open Scope F_scope.
Variable interp : (nat -> K) -> (nat -> K) -> K -> K.
Hypothesis interp_node : forall a y k, interp a y (a k) = y k.

Theorem response_delay_time_base : forall (t0 dt : K) (y : nat -> K) (m k : nat),
  interp (grid resp_ii_interp_base t0 dt) y (grid resp_ii_query_base t0 dt (k + m) - kn m * dt) = y k.
Proof.
  intros. change resp_ii_query_base with TBcaller.
  apply (delay_on_callers_grid K interp interp_node). reflexivity.
Qed.

Theorem response_h_sampled_from_zero : forall (t0 dt : K) (k : nat),
  grid resp_ii_h_base t0 dt k = kn k * dt.
Proof. intros. reflexivity. Qed.
End RespProps.

Print Assumptions response_delay_time_base.
Print Assumptions response_h_sampled_from_zero.
