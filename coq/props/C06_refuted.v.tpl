(* C06 - witnesses that the hypotheses of parse_print (wf_cpt) cannot be dropped: for each OPEN finding one
   accepted line whose printed form does not read back as the (normalised) component, evaluated on the
   current model and grammar.  When a finding is fixed in /repo and the model is updated, delete its witness.
   (template coq/props/C06_refuted.v.tpl, copied into the work directory on every run) *)
From Coq Require Import List Ascii Bool Arith ZArith.
From Coq Require String.
Import String.StringSyntax.
From LT Require Import ParserStr ParserModel ParserThm ParserRoundTrip ParserCases.
Require Import Gen.ParserGrammarGen.
Import ListNotations.
Local Open Scope string_scope.
(* the line is accepted and print-then-read gives back norm of what was read *)
Definition rt_ok (line : str) : option bool :=
  match parse G st0 [] line with
  | Ok (c, _) => Some (match parse G st0 [] (print_cpt (g_delims G) c) with
                       | Ok (c', _) => cpt_eqb c' (norm (g_delims G) c)
                       | Err _ => false end)
  | Err _ => None
  end.
Definition in_domain (line : str) : option bool := wf_of_line G line.

(* Cpt._netmake1:value-equals-sibling-keyword *)
Theorem parse_print_sibling_keyword_refuted :
  rt_ok (s2l "V1 1 0 {s}") = Some false /\ in_domain (s2l "V1 1 0 {s}") = Some false.
Proof. vm_compute. split; reflexivity. Qed.
(* Cpt._netmake1:single-arg-equal-to-name-elided *)
Theorem parse_print_elided_value_refuted :
  rt_ok (s2l "SW1 1 2 SW1") = Some false /\ in_domain (s2l "SW1 1 2 SW1") = Some false.
Proof. vm_compute. split; reflexivity. Qed.
(* formerly open, now fixed in /repo (41fbd92, 48ede64): the unknown keyword is rejected, the def option reads back *)
Theorem unknown_keyword_rejected :
  match parse G st0 [] (s2l "SP1 zz9 .a .b .c") with Err EUnknownKw => true | _ => false end = true
  /\ match parse G st0 [] (s2l "U1 foo") with Err EUnknownKw => true | _ => false end = true
  /\ rt_ok (s2l "U1") = Some true.
Proof. vm_compute. repeat split; reflexivity. Qed.
Theorem opts_def_roundtrips :
  rt_ok (s2l "R1 1 2 3; def={x,y}, l=a, def={z}") = Some true /\ in_domain (s2l "R1 1 2 3; def={x,y}, l=a, def={z}") = Some true.
Proof. vm_compute. split; reflexivity. Qed.
(* the same shapes one character away are inside the domain and round-trip *)
Theorem parse_print_neighbours_hold :
  rt_ok (s2l "V1 1 0 {s+1}") = Some true /\ in_domain (s2l "V1 1 0 {s+1}") = Some true /\
  rt_ok (s2l "SW1 1 2 SW2") = Some true /\ in_domain (s2l "SW1 1 2 SW2") = Some true /\
  rt_ok (s2l "SP1 pp .a .b .c") = Some true /\ in_domain (s2l "SP1 pp .a .b .c") = Some true /\
  rt_ok (s2l "R1 1 2 3; l={x,y}") = Some true /\ in_domain (s2l "R1 1 2 3; l={x,y}") = Some true.
Proof. vm_compute. repeat split; reflexivity. Qed.
Print Assumptions parse_print_sibling_keyword_refuted.
Print Assumptions parse_print_neighbours_hold.
