(* C15 - what links the values read by the printed branch relations (lpar: the
   outputs of Lcapy's impedance / source-value machinery, an oracle) to the
   physical element (sctx of C01: Y, Z, Isc, Voc of the analysis the solver runs).
   These links are HYPOTHESES of the per-class lemmas in the generated files
   C15leaf_*.v and are validated on every generated case by the check. *)
Require Import LT.FieldSec LT.Circuit LT.MNA LT.FormulLeaf Gen.StampsGen Gen.C01model Gen.FormulLeafGen Gen.C15model Gen.C15nodal.
Local Open Scope Z_scope.
Local Open Scope bool_scope.

Definition tg (k : lkind) : bool := lk_in k [Kt; Ktime; Ksuper].
Definition sg (k : lkind) : bool := lk_in k [Ks; Klaplace].
(* the kinds NodalAnalysis / LoopAnalysis can run with *)
Definition reach (k : lkind) : bool := lk_in k [Kt; Ktime; Ksuper; Ks; Klaplace; Kdc; Kac].

Section Links.
Variable K : fld.
Local Open Scope F_scope.
Definition icflag (c : sctx K) : bool := akind_eqb (kind c) KIvp && has_ic c.
(* resistive one-ports R, G, Y, Z: self._Z is the impedance the solver uses *)
Definition link_R (c : sctx K) (lp : lpar K) : Prop :=
  lZ lp <> 0 /\ Yeff c = 1 / lZ lp /\ icflag c = false.
(* capacitor *)
Definition link_C (k : lkind) (s : K) (c : sctx K) (lp : lpar K) (v0 : Z -> K) : Prop :=
  icflag c = lic lp /\ (lic lp = true -> par c pIsc = lC lp * lv0 lp) /\ (lic lp = false -> lv0 lp = 0) /\
  (if tg k then Yeff c = s * lC lp /\ vv v0 (p0 c) - vv v0 (p1 c) = lv0 lp
   else if sg k then lZk lp <> 0 /\ s <> 0 /\ Yeff c = 1 / lZk lp /\ lC lp = 1 / (s * lZk lp)
   else lZk lp <> 0 /\ Yeff c = 1 / lZk lp /\ lic lp = false).
(* inductor; the last-but-one conjunct is the inductor's own branch relation at the solution *)
Definition link_L (k : lkind) (s : K) (c : sctx K) (lp : lpar K) (v ib : Z -> K) : Prop :=
  akind_eqb (kind c) KDc = false /\ icflag c = lic lp /\ (lic lp = true -> par c pVoc = - (lL lp * li0 lp)) /\
  (lic lp = false -> li0 lp = 0) /\
  dV01 c v = par c pZ * ib (bown c) + (if lic lp then par c pVoc else 0) /\
  (if tg k then par c pZ = s * lL lp /\ s <> 0 /\ lL lp <> 0
   else if sg k then par c pZ = lZk lp /\ lZk lp <> 0
   else par c pZ = lZk lp /\ lZk lp <> 0 /\ lic lp = false).
(* current source: the value selected for the analysis kind is the one the solver injects *)
Definition link_I (c : sctx K) (lp : lpar K) : Prop := lsrcI lp = par c pIsc.
End Links.
Arguments icflag {K}. Arguments link_R {K}. Arguments link_C {K}. Arguments link_L {K}. Arguments link_I {K}.

Ltac leaf_kinds k Hk := destruct k; try discriminate Hk; cbn [tg sg lk_in existsb lkind_eqb orb] in *.
Ltac leaf_finish := first [ ring | field; nz ].
