(* C07 - hand-written executable model (H) of the control flow of
   lcapy/oneport.py over the leaf table regenerated into Gen.OnePortGen:
     ParSer._combine, ParSer.simplify,
     Ser._net_make, Par._net_make, Network._net_make, NetlistMaker.__call__
   (node threading of the emitted netlist).  Tied to the code on every run by
   evaluating these definitions inside Coq on the inputs the real code ran on. *)
Require Import LT.FieldSec LT.QcI LT.OnePort LT.OnePortNet Gen.OnePortGen.
From Coq Require Import List Bool Arith.
Import ListNotations.
Local Open Scope F_scope.

Section Model.
Variable K : fld.
Variable s : K.
Variable spow : K -> K.
Variable omega0 : K.
Variable xf_dc xf_step xf_any xf_time xf_noise : K -> K.
Variable xf_ac : K -> K -> K -> K.
Notation lf := (lf K).
Notation LDt := (ld s spow omega0 xf_dc xf_step xf_any xf_time xf_noise xf_ac).
Notation tree := (tree lf).

Definition keqb (x y : K) : bool := if fdec K x y then true else false.

(* ---- ParSer._combine ------------------------------------------------------- *)
Inductive cres := CNone | CSome (l : lf) | CErr.
(* isinstance(arg, V) and arg.Voc == 0, etc. (subclasses included: NR is an R, NG a G) *)
Definition is_zero_V (l : lf) : bool := match l with L_V _ => eq0 (lVoc (LDt l)) | _ => false end.
Definition is_zero_RZ (l : lf) : bool := match l with L_R _ | L_NR _ | L_Z _ => eq0 (lZ (LDt l)) | _ => false end.
Definition is_zero_I (l : lf) : bool := match l with L_I _ => eq0 (lIsc (LDt l)) | _ => false end.
Definition is_zero_YG (l : lf) : bool := match l with L_Y _ | L_G _ | L_NG _ => eq0 (lY (LDt l)) | _ => false end.
Definition osome2 (o1 o2 : option K) (x : K) : option K := if is_some o1 || is_some o2 then Some x else None.

Definition combine_same (ser : bool) (a b : lf) : cres :=
  match a, b with
  | L_I _, L_I _ => if ser then CNone else CErr                       (* I(arg1 + arg2) raises *)
  | L_V _, L_V _ => if ser then CErr else CNone                       (* V(arg1 + arg2) raises *)
  | L_Vdc x, L_Vdc y => if ser then CSome (L_Vdc (attr_Vdc_v0 x + attr_Vdc_v0 y)) else CNone
  | L_Idc x, L_Idc y => if ser then CNone else CSome (L_Idc (attr_Idc_i0 x + attr_Idc_i0 y))
  | L_R x, L_R y | L_NR x, L_NR y =>
      let r1 := attr_R_R x in let r2 := attr_R_R y in
      if ser then CSome (L_R (r1 + r2)) else CSome (L_R (r1 * r2 / (r1 + r2)))
  | L_G x, L_G y | L_NG x, L_NG y =>
      let g1 := attr_G_G x in let g2 := attr_G_G y in
      if ser then CSome (L_G (g1 * g2 / (g1 + g2))) else CSome (L_G (g1 + g2))
  | L_L l1 o1, L_L l2 o2 =>
      let i1 := attr_L_i0 l1 o1 in let i2 := attr_L_i0 l2 o2 in
      let a1 := attr_L_L l1 o1 in let a2 := attr_L_L l2 o2 in
      if ser then
        if negb (keqb i1 i2) || negb (eqb (is_some o1) (is_some o2)) then CErr
        else CSome (L_L (a1 + a2) (if is_some o1 then Some i1 else None))
      else CSome (L_L (a1 * a2 / (a1 + a2)) (osome2 o1 o2 (i1 + i2)))
  | L_C c1 o1, L_C c2 o2 =>
      let v1 := attr_C_v0 c1 o1 in let v2 := attr_C_v0 c2 o2 in
      let a1 := attr_C_C c1 o1 in let a2 := attr_C_C c2 o2 in
      if ser then CSome (L_C (a1 * a2 / (a1 + a2)) (osome2 o1 o2 (v1 + v2)))
      else if negb (keqb v1 v2) || negb (eqb (is_some o1) (is_some o2)) then CErr
           else CSome (L_C (a1 + a2) (if is_some o1 then Some v1 else None))
  | _, _ => CNone
  end.
Definition combine (ser : bool) (a b : lf) : cres :=
  if negb (Nat.eqb (ctag a) (ctag b)) then
    if ser then
      if is_zero_V a then CSome b else if is_zero_V b then CSome a
      else if is_zero_RZ a then CSome b else if is_zero_RZ b then CSome a else CNone
    else
      if is_zero_I a then CSome b else if is_zero_I b then CSome a
      else if is_zero_YG a then CSome b else if is_zero_YG b then CSome a else CNone
  else combine_same ser a b.

(* the divisions a combination performs must be defined *)
Definition combine_nd (ser : bool) (a b : lf) : Prop :=
  match a, b with
  | L_R x, L_R y | L_NR x, L_NR y => if ser then True else x <> 0 /\ y <> 0 /\ x + y <> 0
  | L_G x, L_G y | L_NG x, L_NG y => x <> 0 /\ y <> 0 /\ x + y <> 0
  | L_L l1 _, L_L l2 _ => if ser then True else s <> 0 /\ l1 <> 0 /\ l2 <> 0 /\ l1 + l2 <> 0
  | L_C c1 _, L_C c2 _ => s <> 0 /\ c1 <> 0 /\ c2 <> 0 /\ c1 + c2 <> 0
  | L_Vdc x, L_Vdc y | L_Idc x, L_Idc y => xf_dc (x + y) = xf_dc x + xf_dc y
  | _, _ => True
  end.

(* ---- ParSer.simplify -------------------------------------------------------- *)
Definition otl := list (option tree).
Fixpoint inner (ser : bool) (a : lf) (rest : otl) : option (lf * otl * bool) * Prop :=
  match rest with
  | [] => (Some (a, [], false), True)
  | Some (Leaf b) :: r =>
      match combine ser a b with
      | CErr => (None, True)
      | CNone => match inner ser a r with
                 | (Some (a', r', chg), C) => (Some (a', Some (Leaf b) :: r', chg), C)
                 | (None, C) => (None, C) end
      | CSome c => match inner ser c r with
                   | (Some (a', r', _), C) => (Some (a', None :: r', true), combine_nd ser a b /\ C)
                   | (None, C) => (None, C) end
      end
  | x :: r => match inner ser a r with
              | (Some (a', r', chg), C) => (Some (a', x :: r', chg), C)
              | (None, C) => (None, C) end
  end.
Fixpoint outer (fuel : nat) (ser : bool) (l : otl) : option (otl * bool) * Prop :=
  match fuel with
  | O => (Some (l, false), True)
  | S f =>
    match l with
    | [] => (Some ([], false), True)
    | Some (Leaf a) :: r =>
        match inner ser a r with
        | (None, C) => (None, C)
        | (Some (a', r', chg), C) =>
            match outer f ser r' with
            | (None, C2) => (None, C /\ C2)
            | (Some (r'', chg2), C2) => (Some (Some (Leaf a') :: r'', chg || chg2), C /\ C2)
            end
        end
    | x :: r => match outer f ser r with
                | (None, C) => (None, C)
                | (Some (r', chg), C) => (Some (x :: r', chg), C) end
    end
  end.
Fixpoint somes (l : otl) : list tree := match l with [] => [] | Some t :: r => t :: somes r | None :: r => somes r end.
Definition mk (ser : bool) (l : list tree) : tree := if ser then Ser l else Par l.
(* first loop of simplify: simplified arguments, arguments of the same class spliced in *)
Fixpoint flat (ser : bool) (rs : list (option tree * Prop)) : option (list tree) * Prop :=
  match rs with
  | [] => (Some [], True)
  | (None, C) :: _ => (None, C)
  | (Some t, C) :: r =>
      match flat ser r with
      | (None, C2) => (None, C /\ C2)
      | (Some l, C2) =>
          (Some (match t, ser with Ser us, true => us ++ l | Par us, false => us ++ l | _, _ => t :: l end), C /\ C2)
      end
  end.
Definition finish (ser : bool) (fl : option (list tree) * Prop) : option tree * Prop :=
  match fl with
  | (None, C) => (None, C)
  | (Some args, C) =>
      match outer (length args) ser (map (@Some tree) args) with
      | (None, C2) => (None, C /\ C2)
      | (Some (l', chg), C2) =>
          (Some (if chg then match somes l' with [x] => x | f => mk ser f end else mk ser args), C /\ C2)
      end
  end.
Fixpoint simp (t : tree) : option tree * Prop :=
  match t with
  | Leaf l => (Some (Leaf l), True)
  | Ser ts => finish true (flat true (map simp ts))
  | Par ts => finish false (flat false (map simp ts))
  end.
Definition simplify (t : tree) : option tree := fst (simp t).
Definition simplify_defined (t : tree) : Prop := snd (simp t).

(* ---- netlist emission -------------------------------------------------------
   The node threading of Ser._net_make / Par._net_make / NetlistMaker.__call__ is
   modelled in theory/OnePortNet.v (ser_emit, rails, par_emit, emitG, netlist_of:
   these are the definitions [netlist_of_tree_sem] is proved about); here the
   leaves: nodes are the integers handed out by NetlistHelper._node. *)
Notation elt := (elt lf).
Notation emitter := (emitter lf).
(* Network._net_make (one component; G prints as a resistor 1/G) *)
Definition leaf0 (l : lf) : emitter := leaf_emit (nleaf l).
(* Xtal / FerriteBead: the netlist of expand() *)
Definition leaf1 (l : lf) : emitter := match nexpand l with Some t => emitG leaf0 t | None => leaf0 l end.
Definition emit (t : tree) : emitter := emitG leaf1 t.
(* NetlistMaker.__call__ *)
Definition netlist_of_tree (t : tree) : list elt := netlist_of leaf1 t.
End Model.

Arguments CNone {K}. Arguments CSome {K}. Arguments CErr {K}.

(* ---- correspondence helpers over Qc (evaluated by vm_compute in cases_*.v) ---------- *)
Definition oqeqb (a b : option Qc) : bool :=
  match a, b with Some x, Some y => qc_eqb x y | None, None => true | _, _ => false end.
Fixpoint listeqb {A} (f : A -> A -> bool) (l1 l2 : list A) : bool :=
  match l1, l2 with [] , [] => true | x :: r1, y :: r2 => f x y && listeqb f r1 r2 | _, _ => false end.
(* [skip]: class tags whose constructor argument is a signal (compared by class only) *)
Definition lf_eqb (skip : list nat) (a b : lf QcF) : bool :=
  Nat.eqb (ctag a) (ctag b) && (if existsb (Nat.eqb (ctag a)) skip then true else listeqb oqeqb (largs a) (largs b)).
Section TreeEqb.
Variable skip : list nat.
Fixpoint tree_eqb (a b : tree (lf QcF)) {struct a} : bool :=
  match a, b with
  | Leaf x, Leaf y => lf_eqb skip x y
  | Ser xs, Ser ys => (fix go (xs ys : list (tree (lf QcF))) : bool :=
                         match xs, ys with [], [] => true | x :: r1, y :: r2 => tree_eqb x y && go r1 r2 | _, _ => false end) xs ys
  | Par xs, Par ys => (fix go (xs ys : list (tree (lf QcF))) : bool :=
                         match xs, ys with [], [] => true | x :: r1, y :: r2 => tree_eqb x y && go r1 r2 | _, _ => false end) xs ys
  | _, _ => false
  end.
Definition otree_eqb (a b : option (tree (lf QcF))) : bool :=
  match a, b with Some x, Some y => tree_eqb x y | None, None => true | _, _ => false end.
(* in a netlist the classes v and V (i and I) are both printed as type V (I) without keyword *)
Variable nm : list (nat * nat).
Definition normtag (t : nat) : nat :=
  match find (fun p => Nat.eqb (fst p) t) nm with Some p => snd p | None => t end.
Definition lf_eqb_n (a b : lf QcF) : bool :=
  Nat.eqb (normtag (ctag a)) (normtag (ctag b)) &&
  (if existsb (Nat.eqb (ctag a)) skip then true else listeqb oqeqb (largs a) (largs b)).
Definition elt_eqb (a b : elt (lf QcF)) : bool :=
  match a, b with
  | EW a1 b1, EW a2 b2 => Nat.eqb a1 a2 && Nat.eqb b1 b2
  | EC l1 a1 b1, EC l2 a2 b2 => lf_eqb_n l1 l2 && Nat.eqb a1 a2 && Nat.eqb b1 b2
  | _, _ => false
  end.
End TreeEqb.
(* instantiation of the opaque transforms for the Laplace-domain evaluation at s = s0:
   a dc or step source of value x has transform x / s; signals of the classes V, I, v, i,
   Vac, Iac are handed over already transformed (computed by the harness from text-book pairs) *)
Definition LDq (s0 : Qc) (sp : Qc -> Qc) : lf QcF -> ldata QcF :=
  ld (K:=QcF) s0 sp (0%Qc : QcF) (fun x => x / s0)%Qc (fun x => x / s0)%Qc (fun x => x) (fun x => x) (fun x => x) (fun v _ _ => v).
Definition simplify_q (s0 : Qc) (sp : Qc -> Qc) (t : tree (lf QcF)) : option (tree (lf QcF)) :=
  simplify QcF s0 sp (0%Qc : QcF) (fun x => x / s0)%Qc (fun x => x / s0)%Qc (fun x => x) (fun x => x) (fun x => x) (fun v _ _ => v) t.
Definition netlist_q (t : tree (lf QcF)) : list (elt (lf QcF)) := netlist_of_tree QcF t.
(* junk-free comparison: the real value may be complex infinity *)
Definition vchk (x expected : Qc) : bool := qc_eqb x expected.

(* ---- phasor-domain evaluation (ac sources, one angular frequency w): the same leaf table over the
   Gaussian rationals with s = j w; an ac source of amplitude v and phase 0 has the phasor v *)
Definition LDc (jw : qci) : lf QcIF -> ldata QcIF :=
  ld (K:=QcIF) jw (fun a => jw) (ci0 : QcIF) (fun x => x) (fun x => x) (fun x => x) (fun x => x) (fun x => x) (fun v _ _ => v).
Definition cchk (x expected : qci) : bool := qci_eqb x expected.
